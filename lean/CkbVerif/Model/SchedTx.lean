import CkbVerif.Model.SchedBook
import CkbVerif.Model.Cycles

/-!
C05 — the transaction-level loops of `script/src/verify.rs` (`resumable_verify`,
`resume_from_state`, `verify_group_with_chunk`, `chunk_run`) over REAL scheduler instances of
`Model/SchedBook.lean`, one per script group, in `groups()` order: every group gets a fresh
`Scheduler` (or the one resumed from the `FullSuspendedState` of the `TransactionState`), the budget
of the call is handed from group to group as coded (`limit − cycles consumed by this call`), a
TYPE_ID group is the built-in system script (`typeIdChunk`, no scheduler). The observed VM runs of
all groups form ONE event stream: a group's scheduler takes events until its root VM exits, the next
group goes on with the rest. Core Lean only.
-/
namespace CkbVerif.SchedTx
open CkbVerif.SchedBook

/-- what the model needs to know of a script group: a VM group, or the TYPE_ID system script with the
exit code its argument checks produce -/
inductive GKind where
  | vm
  | tid (code : Int)
  deriving Repr, DecidableEq, Inhabited

/-- `TransactionState` -/
structure TxSt where
  current : Nat
  /-- `None` = `ChunkState::suspended_type_id()` -/
  full : Option Full
  currentCycles : Nat
  limitCycles : Nat
  deriving Repr, DecidableEq, Inhabited

inductive TxEnd where
  | completed (cycles : Nat)
  | suspended (st : TxSt)
  /-- `ValidationFailure(code)` attributed to `group` -/
  | failed (code : Int) (group : Nat)
  /-- a VM-level error (deadlock, …) attributed to `group` -/
  | stopped (e : SErr) (group : Nat)
  /-- `Other("expect invalid cycles …")` / `Other("snapshot group missing")` -/
  | other
  | overflow
  /-- the observed trace does not fit the model's schedule -/
  | mismatch (r : RunEnd)
  deriving Repr, DecidableEq, Inhabited

inductive ChunkRes where
  /-- `ChunkState::Completed(used, consumed)` -/
  | completed (used consumed : Nat)
  | suspended (f : Option Full)
  | failed (code : Int)
  | stopped (e : SErr)
  | mismatch (r : RunEnd)
  deriving Repr, DecidableEq, Inhabited

/-- `verify_group_with_chunk(group, max_cycles, state)`; returns the unused events and the decision
log (carried from scheduler to scheduler) -/
def chunkRunS (k : GKind) (evs : List Ev) (max : Nat) (state : Option Full) (log : List Out) :
    ChunkRes × List Ev × List Out :=
  match k with
  | .tid code =>
    match Cycles.typeIdChunk max code with
    | .ok (some (u, c)) => (.completed u c, evs, log)
    | .ok none => (.suspended none, evs, log)
    | .error (.validation c) => (.failed c, evs, log)
    | .error _ => (.stopped .vm, evs, log)
  | .vm =>
    let s0r : Except SErr Sch := match state with
      | some f => resume f log
      | none => .ok { log := log }
    match s0r with
    | .error e => (.stopped e, evs, log)
    | .ok s0 =>
      let previous := s0.total
      match run evs max s0 with
      | (s1, .done code total, rest) =>
        if code = 0 then (.completed total (s1.total - previous), rest, s1.log) else (.failed code, rest, s1.log)
      | (s1, .stopped .cyclesExceeded, rest) | (s1, .stopped .pause, rest) =>
        match suspend s1 with
        | .error e => (.stopped e, rest, s1.log)
        | .ok (f, s2) => (.suspended (some f), rest, s2.log)
      | (s1, .stopped e, rest) => (.stopped e, rest, s1.log)
      | (s1, r, rest) => (.mismatch r, rest, s1.log)

def addU64 (a b : Nat) : Option Nat := if a + b < SchedBook.U64 then some (a + b) else none

/-- the loop over fresh groups shared by `resumable_verify` and the tail of `resume_from_state`
(`idx` = index of the head group, `used` = cycles consumed by this call, `cycles` = running total) -/
def txLoop (limit : Nat) : List GKind → Nat → Nat → Nat → List Ev → List Out → TxEnd × List Ev × List Out
  | [], _, _, cycles, evs, log => (.completed cycles, evs, log)
  | k :: rest, idx, used, cycles, evs, log =>
    if limit < used then (.other, evs, log)
    else
      let remain := limit - used
      match chunkRunS k evs remain none log with
      | (.completed u c, evs', log') =>
        match addU64 used c, addU64 cycles u with
        | some used', some cycles' => txLoop limit rest (idx + 1) used' cycles' evs' log'
        | _, _ => (.overflow, evs', log')
      | (.suspended f, evs', log') => (.suspended ⟨idx, f, cycles, remain⟩, evs', log')
      | (.failed c, evs', log') => (.failed c idx, evs', log')
      | (.stopped e, evs', log') => (.stopped e idx, evs', log')
      | (.mismatch r, evs', log') => (.mismatch r, evs', log')

/-- `resumable_verify(limit_cycles)` -/
def resumableVerify (gs : List GKind) (limit : Nat) (evs : List Ev) (log : List Out) : TxEnd × List Ev × List Out :=
  txLoop limit gs 0 0 0 evs log

/-- `resume_from_state(state, limit_cycles)`; as coded the tail loop adds `consumed_cycles` of a
fresh group to the total (equal to its `used_cycles`) -/
def resumeFromState (gs : List GKind) (st : TxSt) (limit : Nat) (evs : List Ev) (log : List Out) :
    TxEnd × List Ev × List Out :=
  match gs[st.current]? with
  | none => (.other, evs, log)
  | some k =>
    match chunkRunS k evs limit st.full log with
    | (.completed u c, evs', log') =>
      match addU64 0 c, addU64 st.currentCycles u with
      | some used, some cycles => txLoop limit (gs.drop (st.current + 1)) (st.current + 1) used cycles evs' log'
      | _, _ => (.overflow, evs', log')
    | (.suspended f, evs', log') => (.suspended ⟨st.current, f, st.currentCycles, limit⟩, evs', log')
    | (.failed c, evs', log') => (.failed c st.current, evs', log')
    | (.stopped e, evs', log') => (.stopped e st.current, evs', log')
    | (.mismatch r, evs', log') => (.mismatch r, evs', log')

end CkbVerif.SchedTx
