/-
Fixed-width machine arithmetic as used by the ckb sources, on `Nat` with explicit range checks.

* `u64` / `u128` arithmetic in /repo is compiled with `overflow-checks = true` in every profile
  (`/repo/Cargo.toml [profile.release]`), so `+ - * <<` on primitive integers *panic* on overflow;
  `numext_fixed_uint::U256`'s `Add/Sub/Mul` operators panic on overflow as well
  (numext-constructor `std_ops.rs`), `Div` panics on a zero divisor.
  A panic is modelled as `none`.
* `Capacity::safe_*` (util/occupied-capacity/core/src/units.rs) return `Err(Overflow)`; also `none`.

Core Lean only (the model driver links this file).
-/
namespace CkbVerif.Arith

def U32 : Nat := 2 ^ 32
def U64 : Nat := 2 ^ 64
def U128 : Nat := 2 ^ 128
def U256 : Nat := 2 ^ 256

/-- value if it fits below `bound`, else panic/overflow -/
@[inline] def chk (bound x : Nat) : Option Nat := if x < bound then some x else none

@[inline] def chk64 (x : Nat) : Option Nat := chk U64 x
@[inline] def chk128 (x : Nat) : Option Nat := chk U128 x
@[inline] def chk256 (x : Nat) : Option Nat := chk U256 x

/-- checked subtraction (`checked_sub`, or `-` with overflow checks) -/
@[inline] def subChk (a b : Nat) : Option Nat := if b ≤ a then some (a - b) else none

/-- division panicking / failing on a zero divisor -/
@[inline] def divChk (a b : Nat) : Option Nat := if b = 0 then none else some (a / b)

/-- remainder panicking / failing on a zero divisor -/
@[inline] def modChk (a b : Nat) : Option Nat := if b = 0 then none else some (a % b)

theorem chk_eq_some {bound x y : Nat} : chk bound x = some y ↔ x < bound ∧ y = x := by
  unfold chk; split <;> simp_all <;> omega

theorem subChk_eq_some {a b y : Nat} : subChk a b = some y ↔ b ≤ a ∧ y = a - b := by
  unfold subChk; split <;> simp_all <;> omega

theorem divChk_eq_some {a b y : Nat} : divChk a b = some y ↔ b ≠ 0 ∧ y = a / b := by
  unfold divChk; split <;> simp_all <;> omega

theorem modChk_eq_some {a b y : Nat} : modChk a b = some y ↔ b ≠ 0 ∧ y = a % b := by
  unfold modChk; split <;> simp_all <;> omega

/-! ### `Capacity` (u64 shannons) and `Ratio` -/

structure Ratio where
  numer : Nat
  denom : Nat
  deriving Repr, DecidableEq

/-- `Capacity::safe_add` -/
@[inline] def safeAdd (a b : Nat) : Option Nat := chk64 (a + b)
/-- `Capacity::safe_sub` -/
@[inline] def safeSub (a b : Nat) : Option Nat := subChk a b
/-- `Capacity::safe_mul` -/
@[inline] def safeMul (a b : Nat) : Option Nat := chk64 (a * b)
/-- `Capacity::safe_mul_ratio`: `checked_mul(numer).and_then(checked_div(denom))` -/
@[inline] def safeMulRatio (a : Nat) (r : Ratio) : Option Nat :=
  (chk64 (a * r.numer)).bind fun x => divChk x r.denom

end CkbVerif.Arith
