/-!
# Caches in front of verification and of the store (C14)

Follows the code as written:

* `verification/src/cache.rs` — `TxVerificationCache = LruCache<Byte32 /*witness hash*/, Completed{cycles, fee}>`.
* `verification/src/transaction_verifier.rs` — `ContextualTransactionVerifier::verify`:
  `time_relative` (maturity + since), `capacity`, `script` (fails above `max_cycles`), `fee`.
* `verification/contextual/src/contextual_block_verifier.rs` `BlockTxsVerifier::verify` and
  `tx-pool/src/util.rs` `verify_rtx`: on a cache hit only `TimeRelativeTransactionVerifier` runs and
  the cached `Completed` is returned; on a miss the full verifier runs; successful results are put
  into the cache (`update_cache`), an LRU that may drop any entry at any time.
* `store/src/store.rs` + `store/src/cache.rs` — read-through LRU caches keyed by block hash /
  out-point (`get_block_header`, `get_cell_data`, `get_block_uncles`, `get_block_proposal_txs_ids`,
  `get_block_extension`, `get_block_txs_hashes`): a hit answers from the cache, a miss reads the
  column and fills the cache; **no write or delete ever touches the cache**.

Abstractions: a transaction is identified by its witness hash `w` (collision-free); what the
context-free checks return for it (`capacity`, script cycles, fee) is a function of `w` — the
resolved cells' content is fixed by the out-points, which the hash covers, and header deps are by
hash; only `timeRel` (since / maturity) reads the chain context and is re-evaluated on every path.
-/
namespace CkbVerif.Cache

/-! ## the verification cache -/

deriving instance DecidableEq for Except

inductive TxErr
  | timeRelative     -- Immature / since not satisfied
  | capacity
  | script           -- script failure, or cycles above the limit
  | fee
deriving DecidableEq, Repr

/-- `Completed { cycles, fee }` -/
structure Completed where
  cycles : Nat
  fee : Nat
deriving DecidableEq, Repr

/-- the context-free part of verification, as functions of the witness hash -/
structure Content where
  capacityOk : Nat → Bool
  /-- cycles of a successful script run, `none` = script failure -/
  script : Nat → Option Nat
  fee : Nat → Option Nat

abbrev VCache := List (Nat × Completed)

def VCache.peek (c : VCache) (w : Nat) : Option Completed :=
  (c.find? (fun e => e.1 == w)).map (·.2)

/-- `ContextualTransactionVerifier::verify(max_cycles, false)`; `timeRel` is the verdict of
`TimeRelativeTransactionVerifier` in the current chain context -/
def full (k : Content) (maxCycles : Nat) (timeRel : Bool) (w : Nat) : Except TxErr Completed :=
  if !timeRel then .error .timeRelative else
  if !k.capacityOk w then .error .capacity else
  match k.script w with
  | none => .error .script
  | some cyc =>
    if cyc > maxCycles then .error .script else
    match k.fee w with
    | none => .error .fee
    | some f => .ok ⟨cyc, f⟩

/-- the path `BlockTxsVerifier` / `verify_rtx` take with a cache in front -/
def cached (k : Content) (maxCycles : Nat) (c : VCache) (timeRel : Bool) (w : Nat) : Except TxErr Completed :=
  match c.peek w with
  | some e => if !timeRel then .error .timeRelative else .ok e
  | none => full k maxCycles timeRel w

/-- operations on a node's verification cache -/
inductive VOp
  /-- verify transaction `w` in a context whose time-relative verdict is `timeRel`; a success is cached -/
  | verify (w : Nat) (timeRel : Bool)
  /-- the LRU drops the entry of `w` (any eviction policy) -/
  | evict (w : Nat)
deriving Repr

def vstep (k : Content) (maxCycles : Nat) (c : VCache) : VOp → VCache × Option (Except TxErr Completed)
  | .verify w tr =>
    let r := cached k maxCycles c tr w
    match r with
    | .ok e => ((w, e) :: c.filter (fun x => x.1 != w), some r)
    | .error _ => (c, some r)
  | .evict w => (c.filter (fun x => x.1 != w), none)

/-- answers of a node with a cache, over a history -/
def vrun (k : Content) (maxCycles : Nat) : VCache → List VOp → List (Option (Except TxErr Completed))
  | _, [] => []
  | c, op :: ops => let r := vstep k maxCycles c op; r.2 :: vrun k maxCycles r.1 ops

/-- answers of a node without any cache -/
def vrunCold (k : Content) (maxCycles : Nat) : List VOp → List (Option (Except TxErr Completed))
  | [] => []
  | .verify w tr :: ops => some (full k maxCycles tr w) :: vrunCold k maxCycles ops
  | .evict _ :: ops => none :: vrunCold k maxCycles ops

/-! ## store read caches -/

/-- A column with a read-through cache: `col` is the authoritative column, `cache` the LRU. -/
structure Cached (ν : Type) where
  col : Nat → Option ν
  cache : List (Nat × ν)

inductive SOp (ν : Type)
  | write (k : Nat) (v : ν)     -- insert_raw
  | delete (k : Nat)            -- delete
  | read (k : Nat)              -- get_* through the cache
  | evict (k : Nat)             -- LRU eviction

def Cached.peek {ν : Type} (s : Cached ν) (k : Nat) : Option ν :=
  (s.cache.find? (fun e => e.1 == k)).map (·.2)

/-- `get_block_header`-style read: hit → cached value; miss → column, fill on `Some` -/
def Cached.read {ν : Type} (s : Cached ν) (k : Nat) : Cached ν × Option ν :=
  match s.peek k with
  | some v => (s, some v)
  | none =>
    match s.col k with
    | some v => ({ s with cache := (k, v) :: s.cache }, some v)
    | none => (s, none)

def sstep {ν : Type} (s : Cached ν) : SOp ν → Cached ν × Option (Option ν)
  | .write k v => ({ s with col := fun x => if x = k then some v else s.col x }, none)
  | .delete k => ({ s with col := fun x => if x = k then none else s.col x }, none)
  | .read k => let r := s.read k; (r.1, some r.2)
  | .evict k => ({ s with cache := s.cache.filter (fun e => e.1 != k) }, none)

/-- the node's access pattern for mutable presence: the answer is used only if an authoritative,
uncached column (`COLUMN_CELL` for cell data, the main-chain index / `COLUMN_BLOCK_EXT` for headers)
says the key is present -/
def guardedRead {ν : Type} (present : Bool) (s : Cached ν) (k : Nat) : Option ν :=
  if present then (s.read k).2 else none

/-- negative caching (`get_block_extension`, `get_block_txs_hashes` cache whatever the column
returned, including "nothing"): a miss fills the cache with the column's answer -/
def readNeg {ν : Type} (col : Nat → Option ν) (cache : List (Nat × Option ν)) (k : Nat) :
    List (Nat × Option ν) × Option ν :=
  match cache.find? (fun e => e.1 == k) with
  | some e => (cache, e.2)
  | none => ((k, col k) :: cache, col k)

end CkbVerif.Cache
