/-!
# Caches in front of verification and of the store (C14)

Follows the code as written:

* `verification/src/cache.rs` — `TxVerificationCache = LruCache<Byte32 /*witness hash*/, Completed{cycles, fee}>`.
* `verification/src/transaction_verifier.rs` — `ContextualTransactionVerifier::verify`:
  `time_relative` (maturity + since), `capacity`, `script` (fails above `max_cycles`), `fee`.
* `verification/contextual/src/contextual_block_verifier.rs` `BlockTxsVerifier::verify` and
  `tx-pool/src/util.rs` `verify_rtx`: on a cache hit only `TimeRelativeTransactionVerifier` runs and
  the cached `Completed` is returned; on a miss the full verifier runs; successful results are put
  into the cache (`update_cache`), an LRU that may drop any entry at any time.
* `store/src/store.rs` + `store/src/cache.rs` — read-through LRU caches keyed by block hash /
  out-point (`get_block_header`, `get_cell_data`, `get_block_uncles`, `get_block_proposal_txs_ids`,
  `get_block_extension`, `get_block_txs_hashes`): a hit answers from the cache, a miss reads the
  column and fills the cache; **no write or delete ever touches the cache**.

Abstractions: a transaction is identified by its witness hash `w` (collision-free); what the
context-free checks return for it (`capacity`, script cycles, fee) is a function of `w` — the
resolved cells' content is fixed by the out-points, which the hash covers, and header deps are by
hash; only `timeRel` (since / maturity) reads the chain context and is re-evaluated on every path.
-/
namespace CkbVerif.Cache

/-! ## the verification cache -/

deriving instance DecidableEq for Except

inductive TxErr
  | timeRelative     -- Immature / since not satisfied
  | capacity
  | script           -- script failure, or cycles above the limit
  | fee
deriving DecidableEq, Repr

/-- `Completed { cycles, fee }` -/
structure Completed where
  cycles : Nat
  fee : Nat
deriving DecidableEq, Repr

/-- the context-free part of verification, as functions of the witness hash -/
structure Content where
  capacityOk : Nat → Bool
  /-- cycles of a successful script run, `none` = script failure -/
  script : Nat → Option Nat
  fee : Nat → Option Nat

abbrev VCache := List (Nat × Completed)

def VCache.peek (c : VCache) (w : Nat) : Option Completed :=
  (c.find? (fun e => e.1 == w)).map (·.2)

/-- `ContextualTransactionVerifier::verify(max_cycles, false)`; `timeRel` is the verdict of
`TimeRelativeTransactionVerifier` in the current chain context -/
def full (k : Content) (maxCycles : Nat) (timeRel : Bool) (w : Nat) : Except TxErr Completed :=
  if !timeRel then .error .timeRelative else
  if !k.capacityOk w then .error .capacity else
  match k.script w with
  | none => .error .script
  | some cyc =>
    if cyc > maxCycles then .error .script else
    match k.fee w with
    | none => .error .fee
    | some f => .ok ⟨cyc, f⟩

/-- the path `BlockTxsVerifier` / `verify_rtx` take with a cache in front -/
def cached (k : Content) (maxCycles : Nat) (c : VCache) (timeRel : Bool) (w : Nat) : Except TxErr Completed :=
  match c.peek w with
  | some e => if !timeRel then .error .timeRelative else .ok e
  | none => full k maxCycles timeRel w

/-- operations on a node's verification cache -/
inductive VOp
  /-- verify transaction `w` in a context whose time-relative verdict is `timeRel`; a success is cached -/
  | verify (w : Nat) (timeRel : Bool)
  /-- the LRU drops the entry of `w` (any eviction policy) -/
  | evict (w : Nat)
deriving Repr

def vstep (k : Content) (maxCycles : Nat) (c : VCache) : VOp → VCache × Option (Except TxErr Completed)
  | .verify w tr =>
    let r := cached k maxCycles c tr w
    match r with
    | .ok e => ((w, e) :: c.filter (fun x => x.1 != w), some r)
    | .error _ => (c, some r)
  | .evict w => (c.filter (fun x => x.1 != w), none)

/-- answers of a node with a cache, over a history -/
def vrun (k : Content) (maxCycles : Nat) : VCache → List VOp → List (Option (Except TxErr Completed))
  | _, [] => []
  | c, op :: ops => let r := vstep k maxCycles c op; r.2 :: vrun k maxCycles r.1 ops

/-- answers of a node without any cache -/
def vrunCold (k : Content) (maxCycles : Nat) : List VOp → List (Option (Except TxErr Completed))
  | [] => []
  | .verify w tr :: ops => some (full k maxCycles tr w) :: vrunCold k maxCycles ops
  | .evict _ :: ops => none :: vrunCold k maxCycles ops

/-! ## the cache key

`BlockTxsVerifier::fetched_cache` / `verify` and `TxPoolService::fetch_tx_verify_cache` look the
cache up and fill it under `witness_hash()`. The functions below carry the key as a parameter so
that the theorems can say what is required of it (`key = id` is the code as written; a key that
forgets the witnesses is `hash()`). -/

/-- the cached path with the cache consulted under `key w` -/
def cachedK (key : Nat → Nat) (k : Content) (maxCycles : Nat) (c : VCache) (timeRel : Bool) (w : Nat) :
    Except TxErr Completed :=
  match c.peek (key w) with
  | some e => if !timeRel then .error .timeRelative else .ok e
  | none => full k maxCycles timeRel w

def vstepK (key : Nat → Nat) (k : Content) (maxCycles : Nat) (c : VCache) : VOp → VCache × Option (Except TxErr Completed)
  | .verify w tr =>
    let r := cachedK key k maxCycles c tr w
    match r with
    | .ok e => ((key w, e) :: c.filter (fun x => x.1 != key w), some r)
    | .error _ => (c, some r)
  | .evict w => (c.filter (fun x => x.1 != key w), none)

def vrunK (key : Nat → Nat) (k : Content) (maxCycles : Nat) : VCache → List VOp → List (Option (Except TxErr Completed))
  | _, [] => []
  | c, op :: ops => let r := vstepK key k maxCycles c op; r.2 :: vrunK key k maxCycles r.1 ops

/-- a hit path that does **not** re-run the time-relative checks (what `verify_rtx` would be without
its `TimeRelativeTransactionVerifier` call) — only used by a negation witness -/
def cachedNoTimeRel (k : Content) (maxCycles : Nat) (c : VCache) (timeRel : Bool) (w : Nat) : Except TxErr Completed :=
  match c.peek w with
  | some e => .ok e
  | none => full k maxCycles timeRel w

/-! ## a block, and a node over a changing chain context

`BlockTxsVerifier::verify`: the cache is fetched once for all transactions of the block, every
transaction goes through the cached path (in the block's context), the first failure fails the
block; otherwise all results are put into the cache and the cycle sum is checked. -/

inductive BlkErr
  | tx (e : TxErr)
  | cycles            -- ExceededMaximumCycles
deriving DecidableEq, Repr

def putAll (c : VCache) (rs : List (Nat × Completed)) : VCache :=
  rs.foldl (fun acc r => (r.1, r.2) :: acc.filter (fun x => x.1 != r.1)) c

/-- per-transaction results against the cache fetched at the start; first failure wins -/
def txResults (k : Content) (maxCycles : Nat) (c : VCache) : List (Nat × Bool) → Except TxErr (List (Nat × Completed))
  | [] => .ok []
  | (w, tr) :: rest =>
    match cached k maxCycles c tr w with
    | .error e => .error e
    | .ok r =>
      match txResults k maxCycles c rest with
      | .error e => .error e
      | .ok rs => .ok ((w, r) :: rs)

def blockVerify (k : Content) (maxCycles : Nat) (c : VCache) (txs : List (Nat × Bool)) :
    VCache × Except BlkErr (List Completed) :=
  match txResults k maxCycles c txs with
  | .error e => (c, .error (.tx e))
  | .ok rs =>
    let c' := putAll c rs
    if (rs.map (·.2.cycles)).sum > maxCycles then (c', .error .cycles) else (c', .ok (rs.map (·.2)))

/-- What a node is asked to do. The chain context (tip number / median time / epoch, here one
number) changes arbitrarily between requests: extension, or a reorganisation to a branch with a
lower number or median time. `since w` is the threshold transaction `w` carries (covered by its
hash); it is mature iff `since w ≤ ctx`. -/
inductive NOp
  | reorg (ctx : Nat)
  /-- `BlockTxsVerifier::verify` on a block committing these transactions -/
  | block (ws : List Nat)
  /-- tx-pool `_process_tx`: `verify_rtx`, a success is put into the cache -/
  | submit (w : Nat)
  /-- tx-pool `_test_accept_tx`: `verify_rtx`, nothing is put -/
  | probe (w : Nat)
  | evict (w : Nat)
deriving Repr

inductive NAns
  | none
  | blk (r : Except BlkErr (List Completed))
  | tx (r : Except TxErr Completed)
deriving DecidableEq

structure NodeS where
  ctx : Nat
  cache : VCache

def mature (since : Nat → Nat) (ctx : Nat) (w : Nat) : Bool := decide (since w ≤ ctx)

def nstep (k : Content) (maxCycles : Nat) (since : Nat → Nat) (s : NodeS) : NOp → NodeS × NAns
  | .reorg ctx => ({ s with ctx := ctx }, .none)
  | .block ws =>
    let r := blockVerify k maxCycles s.cache (ws.map fun w => (w, mature since s.ctx w))
    ({ s with cache := r.1 }, .blk r.2)
  | .submit w =>
    let r := vstep k maxCycles s.cache (.verify w (mature since s.ctx w))
    ({ s with cache := r.1 }, .tx (cached k maxCycles s.cache (mature since s.ctx w) w))
  | .probe w => (s, .tx (cached k maxCycles s.cache (mature since s.ctx w) w))
  | .evict w => ({ s with cache := s.cache.filter (fun x => x.1 != w) }, .none)

def nrun (k : Content) (maxCycles : Nat) (since : Nat → Nat) : NodeS → List NOp → List NAns
  | _, [] => []
  | s, op :: ops => let r := nstep k maxCycles since s op; r.2 :: nrun k maxCycles since r.1 ops

/-- the same requests answered by a node that has no verification cache at all -/
def nrunCold (k : Content) (maxCycles : Nat) (since : Nat → Nat) : Nat → List NOp → List NAns
  | _, [] => []
  | _, .reorg ctx :: ops => .none :: nrunCold k maxCycles since ctx ops
  | ctx, .block ws :: ops =>
    .blk (blockVerify k maxCycles [] (ws.map fun w => (w, mature since ctx w))).2 :: nrunCold k maxCycles since ctx ops
  | ctx, .submit w :: ops => .tx (full k maxCycles (mature since ctx w) w) :: nrunCold k maxCycles since ctx ops
  | ctx, .probe w :: ops => .tx (full k maxCycles (mature since ctx w) w) :: nrunCold k maxCycles since ctx ops
  | ctx, .evict _ :: ops => .none :: nrunCold k maxCycles since ctx ops

/-! ## store read caches -/

/-- A column with a read-through cache: `col` is the authoritative column, `cache` the LRU. -/
structure Cached (ν : Type) where
  col : Nat → Option ν
  cache : List (Nat × ν)

inductive SOp (ν : Type)
  | write (k : Nat) (v : ν)     -- insert_raw
  | delete (k : Nat)            -- delete
  | read (k : Nat)              -- get_* through the cache
  | evict (k : Nat)             -- LRU eviction

def Cached.peek {ν : Type} (s : Cached ν) (k : Nat) : Option ν :=
  (s.cache.find? (fun e => e.1 == k)).map (·.2)

/-- `get_block_header`-style read: hit → cached value; miss → column, fill on `Some` -/
def Cached.read {ν : Type} (s : Cached ν) (k : Nat) : Cached ν × Option ν :=
  match s.peek k with
  | some v => (s, some v)
  | none =>
    match s.col k with
    | some v => ({ s with cache := (k, v) :: s.cache }, some v)
    | none => (s, none)

def sstep {ν : Type} (s : Cached ν) : SOp ν → Cached ν × Option (Option ν)
  | .write k v => ({ s with col := fun x => if x = k then some v else s.col x }, none)
  | .delete k => ({ s with col := fun x => if x = k then none else s.col x }, none)
  | .read k => let r := s.read k; (r.1, some r.2)
  | .evict k => ({ s with cache := s.cache.filter (fun e => e.1 != k) }, none)

/-- the node's access pattern for mutable presence: the answer is used only if an authoritative,
uncached column (`COLUMN_CELL` for cell data, the main-chain index / `COLUMN_BLOCK_EXT` for headers)
says the key is present -/
def guardedRead {ν : Type} (present : Bool) (s : Cached ν) (k : Nat) : Option ν :=
  if present then (s.read k).2 else none

/-- negative caching (`get_block_extension`, `get_block_txs_hashes` cache whatever the column
returned, including "nothing"): a miss fills the cache with the column's answer -/
def readNeg {ν : Type} (col : Nat → Option ν) (cache : List (Nat × Option ν)) (k : Nat) :
    List (Nat × Option ν) × Option ν :=
  match cache.find? (fun e => e.1 == k) with
  | some e => (cache, e.2)
  | none => ((k, col k) :: cache, col k)

/-- `sstep` with the pre-fix fill rule of `get_block_extension` / `get_block_txs_hashes` (before
"store read caches must not keep a negative answer"): the cache holds `Option`s and a miss files
whatever the column answered -/
structure NegCached (ν : Type) where
  col : Nat → Option ν
  cache : List (Nat × Option ν)

def nsstep {ν : Type} (s : NegCached ν) : SOp ν → NegCached ν × Option (Option ν)
  | .write k v => ({ s with col := fun x => if x = k then some v else s.col x }, none)
  | .delete k => ({ s with col := fun x => if x = k then none else s.col x }, none)
  | .read k => let r := readNeg s.col s.cache k; ({ s with cache := r.1 }, some r.2)
  | .evict k => ({ s with cache := s.cache.filter (fun e => e.1 != k) }, none)

/-- answers of *bare* reads (no presence guard) along a history: the code after the fix … -/
def runBare {ν : Type} : Cached ν → List (SOp ν) → List (Option (Option ν))
  | _, [] => []
  | s, op :: ops => let r := sstep s op; r.2 :: runBare r.1 ops

/-- … and before it -/
def runBareNeg {ν : Type} : NegCached ν → List (SOp ν) → List (Option (Option ν))
  | _, [] => []
  | s, op :: ops => let r := nsstep s op; r.2 :: runBareNeg r.1 ops

/-! ## live cells

`COLUMN_CELL` is the authoritative, never cached liveness column (`have_cell`, `get_cell`,
`CellChecker::is_live`); `COLUMN_CELL_DATA` / `COLUMN_CELL_DATA_HASH` sit behind the `cell_data` /
`cell_data_hash` LRUs. `insert_cells` writes all of them, `delete_cells` deletes all of them, and
neither touches a cache. -/

structure Cells (ν : Type) where
  live : Nat → Bool
  data : Cached ν

inductive LOp (ν : Type)
  | create (k : Nat) (v : ν)   -- insert_cells (attach of the creating block, detach of the consuming one)
  | consume (k : Nat)          -- delete_cells (attach of the consuming block, detach of the creating one)
  | haveCell (k : Nat)         -- have_cell / is_live
  | getData (k : Nat)          -- get_cell + get_cell_data (how resolve / the data loader use it)
  | load (k : Nat)             -- a bare get_cell_data(_hash): only fills the cache, answer not used
  | evict (k : Nat)

inductive LAns (ν : Type)
  | none
  | live (b : Bool)
  | data (d : Option ν)
deriving DecidableEq

def lstep {ν : Type} (s : Cells ν) : LOp ν → Cells ν × LAns ν
  | .create k v =>
    ({ live := fun x => if x = k then true else s.live x, data := (sstep s.data (.write k v)).1 }, .none)
  | .consume k =>
    ({ live := fun x => if x = k then false else s.live x, data := (sstep s.data (.delete k)).1 }, .none)
  | .haveCell k => (s, .live (s.live k))
  | .getData k =>
    if s.live k then let r := s.data.read k; ({ s with data := r.1 }, .data r.2) else (s, .data Option.none)
  | .load k => ({ s with data := (s.data.read k).1 }, .none)
  | .evict k => ({ s with data := (sstep s.data (.evict k)).1 }, .none)

def lrun {ν : Type} : Cells ν → List (LOp ν) → List (LAns ν)
  | _, [] => []
  | s, op :: ops => let r := lstep s op; r.2 :: lrun r.1 ops

/-- the same history on a store without caches: (liveness, data column) -/
def lrunCold {ν : Type} : (Nat → Bool) → (Nat → Option ν) → List (LOp ν) → List (LAns ν)
  | _, _, [] => []
  | live, col, .create k v :: ops =>
    .none :: lrunCold (fun x => if x = k then true else live x) (fun x => if x = k then some v else col x) ops
  | live, col, .consume k :: ops =>
    .none :: lrunCold (fun x => if x = k then false else live x) (fun x => if x = k then Option.none else col x) ops
  | live, col, .haveCell k :: ops => .live (live k) :: lrunCold live col ops
  | live, col, .getData k :: ops => .data (if live k then col k else Option.none) :: lrunCold live col ops
  | live, col, .load _ :: ops => .none :: lrunCold live col ops
  | live, col, .evict _ :: ops => .none :: lrunCold live col ops

/-- a `have_cell` with a read-cache fast path in the style of `block_exists` (answers `true` when
the key is in the data cache) — only used by a negation witness -/
def haveCellFast {ν : Type} (s : Cells ν) (k : Nat) : Bool :=
  (s.data.peek k).isSome || s.live k

/-! ## round 6: scripts skipped (assume-valid, `Switch::DISABLE_SCRIPT`) and the block cycle sum

`ContextualTransactionVerifier::verify(max_cycles, skip_script_verify)`: with `skip_script_verify`
the script run is skipped and the result carries `cycles = 0`. `BlockTxsVerifier::verify(resolved,
skip_script_verify)`: the hit path runs the time-relative checks, then answers the cached `Completed`
— with `cycles = 0` when scripts are skipped (/repo 6d79679, F34; before that commit the cached
cycles: `cachedSwPreF34`, `blockVerifySwPreF34`); a miss runs the verifier with the switch; the block's
results are put into the cache only when scripts were run (`!ret.is_empty() && !skip_script_verify`,
/repo 06109c6 — before that commit they were always put: `blockVerifySwPreF32`); the cycle sum is
taken over **all** results, hits included. -/

def fullSw (k : Content) (maxCycles : Nat) (skip : Bool) (timeRel : Bool) (w : Nat) : Except TxErr Completed :=
  if !timeRel then .error .timeRelative else
  if !k.capacityOk w then .error .capacity else
  if skip then
    match k.fee w with
    | none => .error .fee
    | some f => .ok ⟨0, f⟩
  else
    match k.script w with
    | none => .error .script
    | some cyc =>
      if cyc > maxCycles then .error .script else
      match k.fee w with
      | none => .error .fee
      | some f => .ok ⟨cyc, f⟩

/-- the hit arm as repaired by /repo 6d79679 (F34): with scripts skipped a hit records
`Completed { cycles: 0, fee: completed.fee }`, like a miss -/
def cachedSw (k : Content) (maxCycles : Nat) (c : VCache) (skip : Bool) (timeRel : Bool) (w : Nat) :
    Except TxErr Completed :=
  match c.peek w with
  | some e => if !timeRel then .error .timeRelative else .ok (if skip then ⟨0, e.fee⟩ else e)
  | none => fullSw k maxCycles skip timeRel w

/-- … and before it: the cached `Completed`, real cycles included, whatever the switch -/
def cachedSwPreF34 (k : Content) (maxCycles : Nat) (c : VCache) (skip : Bool) (timeRel : Bool) (w : Nat) :
    Except TxErr Completed :=
  match c.peek w with
  | some e => if !timeRel then .error .timeRelative else .ok e
  | none => fullSw k maxCycles skip timeRel w

def txResultsSwPreF34 (k : Content) (maxCycles : Nat) (c : VCache) (skip : Bool) :
    List (Nat × Bool) → Except TxErr (List (Nat × Completed))
  | [] => .ok []
  | (w, tr) :: rest =>
    match cachedSwPreF34 k maxCycles c skip tr w with
    | .error e => .error e
    | .ok r =>
      match txResultsSwPreF34 k maxCycles c skip rest with
      | .error e => .error e
      | .ok rs => .ok ((w, r) :: rs)

def txResultsSw (k : Content) (maxCycles : Nat) (c : VCache) (skip : Bool) :
    List (Nat × Bool) → Except TxErr (List (Nat × Completed))
  | [] => .ok []
  | (w, tr) :: rest =>
    match cachedSw k maxCycles c skip tr w with
    | .error e => .error e
    | .ok r =>
      match txResultsSw k maxCycles c skip rest with
      | .error e => .error e
      | .ok rs => .ok ((w, r) :: rs)

/-- `BlockTxsVerifier::verify(resolved, skip)` as written after /repo 06109c6 and 6d79679 -/
def blockVerifySw (k : Content) (maxCycles : Nat) (c : VCache) (skip : Bool) (txs : List (Nat × Bool)) :
    VCache × Except BlkErr (List Completed) :=
  match txResultsSw k maxCycles c skip txs with
  | .error e => (c, .error (.tx e))
  | .ok rs =>
    let c' := if skip then c else putAll c rs
    if (rs.map (·.2.cycles)).sum > maxCycles then (c', .error .cycles) else (c', .ok (rs.map (·.2)))

/-- `BlockTxsVerifier::verify` between 06109c6 and 6d79679: the hit arm answers the cached cycles (F34) -/
def blockVerifySwPreF34 (k : Content) (maxCycles : Nat) (c : VCache) (skip : Bool) (txs : List (Nat × Bool)) :
    VCache × Except BlkErr (List Completed) :=
  match txResultsSwPreF34 k maxCycles c skip txs with
  | .error e => (c, .error (.tx e))
  | .ok rs =>
    let c' := if skip then c else putAll c rs
    if (rs.map (·.2.cycles)).sum > maxCycles then (c', .error .cycles) else (c', .ok (rs.map (·.2)))

/-- … and before 06109c6 (F32): the results of a block verified with scripts skipped were put too -/
def blockVerifySwPreF32 (k : Content) (maxCycles : Nat) (c : VCache) (skip : Bool) (txs : List (Nat × Bool)) :
    VCache × Except BlkErr (List Completed) :=
  match txResultsSwPreF34 k maxCycles c skip txs with
  | .error e => (c, .error (.tx e))
  | .ok rs =>
    let c' := putAll c rs
    if (rs.map (·.2.cycles)).sum > maxCycles then (c', .error .cycles) else (c', .ok (rs.map (·.2)))

/-- a cycle sum that counts only the transactions whose scripts ran in this call (cache misses) —
only used by a negation witness -/
def blockVerifyMissSum (k : Content) (maxCycles : Nat) (c : VCache) (txs : List (Nat × Bool)) :
    VCache × Except BlkErr (List Completed) :=
  match txResults k maxCycles c txs with
  | .error e => (c, .error (.tx e))
  | .ok rs =>
    let c' := putAll c rs
    if ((rs.filter (fun r => (c.peek r.1).isNone)).map (·.2.cycles)).sum > maxCycles then (c', .error .cycles)
    else (c', .ok (rs.map (·.2)))

/-- node requests with the verification switch on blocks -/
inductive NOpS
  | reorg (ctx : Nat)
  | block (skip : Bool) (ws : List Nat)
  | submit (w : Nat)
  | probe (w : Nat)
  | evict (w : Nat)
deriving Repr

def nstepS (k : Content) (maxCycles : Nat) (since : Nat → Nat) (s : NodeS) : NOpS → NodeS × NAns
  | .reorg ctx => ({ s with ctx := ctx }, .none)
  | .block skip ws =>
    let r := blockVerifySw k maxCycles s.cache skip (ws.map fun w => (w, mature since s.ctx w))
    ({ s with cache := r.1 }, .blk r.2)
  | .submit w =>
    let r := vstep k maxCycles s.cache (.verify w (mature since s.ctx w))
    ({ s with cache := r.1 }, .tx (cached k maxCycles s.cache (mature since s.ctx w) w))
  | .probe w => (s, .tx (cached k maxCycles s.cache (mature since s.ctx w) w))
  | .evict w => ({ s with cache := s.cache.filter (fun x => x.1 != w) }, .none)

/-- the answers to the requests that run scripts; the answer of a block verified with scripts
skipped is left out (`NAns.none`): it is characterised separately (`skip_block_*`) -/
def nrunS (k : Content) (maxCycles : Nat) (since : Nat → Nat) : NodeS → List NOpS → List NAns
  | _, [] => []
  | s, op :: ops =>
    let r := nstepS k maxCycles since s op
    (match op with | .block true _ => NAns.none | _ => r.2) :: nrunS k maxCycles since r.1 ops

def nrunSCold (k : Content) (maxCycles : Nat) (since : Nat → Nat) : Nat → List NOpS → List NAns
  | _, [] => []
  | _, .reorg ctx :: ops => .none :: nrunSCold k maxCycles since ctx ops
  | ctx, .block true _ :: ops => .none :: nrunSCold k maxCycles since ctx ops
  | ctx, .block false ws :: ops =>
    .blk (blockVerify k maxCycles [] (ws.map fun w => (w, mature since ctx w))).2 :: nrunSCold k maxCycles since ctx ops
  | ctx, .submit w :: ops => .tx (full k maxCycles (mature since ctx w) w) :: nrunSCold k maxCycles since ctx ops
  | ctx, .probe w :: ops => .tx (full k maxCycles (mature since ctx w) w) :: nrunSCold k maxCycles since ctx ops
  | ctx, .evict _ :: ops => .none :: nrunSCold k maxCycles since ctx ops

/-- every answer, those of assume-valid blocks included (after 6d79679 they too are cache-free) -/
def nrunSAll (k : Content) (maxCycles : Nat) (since : Nat → Nat) : NodeS → List NOpS → List NAns
  | _, [] => []
  | s, op :: ops => let r := nstepS k maxCycles since s op; r.2 :: nrunSAll k maxCycles since r.1 ops

def nrunSAllCold (k : Content) (maxCycles : Nat) (since : Nat → Nat) : Nat → List NOpS → List NAns
  | _, [] => []
  | _, .reorg ctx :: ops => .none :: nrunSAllCold k maxCycles since ctx ops
  | ctx, .block skip ws :: ops =>
    .blk (blockVerifySw k maxCycles [] skip (ws.map fun w => (w, mature since ctx w))).2 :: nrunSAllCold k maxCycles since ctx ops
  | ctx, .submit w :: ops => .tx (full k maxCycles (mature since ctx w) w) :: nrunSAllCold k maxCycles since ctx ops
  | ctx, .probe w :: ops => .tx (full k maxCycles (mature since ctx w) w) :: nrunSAllCold k maxCycles since ctx ops
  | ctx, .evict _ :: ops => .none :: nrunSAllCold k maxCycles since ctx ops

/-- the same node with the pre-06109c6 fill rule -/
def nstepSPreF32 (k : Content) (maxCycles : Nat) (since : Nat → Nat) (s : NodeS) : NOpS → NodeS × NAns
  | .block skip ws =>
    let r := blockVerifySwPreF32 k maxCycles s.cache skip (ws.map fun w => (w, mature since s.ctx w))
    ({ s with cache := r.1 }, .blk r.2)
  | op => nstepS k maxCycles since s op

def nrunSPreF32 (k : Content) (maxCycles : Nat) (since : Nat → Nat) : NodeS → List NOpS → List NAns
  | _, [] => []
  | s, op :: ops =>
    let r := nstepSPreF32 k maxCycles since s op
    (match op with | .block true _ => NAns.none | _ => r.2) :: nrunSPreF32 k maxCycles since r.1 ops

/-! ## round 6: `SYSTEM_CELL`, the pre-resolved system cell deps (`util/types/src/core/cell.rs`)

`resolve_transaction_deps_with_system_cell_cache`: every cell dep of the transaction, in order,
is either answered from the process-wide `SYSTEM_CELL` map (`setup_system_cell_cache`, `ckb run`:
three code cells and two dep groups of the genesis block, keyed by the whole `CellDep` = out-point +
dep type) or resolved through the cell provider (`resolve_transaction_dep`); both paths charge the
dep-expansion budget (`MAX_DEP_EXPANSION_LIMIT` slots: one per code dep, one per **member** of a
dep group). An out-point is a number; the provider's view of the chain is `Prov`. -/

inductive CellSt
  | live | dead | unknown
deriving DecidableEq, Repr

inductive DepErr
  | dead (op : Nat)
  | unknown (op : Nat)
  | invalidGroup (op : Nat)
  | overMax
deriving DecidableEq, Repr

structure Dep where
  op : Nat
  group : Bool
deriving DecidableEq, Repr

structure Prov where
  /-- `CellProvider::cell` -/
  status : Nat → CellSt
  /-- `parse_dep_group_data` of the cell's data: `none` = empty data / malformed / empty vector -/
  members : Nat → Option (List Nat)

inductive SysDep
  | cell (op : Nat)
  | group (op : Nat) (members : List Nat)
deriving DecidableEq, Repr

abbrev SysMap := List (Dep × SysDep)

def SysMap.get (m : SysMap) (d : Dep) : Option SysDep :=
  (m.find? (fun e => e.1 == d)).map (·.2)

structure Resolved where
  cellDeps : List Nat
  depGroups : List Nat
  slots : Nat
deriving DecidableEq, Repr

/-- the `resolve_cell` closure of `resolve_transaction`: inputs seen earlier in the block are dead -/
def resolveCell (seen : List Nat) (p : Prov) (op : Nat) : Except DepErr Unit :=
  if seen.contains op then .error (.dead op) else
  match p.status op with
  | .live => .ok ()
  | .dead => .error (.dead op)
  | .unknown => .error (.unknown op)

def resolveAll (seen : List Nat) (p : Prov) : List Nat → Except DepErr Unit
  | [] => .ok ()
  | op :: rest =>
    match resolveCell seen p op with
    | .error e => .error e
    | .ok _ => resolveAll seen p rest

/-- `resolve_transaction_dep` -/
def resolveDep (seen : List Nat) (p : Prov) (r : Resolved) (d : Dep) : Except DepErr Resolved :=
  if d.group then
    match resolveCell seen p d.op with
    | .error e => .error e
    | .ok _ =>
      match p.members d.op with
      | none => .error (.invalidGroup d.op)
      | some subs =>
        if r.slots < subs.length then .error .overMax else
        match resolveAll seen p subs with
        | .error e => .error e
        | .ok _ => .ok { cellDeps := r.cellDeps ++ subs, depGroups := r.depGroups ++ [d.op], slots := r.slots - subs.length }
  else
    if r.slots < 1 then .error .overMax else
    match resolveCell seen p d.op with
    | .error e => .error e
    | .ok _ => .ok { cellDeps := r.cellDeps ++ [d.op], depGroups := r.depGroups, slots := r.slots - 1 }

/-- one dep on the path with the `SYSTEM_CELL` map; `groupCost` is what a cached group is charged
(`cell_deps.len()` in the code as written) -/
def resolveDepSysG (groupCost : List Nat → Nat) (sys : SysMap) (seen : List Nat) (p : Prov) (r : Resolved) (d : Dep) :
    Except DepErr Resolved :=
  match sys.get d with
  | some (.cell op) =>
    if r.slots < 1 then .error .overMax else
    .ok { cellDeps := r.cellDeps ++ [op], depGroups := r.depGroups, slots := r.slots - 1 }
  | some (.group g ms) =>
    if r.slots < groupCost ms then .error .overMax else
    .ok { cellDeps := r.cellDeps ++ ms, depGroups := r.depGroups ++ [g], slots := r.slots - groupCost ms }
  | none => resolveDep seen p r d

def resolveDepSys := resolveDepSysG List.length

def resolveDepsFrom (step : Resolved → Dep → Except DepErr Resolved) : Resolved → List Dep → Except DepErr Resolved
  | r, [] => .ok r
  | r, d :: ds =>
    match step r d with
    | .error e => .error e
    | .ok r' => resolveDepsFrom step r' ds

/-- `resolve_transaction_deps_with_system_cell_cache` (`sys = none`: `SYSTEM_CELL` not initialised) -/
def resolveDeps (limit : Nat) (sys : Option SysMap) (seen : List Nat) (p : Prov) (deps : List Dep) :
    Except DepErr Resolved :=
  match sys with
  | some m => resolveDepsFrom (resolveDepSys m seen p) ⟨[], [], limit⟩ deps
  | none => resolveDepsFrom (resolveDep seen p) ⟨[], [], limit⟩ deps

/-- `ResolvedTransaction::check` over the deps (the tx-pool's re-check of a resolved transaction
against a new tip): with `SYSTEM_CELL` set, system code deps, system groups and the members of
system groups are not asked for; everything else is `is_live` -/
def checkCell (p : Prov) (op : Nat) : Except DepErr Unit :=
  match p.status op with
  | .live => .ok ()
  | .dead => .error (.dead op)
  | .unknown => .error (.unknown op)

def checkAll (p : Prov) : List Nat → Except DepErr Unit
  | [] => .ok ()
  | op :: rest => match checkCell p op with | .error e => .error e | .ok _ => checkAll p rest

def sysMembers (sys : SysMap) (groups : List Nat) : List Nat :=
  groups.flatMap fun g => match sys.get ⟨g, true⟩ with | some (.group _ ms) => ms | _ => []

def checkDeps (sys : Option SysMap) (p : Prov) (r : Resolved) : Except DepErr Unit :=
  match sys with
  | none => checkAll p (r.cellDeps ++ r.depGroups)
  | some m =>
    let groups := r.depGroups.filter fun g => match m.get ⟨g, true⟩ with | some (.group _ _) => false | _ => true
    let skip := sysMembers m r.depGroups
    let cells := r.cellDeps.filter fun c => (m.get ⟨c, false⟩).isNone && !skip.contains c
    checkAll p (groups ++ cells)

/-! ## round 6: a relayed transaction with declared cycles (`tx-pool/src/process.rs _process_tx`)

`max_cycles = declared_cycles.unwrap_or(max_block_cycles)`; `verify_rtx` (hit: time-relative checks
and the cached `Completed`; miss: the full verifier under `max_cycles`); then
`declared != verified.cycles → Reject::DeclaredWrongCycles(declared, verified.cycles)`. -/

inductive PoolRej
  | verification (e : TxErr)
  | declaredWrongCycles (declared actual : Nat)
deriving DecidableEq, Repr

def processDeclared (k : Content) (c : VCache) (declared : Nat) (timeRel : Bool) (w : Nat) : Except PoolRej Completed :=
  match cached k declared c timeRel w with
  | .error e => .error (.verification e)
  | .ok v => if declared ≠ v.cycles then .error (.declaredWrongCycles declared v.cycles) else .ok v

end CkbVerif.Cache
