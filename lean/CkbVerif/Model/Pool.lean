/-
Model of the transaction-pool core: `tx-pool/src/component/pool_map.rs` (`PoolMap`),
`links.rs` (`TxLinksMap`), `edges.rs`, `entry.rs` (the eight aggregates, evict key) and the
`TxPool`-level operations of `pool.rs` that act on it (`limit_size`, `remove_expired`,
`remove_committed_tx`, `remove_by_detached_proposal`, `check_rbf`) plus the locked section of
`process.rs::submit_entry` (`process_rbf`, `_submit_entry`, `limit_size`).  Core Lean only.

Everything follows the Rust control flow *as it is*, including the two places where the
descendant aggregates are not maintained (DESIGN.md section 7, F2 and F3).  `Cfg.fixF2` switches
`remove_entry_and_descendants` to the repaired order (surviving ancestors are updated before the
links are dropped); `fixF2 := false` is the code as written.  `Cfg.fixPanic` likewise switches
`check_and_record_ancestors` to the repaired version that rejects instead of panicking; `fixF3` and
`fixMid` switch in the two proposed repairs that are not in /repo (work/C11-fix-F3.diff, C11-fix-mid.diff).

Abstractions: hashes / out-points / header hashes are small naturals; `u64`/`usize` additions are
plain `Nat` additions (the saturating bound 2^64 is never reached: the sum of all fees is bounded by
the total issuance, sizes and cycles by the pool limits — listed as an assumption), and
`saturating_sub` is `Nat` subtraction, which is exactly the same function.  Hash sets are
duplicate-free lists; every printed set is sorted by the driver.  The multi-index `score` and
`evict_key` columns are functions of the entry (the harness oracle checks the stored keys against
that function).
-/
import CkbVerif.Gen.Pool
namespace CkbVerif.Pool

structure OutPt where
  tx : Nat
  idx : Nat
deriving DecidableEq, Repr, Inhabited

inductive Status where
  | pending | gap | proposed
deriving DecidableEq, Repr, Inhabited

structure Tx where
  id : Nat
  inputs : List OutPt
  deps : List OutPt
  hdeps : List Nat
  nout : Nat
  size : Nat
  cycles : Nat
  fee : Nat
deriving DecidableEq, Repr, Inhabited

/-- (count, size, cycles, fee) -/
structure W where
  count : Nat
  size : Nat
  cycles : Nat
  fee : Nat
deriving DecidableEq, Repr, Inhabited

def W.zero : W := ⟨0, 0, 0, 0⟩
def W.add (a b : W) : W := ⟨a.count + b.count, a.size + b.size, a.cycles + b.cycles, a.fee + b.fee⟩
/-- `saturating_sub` on every component -/
def W.sub (a b : W) : W := ⟨a.count - b.count, a.size - b.size, a.cycles - b.cycles, a.fee - b.fee⟩

/-- what `add_*_weight(entry)` / `sub_*_weight(entry)` move: one tx, its size, cycles, fee -/
def Tx.w (t : Tx) : W := ⟨1, t.size, t.cycles, t.fee⟩

structure Entry where
  tx : Tx
  status : Status
  ts : Nat
  anc : W
  desc : W
deriving DecidableEq, Repr, Inhabited

/-- `TxEntry::new_with_timestamp` -/
def Entry.fresh (t : Tx) (st : Status) (ts : Nat) : Entry := ⟨t, st, ts, t.w, t.w⟩

structure Links where
  parents : List Nat
  children : List Nat
deriving DecidableEq, Repr, Inhabited

structure Cfg where
  maxAnc : Nat := 25
  maxSize : Nat := 1000000
  minFeeRate : Nat := 1000
  minRbfRate : Nat := 1500
  expiry : Nat := 0
  /-- repaired `remove_entry_and_descendants` (see /verif/work/C11-fix-F2.diff) -/
  fixF2 : Bool := false
  /-- repaired `check_and_record_ancestors` (see /verif/work/C11-fix-panic.diff): reject instead of
      panicking when the eviction took another parent of the new entry with it -/
  fixPanic : Bool := false
  /-- repaired `record_entry_descendants` (see /verif/work/C11-fix-F3.diff): an entry inserted above pooled
      children has its own, its ancestors' and its descendants' aggregates rebuilt from the links -/
  fixF3 : Bool := false
  /-- repaired `remove_entry` (see /verif/work/C11-fix-mid.diff): removing an entry that has pooled
      ancestors and pooled descendants rebuilds both sides from the links -/
  fixMid : Bool := false
  /-- repaired `check_and_record_ancestors` (/repo 10e306f, F33): a cell-ref parent whose output the new
      entry itself spends or references is not a candidate of the ancestor-limit eviction (and does not
      count towards "the limit can be met by evicting"); `false` = the code as it was before -/
  fixF33 : Bool := false
deriving Repr, Inhabited

structure Pool where
  cfg : Cfg := {}
  /-- ids of transactions committed on the chain (`snapshot.transaction_exists`) -/
  chain : List Nat := []
  entries : List Entry := []
  /-- `edges.inputs` -/
  inputs : List (OutPt × Nat) := []
  /-- `edges.deps` -/
  deps : List (OutPt × List Nat) := []
  /-- `edges.header_deps` -/
  hdeps : List (Nat × List Nat) := []
  links : List (Nat × Links) := []
  totalSize : Nat := 0
  totalCycles : Nat := 0
  pending : Nat := 0
  gap : Nat := 0
  proposed : Nat := 0
  /-- GHOST (never read by any operation, not part of the implementation's state): set when one of the
      two patterns occurred under which the code as written does not maintain the aggregates —
      an entry inserted while some of its children are pooled, or `remove_entry` of an entry that has
      both pooled ancestors and pooled descendants.  The aggregate theorems are stated for histories
      whose final state has `ghostBad = false`. -/
  ghostBad : Bool := false
deriving Repr, Inhabited

/-! ## small list helpers (sets as duplicate-free lists) -/

def insertNew {α} [DecidableEq α] (l : List α) (a : α) : List α := if a ∈ l then l else l ++ [a]
def union {α} [DecidableEq α] (a b : List α) : List α := a ++ (b.filter (· ∉ a))
def dedup {α} [DecidableEq α] : List α → List α
  | [] => []
  | a :: l => let r := dedup l; if a ∈ r then r else a :: r

/-! ## `TxLinksMap` -/

abbrev LinkMap := List (Nat × Links)

def hasLink (L : LinkMap) (id : Nat) : Bool := L.any (·.1 = id)
def linkOf (L : LinkMap) (id : Nat) : Option Links := (L.find? (·.1 = id)).map (·.2)
def parentsOf (L : LinkMap) (id : Nat) : List Nat := ((linkOf L id).map (·.parents)).getD []
def childrenOf (L : LinkMap) (id : Nat) : List Nat := ((linkOf L id).map (·.children)).getD []
def keys (L : LinkMap) : List Nat := L.map (·.1)

/-- one round: `A ∪ g(A)` (duplicate-free when `A` is) -/
def expand (g : Nat → List Nat) (A : List Nat) : List Nat := union A (dedup (A.flatMap g))

/-- saturate `A` under `g`: repeat `expand` until nothing new appears (at most `fuel` rounds; every
    unfinished round adds a node, so `fuel` > number of nodes is always enough) -/
def saturate (g : Nat → List Nat) : Nat → List Nat → List Nat
  | 0, A => A
  | f + 1, A =>
    let B := expand g A
    if B.length = A.length then A else saturate g f B

/-- `TxLinksMap::calc_relation_ids(stage, relation)`: the stage itself plus everything reachable from it
    (`ns` = the keys of the link map: every `g`-successor of a key is a key). -/
def calcRelation (g : Nat → List Nat) (ns : List Nat) (stage : List Nat) : List Nat :=
  saturate g (ns.length + stage.length + 1) (dedup stage)

/-- `calc_ancestors(id)` = `calc_relation_ids(parents(id), Parents)` -/
def calcAnc (L : LinkMap) (id : Nat) : List Nat := calcRelation (parentsOf L) (keys L) (parentsOf L id)
/-- `calc_descendants(id)` -/
def calcDesc (L : LinkMap) (id : Nat) : List Nat := calcRelation (childrenOf L) (keys L) (childrenOf L id)

def modLink (L : LinkMap) (ids : List Nat) (f : Links → Links) : LinkMap :=
  L.map fun kl => if kl.1 ∈ ids then (kl.1, f kl.2) else kl

/-- `PoolMap::remove_entry_links` -/
def removeEntryLinks (L : LinkMap) (id : Nat) : LinkMap :=
  let ps := parentsOf L id
  let cs := childrenOf L id
  let L1 := modLink L ps fun l => { l with children := l.children.filter (· ≠ id) }
  let L2 := modLink L1 cs fun l => { l with parents := l.parents.filter (· ≠ id) }
  L2.filter (·.1 ≠ id)

/-! ## entries -/

def getEntry (s : Pool) (id : Nat) : Option Entry := s.entries.find? (·.tx.id = id)

def modEntries (ids : List Nat) (f : Entry → Entry) (es : List Entry) : List Entry :=
  es.map fun e => if e.tx.id ∈ ids then f e else e

def subDesc (w : W) (e : Entry) : Entry := { e with desc := e.desc.sub w }
def addDesc (w : W) (e : Entry) : Entry := { e with desc := e.desc.add w }
def subAnc (w : W) (e : Entry) : Entry := { e with anc := e.anc.sub w }
def addAnc (w : W) (e : Entry) : Entry := { e with anc := e.anc.add w }

/-- `track_entry_statics` -/
def track (s : Pool) (remove add : Option Status) : Pool :=
  let s := match remove with
    | some .pending => { s with pending := s.pending - 1 }
    | some .gap => { s with gap := s.gap - 1 }
    | some .proposed => { s with proposed := s.proposed - 1 }
    | none => s
  match add with
  | some .pending => { s with pending := s.pending + 1 }
  | some .gap => { s with gap := s.gap + 1 }
  | some .proposed => { s with proposed := s.proposed + 1 }
  | none => s

/-! ## weights, keys -/

/-- `get_transaction_weight`: max(size, ⌊cycles · 0.0001705714⌋) -/
def weight (size cycles : Nat) : Nat := max size (cycles * Gen.Pool.BYTES_PER_CYCLES_E10 / 10000000000)
/-- `FeeRate::calculate` -/
def feeRate (fee w : Nat) : Nat := if w = 0 then 0 else fee * Gen.Pool.KW / w
/-- `FeeRate::fee` -/
def rateFee (rate w : Nat) : Nat := rate * w / Gen.Pool.KW

/-- `EvictKey::from(&TxEntry)` as the tuple compared by `Ord`: (fee_rate, descendants_count, timestamp) -/
def evictKey (e : Entry) : Nat × Nat × Nat :=
  let w := weight e.tx.size e.tx.cycles
  let dw := weight e.desc.size e.desc.cycles
  (max (feeRate e.desc.fee dw) (feeRate e.tx.fee w), e.desc.count, e.ts)

def keyLt (a b : Nat × Nat × Nat) : Bool :=
  a.1 < b.1 || (a.1 == b.1 && (a.2.1 < b.2.1 || (a.2.1 == b.2.1 && a.2.2 < b.2.2)))

def insertSorted (e : Entry) : List Entry → List Entry
  | [] => [e]
  | x :: l => if keyLt (evictKey e) (evictKey x) then e :: x :: l else x :: insertSorted e l

/-- `entries.iter_by_evict_key()` (ascending; ties keep insertion order — the harness never produces ties) -/
def byEvictKey (es : List Entry) : List Entry := es.foldl (fun acc e => insertSorted e acc) []

/-- `PoolMap::next_evict_entry(status)` -/
def nextEvict (s : Pool) (st : Status) : Option Nat :=
  ((byEvictKey s.entries).find? (·.status = st)).map (·.tx.id)

/-! ## edges -/

def inputUser (s : Pool) (o : OutPt) : Option Nat := (s.inputs.find? (·.1 = o)).map (·.2)
def depUsers (s : Pool) (o : OutPt) : List Nat := ((s.deps.find? (·.1 = o)).map (·.2)).getD []

def insertDep (D : List (OutPt × List Nat)) (o : OutPt) (id : Nat) : List (OutPt × List Nat) :=
  if D.any (·.1 = o) then D.map fun kv => if kv.1 = o then (kv.1, insertNew kv.2 id) else kv
  else D ++ [(o, [id])]

/-- `Edges::delete_txid_by_dep` -/
def deleteDep (D : List (OutPt × List Nat)) (o : OutPt) (id : Nat) : List (OutPt × List Nat) :=
  (D.map fun kv => if kv.1 = o then (kv.1, kv.2.filter (· ≠ id)) else kv).filter fun kv => !(kv.1 = o ∧ kv.2 = [])

/-- `remove_entry_edges` -/
def removeEdges (s : Pool) (t : Tx) : Pool :=
  { s with
    inputs := s.inputs.filter (fun kv => kv.1 ∉ t.inputs)
    deps := t.deps.foldl (fun D d => deleteDep D d t.id) s.deps
    hdeps := s.hdeps.filter (·.1 ≠ t.id) }

def idsOf (l : List Entry) : List Nat := l.map fun e => e.tx.id

/-! ## the specification side: recomputation from the current contents -/

def sumW (s : Pool) (ids : List Nat) : W :=
  ids.foldl (fun acc id => match getEntry s id with
    | some e => acc.add e.tx.w
    | none => acc) W.zero

/-- ancestors aggregate of `id` recomputed from the links: itself plus every other ancestor -/
def recomputeAnc (s : Pool) (e : Entry) : W := e.tx.w.add (sumW s ((calcAnc s.links e.tx.id).filter (· ≠ e.tx.id)))
def recomputeDesc (s : Pool) (e : Entry) : W := e.tx.w.add (sumW s ((calcDesc s.links e.tx.id).filter (· ≠ e.tx.id)))

/-- repaired code only (`rebuild_entry_statistics`): both aggregates of the listed entries are rebuilt from the links -/
def rebuild (s : Pool) (ids : List Nat) : Pool :=
  { s with entries := s.entries.map fun e =>
      if e.tx.id ∈ ids then { e with anc := recomputeAnc s e, desc := recomputeDesc s e } else e }


/-! ## removal -/

/-- the entry has pooled ancestors and pooled descendants -/
def isBetween (L : LinkMap) (id : Nat) : Bool := !(calcAnc L id).isEmpty && !(calcDesc L id).isEmpty

/-- `PoolMap::remove_entry` -/
def removeEntry (s : Pool) (id : Nat) : Pool × Option Entry :=
  match getEntry s id with
  | none => (s, none)
  | some e =>
    let ancs := calcAnc s.links id
    let descs := calcDesc s.links id
    let between := isBetween s.links id
    let es := s.entries.filter (·.tx.id ≠ id)
    let es := if between && s.cfg.fixMid then es else
      modEntries descs (subAnc e.tx.w) (modEntries ancs (subDesc e.tx.w) es)
    let s := removeEdges { s with entries := es, ghostBad := s.ghostBad || between } e.tx
    let s := { s with links := removeEntryLinks s.links id }
    let s := if between && s.cfg.fixMid then rebuild s (ancs ++ descs) else s
    let s := track s (some e.status) none
    ({ s with totalSize := s.totalSize - e.tx.size, totalCycles := s.totalCycles - e.tx.cycles }, some e)

/-- repaired code only: before the links are dropped, every ancestor of a removed entry loses that
    entry's weight (ancestors that are themselves removed are updated too; harmless). -/
def preSubDescendants (s : Pool) (ids : List Nat) : Pool :=
  ids.foldl (fun s rid =>
    match getEntry s rid with
    | none => s
    | some e => { s with entries := modEntries (calcAnc s.links rid) (subDesc e.tx.w) s.entries }) s

/-- `PoolMap::remove_entry_and_descendants`: returns the removed entries (id first, then its
    descendants in the model's closure order; callers treat them as a set). -/
def removeWithDesc (s : Pool) (id : Nat) : Pool × List Entry :=
  let ids := id :: (calcDesc s.links id).filter (· ≠ id)
  let s := if s.cfg.fixF2 then preSubDescendants s ids else s
  let s := { s with links := ids.foldl removeEntryLinks s.links }
  ids.foldl (fun (acc : Pool × List Entry) rid =>
    match removeEntry acc.1 rid with
    | (s', some e) => (s', acc.2 ++ [e])
    | (s', none) => (s', acc.2)) (s, [])

/-! ## insertion -/

inductive AddRes where
  | ok (evicted : List Nat)
  | dup
  | rejAnc
  | rejDbl
  | panic
deriving DecidableEq, Repr

/-- the pooled transactions whose outputs the new transaction spends or references
    (`needed` in the /repo 10e306f repair of `check_and_record_ancestors`) -/
def neededIds (t : Tx) : List Nat := (t.inputs ++ t.deps).map (·.tx)

/-- `get_tx_ancenstors`: (ancestors, parents, cell_ref_parents), followed — under `fixF33` — by the
    first step of the repaired `check_and_record_ancestors`, which drops the needed transactions from
    `cell_ref_parents` before anything looks at that set -/
def txAncestors (s : Pool) (t : Tx) : List Nat × List Nat × List Nat :=
  let cellRef0 := dedup (t.inputs.flatMap (depUsers s))
  let cellRef := if s.cfg.fixF33 then cellRef0.filter (fun id => !(neededIds t).contains id) else cellRef0
  let viaInputs := t.inputs.flatMap fun i => depUsers s i ++ (if hasLink s.links i.tx then [i.tx] else [])
  let viaDeps := t.deps.filterMap fun d => if hasLink s.links d.tx then some d.tx else none
  let parents := dedup (viaInputs ++ viaDeps)
  (calcRelation (parentsOf s.links) (keys s.links) parents, parents, cellRef)

/-- `_record_ancestors`; `none` = `get_by_id_checked` panics ("inconsistent pool") -/
def recordAncestors (s : Pool) (e : Entry) (ancestors parents : List Nat) : Option (Pool × Entry) :=
  if ancestors.all (fun a => (getEntry s a).isSome) then
    let e' := ancestors.foldl (fun e a => match getEntry s a with
      | some x => addAnc x.tx.w e
      | none => e) e
    let L := modLink s.links parents fun l => { l with children := insertNew l.children e.tx.id }
    let L := (L.filter (·.1 ≠ e.tx.id)) ++ [(e.tx.id, { parents := parents, children := [] })]
    some ({ s with links := L }, e')
  else none

/-- the eviction loop of `check_and_record_ancestors` -/
def evictLoop : List Nat → Pool → Nat → List Nat → List Nat → Pool × Nat × List Nat × List Nat
  | [], s, cnt, parents, ev => (s, cnt, parents, ev)
  | c :: cands, s, cnt, parents, ev =>
    if cnt > s.cfg.maxAnc then
      let r := removeWithDesc s c
      evictLoop cands r.1 (cnt - 1) (parents.filter (· ≠ c)) (ev ++ idsOf r.2)
    else (s, cnt, parents, ev)

inductive AncRes where
  | ok (s : Pool) (e : Entry) (evicted : List Nat)
  | rej
  | panic (s : Pool)
  /-- repaired code only: rejected after the evictions were carried out -/
  | rejAfter (s : Pool)

/-- `check_and_record_ancestors` -/
def checkAndRecordAncestors (s : Pool) (e : Entry) : AncRes :=
  let (ancestors, parents, cellRef) := txAncestors s e.tx
  let cnt := ancestors.length + 1
  if cnt ≤ s.cfg.maxAnc then
    match recordAncestors s e ancestors parents with
    | some (s', e') => .ok s' e' []
    | none => .panic s
  else if cnt - cellRef.length ≤ s.cfg.maxAnc then
    let cands := ((byEvictKey s.entries).filter (·.tx.id ∈ cellRef)).map (·.tx.id)
    let (s1, _, parents1, ev) := evictLoop cands s cnt parents []
    if s1.cfg.fixPanic && parents1.any (fun p => (getEntry s1 p).isNone) then .rejAfter s1 else
    let ancestors1 := calcRelation (parentsOf s1.links) (keys s1.links) parents1
    if ancestors1.length < s1.cfg.maxAnc then
      match recordAncestors s1 e ancestors1 parents1 with
      | some (s', e') => .ok s' e' ev
      | none => .panic s1
    else .panic s1
  else .rej

/-- `record_entry_edges` (caller has excluded double spends) -/
def recordEdges (s : Pool) (t : Tx) : Pool :=
  { s with
    inputs := s.inputs ++ t.inputs.map (·, t.id)
    deps := t.deps.foldl (fun D d => insertDep D d t.id) s.deps
    hdeps := if t.hdeps.isEmpty then s.hdeps else (s.hdeps.filter (·.1 ≠ t.id)) ++ [(t.id, t.hdeps)] }

def outputs (t : Tx) : List OutPt := (List.range t.nout).map fun i => ⟨t.id, i⟩

/-- children found by `record_entry_descendants` -/
def findChildren (s : Pool) (t : Tx) : List Nat :=
  dedup ((outputs t).flatMap fun o => depUsers s o ++ (inputUser s o).toList)

/-- `record_entry_descendants` -/
def recordDescendants (s : Pool) (e : Entry) : Pool :=
  let id := e.tx.id
  let children := findChildren s e.tx
  if children.isEmpty then
    { s with entries := modEntries (calcAnc s.links id) (addDesc e.tx.w) s.entries }
  else
    let L := modLink s.links children fun l => { l with parents := insertNew l.parents id }
    let L := modLink L [id] fun l => { l with children := children.foldl insertNew l.children }
    let s := { s with links := L, ghostBad := true }
    if s.cfg.fixF3 then rebuild s (id :: (calcAnc s.links id ++ calcDesc s.links id))
    else
      let s := { s with entries := modEntries (calcDesc s.links id) (addAnc e.tx.w) s.entries }
      { s with entries := modEntries (calcAnc s.links id) (addDesc e.tx.w) s.entries }

def conflictIds (s : Pool) (t : Tx) : List Nat := dedup (t.inputs.filterMap (inputUser s))

/-- `PoolMap::add_entry` -/
def addEntry (s : Pool) (t : Tx) (st : Status) (ts : Nat) : Pool × AddRes :=
  if (getEntry s t.id).isSome then (s, .dup) else
  if !(conflictIds s t).isEmpty || !(decide t.inputs.Nodup) then (s, .rejDbl) else
  match checkAndRecordAncestors s (Entry.fresh t st ts) with
  | .rej => (s, .rejAnc)
  | .rejAfter s' => (s', .rejAnc)
  | .panic s' => (s', .panic)
  | .ok s e ev =>
    let s := recordEdges s t
    let s := { s with entries := s.entries ++ [e] }
    let s := recordDescendants s e
    let s := track s none (some st)
    ({ s with totalSize := s.totalSize + t.size, totalCycles := s.totalCycles + t.cycles }, .ok ev)

/-- `PoolMap::set_entry` (callers have checked that the entry exists) -/
def setEntry (s : Pool) (id : Nat) (st : Status) : Pool :=
  match getEntry s id with
  | none => s
  | some e =>
    track { s with entries := s.entries.map fun x => if x.tx.id = id then { x with status := st } else x }
      (some e.status) (some st)

/-! ## `TxPool` level -/

/-- `PoolMap::resolve_conflict(tx)`; returns removed ids -/
def resolveConflict (s : Pool) (t : Tx) : Pool × List Nat :=
  t.inputs.foldl (fun (acc : Pool × List Nat) i =>
    let s := acc.1
    let acc := match inputUser s i with
      | some id =>
        let r := removeWithDesc { s with inputs := s.inputs.filter (·.1 ≠ i) } id
        (r.1, acc.2 ++ idsOf r.2)
      | none => acc
    let users := depUsers acc.1 i
    let s := { acc.1 with deps := acc.1.deps.filter (·.1 ≠ i) }
    users.foldl (fun (acc : Pool × List Nat) id =>
      let r := removeWithDesc acc.1 id
      (r.1, acc.2 ++ idsOf r.2)) (s, acc.2)) (s, [])

/-- `TxPool::remove_committed_tx` -/
def commitTx (s : Pool) (t : Tx) : Pool × List Nat :=
  resolveConflict (removeEntry s t.id).1 t

/-- `PoolMap::resolve_conflict_header_dep` -/
def resolveHeaders (s : Pool) (hs : List Nat) : Pool × List Nat :=
  let ids := (s.hdeps.filter fun kv => kv.2.any (· ∈ hs)).map (·.1)
  ids.foldl (fun (acc : Pool × List Nat) id =>
    let r := removeWithDesc acc.1 id
    (r.1, acc.2 ++ idsOf r.2)) (s, [])

/-- `TxPool::limit_size` (fuel = number of entries + 1: every round removes at least one entry) -/
def limitLoop : Nat → Pool → List Nat → Pool × List Nat
  | 0, s, ev => (s, ev)
  | f + 1, s, ev =>
    if s.totalSize > s.cfg.maxSize then
      match (nextEvict s .pending).orElse fun _ => (nextEvict s .gap).orElse fun _ => nextEvict s .proposed with
      | some id =>
        let r := removeWithDesc s id
        limitLoop f r.1 (ev ++ idsOf r.2)
      | none => (s, ev)
    else (s, ev)

def limitSize (s : Pool) : Pool × List Nat := limitLoop (s.entries.length + 1) s []

/-- the set `remove_expired` collects -/
def expiredIds (s : Pool) (now : Nat) : List Nat :=
  (s.entries.filter fun e => s.cfg.expiry + e.ts < now).map (·.tx.id)

/-- `TxPool::remove_expired` as repaired by /repo 3724ae4: every expired id, in the order given (the
    Rust code iterates a slab; the order is an input of the model), leaves with its descendants
    (`remove_entry_and_descendants`; an id that already left yields nothing) -/
def removeExpired (s : Pool) (order : List Nat) : Pool :=
  order.foldl (fun s id => (removeWithDesc s id).1) s

/-- the ids `remove_expired` reports through the reject callback -/
def removeExpiredIds (s : Pool) (order : List Nat) : List Nat :=
  (order.foldl (fun (acc : Pool × List Nat) id =>
    let r := removeWithDesc acc.1 id
    (r.1, acc.2 ++ idsOf r.2)) (s, [])).2

/-- `remove_expired` before 3724ae4 (F5): `remove_entry` of the expired entries only -/
def removeExpiredPreF5 (s : Pool) (order : List Nat) : Pool :=
  order.foldl (fun s id => (removeEntry s id).1) s

def insertByAncCount (e : Entry) : List Entry → List Entry
  | [] => [e]
  | x :: l => if e.anc.count < x.anc.count then e :: x :: l else x :: insertByAncCount e l

/-- `TxPool::remove_by_detached_proposal` -/
def detachProposals (s : Pool) (ids : List Nat) : Pool :=
  ids.foldl (fun s id =>
    match getEntry s id with
    | none => s
    | some e =>
      if e.status = .pending then s else
      let r := removeWithDesc s id
      let sorted := r.2.foldl (fun acc x => insertByAncCount x acc) []
      sorted.foldl (fun s x => (addEntry s x.tx .pending x.ts).1) r.1) s

inductive RbfRes where
  | ok (conflicts : List Nat)
  | unconfirmed | struct | dep | fee
deriving DecidableEq, Repr

def enableRbf (c : Cfg) : Bool := c.minRbfRate > c.minFeeRate

/-- `calculate_min_replace_fee` (ids deduplicated by the caller) -/
def minReplaceFee (s : Pool) (ids : List Nat) (size : Nat) : Nat :=
  (ids.filterMap (getEntry s)).foldl (fun acc e => acc + e.tx.fee) 0 + rateFee s.cfg.minRbfRate size

/-- `TxPool::min_replace_fee(tx)` for a pooled entry (what `get_transaction` reports as `min_replace_fee`):
    the entry itself and its pooled descendants, every id once (`calculate_min_replace_fee` collects them
    into a `HashMap` keyed by id), plus the increment for the entry's own size; `None` when RBF is off.
    (The Rust code unwraps the entry: it is called for pooled entries only; `none` here for an id that is
    not pooled.) -/
def minReplaceFeeOf (s : Pool) (id : Nat) : Option Nat :=
  if enableRbf s.cfg then
    match getEntry s id with
    | none => none
    | some e =>
      some (minReplaceFee s (dedup (id :: (calcDesc s.links id).filter fun d => (getEntry s d).isSome)) e.tx.size)
  else none

/-- `TxPool::check_rbf` -/
def checkRbf (s : Pool) (t : Tx) : RbfRes :=
  let conflicts := conflictIds s t
  if conflicts.isEmpty then .ok [] else
  let cinputs := (conflicts.filterMap (getEntry s)).flatMap fun (e : Entry) => e.tx.inputs
  if t.inputs.any (fun pt => pt ∉ cinputs ∧ pt.tx ∉ s.chain) then .unconfirmed else
  let ancestors := calcAnc s.links t.id
  let descs := conflicts.map fun c => calcDesc s.links c
  let total := descs.foldl (fun n d => n + d.length + 1) 0
  if total > Gen.Pool.MAX_REPLACEMENT_CANDIDATES then .struct else
  if descs.any (fun d => d.any (· ∈ ancestors)) then .struct else
  let alld := dedup (descs.flatMap id)
  let alldIn := alld.filter fun d => (getEntry s d).isSome
  if t.inputs.any (fun pt => pt.tx ∈ alldIn) then .struct else
  let allc := dedup (conflicts ++ alldIn)
  if t.deps.any (fun pt => pt.tx ∈ allc) then .dep else
  if t.fee < minReplaceFee s allc t.size then .fee else .ok conflicts

inductive SubmitRes where
  | ok (replaced evicted limited : List Nat)
  | rbf (r : RbfRes)
  | dead
  | add (r : AddRes)
  | full (replaced evicted limited : List Nat)
deriving Repr

/-- the write-locked section of `TxPoolService::submit_entry` (without the tip-changed re-check):
    `check_rbf` / conflict test, `process_rbf`, `_submit_entry`, `limit_size`. -/
def submit (s : Pool) (t : Tx) (st : Status) (ts : Nat) : Pool × SubmitRes :=
  let pre : Except SubmitRes (List Nat) :=
    if enableRbf s.cfg then
      match checkRbf s t with
      | .ok c => .ok c
      | r => .error (.rbf r)
    else if (conflictIds s t).isEmpty then .ok [] else .error .dead
  match pre with
  | .error r => (s, r)
  | .ok conflicts =>
    let (s1, replaced) := conflicts.foldl (fun (acc : Pool × List Nat) c =>
      let r := removeWithDesc acc.1 c
      (r.1, acc.2 ++ idsOf r.2)) (s, [])
    match addEntry s1 t st ts with
    | (s2, .ok ev) =>
      let (s3, lim) := limitSize s2
      if t.id ∈ lim then (s3, .full replaced ev lim) else (s3, .ok replaced ev lim)
    | (s2, r) => (s2, .add r)

/-! ## `_update_tx_pool_for_reorg` (process.rs), mine mode, for a chain extension (no re-added transactions) -/

/-- the `proposed_rtx` / `gap_rtx` loops of `_update_tx_pool_for_reorg` (mine mode): gap entries whose id is
    now in the proposed set, then pending entries that are now proposed, become `Proposed`; pending entries
    that are only in the gap set become `Gap` (`set_entry`) -/
def promote (s : Pool) (gapNow propNow : List Nat) : Pool :=
  let toProposed :=
    ((s.entries.filter fun e => e.status = .gap ∧ e.tx.id ∈ propNow) ++
      (s.entries.filter fun e => e.status = .pending ∧ e.tx.id ∈ propNow)).map (·.tx.id)
  let toGap := (s.entries.filter fun e => e.status = .pending ∧ e.tx.id ∉ propNow ∧ e.tx.id ∈ gapNow).map (·.tx.id)
  let s := toProposed.foldl (fun s id => setEntry s id .proposed) s
  toGap.foldl (fun s id => setEntry s id .gap) s

/-- `_update_tx_pool_for_reorg` for attached blocks only: the pool's snapshot moves to the new tip (the
    committed transactions become chain transactions), `remove_committed_txs` (every attached transaction in
    block order, then the detached headers), `remove_by_detached_proposal` (ids that left the proposal
    window), the mine-mode status promotion, `remove_expired` at time `now` (slab order = insertion order of
    the entries), `limit_size`. -/
def updateForBlock (s : Pool) (committed : List Tx) (detachedHdrs detachedProps gapNow propNow : List Nat) (now : Nat) : Pool :=
  let s := { s with chain := s.chain ++ committed.map (·.id) }
  let s := committed.foldl (fun s t => (commitTx s t).1) s
  let s := if detachedHdrs.isEmpty then s else (resolveHeaders s detachedHdrs).1
  let s := detachProposals s detachedProps
  let s := promote s gapNow propNow
  let s := removeExpired s (expiredIds s now)
  (limitSize s).1

end CkbVerif.Pool
