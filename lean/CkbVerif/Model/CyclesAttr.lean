import CkbVerif.Model.Cycles

/-!
C05 — the script group an error of `TransactionScriptsVerifier::verify` is attributed to
(`script/src/verify.rs`: `.map_err(|e| e.source(group))` on the group's own error,
`wrapping_cycles_add(cycles, used_cycles, group)` for the overflow), as coded: `verifyFromG` is
`verifyFrom` of `Model/Cycles.lean` with the index of the group (in `groups()` order) next to every
error. `failIdx` / `shortIdx` are the closed forms the driver prints (`@<group>`). Core Lean only.
-/
namespace CkbVerif.Cycles

/-- `verify(max_cycles)` with the originating group of the error; `idx` = index of the head group -/
def verifyFromG (max : Nat) : List Group → Nat → Nat → Except (Err × Nat) Nat
  | [], _, cycles => .ok cycles
  | g :: rest, idx, cycles =>
    match runFull g (max - cycles) with
    | .error e => .error (e, idx)
    | .ok used =>
      match cyclesAdd cycles used with
      | .error e => .error (e, idx)
      | .ok c => verifyFromG max rest (idx + 1) c

def verifyG (gs : List Group) (max : Nat) : Except (Err × Nat) Nat := verifyFromG max gs 0 0

/-- index of the first group whose exit code is not 0 -/
def failIdx (gs : List Group) : Nat := (gs.takeWhile (fun g => g.code == 0)).length

/-- index of the first group whose cost does not fit into what the groups before it leave of `b` -/
def shortIdx : List Group → Nat → Nat
  | [], _ => 0
  | g :: rest, b => if g.cost ≤ b then 1 + shortIdx rest (b - g.cost) else 0

end CkbVerif.Cycles
