import CkbVerif.Gen.Tx
import CkbVerif.Model.Since

/-!
C04 — executable model of transaction resolution and the capacity rules, following the Rust code:

* `util/types/src/core/cell.rs`: `resolve_transaction` (closure `resolve_cell`: `seen_inputs` test
  first, then the provider; duplicate input inside the tx → `Dead`; cellbase inputs skipped;
  `resolve_transaction_dep` with the `remaining_dep_slots` countdown from `MAX_DEP_EXPANSION_LIMIT`,
  the countdown happens *before* the members / the cell are resolved, but after the group cell itself
  was resolved and parsed; header deps last; `seen_inputs.extend(current_inputs)` only on success),
  `OverlayCellProvider::cell`, `BlockCellProvider::{new, cell}`, `parse_dep_group_data`
* `chain/src/verify.rs` `resolve_block_transactions` (one `seen_inputs` for the block's tx list)
* `store/src/transaction.rs` `CellProvider for StoreTransaction` (Live / Unknown only),
  `tx-pool/src/pool_cell.rs` `PoolCell` (input spent by a pooled tx → Dead; pooled output → Live)
* `verification/src/transaction_verifier.rs`: `CapacityVerifier`, `NonContextualTransactionVerifier`
* `util/gen-types/src/extension/capacity.rs` (`occupied_capacity`), `Capacity::{bytes, safe_add}`

The `resolved_cells` memo table inside `resolve_transaction` and the process-wide `SYSTEM_CELL`
cache are not modelled: for a provider that is a function they cannot change a verdict (C14 owns the
cache property). Core Lean only.
-/
namespace CkbVerif.Tx
open CkbVerif.Gen.Tx

/-- an out point: transaction id (stands for the hash) and output index -/
structure OutPoint where
  tx : Nat
  idx : Nat
  deriving Repr, DecidableEq

/-- what a live cell's data parses to under `parse_dep_group_data`: `none` = empty data, not an
`OutPointVec`, or an empty vector -/
abbrev GroupData := Option (List OutPoint)

inductive Status where
  | live (g : GroupData)
  | dead
  | unknown
  deriving Repr, DecidableEq

abbrev Provider := OutPoint → Status

/-- `OverlayCellProvider::cell` -/
def overlay (a b : Provider) : Provider := fun op =>
  match a op with
  | .live g => .live g
  | .dead => .dead
  | .unknown => b op

inductive RErr where
  | dead (op : OutPoint)
  | unknown (op : OutPoint)
  | invalidDepGroup (op : OutPoint)
  | overLimit
  | invalidHeader (h : Nat)
  | outOfOrder (op : OutPoint)
  deriving Repr, DecidableEq

structure Dep where
  op : OutPoint
  isGroup : Bool
  deriving Repr, DecidableEq

/-- the reference part of a transaction -/
structure TxRefs where
  inputs : List OutPoint
  /-- `is_cellbase()`: exactly one input and it is the null out point -/
  isCellbase : Bool
  deps : List Dep
  headerDeps : List Nat
  deriving Repr, DecidableEq

/-- closure `resolve_cell` -/
def resolveCell (seen : List OutPoint) (p : Provider) (op : OutPoint) : Except RErr GroupData :=
  if op ∈ seen then .error (.dead op)
  else
    match p op with
    | .dead => .error (.dead op)
    | .unknown => .error (.unknown op)
    | .live g => .ok g

/-- the input loop: `current_inputs.insert` fails on a duplicate → `Dead`; returns `current_inputs` -/
def resolveInputs (seen : List OutPoint) (p : Provider) : List OutPoint → List OutPoint → Except RErr (List OutPoint)
  | [], cur => .ok cur
  | op :: rest, cur =>
    if op ∈ cur then .error (.dead op)
    else
      match resolveCell seen p op with
      | .error e => .error e
      | .ok _ => resolveInputs seen p rest (cur ++ [op])

/-- resolve every member of a dep group, in order -/
def resolveMembers (seen : List OutPoint) (p : Provider) : List OutPoint → Except RErr Unit
  | [] => .ok ()
  | m :: rest =>
    match resolveCell seen p m with
    | .error e => .error e
    | .ok _ => resolveMembers seen p rest

/-- `resolve_transaction_dep` over the dep list; state = `remaining_dep_slots`;
returns (resolved_cell_deps, resolved_dep_groups) out points -/
def resolveDeps (seen : List OutPoint) (p : Provider) :
    List Dep → Nat → List OutPoint → List OutPoint → Except RErr (List OutPoint × List OutPoint)
  | [], _, cds, gs => .ok (cds, gs)
  | d :: rest, slots, cds, gs =>
    if d.isGroup then
      match resolveCell seen p d.op with
      | .error e => .error e
      | .ok none => .error (.invalidDepGroup d.op)
      | .ok (some ms) =>
        if slots < ms.length then .error .overLimit
        else
          match resolveMembers seen p ms with
          | .error e => .error e
          | .ok () => resolveDeps seen p rest (slots - ms.length) (cds ++ ms) (gs ++ [d.op])
    else
      if slots < 1 then .error .overLimit
      else
        match resolveCell seen p d.op with
        | .error e => .error e
        | .ok _ => resolveDeps seen p rest (slots - 1) (cds ++ [d.op]) gs

def checkHeaders (valid : Nat → Bool) : List Nat → Except RErr Unit
  | [] => .ok ()
  | h :: rest => if valid h then checkHeaders valid rest else .error (.invalidHeader h)

structure Resolved where
  inputs : List OutPoint
  cellDeps : List OutPoint
  depGroups : List OutPoint
  deriving Repr, DecidableEq

/-- `resolve_transaction`: result and the new `seen_inputs` -/
def resolveTx (seen : List OutPoint) (p : Provider) (valid : Nat → Bool) (tx : TxRefs) :
    Except RErr (Resolved × List OutPoint) :=
  match (if tx.isCellbase then .ok [] else resolveInputs seen p tx.inputs []) with
  | .error e => .error e
  | .ok cur =>
    match resolveDeps seen p tx.deps MAX_DEP_EXPANSION_LIMIT [] [] with
    | .error e => .error e
    | .ok (cds, gs) =>
      match checkHeaders valid tx.headerDeps with
      | .error e => .error e
      | .ok () => .ok (⟨cur, cds, gs⟩, seen ++ cur)

/-- `resolve_block_transactions`'s `map(..).collect::<Result<Vec<_>,_>>()`: first error wins, `seen`
threads through -/
def resolveTxs (p : Provider) (valid : Nat → Bool) : List OutPoint → List TxRefs → Except RErr (List Resolved × List OutPoint)
  | seen, [] => .ok ([], seen)
  | seen, tx :: rest =>
    match resolveTx seen p valid tx with
    | .error e => .error e
    | .ok (r, seen') =>
      match resolveTxs p valid seen' rest with
      | .error e => .error e
      | .ok (rs, s) => .ok (r :: rs, s)

/-! ### Header deps: `HeaderChecker::check_valid` of `Snapshot` / `VerifyContext` -/

/-- `get_block_hash(n)` in the number → hash index of the chain whose tip is `cur`: walk the parent
links down to height `n` (fuel = tip number + 1) -/
def chainAt (db : Since.HeaderDb) : Nat → Nat → Nat → Option Nat
  | 0, _, _ => none
  | fuel + 1, cur, n =>
    match Since.findHdr db cur with
    | none => none
    | some hd =>
      if hd.number = n then some cur
      else if hd.number < n then none
      else chainAt db fuel hd.parent n

/-- `ChainStore::is_main_chain(hash)`: `get_block_number(hash)` is known and the index holds `hash`
at that height; `tip` = the last attached block (the snapshot's tip for the pool, the parent of the
block under verification for `VerifyContext`) -/
def isMainChain (db : Since.HeaderDb) (tip h : Nat) : Bool :=
  match Since.findHdr db h, Since.findHdr db tip with
  | some hd, some t => chainAt db (t.number + 1) tip hd.number == some h
  | _, _ => false

/-- the header-dep loop of `resolve_transaction` at the commit position of `env` -/
def headerDepsCheck (db : Since.HeaderDb) (env : Since.Env) (hds : List Nat) : Except RErr Unit :=
  checkHeaders (isMainChain db env.parentOfCommit) hds

/-! ### Block and pool providers -/

/-- a block transaction as the providers see it -/
structure BTx where
  id : Nat
  nOutputs : Nat
  /-- what each output's data parses to (only consulted for outputs used as dep groups) -/
  outData : Nat → GroupData
  refs : TxRefs

/-- position of the transaction with hash `id` in the block (`output_indices`) -/
def txIndex (txs : List BTx) (id : Nat) : Option Nat :=
  match txs.findIdx? (fun t => t.id == id) with
  | some i => some i
  | none => none

/-- `BlockCellProvider::cell`: an output of any transaction of the block is Live, otherwise Unknown -/
def blockProvider (txs : List BTx) : Provider := fun op =>
  match txs.find? (fun t => t.id == op.tx) with
  | some t => if op.idx < t.nOutputs then .live (t.outData op.idx) else .unknown
  | none => .unknown

/-- the order check of `BlockCellProvider::new` for the transaction at position `idx`:
deps first, then inputs -/
def orderCheckTx (txs : List BTx) (idx : Nat) (t : BTx) : Except RErr Unit :=
  match t.refs.deps.find? (fun d => match txIndex txs d.op.tx with | some j => decide (j ≥ idx) | none => false) with
  | some d => .error (.outOfOrder d.op)
  | none =>
    match t.refs.inputs.find? (fun op => match txIndex txs op.tx with | some j => decide (j ≥ idx) | none => false) with
    | some op => .error (.outOfOrder op)
    | none => .ok ()

def orderCheckFrom (txs : List BTx) : Nat → List BTx → Except RErr Unit
  | _, [] => .ok ()
  | i, t :: rest =>
    match orderCheckTx txs i t with
    | .error e => .error e
    | .ok () => orderCheckFrom txs (i + 1) rest

/-- `resolve_block_transactions` -/
def resolveBlock (store : Provider) (valid : Nat → Bool) (txs : List BTx) :
    Except RErr (List Resolved × List OutPoint) :=
  match orderCheckFrom txs 0 txs with
  | .error e => .error e
  | .ok () => resolveTxs (overlay (blockProvider txs) store) valid [] (txs.map (·.refs))

/-- `PoolCell::cell` (`rbf = false`): `spent` = inputs of pooled transactions, `created` = outputs of
pooled transactions -/
def poolProvider (spent : OutPoint → Bool) (created : OutPoint → Option GroupData) : Provider := fun op =>
  if spent op then .dead
  else match created op with
    | some g => .live g
    | none => .unknown

/-- `TxPool::resolve_tx_from_pool` (fresh `seen_inputs`) -/
def resolvePool (spent : OutPoint → Bool) (created : OutPoint → Option GroupData) (snapshot : Provider)
    (valid : Nat → Bool) (tx : TxRefs) : Except RErr (Resolved × List OutPoint) :=
  resolveTx [] (overlay (poolProvider spent created) snapshot) valid tx

/-! ### Capacity -/

def U64 : Nat := 2 ^ 64

/-- `Capacity::bytes` -/
def capBytes (n : Nat) : Option Nat := if n * BYTE_SHANNONS < U64 then some (n * BYTE_SHANNONS) else none

/-- `Capacity::safe_add` -/
def safeAdd (a b : Nat) : Option Nat := if a + b < U64 then some (a + b) else none

structure Output where
  capacity : Nat
  lockArgs : Nat
  /-- `none` = no type script, `some n` = args length -/
  typeArgs : Option Nat
  dataLen : Nat
  deriving Repr, DecidableEq

/-- `Script::occupied_capacity` -/
def scriptOccupied (args : Nat) : Option Nat := capBytes (args + SCRIPT_FIXED_BYTES)

/-- `CellOutput::occupied_capacity(data_capacity)`: the code's chain of `and_then`s
(`Option.bind`; `none` = `CapacityError::Overflow`), in the code's order of additions -/
def occupied (o : Output) (dataCap : Nat) : Option Nat :=
  ((capBytes CAPACITY_FIELD_BYTES).bind fun x => safeAdd x dataCap).bind fun x =>
    ((scriptOccupied o.lockArgs).bind fun y => safeAdd y x).bind fun x =>
      (match o.typeArgs with
        | none => some 0
        | some a => scriptOccupied a).bind fun y => safeAdd y x

inductive CapV where
  | ok
  /-- a `CapacityError::Overflow` from a checked sum / product -/
  | overflow
  | outputsSumOverflow
  | insufficient (i : Nat)
  deriving Repr, DecidableEq

/-- `try_fold(Capacity::zero(), Capacity::safe_add)` -/
def sumCapsL : Nat → List Nat → Option Nat
  | acc, [] => some acc
  | acc, c :: rest =>
    match safeAdd acc c with
    | none => none
    | some s => sumCapsL s rest

/-- `output.is_lack_of_capacity(Capacity::bytes(data.len())?)?`
(`is_lack_of_capacity` = `occupied_capacity(dc).map(|cap| cap > self.capacity())`): `none` = a checked
operation overflowed (`CapacityError::Overflow`) -/
def lackOfCapacity (o : Output) : Option Bool :=
  (capBytes o.dataLen).bind fun dc => (occupied o dc).map fun occ => decide (occ > o.capacity)

/-- the output loop over the per-output results: first overflow / lack of capacity decides -/
def checkLacks : Nat → List (Option Bool) → CapV
  | _, [] => .ok
  | _, none :: _ => .overflow
  | i, some true :: _ => .insufficient i
  | i, some false :: rest => checkLacks (i + 1) rest

def checkOutputs (i : Nat) (outs : List Output) : CapV := checkLacks i (outs.map lackOfCapacity)

/-- `CapacityVerifier::verify`; `exempt` = `resolved_inputs.is_empty()` (cellbase) or some input uses the DAO type script -/
def capacityVerify (exempt : Bool) (inputCaps : List Nat) (outputs : List Output) : CapV :=
  if !exempt then
    match sumCapsL 0 inputCaps with
    | none => .overflow
    | some i =>
      match sumCapsL 0 (outputs.map (·.capacity)) with
      | none => .overflow
      | some o => if i < o then .outputsSumOverflow else checkOutputs 0 outputs
  else checkOutputs 0 outputs

/-! ### Whole verdict (block side and pool side share it; they differ in provider and env) -/

inductive Verdict where
  | accepted (cycles : Nat)
  | resolveErr (e : RErr)
  | timeErr (v : Since.V)
  | capErr (v : CapV)
  | scriptErr (code : Int)
  | cyclesExceeded
  deriving Repr, DecidableEq

/-- the contextual part of a transaction beyond its references -/
structure TxBody where
  refs : TxRefs
  sinces : List Nat
  outputs : List Output
  deriving Repr, DecidableEq

/-- what the chain context says about a live cell -/
structure CellFacts where
  info : Option Since.TxInfo
  capacity : Nat
  usesDao : Bool
  deriving Repr, DecidableEq

/-- everything the verdict may depend on -/
structure Ctx where
  provider : Provider
  seen : List OutPoint
  validHeader : Nat → Bool
  facts : OutPoint → CellFacts
  cfg : Since.Cfg
  headers : Since.HeaderDb
  env : Since.Env
  /-- the script oracle: exit code and cycles of the transaction's script groups, as a function of
  the resolved transaction (scripts see the resolved cells, deps and header deps only) -/
  script : TxBody → Resolved → Int × Nat
  maxCycles : Nat

/-- `resolve_transaction` followed by `ContextualTransactionVerifier::verify` -/
def verdict (c : Ctx) (tx : TxBody) : Verdict :=
  match resolveTx c.seen c.provider c.validHeader tx.refs with
  | .error e => .resolveErr e
  | .ok (r, _) =>
    let ins := (tx.sinces.zip r.inputs).map fun (s, op) => (s, (c.facts op).info)
    let deps := r.cellDeps.map fun op => (c.facts op).info
    match Since.timeRelativeVerify c.cfg c.headers c.env ins deps with
    | .ok =>
      let exempt := r.inputs.isEmpty || r.inputs.any (fun op => (c.facts op).usesDao)
      match capacityVerify exempt (r.inputs.map fun op => (c.facts op).capacity) tx.outputs with
      | .ok =>
        let (code, cycles) := c.script tx r
        if cycles > c.maxCycles then .cyclesExceeded
        else if code ≠ 0 then .scriptErr code
        else .accepted cycles
      | v => .capErr v
    | v => .timeErr v

end CkbVerif.Tx
