import CkbVerif.Gen.JsonMap
/-!
# JSON ↔ packed field maps (C15): what the generated table must satisfy, and the field-level conversions

`Gen/JsonMap.lean` is regenerated on every run from `util/jsonrpc-types/src/blockchain.rs`
(`impl From<packed::X> for X`, `impl From<X> for packed::X`) and the molecule schema.  This file states the
field-map discipline (`mapOk`) and the abstract field-level conversions the maps denote.  Core Lean only.
-/
namespace CkbVerif.JsonMap
open CkbVerif.Gen.JsonMap

/-- every element of `want` occurs exactly once in `got`, and nothing else occurs in `got` -/
def exactlyOnce (want got : List String) : Bool :=
  want.all (fun w => got.count w == 1) && got.all (fun g => want.contains g)

/-- a backward branch writes the optional extras (the `BlockV1` branch of `From<Block>`) -/
def writesExt (t : TypeMap) (b : List Entry) : Bool := b.any (fun e => t.extFields.contains e.packed)

/-- the packed fields a backward branch must write -/
def branchTargets (t : TypeMap) (b : List Entry) : List String :=
  t.packedFields ++ (if writesExt t b then t.extFields else [])

/-- the discipline of one type's field maps:
* forward: every declared packed field and every optional extra is READ by exactly one json field, and every
  field of the json struct is set exactly once (nothing dropped, duplicated, or left to `Default`);
* backward, per builder branch: every declared packed field (plus the extras in the branch that carries them) is
  WRITTEN exactly once, from exactly the json field that read it, with the same conversion kind; the json
  fields it consumes are distinct;
* if the type has optional extras, some branch writes them and some branch does not (present / absent). -/
def mapOk (t : TypeMap) : Bool :=
  exactlyOnce (t.packedFields ++ t.extFields) (t.fwd.map (·.packed)) &&
  exactlyOnce t.jsonFields (t.fwd.map (·.json)) &&
  !t.back.isEmpty &&
  t.back.all (fun b =>
    exactlyOnce (branchTargets t b.2) (b.2.map (·.packed)) &&
    b.2.all (fun e => t.fwd.contains e) &&
    b.2.all (fun e => (b.2.map (·.json)).count e.json == 1)) &&
  (t.extFields.isEmpty || (t.back.any (fun b => writesExt t b.2) && t.back.any (fun b => !writesExt t b.2)))

/-- packed record → json record through a forward map (`V` = field values; conversions of the values themselves are
the scalar / nested round trips proved elsewhere) -/
def applyFwd {V : Type} (dflt : V) (fwd : List Entry) (rec : String → V) : String → V :=
  fun j => match fwd.find? (fun e => e.json == j) with
    | some e => rec e.packed
    | none => dflt

/-- json record → packed record through one backward branch -/
def applyBack {V : Type} (dflt : V) (back : List Entry) (jrec : String → V) : String → V :=
  fun p => match back.find? (fun e => e.packed == p) with
    | some e => jrec e.json
    | none => dflt

/-- canonical text of a map (what the harness prints after probing the real conversions) -/
def showMap (es : List Entry) : String :=
  ",".intercalate (es.map fun e => e.json ++ "=" ++ e.packed)

end CkbVerif.JsonMap
