import CkbVerif.Model.Proto
/-!
# `GetLastStateProofProcess::execute`: the guards in front of the sampling (C16, stream `proto`)

`util/light-client-protocol-server/src/components/get_last_state_proof.rs`, in the order of the
code, up to the first check that needs the chain's total difficulties: the "too many samples" limit,
`is_main_chain(last_hash)` (else `reply_tip_state`), `start_number > last_number` (since /repo
54aa098), strictly increasing difficulties, `difficulty_boundary` above the last difficulty.
`chain` = the main-chain block hashes by number.  `none` = a `u64` operation overflows (panic).
Core Lean only.
-/
namespace CkbVerif.Proto
open CkbVerif.Molecule CkbVerif.Gen.Codec

inductive Glsp
  /-- `MalformedProtocolMessage "too many samples"` -/
  | tooMany
  /-- `last_hash` is not on the main chain: `reply_tip_state` (a `SendLastStateProof` for the tip) -/
  | tipState
  /-- `InvalidRequest`: the start block number is greater than the last block number -/
  | startAboveLast
  /-- `InvalidRequest`: the difficulties should be monotonically increasing -/
  | unsorted
  /-- `InvalidRequest`: the difficulty boundary should be greater than all difficulties -/
  | boundary
  /-- every guard that needs no difficulty data of the chain passed; `last` = number of the last block -/
  | proceed (last : Nat)
deriving Repr, DecidableEq

/-- `difficulties.windows(2).any(|d| d[0] >= d[1])` negated -/
def strictlyIncreasing : List Nat → Bool
  | a :: b :: rest => decide (a < b) && strictlyIncreasing (b :: rest)
  | _ => true

/-- the items of a fixvec of 32-byte items as little-endian numbers -/
def u256Items (bs : Bytes) : List Nat := (chunk 32 (num bs) (bs.drop 4)).map leNat

/-- `difficulties.last().map(|d| *d >= difficulty_boundary).unwrap_or(false)` -/
def lastAtLeast (diffs : List Nat) (boundary : Nat) : Bool :=
  match diffs.getLast? with
  | some d => decide (d ≥ boundary)
  | none => false

def glspGuards (chain : List Bytes) (bs : Bytes) : Option Glsp :=
  let inner := bs.drop 4
  let lastHash := fld inner 0
  let start := leNat (fld inner 2)
  let lastN := leNat (fld inner 3)
  let boundary := leNat (fld inner 4)
  let diffs := u256Items (fld inner 5)
  match tooManySamples (num (fld inner 5)) lastN with
  | none => none
  | some true => some .tooMany
  | some false =>
    match chain.findIdx? (· == lastHash) with
    | none => some .tipState
    | some lastNumber =>
      match span lastNumber start with
      | none => none
      | some none => some .startAboveLast
      | some (some _) =>
        if !strictlyIncreasing diffs then some .unsorted
        else if lastAtLeast diffs boundary then some .boundary
        else some (.proceed lastNumber)

end CkbVerif.Proto
