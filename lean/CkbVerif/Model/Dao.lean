import CkbVerif.Model.Arith
import CkbVerif.Gen.Reward

/-!
# DAO field arithmetic (C06)

Follows, line by line, `util/dao/src/lib.rs` (`DaoCalculator`), `util/dao/utils/src/lib.rs`
(`pack_dao_data` / `extract_dao_data`), `util/gen-types/src/extension/capacity.rs`
(`CellOutput::occupied_capacity`), `util/types/src/core/extras.rs` (`EpochExt::block_reward`,
`EpochExt::secondary_block_issuance`) as they are:

* `Capacity` is a `u64` with `safe_*` operations returning `Err(Overflow)`;
* the three products `g2 * parent_u`, `parent_ar * g2`, `counted * withdrawing_ar` are `u128`
  products of two `u64` values (they cannot overflow) followed by a `u128` floor division which
  *panics* on a zero divisor (`parent_c = 0`, `deposit_ar = 0`);
* the two issuance quotients are narrowed with `u64::try_from` (`Err(Overflow)`), the withdraw
  quotient with `as u64` (silent truncation modulo 2^64 — followed here as written);
* the order of the checks is the order of the `?`s in the source, so the class of the first
  failure (`overflow` / `panic` / `invalidOutPoint`) is the one the code reports.

Core Lean only.
-/
namespace CkbVerif.Dao
open CkbVerif.Arith

/-- failure classes: `DaoError::Overflow` / `CapacityError::Overflow`, a Rust panic (division by
zero, `+` overflow with overflow checks on), `DaoError::InvalidOutPoint`; and, for
`transaction_maximum_withdraw` on raw inputs (`Model/DaoRaw.lean`), `DaoError::InvalidHeader`
(a header the data loader does not know) and `DaoError::InvalidDaoFormat` (the witness of a
withdrawing input) -/
inductive Err where
  | overflow
  | panic
  | invalidOutPoint
  | invalidHeader
  | invalidDaoFormat
deriving Repr, DecidableEq

abbrev R := Except Err

/-- a `safe_*` / `checked_*` / `try_from` result: `none` is `Err(Overflow)` -/
@[inline] def ovf (o : Option Nat) : R Nat :=
  match o with
  | some v => .ok v
  | none => .error .overflow

/-- a primitive operation with overflow checks / a division: `none` is a panic -/
@[inline] def pnc (o : Option Nat) : R Nat :=
  match o with
  | some v => .ok v
  | none => .error .panic

def BYTE_SHANNONS : Nat := CkbVerif.Gen.Reward.BYTE_SHANNONS

def satoshiRatio : Ratio :=
  ⟨CkbVerif.Gen.Reward.SATOSHI_RATIO_NUMER, CkbVerif.Gen.Reward.SATOSHI_RATIO_DENOM⟩

/-- `Capacity::bytes(val)` -/
def capBytes (val : Nat) : R Nat := ovf (chk64 (val * BYTE_SHANNONS))

/-! ### the header field -/

/-- `(ar, c, s, u)` of a header's `dao` field -/
structure DaoField where
  ar : Nat
  c : Nat
  s : Nat
  u : Nat
deriving Repr, DecidableEq

/-- `LittleEndian::write_u64`-style: `k` little-endian bytes of `n` -/
def leBytes : Nat → Nat → List Nat
  | 0, _ => []
  | k + 1, n => (n % 256) :: leBytes k (n / 256)

/-- `LittleEndian::read_u64`-style: value of little-endian bytes -/
def leVal : List Nat → Nat
  | [] => 0
  | b :: bs => b + 256 * leVal bs

/-- `pack_dao_data(ar, c, s, u)`: bytes 0..8 = c, 8..16 = ar, 16..24 = s, 24..32 = u -/
def pack (d : DaoField) : List Nat :=
  leBytes 8 d.c ++ leBytes 8 d.ar ++ leBytes 8 d.s ++ leBytes 8 d.u

/-- `extract_dao_data` -/
def extract (bs : List Nat) : DaoField :=
  { c := leVal ((bs.drop 0).take 8)
    ar := leVal ((bs.drop 8).take 8)
    s := leVal ((bs.drop 16).take 8)
    u := leVal ((bs.drop 24).take 8) }

/-! ### cells and occupied capacity -/

/-- what the arithmetic needs of a `CellOutput` + its data -/
structure Cell where
  /-- `capacity` field (u64 shannons) -/
  cap : Nat
  /-- `lock.args` length in bytes -/
  lockArgs : Nat
  /-- `type_.args` length if there is a type script -/
  typeArgs : Option Nat
  /-- data length in bytes (`CellMeta::data_bytes` for inputs, `data.len()` for outputs) -/
  dataBytes : Nat
deriving Repr, DecidableEq

/-- `Script::occupied_capacity`: `Capacity::bytes(args.len() + 32 + 1)` -/
def scriptOccupied (args : Nat) : R Nat := capBytes (args + CkbVerif.Gen.Reward.SCRIPT_FIXED_BYTES)

/-- `CellOutput::occupied_capacity(data_capacity)` -/
def occupiedWith (c : Cell) (dataCap : Nat) : R Nat := do
  let x0 ← capBytes CkbVerif.Gen.Reward.CELL_CAPACITY_FIELD_BYTES
  let x1 ← ovf (safeAdd x0 dataCap)
  let l ← scriptOccupied c.lockArgs
  let x2 ← ovf (safeAdd l x1)
  let t ← (match c.typeArgs with
    | some a => scriptOccupied a
    | none => pure 0)
  ovf (safeAdd t x2)

/-- `Capacity::bytes(data.len()).and_then(|c| output.occupied_capacity(c))` /
`CellMeta::occupied_capacity` -/
def occupied (c : Cell) : R Nat := do
  let d ← capBytes c.dataBytes
  occupiedWith c d

/-- how an input is treated by the calculator -/
inductive InKind where
  /-- any ordinary cell -/
  | plain
  /-- genesis cellbase output locked with `satoshi_pubkey_hash` (`modified_occupied_capacity`) -/
  | satoshi
  /-- NervosDAO cell in the withdrawing phase with well-formed witness / header deps:
  deposit header `(number, ar)`, withdrawing header `(number, ar)` -/
  | daoWithdraw (depNum depAr wdNum wdAr : Nat)
deriving Repr, DecidableEq

structure Input where
  cell : Cell
  kind : InKind
deriving Repr, DecidableEq

structure Tx where
  inputs : List Input
  outputs : List Cell
deriving Repr

/-- `modified_occupied_capacity` -/
def modifiedOccupied (i : Input) : R Nat :=
  match i.kind with
  | .satoshi => ovf (safeMulRatio i.cell.cap satoshiRatio)
  | _ => occupied i.cell

/-- `calculate_maximum_withdraw(output, output_data_capacity, deposit, withdrawing)` once both
headers are found -/
def maxWithdrawWith (c : Cell) (dataCap depNum depAr wdNum wdAr : Nat) : R Nat := do
  if depNum ≥ wdNum then throw .invalidOutPoint
  let occ ← occupiedWith c dataCap
  let counted ← ovf (safeSub c.cap occ)
  -- u128 product of two u64 (cannot overflow), u128 division (panics on 0), `as u64`
  let q ← pnc (divChk (counted * wdAr) depAr)
  let withdrawCounted := q % U64
  ovf (safeAdd withdrawCounted occ)

/-- the per-input summand of `transaction_maximum_withdraw` -/
def inputMaxWithdraw (i : Input) : R Nat :=
  match i.kind with
  | .daoWithdraw dn da wn wa => do
    let d ← capBytes i.cell.dataBytes
    maxWithdrawWith i.cell d dn da wn wa
  | _ => pure i.cell.cap

/-- a `try_fold(Capacity::zero(), |acc, x| f(x).and_then(|c| acc.safe_add(c)))` -/
def sumR {α : Type} (f : α → R Nat) : List α → Nat → R Nat
  | [], acc => pure acc
  | x :: xs, acc => do
    let c ← f x
    let acc' ← ovf (safeAdd acc c)
    sumR f xs acc'

/-- `transaction_maximum_withdraw` -/
def txMaxWithdraw (t : Tx) : R Nat := sumR inputMaxWithdraw t.inputs 0

/-- `TransactionView::outputs_capacity` -/
def outputsCapacity (t : Tx) : R Nat := sumR (fun (c : Cell) => pure c.cap) t.outputs 0

/-- `transaction_fee` -/
def transactionFee (t : Tx) : R Nat := do
  let m ← txMaxWithdraw t
  let o ← outputsCapacity t
  ovf (safeSub m o)

/-- `input_occupied_capacities` -/
def inputOccupied (t : Tx) : R Nat := sumR modifiedOccupied t.inputs 0

/-- per-transaction part of `added_occupied_capacities` -/
def txAddedOccupied (t : Tx) : R Nat := sumR occupied t.outputs 0

/-- `added_occupied_capacities` -/
def addedOccupied (txs : List Tx) : R Nat := sumR txAddedOccupied txs 0

/-- the freed total at the top of `dao_field_with_current_epoch` -/
def freedOccupied (txs : List Tx) : R Nat := sumR inputOccupied txs 0

def txInputCapacities (t : Tx) : R Nat := sumR (fun (i : Input) => pure i.cell.cap) t.inputs 0

/-- `withdrawed_interests` -/
def withdrawedInterests (txs : List Tx) : R Nat := do
  let m ← sumR txMaxWithdraw txs 0
  let i ← sumR txInputCapacities txs 0
  ovf (safeSub m i)

/-! ### epoch issuance (inputs of the rule; the epoch arithmetic itself belongs to C07) -/

structure Epoch where
  start : Nat
  length : Nat
  base : Nat
  rem : Nat
deriving Repr, DecidableEq

/-- `EpochExt::block_reward(number)` -/
def blockReward (e : Epoch) (number : Nat) : R Nat := do
  if number ≥ e.start then
    let hi ← pnc (chk64 (e.start + e.rem))
    if number < hi then ovf (safeAdd e.base 1) else pure e.base
  else pure e.base

/-- `EpochExt::secondary_block_issuance(number, secondary_epoch_issuance)` -/
def secondaryIssuance (e : Epoch) (number ser : Nat) : R Nat := do
  let g2 ← pnc (divChk ser e.length)
  let r ← pnc (modChk ser e.length)
  if number ≥ e.start then
    let hi ← pnc (chk64 (e.start + r))
    if number < hi then ovf (safeAdd g2 1) else pure g2
  else pure g2

/-! ### the accumulation rule -/

/-- `g2 * parent_u / parent_c` narrowed with `u64::try_from` (miner's share of secondary issuance) -/
def minerIssuance (g2 parentU parentC : Nat) : R Nat := do
  let q ← pnc (divChk (g2 * parentU) parentC)
  ovf (chk64 q)

/-- the arithmetic tail of `dao_field_with_current_epoch`, given the per-block totals -/
def daoUpdate (p : DaoField) (primary g2 added freed interests : Nat) : R DaoField := do
  let g ← ovf (safeAdd primary g2)
  let miner ← minerIssuance g2 p.u p.c
  let ndao ← ovf (safeSub g2 miner)
  let c' ← ovf (safeAdd p.c g)
  let u1 ← ovf (safeAdd p.u added)
  let u' ← ovf (safeSub u1 freed)
  let s1 ← ovf (safeAdd p.s ndao)
  let s' ← ovf (safeSub s1 interests)
  let inc128 ← pnc (divChk (p.ar * g2) p.c)
  let inc ← ovf (chk64 inc128)
  let ar' ← ovf (chk64 (p.ar + inc))
  pure { ar := ar', c := c', s := s', u := u' }

/-- `dao_field_with_current_epoch(rtxs, parent, current_block_epoch)` -/
def daoField (ser : Nat) (e : Epoch) (parentNumber : Nat) (p : DaoField) (txs : List Tx) : R DaoField := do
  let freed ← freedOccupied txs
  let added ← addedOccupied txs
  let interests ← withdrawedInterests txs
  let n ← pnc (chk64 (parentNumber + 1))
  let g2 ← secondaryIssuance e n ser
  let primary ← blockReward e n
  daoUpdate p primary g2 added freed interests

/-- `primary_block_reward(target)` given the target's epoch -/
def primaryBlockReward (e : Epoch) (targetNumber : Nat) : R Nat := blockReward e targetNumber

/-- `secondary_block_reward(target)` given the target's epoch and the dao field of its parent -/
def secondaryBlockReward (ser : Nat) (e : Epoch) (targetNumber : Nat) (targetParent : DaoField) : R Nat := do
  if targetNumber = 0 then pure 0 else
  let g2 ← secondaryIssuance e targetNumber ser
  minerIssuance g2 targetParent.u targetParent.c

end CkbVerif.Dao
