import CkbVerif.Gen.Cycles

/-!
C05 — executable model of the cycle accounting around script execution, following
`script/src/verify.rs` (`TransactionScriptsVerifier::{verify, resumable_verify, resume_from_state,
complete, resumable_verify_with_signal}`, `chunk_run`, `chunk_run_with_signal`) and the limit
arithmetic of `script/src/scheduler.rs` (`run`, `iterate_outer`: the limit of one `run` call is
*relative to that call*; every executed step is added to `total_cycles`; a step that would pass the
limit is not executed and the run ends with `CyclesExceeded`; `suspend`/`resume` of the whole
scheduler charge nothing).

A script group is an abstract deterministic trace: the list of the costs of its atomic steps (for a
multi-VM group: the scheduler's interleaving, which is deterministic) and the exit code of the root
VM. The VM itself (instruction semantics, snapshot/restore) is not modelled: that a resumed scheduler
continues the same trace is an assumption (observed by the correspondence harness, not proved).
Core Lean only.
-/
namespace CkbVerif.Cycles

def U64 : Nat := 2 ^ 64

structure Group where
  steps : List Nat
  code : Int
  deriving Repr, DecidableEq

def Group.cost (g : Group) : Nat := g.steps.sum

inductive Err where
  /-- `ScriptError::ExceededMaximumCycles(limit)` -/
  | exceeded (limit : Nat)
  /-- `ScriptError::ValidationFailure(exit_code)` -/
  | validation (code : Int)
  /-- `ScriptError::Other("expect invalid cycles …")` -/
  | other
  /-- `ScriptError::CyclesOverflow` -/
  | overflow
  deriving Repr, DecidableEq

/-- execute steps while they fit into `limit` (relative): (cycles consumed by this run, rest) -/
def runSteps : List Nat → Nat → Nat × List Nat
  | [], _ => (0, [])
  | k :: rest, limit =>
    if k ≤ limit then
      let (c, r) := runSteps rest (limit - k)
      (k + c, r)
    else (0, k :: rest)

/-- suspended state of a group: cycles consumed so far in the group (`total_cycles`) and the rest of
the trace -/
structure GState where
  consumed : Nat
  rest : List Nat
  deriving Repr, DecidableEq

inductive Chunk where
  /-- `ChunkState::Completed(total cycles of the group, cycles consumed by this call)` -/
  | completed (used consumed : Nat)
  | suspended (s : GState)
  deriving Repr, DecidableEq

/-- `chunk_run(group, max_cycles, state)` -/
def chunkRun (g : Group) (limit : Nat) (st : Option GState) : Except Err Chunk :=
  let s := st.getD ⟨0, g.steps⟩
  let (c, r) := runSteps s.rest limit
  if r.isEmpty then
    (if g.code = 0 then .ok (.completed (s.consumed + c) c) else .error (.validation g.code))
  else .ok (.suspended ⟨s.consumed + c, r⟩)

/-- `run(group, max_cycles)` (the one-shot path of `verify`) -/
def runFull (g : Group) (limit : Nat) : Except Err Nat :=
  let (c, r) := runSteps g.steps limit
  if r.isEmpty then (if g.code = 0 then .ok c else .error (.validation g.code))
  else .error (.exceeded limit)

/-- the built-in TYPE_ID system script (`script/src/type_id.rs` `TypeIdSystemScript::verify`, called by
`verify_script_group`, `verify_group_with_chunk` and `verify_group_with_signal` for a group whose
script is `TYPE_ID_CODE_HASH`/`Type`) as coded: first `max_cycles < TYPE_ID_CYCLES →
ExceededMaximumCycles(max_cycles)`, then the checks of args / cell count / creation hash (abstracted
to the exit code they produce: `0`, `ERROR_ARGS`, `ERROR_TOO_MANY_CELLS`, `ERROR_INVALID_INPUT_HASH`)
→ `ValidationFailure(code)`, else `Ok(TYPE_ID_CYCLES)` -/
def typeIdVerify (maxCycles : Nat) (code : Int) : Except Err Nat :=
  if maxCycles < Gen.Cycles.TYPE_ID_CYCLES then .error (.exceeded maxCycles)
  else if code = 0 then .ok Gen.Cycles.TYPE_ID_CYCLES
  else .error (.validation code)

/-- `verify_group_with_chunk` for the TYPE_ID script: `Ok(c) → Completed(c, c)`,
`ExceededMaximumCycles → Suspended(None)` (no state: the next call starts it again), other errors
passed on. `none` = `ChunkState::suspended_type_id()` -/
def typeIdChunk (maxCycles : Nat) (code : Int) : Except Err (Option (Nat × Nat)) :=
  match typeIdVerify maxCycles code with
  | .ok c => .ok (some (c, c))
  | .error (.exceeded _) => .ok none
  | .error e => .error e

/-- the TYPE_ID system script seen as a script group: ONE atomic step of `TYPE_ID_CYCLES` followed by
the exit code (`Props/C05.lean` `type_id_group_is_single_step`: `run`/`chunk_run` on this group are
exactly `typeIdVerify`/`typeIdChunk`) -/
def typeIdGroup (code : Int) : Group := ⟨[Gen.Cycles.TYPE_ID_CYCLES], code⟩

/-- `wrapping_cycles_add` -/
def cyclesAdd (a b : Nat) : Except Err Nat := if a + b < U64 then .ok (a + b) else .error .overflow

/-- `verify(max_cycles)` -/
def verifyFrom (max : Nat) : List Group → Nat → Except Err Nat
  | [], cycles => .ok cycles
  | g :: rest, cycles =>
    match runFull g (max - cycles) with
    | .error e => .error e
    | .ok used =>
      match cyclesAdd cycles used with
      | .error e => .error e
      | .ok c => verifyFrom max rest c

def verify (gs : List Group) (max : Nat) : Except Err Nat := verifyFrom max gs 0

/-- `TransactionState` -/
structure TxState where
  current : Nat
  state : GState
  currentCycles : Nat
  limitCycles : Nat
  deriving Repr, DecidableEq

inductive VResult where
  | completed (cycles : Nat)
  | suspended (s : TxState)
  deriving Repr, DecidableEq

/-- the loop over fresh groups shared by `resumable_verify` and the tail of `resume_from_state`:
`idx` = index of the head of the list, `used` = cycles consumed by this call so far,
`cycles` = running total -/
def resumableLoop (limit : Nat) : List Group → Nat → Nat → Nat → Except Err VResult
  | [], _, _, cycles => .ok (.completed cycles)
  | g :: rest, idx, used, cycles =>
    if limit < used then .error .other
    else
      let remain := limit - used
      match chunkRun g remain none with
      | .error e => .error e
      | .ok (.suspended s) => .ok (.suspended ⟨idx, s, cycles, remain⟩)
      | .ok (.completed u c) =>
        match cyclesAdd used c with
        | .error e => .error e
        | .ok used' =>
          -- `resumable_verify` adds `used_cycles`, the tail of `resume_from_state` adds
          -- `consumed_cycles`: equal for a group started in this call
          match cyclesAdd cycles u with
          | .error e => .error e
          | .ok cycles' => resumableLoop limit rest (idx + 1) used' cycles'

/-- `resumable_verify(limit_cycles)` -/
def resumableVerify (gs : List Group) (limit : Nat) : Except Err VResult :=
  resumableLoop limit gs 0 0 0

/-- `resume_from_state(state, limit_cycles)` -/
def resumeFromState (gs : List Group) (st : TxState) (limit : Nat) : Except Err VResult :=
  match gs[st.current]? with
  | none => .error .other
  | some g =>
    match chunkRun g limit (some st.state) with
    | .error e => .error e
    | .ok (.suspended s) => .ok (.suspended ⟨st.current, s, st.currentCycles, limit⟩)
    | .ok (.completed u c) =>
      match cyclesAdd st.currentCycles u with
      | .error e => .error e
      | .ok cycles => resumableLoop limit (gs.drop (st.current + 1)) (st.current + 1) c cycles

/-- the tail loop of `complete` -/
def completeLoop (max : Nat) : List Group → Nat → Except Err Nat
  | [], cycles => .ok cycles
  | g :: rest, cycles =>
    if max < cycles then .error .other
    else
      match chunkRun g (max - cycles) none with
      | .error e => .error e
      | .ok (.suspended _) => .error (.exceeded max)
      | .ok (.completed u _) =>
        match cyclesAdd cycles u with
        | .error e => .error e
        | .ok c => completeLoop max rest c

/-- `complete(snap, max_cycles)` as coded: the resumed group gets `max_cycles − current_cycles`, the
cycles already consumed inside it (`snap.state.consumed`) are not subtracted -/
def complete (gs : List Group) (st : TxState) (max : Nat) : Except Err Nat :=
  match gs[st.current]? with
  | none => .error .other
  | some g =>
    if max < st.currentCycles then .error (.exceeded max)
    else
      match chunkRun g (max - st.currentCycles) (some st.state) with
      | .error e => .error e
      | .ok (.suspended _) => .error (.exceeded max)
      | .ok (.completed u _) =>
        match cyclesAdd st.currentCycles u with
        | .error e => .error e
        | .ok c => completeLoop max (gs.drop (st.current + 1)) c

/-- one group under `chunk_run_with_signal`: the child runs `scheduler.run(Pause(pause, max_cycles))`;
a pause stops it after some steps (here: `pauses` gives, per run, how many cycles may be consumed
before the pause signal is observed), and every `Resume` calls `run` again **with the same
`max_cycles`** as a fresh relative limit. `none` in the list = no pause during that run. -/
def signalGroup (g : Group) (max : Nat) : List (Option Nat) → GState → Nat → Except Err Nat
  | _, _, 0 => .error .other
  | pauses, s, fuel + 1 =>
    match pauses with
    | some p :: more =>
      -- run until the pause point (but never past the limit)
      let (c, r) := runSteps s.rest (min p max)
      if r.isEmpty then (if g.code = 0 then .ok (s.consumed + c) else .error (.validation g.code))
      else if p < max then signalGroup g max more ⟨s.consumed + c, r⟩ fuel
      else .error (.exceeded max)
    | _ =>
      let (c, r) := runSteps s.rest max
      if r.isEmpty then (if g.code = 0 then .ok (s.consumed + c) else .error (.validation g.code))
      else .error (.exceeded max)

/-- `resumable_verify_with_signal(limit_cycles, rx)` with one pause schedule per group -/
def signalVerify (limit : Nat) : List (Group × List (Option Nat)) → Nat → Except Err Nat
  | [], cycles => .ok cycles
  | (g, ps) :: rest, cycles =>
    if limit < cycles then .error .other
    else
      match signalGroup g (limit - cycles) ps ⟨0, g.steps⟩ (ps.length + 1) with
      | .error e => .error e
      | .ok used =>
        match cyclesAdd cycles used with
        | .error e => .error e
        | .ok c => signalVerify limit rest c

/-- `resume_from_state` iterated: one call per limit of the list, each from the state returned by the
previous call, until a call completes or fails (or the limits run out: still suspended) -/
def driveFrom (gs : List Group) : List Nat → TxState → Except Err VResult
  | [], st => .ok (.suspended st)
  | l :: more, st =>
    match resumeFromState gs st l with
    | .ok (.suspended st') => driveFrom gs more st'
    | r => r

/-- the resumable API driven over a list of per-call limits: `resumable_verify(l)`, then
`resume_from_state(state, l')` for every further limit -/
def drive (gs : List Group) (l : Nat) (more : List Nat) : Except Err VResult :=
  match resumableVerify gs l with
  | .ok (.suspended st) => driveFrom gs more st
  | r => r

end CkbVerif.Cycles
