import CkbVerif.Model.Reorg
/-!
# The re-adds of `update_tx_pool_for_reorg` as the code does them (`PoolMap::add_entry`)

`Model/Reorg.lean` models two things optimistically: `remove_by_detached_proposal`'s re-add as pending
"always succeeds" (`detachProposal` only changes the stage), and `check_and_record_ancestors`'s eviction
of cell-ref parents is "a refusal" (`readdOne`). This file follows the Rust code instead
(tx-pool/src/component/pool_map.rs `add_entry` / `check_and_record_ancestors` / `get_tx_ancenstors`,
tx-pool/src/pool.rs `remove_by_detached_proposal`, tx-pool/src/process.rs `readd_detached_tx`):

* `addEntry` = `PoolMap::add_entry`: nothing happens when the id is pooled; the link parents are the
  pooled creators of the inputs and cell deps plus the pooled entries that have one of the inputs as a
  cell dep (`cell_ref_parents`); since /repo 10e306f (F33) a cell-ref parent that is also NEEDED — it
  created an out-point the entry spends or references — is taken out of `cell_ref_parents` first
  (`evictableParents`); `ancestors_count` = |closure of the parents| + 1; within
  `max_ancestors_count` the entry is inserted; otherwise, if `ancestors_count - |cell_ref_parents|` is
  within the limit, cell-ref parents are evicted WITH their descendants (`remove_entry_and_descendants`)
  in evict-key order (`evictPref`, then pool order), one unit of `ancestors_count` per candidate
  (`saturating_sub(1)`, whether or not the candidate was still pooled), the candidate leaves `parents`;
  then the insertion is refused if one of the REMAINING parents is no longer pooled (the evictions stay:
  /repo b7267ec), else the entry is inserted; otherwise `ExceededMaximumAncestorsCount`.
  `addEntryPreF33` / `readdOneRPreF33` / `reorgRPreF33` keep the function as it was before 10e306f (every
  cell-ref parent is a candidate) for the witness theorem `readd_evicts_creator_of_own_input`.
* `detachProposalR` = `remove_by_detached_proposal` for one id: a non-pending entry with that id is taken
  out with its descendants (`remove_entry_and_descendants`); they are re-added as pending one by one with
  `add_pending` = `addEntry`, in the order of `ancestors_count` (model: the number of pooled ancestors over
  the derived links before the removal, stable; the Rust code sorts the maintained statistic with
  `sort_unstable_by_key`), and a refused one is DROPPED (`let ret = self.add_pending(entry)` is only logged).
* `readdOneR` = one turn of `readd_detached_tx` with `_submit_entry` = `addEntry` at the stage of the new window.
* `updateR` / `reorgR` = the write-locked section with these.

Core Lean only.
-/
namespace CkbVerif.Reorg
open CkbVerif.Pool (calcRelation)

/-- the pooled link parents `get_tx_ancenstors` finds for an entry that is about to be inserted -/
def linkParentsE (q : Pool) (e : PEnt) : List Nat := (q.filter fun x => refs x e).map (·.id)

/-- `cell_ref_parents`: pooled entries that have one of the new entry's inputs as a cell dep -/
def cellRefParents (q : Pool) (e : PEnt) : List Nat := (q.filter fun x => e.spent.any x.deps.contains).map (·.id)

/-- the eviction candidates in evict-key order: the preference list first, then pool order -/
def evictOrder (pref cands : List Nat) : List Nat :=
  (pref.filter cands.contains) ++ (cands.filter fun c => !pref.contains c)

/-- the `while ancestors_count > max` loop over the candidates: (pool, remaining parents, count) -/
def evictLoop (maxAnc : Nat) : List Nat → Nat → Pool → List Nat → Pool × List Nat × Nat
  | [], cnt, q, ps => (q, ps, cnt)
  | c :: cs, cnt, q, ps =>
    if cnt > maxAnc then evictLoop maxAnc cs (cnt - 1) (removeWithDesc q c) (ps.filter (· != c))
    else (q, ps, cnt)

/-- `needed` of /repo 10e306f: `x` created an out-point the entry spends or references -/
def neededParent (e x : PEnt) : Bool := e.spent.any x.outs.contains || e.deps.any x.outs.contains

/-- the ids of the pooled needed parents -/
def neededIds (q : Pool) (e : PEnt) : List Nat := (q.filter (neededParent e)).map (·.id)

/-- `cell_ref_parents` after the filter of /repo 10e306f: the cell-ref parents that are not needed -/
def evictableParents (q : Pool) (e : PEnt) : List Nat :=
  (cellRefParents q e).filter fun id => !(neededIds q e).contains id

/-- `PoolMap::add_entry` over a given choice of eviction candidates: the pool afterwards and `succ`
    (the entry was inserted) -/
def addEntryWith (cands : Pool → PEnt → List Nat) (maxAnc : Nat) (pref : List Nat) (q : Pool) (e : PEnt) : Pool × Bool :=
  if hasId q e.id then (q, false) else
  let parents := linkParentsE q e
  let cnt := (ancestorsOf q parents).length + 1
  if cnt ≤ maxAnc then (q ++ [e], true) else
  let crp := cands q e
  if cnt - crp.length ≤ maxAnc then
    let r := evictLoop maxAnc (evictOrder pref crp) cnt q parents
    if r.2.1.all (hasId r.1) then (r.1 ++ [e], true) else (r.1, false)
  else (q, false)

/-- `PoolMap::add_entry` as it is (since /repo 10e306f a needed parent is never an eviction candidate) -/
def addEntry (maxAnc : Nat) (pref : List Nat) (q : Pool) (e : PEnt) : Pool × Bool :=
  addEntryWith evictableParents maxAnc pref q e

/-- `PoolMap::add_entry` as it was before /repo 10e306f (F33): every cell-ref parent is a candidate -/
def addEntryPreF33 (maxAnc : Nat) (pref : List Nat) (q : Pool) (e : PEnt) : Pool × Bool :=
  addEntryWith cellRefParents maxAnc pref q e

/-- insertion by key, stable (an equal key stays behind the earlier one) -/
def insertByKey (k : PEnt → Nat) (x : PEnt) : List PEnt → List PEnt
  | [] => [x]
  | y :: ys => if k x < k y then x :: y :: ys else y :: insertByKey k x ys

def sortByKey (k : PEnt → Nat) (l : List PEnt) : List PEnt := l.reverse.foldl (fun acc x => insertByKey k x acc) []

/-- `ancestors_count - 1` of a pooled entry over the derived links -/
def ancCount (p : Pool) (x : PEnt) : Nat := (ancestorsOf p (parentIds p x.id)).length

/-- what `remove_entry_and_descendants(id)` takes out, in the order of the re-adds -/
def detachedGroup (p : Pool) (id : Nat) : List PEnt :=
  let ds := descOf p id
  sortByKey (ancCount p) (p.filter fun x => x.id == id || ds.contains x.id)

/-- `remove_by_detached_proposal` for one id, with the real re-add -/
def detachProposalR (maxAnc : Nat) (pref : List Nat) (p : Pool) (id : Nat) : Pool :=
  match p.find? (·.id == id) with
  | some e =>
    if e.status == 0 then p else
    (detachedGroup p id).foldl (fun q x => (addEntry maxAnc pref q { x with status := 0 }).1) (removeWithDesc p id)
  | none => p

/-- `_update_tx_pool_for_reorg` up to `remove_expired` with the real `remove_by_detached_proposal` -/
def updateR (p : Pool) (a : Args) : Pool :=
  let p1 := a.attached.foldl removeCommitted p
  let p2 := resolveHeaderDeps p1 a.detachedHeaders
  let p3 := a.detachedProposals.foldl (detachProposalR a.maxAnc a.evictPref) p2
  let p4 := p3.map (moveStage a)
  a.expired.foldl removeWithDesc p4

/-- one turn of `readd_detached_tx` with the real `_submit_entry` -/
def readdOneR (a : Args) (live : List Nat) (q : Pool) (t : CTx) : Pool :=
  if resolves q a live t && t.ok then (addEntry a.maxAnc a.evictPref q (entryOf a t)).1 else q

def readdR (a : Args) (live : List Nat) (q : Pool) (l : List CTx) : Pool := l.foldl (readdOneR a live) q

/-- the write-locked section of `update_tx_pool_for_reorg` with the real re-adds -/
def reorgR (p : Pool) (a : Args) : Pool := readdR a (newLive a) (limitSize a (updateR p a)) (retain a)

/-! ### the section as it was before /repo 10e306f (witness `readd_evicts_creator_of_own_input`) -/

def readdOneRPreF33 (a : Args) (live : List Nat) (q : Pool) (t : CTx) : Pool :=
  if resolves q a live t && t.ok then (addEntryPreF33 a.maxAnc a.evictPref q (entryOf a t)).1 else q

def readdRPreF33 (a : Args) (live : List Nat) (q : Pool) (l : List CTx) : Pool := l.foldl (readdOneRPreF33 a live) q

/-- the write-locked section with `readd_detached_tx`'s `_submit_entry` as it was before /repo 10e306f -/
def reorgRPreF33 (p : Pool) (a : Args) : Pool := readdRPreF33 a (newLive a) (limitSize a (updateR p a)) (retain a)

end CkbVerif.Reorg
