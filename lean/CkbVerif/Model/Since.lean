import CkbVerif.Gen.Tx

/-!
C04 — executable model of the time-related transaction checks, following the Rust code as it is:

* `verification/src/transaction_verifier.rs`: `Since` (`is_absolute`, `flags_is_valid`,
  `extract_metric`), `SinceVerifier::{verify, verify_absolute_lock, verify_relative_lock,
  block_median_time, parent_median_time}`, `MaturityVerifier::verify`,
  `TimeRelativeTransactionVerifier::verify` (maturity first, then since)
* `script/src/verify_env.rs`: `TxVerifyEnv::{block_number, epoch_number, parent_hash, epoch}`
* `util/types/src/core/extras.rs`: `EpochNumberWithFraction::{number, index, length, normalize,
  to_rational, is_well_formed_increment, minimum_epoch_number_after_n_blocks}`
* `util/rational/src/lib.rs`: `RationalU256::{new (gcd-reduced), Add<U256>, Add, Ord::cmp}` with the
  code's gcd reductions
* `traits/src/header_provider.rs`: `HeaderFieldsProvider::block_median_time`

All integers are `Nat`. /repo is compiled with `overflow-checks = true` in every profile, so a `u64`
`+`/`*` that leaves the range *panics*; a panic (also `expect` on a missing header, division by a
zero epoch length, indexing an empty vector) is the verdict `.panic`.
The timestamp metric uses saturating arithmetic since /repo commit 71994ca (finding F11: before it,
`value * 1000` and `base_timestamp + timestamp` panicked for large 56-bit values).
U256 products cannot overflow here (all factors are < 2^64 and at most three are multiplied), so the
rational arithmetic is unchecked.
Constants (flag masks, metric patterns, the `* 1000`, field widths) come from `Gen/Tx.lean`.
Core Lean only.
-/
namespace CkbVerif.Since
open CkbVerif.Gen.Tx

def U64 : Nat := 2 ^ 64

/-! ## EpochNumberWithFraction on the packed value (`>> OFFSET & MASK`, MASK = 2^BITS - 1) -/

def epNumber (e : Nat) : Nat := e % 2 ^ EPOCH_NUMBER_BITS
def epIndex (e : Nat) : Nat := (e / 2 ^ EPOCH_NUMBER_BITS) % 2 ^ EPOCH_INDEX_BITS
def epLength (e : Nat) : Nat := (e / 2 ^ (EPOCH_NUMBER_BITS + EPOCH_INDEX_BITS)) % 2 ^ EPOCH_LENGTH_BITS

/-- `new_unchecked` (fields in range, so `|` of disjoint shifted fields is `+`) -/
def epPack (number index length : Nat) : Nat :=
  length * 2 ^ (EPOCH_NUMBER_BITS + EPOCH_INDEX_BITS) + index * 2 ^ EPOCH_NUMBER_BITS + number

/-- `normalize`: length 0 is rewritten to index 0 / length 1 -/
def epNormalize (e : Nat) : Nat := if epLength e = 0 then epPack (epNumber e) 0 1 else e

/-- `is_well_formed_increment` -/
def epWellFormedIncrement (e : Nat) : Bool :=
  decide (epLength e > epIndex e) || (decide (epLength e = 0) && decide (epIndex e = 0))

/-- `minimum_epoch_number_after_n_blocks` -/
def epMinNumberAfter (e n : Nat) : Nat :=
  if epIndex e + n ≥ epLength e then epNumber e + 1 else epNumber e

/-! ## RationalU256 with the code's reductions -/

structure Rat where
  n : Nat
  d : Nat
  deriving Repr, DecidableEq

/-- `RationalU256::new` for a non-zero denominator: `reduce()` divides both by their gcd -/
def Rat.new (n d : Nat) : Rat := let g := Nat.gcd n d; ⟨n / g, d / g⟩

/-- `Add<U256>`: `new_raw(numer + denom * rhs, denom)` -/
def Rat.addU (r : Rat) (k : Nat) : Rat := ⟨r.n + r.d * k, r.d⟩

/-- `Add<&RationalU256>` -/
def Rat.add (a b : Rat) : Rat :=
  if a.d = b.d then Rat.new (a.n + b.n) a.d
  else
    let g := Nat.gcd a.d b.d
    let lcm := a.d * (b.d / g)
    Rat.new (a.n * (lcm / a.d) + b.n * (lcm / b.d)) lcm

/-- `Ord::cmp` specialised to `<` -/
def Rat.lt (a b : Rat) : Bool :=
  let g := Nat.gcd a.d b.d
  decide (a.n * (b.d / g) < b.n * (a.d / g))

/-- `EpochNumberWithFraction::to_rational`; `none` = `RationalU256::new` panics ("denominator == 0") -/
def epToRational (e : Nat) : Option Rat :=
  if e = 0 then some ⟨0, 1⟩
  else if epLength e = 0 then none
  else some ((Rat.new (epIndex e) (epLength e)).addU (epNumber e))

/-! ## Headers, median time -/

structure Hdr where
  id : Nat
  number : Nat
  epoch : Nat
  ts : Nat
  parent : Nat
  deriving Repr, DecidableEq

abbrev HeaderDb := List Hdr

def findHdr (db : HeaderDb) (id : Nat) : Option Hdr := db.find? (fun h => h.id == id)

/-- the loop of `block_median_time`: up to `fuel` timestamps walking parents, stopping after genesis;
`none` = `expect("parent header exist")` -/
def collectTs (db : HeaderDb) : Nat → Nat → List Nat → Option (List Nat)
  | 0, _, acc => some acc
  | fuel + 1, id, acc =>
    match findHdr db id with
    | none => none
    | some h =>
      let acc' := acc ++ [h.ts]
      if h.number = 0 then some acc' else collectTs db fuel h.parent acc'

/-- insertion into a sorted list (the result of `sort_unstable` on integers is unique, so any
sorting function models it) -/
def insertSorted (x : Nat) : List Nat → List Nat
  | [] => [x]
  | y :: ys => if x ≤ y then x :: y :: ys else y :: insertSorted x ys

def sortNats : List Nat → List Nat
  | [] => []
  | x :: xs => insertSorted x (sortNats xs)

/-- `block_median_time(block_hash, count)`: sort, take element `len >> 1` (index panic on empty) -/
def medianTime (db : HeaderDb) (id count : Nat) : Option Nat :=
  match collectTs db count id [] with
  | none => none
  | some ts =>
    let s := sortNats ts
    s[s.length / 2]?

/-! ## TxVerifyEnv -/

inductive Phase where
  | submitted
  | proposed (n : Nat)
  | committed
  deriving Repr, DecidableEq

structure Env where
  phase : Phase
  number : Nat
  epoch : Nat
  hash : Nat
  parentHash : Nat
  deriving Repr, DecidableEq

/-- `TxVerifyEnv::block_number` (u64 `+` with overflow checks) -/
def Env.blockNumber (e : Env) (closest : Nat) : Option Nat :=
  let r := match e.phase with
    | .submitted => e.number + 1 + closest
    | .proposed n => (e.number - n) + closest
    | .committed => e.number
  if r < U64 then some r else none

/-- `TxVerifyEnv::epoch_number` -/
def Env.epochNumber (e : Env) (closest : Nat) : Nat :=
  let n := match e.phase with
    | .submitted => 1 + closest
    | .proposed k => closest - k
    | .committed => 0
  epMinNumberAfter e.epoch n

/-- `TxVerifyEnv::parent_hash` -/
def Env.parentOfCommit (e : Env) : Nat :=
  match e.phase with
  | .committed => e.parentHash
  | _ => e.hash

/-! ## Since -/

structure Cfg where
  /-- `consensus.tx_proposal_window().closest()` -/
  closest : Nat
  /-- `consensus.cellbase_maturity()` packed -/
  maturity : Nat
  /-- `consensus.median_time_block_count()` -/
  medianCount : Nat
  /-- epoch number from which `is_block_ts_as_relative_since_start_enabled` holds -/
  rfc0028 : Nat
  deriving Repr, DecidableEq

/-- `TransactionInfo` of a resolved cell -/
structure TxInfo where
  blockNumber : Nat
  blockEpoch : Nat
  blockHash : Nat
  index : Nat
  deriving Repr, DecidableEq

inductive Src where
  | inputs | cellDeps
  deriving Repr, DecidableEq

inductive V where
  | ok
  | invalidSince (i : Nat)
  | immature (i : Nat)
  | cellbaseImmature (s : Src) (i : Nat)
  | panic
  deriving Repr, DecidableEq

def isAbsolute (s : Nat) : Bool := s &&& LOCK_TYPE_FLAG == 0

def flagsValid (s : Nat) : Bool :=
  (s &&& REMAIN_FLAGS_BITS == 0) && ((s &&& METRIC_TYPE_FLAG_MASK) != METRIC_TYPE_FLAG_MASK)

inductive Metric where
  | blockNumber (v : Nat)
  | epoch (e : Nat)
  /-- `value.saturating_mul(1000)` -/
  | timestamp (ms : Nat)
  deriving Repr, DecidableEq

/-- `u64::saturating_mul` -/
def satMul (a b : Nat) : Nat := if a * b < U64 then a * b else U64 - 1
/-- `u64::saturating_add` -/
def satAdd (a b : Nat) : Nat := if a + b < U64 then a + b else U64 - 1

/-- the arithmetic of `extract_metric` before commit 71994ca (`value * 1000` on u64 with overflow
checks): `none` = panic. Kept only for the witness theorem `C04.prefix_timestamp_overflows`. -/
def preFixTimestampMs (value : Nat) : Option Nat :=
  if value * TIMESTAMP_SCALE < U64 then some (value * TIMESTAMP_SCALE) else none

/-- `Since::extract_metric` -/
def extractMetric (s : Nat) : Option Metric :=
  let value := s &&& VALUE_MASK
  let m := s &&& METRIC_TYPE_FLAG_MASK
  if m = METRIC_BLOCK_NUMBER then some (.blockNumber value)
  else if m = METRIC_EPOCH then some (.epoch value)
  else if m = METRIC_TIMESTAMP then
    some (.timestamp (satMul value TIMESTAMP_SCALE))
  else none

/-- `a < b` on two optional rationals, panic if either conversion panicked -/
def ratLt? (a b : Option Rat) : Option Bool :=
  match a, b with
  | some a, some b => some (a.lt b)
  | _, _ => none

/-- `verify_absolute_lock` (called only for absolute sinces) -/
def verifyAbsolute (cfg : Cfg) (db : HeaderDb) (env : Env) (i s : Nat) : V :=
  match extractMetric s with
  | some (.blockNumber v) =>
    match env.blockNumber cfg.closest with
    | none => .panic
    | some bn => if bn < v then .immature i else .ok
  | some (.epoch e) =>
    if !epWellFormedIncrement e then .invalidSince i
    else
      match ratLt? (epToRational env.epoch) (epToRational (epNormalize e)) with
      | none => .panic
      | some true => .immature i
      | some false => .ok
  | some (.timestamp ts) =>
    match medianTime db env.parentOfCommit cfg.medianCount with
    | none => .panic
    | some tip => if tip < ts then .immature i else .ok
  | none => .invalidSince i

/-- `base_timestamp` in `verify_relative_lock`: the timestamp of the input's block once RFC 28 is
active at the commit epoch number, `parent_median_time` of that block before; `none` = `expect` panic -/
def relBaseTimestamp (cfg : Cfg) (db : HeaderDb) (env : Env) (info : TxInfo) : Option Nat :=
  if env.epochNumber cfg.closest ≥ cfg.rfc0028 then
    (findHdr db info.blockHash).map (·.ts)
  else
    match findHdr db info.blockHash with
    | none => none
    | some h => medianTime db h.parent cfg.medianCount

/-- `verify_relative_lock` (called only for relative sinces) -/
def verifyRelative (cfg : Cfg) (db : HeaderDb) (env : Env) (i s : Nat) (info : Option TxInfo) : V :=
  match info with
  | none => .immature i
  | some info =>
    match extractMetric s with
    | some (.blockNumber v) =>
      match env.blockNumber cfg.closest with
      | none => .panic
      | some bn =>
        if info.blockNumber + v < U64 then
          (if bn < info.blockNumber + v then .immature i else .ok)
        else .panic
    | some (.epoch e) =>
      if !epWellFormedIncrement e then .invalidSince i
      else
        match epToRational env.epoch, epToRational info.blockEpoch, epToRational (epNormalize e) with
        | some a, some b0, some b1 => if a.lt (b0.add b1) then .immature i else .ok
        | _, _, _ => .panic
    | some (.timestamp ts) =>
      match relBaseTimestamp cfg db env info with
      | none => .panic
      | some base =>
        match medianTime db env.parentOfCommit cfg.medianCount with
        | none => .panic
        | some cur =>
          if cur < satAdd base ts then .immature i else .ok
    | none => .invalidSince i

/-- the body of the loop in `SinceVerifier::verify` for one input -/
def checkSince (cfg : Cfg) (db : HeaderDb) (env : Env) (i s : Nat) (info : Option TxInfo) : V :=
  if s = 0 then .ok
  else if !flagsValid s then .invalidSince i
  else if isAbsolute s then verifyAbsolute cfg db env i s
  else verifyRelative cfg db env i s info

/-- `SinceVerifier::verify`: first failing input (in order) decides -/
def sinceVerify (cfg : Cfg) (db : HeaderDb) (env : Env) : Nat → List (Nat × Option TxInfo) → V
  | _, [] => .ok
  | i, (s, info) :: rest =>
    match checkSince cfg db env i s info with
    | .ok => sinceVerify cfg db env (i + 1) rest
    | v => v

/-! ## Maturity -/

/-- the closure `cellbase_immature`; `none` = a `to_rational` panicked -/
def cellbaseImmature (cfg : Cfg) (env : Env) (info : Option TxInfo) : Option Bool :=
  match info with
  | none => some false
  | some info =>
    if info.blockNumber > 0 && info.index == 0 then
      match epToRational cfg.maturity, epToRational info.blockEpoch, epToRational env.epoch with
      | some m, some b, some cur => some (cur.lt (m.add b))
      | _, _, _ => none
    else some false

/-- `iter().position(cellbase_immature)` -/
def firstImmature (cfg : Cfg) (env : Env) : Nat → List (Option TxInfo) → Option (Option Nat)
  | _, [] => some none
  | i, info :: rest =>
    match cellbaseImmature cfg env info with
    | none => none
    | some true => some (some i)
    | some false => firstImmature cfg env (i + 1) rest

/-- `MaturityVerifier::verify`: inputs first, then resolved cell deps -/
def maturityVerify (cfg : Cfg) (env : Env) (inputs deps : List (Option TxInfo)) : V :=
  match firstImmature cfg env 0 inputs with
  | none => .panic
  | some (some i) => .cellbaseImmature .inputs i
  | some none =>
    match firstImmature cfg env 0 deps with
    | none => .panic
    | some (some i) => .cellbaseImmature .cellDeps i
    | some none => .ok

/-- `TimeRelativeTransactionVerifier::verify` -/
def timeRelativeVerify (cfg : Cfg) (db : HeaderDb) (env : Env)
    (inputs : List (Nat × Option TxInfo)) (deps : List (Option TxInfo)) : V :=
  match maturityVerify cfg env (inputs.map (·.2)) deps with
  | .ok => sinceVerify cfg db env 0 inputs
  | v => v

end CkbVerif.Since
