/-
Model of `freezer/src/freezer_files.rs` (FreezerFiles / FreezerFilesBuilder), core Lean only.

Disk = the INDEX file (a list of decoded 12-byte entries plus the number of trailing bytes of a
partially written entry) and the data files `blk<id>` (a total function id ↦ bytes; a missing file
and an empty file are the same thing for every path modelled here, because every open of a head
file uses `create(true)` and a read of a missing file fails exactly like a short read).

The handle (`Handle`) carries what `FreezerFiles` keeps in memory: `number`, `head_id`,
`head.bytes`.  Every function follows the Rust control flow; `fixed := false` gives the repair loop
as it was before the `fix:` commit (it re-opened the *dropped* entry's file), kept for the
regression witness in `Props/C09.lean`.
-/
import CkbVerif.Gen.Freezer
namespace CkbVerif.Freezer
open CkbVerif

abbrev Bytes := List Nat

structure Entry where
  fid : Nat
  off : Nat
deriving Repr, DecidableEq, Inhabited

structure Disk where
  /-- fully written index entries -/
  idx : List Entry
  /-- 0..11 bytes of a partially written entry after them -/
  tail : Nat
  files : Nat → Bytes

structure Handle where
  number : Nat
  headId : Nat
  headBytes : Nat
  /-- ids in the open-files LRU (`files`); only `delete_after` depends on it -/
  cache : List Nat := []
deriving Repr, DecidableEq

def INDEX_ENTRY_SIZE : Nat := Gen.Freezer.INDEX_ENTRY_SIZE

def setFile (files : Nat → Bytes) (id : Nat) (b : Bytes) : Nat → Bytes :=
  fun i => if i = id then b else files i

@[simp] theorem setFile_same (f : Nat → Bytes) (id : Nat) (b : Bytes) : setFile f id b id = b := by
  simp [setFile]

@[simp] theorem setFile_other (f : Nat → Bytes) (id j : Nat) (b : Bytes) (h : j ≠ id) :
    setFile f id b j = f j := by
  simp [setFile, h]

/-- `File::set_len`: truncates, or extends with zeros. -/
def setLen (b : Bytes) (n : Nat) : Bytes :=
  (b ++ List.replicate (n - b.length) 0).take n

/-- bytes `[a, b)` of a file; `none` when the file is too short or the range is negative
    (`read_exact` error / `end - start` underflow in the Rust code). -/
def readRange (b : Bytes) (s e : Nat) : Option Bytes :=
  if s ≤ e ∧ e ≤ b.length then some ((b.drop s).take (e - s)) else none

def emptyDisk : Disk := { idx := [], tail := 0, files := fun _ => [] }

/-- size in bytes of the index file -/
def Disk.idxSize (d : Disk) : Nat := INDEX_ENTRY_SIZE * d.idx.length + d.tail

/-- Cut the index file to `n` bytes (a crash, or the harness's `set_len`); never extends. -/
def Disk.cutIdx (d : Disk) (n : Nat) : Disk :=
  if n ≥ d.idxSize then d
  else { d with idx := d.idx.take (n / INDEX_ENTRY_SIZE), tail := n % INDEX_ENTRY_SIZE }

/-- Cut data file `fid` to `n` bytes; never extends. -/
def Disk.cutFile (d : Disk) (fid n : Nat) : Disk :=
  { d with files := setFile d.files fid ((d.files fid).take n) }

/-- The harness's crash cut: INDEX cut to `il` bytes, data file `fid` cut to `fl` bytes
    (`none` = the file is removed). -/
def applyCut (d : Disk) (il fid : Nat) (fl : Option Nat) : Disk :=
  let d1 := d.cutIdx il
  match fl with
  | none => { d1 with files := setFile d1.files fid [] }
  | some n => d1.cutFile fid n

/-- `open_index`: default entry for an empty index, then trim a partial entry. `none` = Err
    (an index of 1..11 bytes: trimmed to 0 after the emptiness test, the first read fails). -/
def openIndex (d : Disk) : Option Disk :=
  if d.idx.isEmpty then
    if d.tail = 0 then some { d with idx := [⟨0, 0⟩], tail := 0 } else none
  else some { d with tail := 0 }

/-- The repair loop of `build`, on the reversed entry list (last entry first).
    `headFid`/`headSize` describe the file the `head` handle is on.  Returns the reversed entries
    that survive, the files, and the head handle's file id and size. `none` = the loop would read
    before the start of the index. -/
def repair (fixed : Bool) : (rev : List Entry) → (files : Nat → Bytes) → (headFid headSize : Nat) →
    Option (List Entry × (Nat → Bytes) × Nat × Nat)
  | [], _, _, _ => none
  | e :: rest, files, headFid, headSize =>
    if e.off = headSize then some (e :: rest, files, headFid, headSize)
    else if e.off < headSize then
      -- "Truncating dangling head"
      some (e :: rest, setFile files headFid (setLen (files headFid) e.off), headFid, e.off)
    else
      -- "Truncating dangling indexes": drop `e`
      match rest with
      | [] => none
      | e' :: _ =>
        if e'.fid ≠ e.fid then
          -- slipped back into an earlier head-file
          let reopen := if fixed then e'.fid else e.fid
          repair fixed rest files reopen (files reopen).length
        else
          repair fixed rest files headFid headSize

/-- `FreezerFilesBuilder::build` (+ `preopen`, which has no logical effect). -/
def openWith (fixed : Bool) (d : Disk) : Option (Handle × Disk) :=
  match openIndex d with
  | none => none
  | some d1 =>
    match d1.idx.reverse with
    | [] => none
    | last :: rest =>
      match repair fixed (last :: rest) d1.files last.fid (d1.files last.fid).length with
      | none => none
      | some (rev', files', _hf, hs) =>
        match rev' with
        | [] => none
        | hd :: _ =>
          -- preopen: tail_id .. head_id (tail_id = file id of the first entry)
          let tailId := match rev'.reverse with | t :: _ => t.fid | [] => 0
          some ({ number := rev'.length, headId := hd.fid, headBytes := hs,
                  cache := (List.range (hd.fid + 1)).filter (· ≥ tailId) },
                { idx := rev'.reverse, tail := 0, files := files' })

def «open» (d : Disk) : Option (Handle × Disk) := openWith true d

/-- `FreezerFiles::append` (compression is outside the model: `data` is what is stored). -/
def append (max : Nat) (h : Handle) (d : Disk) (data : Bytes) : Handle × Disk :=
  let roll := h.headBytes + data.length > max
  let headId := if roll then h.headId + 1 else h.headId
  -- open_truncated(next_id) empties the new head; Head::write seeks to the end and appends
  let base : Bytes := if roll then [] else d.files h.headId
  let headBytes := (if roll then 0 else h.headBytes) + data.length
  ({ number := h.number + 1, headId := headId, headBytes := headBytes,
     cache := if roll then headId :: h.cache else h.cache },
   { d with idx := d.idx ++ [⟨headId, headBytes⟩], files := setFile d.files headId (base ++ data) })

/-- `get_bounds` -/
def getBounds (d : Disk) (item : Nat) : Option (Nat × Nat × Nat) :=
  match d.idx[item]? with
  | none => none
  | some e =>
    if item = 1 then some (0, e.off, e.fid)
    else match d.idx[item - 1]? with
      | none => none
      | some s => if s.fid ≠ e.fid then some (0, e.off, e.fid) else some (s.off, e.off, e.fid)

inductive Ret where
  | none
  | some (b : Bytes)
  | err
deriving Repr, DecidableEq

/-- `FreezerFiles::retrieve` -/
def retrieve (h : Handle) (d : Disk) (item : Nat) : Ret :=
  if item < 1 then .none
  else if h.number ≤ item then .none
  else match getBounds d item with
    | none => .none
    | some (s, e, fid) =>
      match readRange (d.files fid) s e with
      | some b => .some b
      | none => .err

/-- `FreezerFiles::truncate`.  `delete_after` removes the files after the new head that are in the
    open-files cache (others, e.g. the junk head of a crashed rollover, stay until the next
    rollover truncates them). -/
def truncate (h : Handle) (d : Disk) (item : Nat) : Handle × Disk :=
  if item < 1 ∨ item + 1 ≥ h.number then (h, d)
  else
    let idx := d.idx.take (item + 1)
    match idx[item]? with
    | none => (h, d)
    | some e =>
      let files1 : Nat → Bytes :=
        if e.fid ≠ h.headId then fun i => if i > e.fid ∧ i ∈ h.cache then [] else d.files i
        else d.files
      let files2 := setFile files1 e.fid (setLen (files1 e.fid) e.off)
      let cache := if e.fid ≠ h.headId then e.fid :: h.cache.filter (· ≤ e.fid) else h.cache
      ({ number := item + 1, headId := e.fid, headBytes := e.off, cache := cache },
       { d with idx := idx, files := files2 })

end CkbVerif.Freezer
