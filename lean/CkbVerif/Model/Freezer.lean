/-
Model of `freezer/src/freezer_files.rs` (FreezerFiles / FreezerFilesBuilder), core Lean only.

Disk = the INDEX file (a list of decoded 12-byte entries plus the number of trailing bytes of a
partially written entry) and the data files `blk<id>` (a total function id ↦ bytes; a missing file
and an empty file are the same thing for every path modelled here, because every open of a head
file uses `create(true)` and a read of a missing file fails exactly like a short read).

The handle (`Handle`) carries what `FreezerFiles` keeps in memory: `number`, `head_id`,
`head.bytes`.  Every function follows the Rust control flow; `fixed := false` gives the repair loop
as it was before the `fix:` commit (it re-opened the *dropped* entry's file), kept for the
regression witness in `Props/C09.lean`.
-/
import CkbVerif.Gen.Freezer
namespace CkbVerif.Freezer
open CkbVerif

abbrev Bytes := List Nat

structure Entry where
  fid : Nat
  off : Nat
deriving Repr, DecidableEq, Inhabited

structure Disk where
  /-- fully written index entries -/
  idx : List Entry
  /-- 0..11 bytes of a partially written entry after them -/
  tail : Nat
  files : Nat → Bytes

structure Handle where
  number : Nat
  headId : Nat
  headBytes : Nat
  /-- ids in the open-files LRU (`files`); only `delete_after` depends on it -/
  cache : List Nat := []
deriving Repr, DecidableEq

def INDEX_ENTRY_SIZE : Nat := Gen.Freezer.INDEX_ENTRY_SIZE

def setFile (files : Nat → Bytes) (id : Nat) (b : Bytes) : Nat → Bytes :=
  fun i => if i = id then b else files i

@[simp] theorem setFile_same (f : Nat → Bytes) (id : Nat) (b : Bytes) : setFile f id b id = b := by
  simp [setFile]

@[simp] theorem setFile_other (f : Nat → Bytes) (id j : Nat) (b : Bytes) (h : j ≠ id) :
    setFile f id b j = f j := by
  simp [setFile, h]

/-- `File::set_len`: truncates, or extends with zeros. -/
def setLen (b : Bytes) (n : Nat) : Bytes :=
  (b ++ List.replicate (n - b.length) 0).take n

/-- bytes `[a, b)` of a file; `none` when the file is too short or the range is negative
    (`read_exact` error / `end - start` underflow in the Rust code). -/
def readRange (b : Bytes) (s e : Nat) : Option Bytes :=
  if s ≤ e ∧ e ≤ b.length then some ((b.drop s).take (e - s)) else none

def emptyDisk : Disk := { idx := [], tail := 0, files := fun _ => [] }

/-- size in bytes of the index file -/
def Disk.idxSize (d : Disk) : Nat := INDEX_ENTRY_SIZE * d.idx.length + d.tail

/-- Cut the index file to `n` bytes (a crash, or the harness's `set_len`); never extends. -/
def Disk.cutIdx (d : Disk) (n : Nat) : Disk :=
  if n ≥ d.idxSize then d
  else { d with idx := d.idx.take (n / INDEX_ENTRY_SIZE), tail := n % INDEX_ENTRY_SIZE }

/-- Cut data file `fid` to `n` bytes; never extends. -/
def Disk.cutFile (d : Disk) (fid n : Nat) : Disk :=
  { d with files := setFile d.files fid ((d.files fid).take n) }

/-- The harness's crash cut: INDEX cut to `il` bytes, data file `fid` cut to `fl` bytes
    (`none` = the file is removed). -/
def applyCut (d : Disk) (il fid : Nat) (fl : Option Nat) : Disk :=
  let d1 := d.cutIdx il
  match fl with
  | none => { d1 with files := setFile d1.files fid [] }
  | some n => d1.cutFile fid n

/-- `open_index`: default entry for an empty index, then trim a partial entry. `none` = Err
    (an index of 1..11 bytes: trimmed to 0 after the emptiness test, the first read fails). -/
def openIndex (d : Disk) : Option Disk :=
  if d.idx.isEmpty then
    if d.tail = 0 then some { d with idx := [⟨0, 0⟩], tail := 0 } else none
  else some { d with tail := 0 }

/-- The repair loop of `build`, on the reversed entry list (last entry first).
    `headFid`/`headSize` describe the file the `head` handle is on.  Returns the reversed entries
    that survive, the files, and the head handle's file id and size. `none` = the loop would read
    before the start of the index. -/
def repair (fixed : Bool) : (rev : List Entry) → (files : Nat → Bytes) → (headFid headSize : Nat) →
    Option (List Entry × (Nat → Bytes) × Nat × Nat)
  | [], _, _, _ => none
  | e :: rest, files, headFid, headSize =>
    if e.off = headSize then some (e :: rest, files, headFid, headSize)
    else if e.off < headSize then
      -- "Truncating dangling head"
      some (e :: rest, setFile files headFid (setLen (files headFid) e.off), headFid, e.off)
    else
      -- "Truncating dangling indexes": drop `e`
      match rest with
      | [] => none
      | e' :: _ =>
        if e'.fid ≠ e.fid then
          -- slipped back into an earlier head-file
          let reopen := if fixed then e'.fid else e.fid
          repair fixed rest files reopen (files reopen).length
        else
          repair fixed rest files headFid headSize

/-- `FreezerFilesBuilder::build` (+ `preopen`, which has no logical effect). -/
def openWith (fixed : Bool) (d : Disk) : Option (Handle × Disk) :=
  match openIndex d with
  | none => none
  | some d1 =>
    match d1.idx.reverse with
    | [] => none
    | last :: rest =>
      match repair fixed (last :: rest) d1.files last.fid (d1.files last.fid).length with
      | none => none
      | some (rev', files', _hf, hs) =>
        match rev' with
        | [] => none
        | hd :: _ =>
          -- preopen: tail_id .. head_id (tail_id = file id of the first entry)
          let tailId := match rev'.reverse with | t :: _ => t.fid | [] => 0
          some ({ number := rev'.length, headId := hd.fid, headBytes := hs,
                  cache := (List.range (hd.fid + 1)).filter (· ≥ tailId) },
                { idx := rev'.reverse, tail := 0, files := files' })

def «open» (d : Disk) : Option (Handle × Disk) := openWith true d

/-- `FreezerFiles::append` (compression is outside the model: `data` is what is stored). -/
def append (max : Nat) (h : Handle) (d : Disk) (data : Bytes) : Handle × Disk :=
  let roll := h.headBytes + data.length > max
  let headId := if roll then h.headId + 1 else h.headId
  -- open_truncated(next_id) empties the new head; Head::write seeks to the end and appends
  let base : Bytes := if roll then [] else d.files h.headId
  let headBytes := (if roll then 0 else h.headBytes) + data.length
  ({ number := h.number + 1, headId := headId, headBytes := headBytes,
     cache := if roll then headId :: h.cache else h.cache },
   { d with idx := d.idx ++ [⟨headId, headBytes⟩], files := setFile d.files headId (base ++ data) })

/-- `get_bounds` -/
def getBounds (d : Disk) (item : Nat) : Option (Nat × Nat × Nat) :=
  match d.idx[item]? with
  | none => none
  | some e =>
    if item = 1 then some (0, e.off, e.fid)
    else match d.idx[item - 1]? with
      | none => none
      | some s => if s.fid ≠ e.fid then some (0, e.off, e.fid) else some (s.off, e.off, e.fid)

inductive Ret where
  | none
  | some (b : Bytes)
  | err
deriving Repr, DecidableEq

/-- `FreezerFiles::retrieve` -/
def retrieve (h : Handle) (d : Disk) (item : Nat) : Ret :=
  if item < 1 then .none
  else if h.number ≤ item then .none
  else match getBounds d item with
    | none => .none
    | some (s, e, fid) =>
      match readRange (d.files fid) s e with
      | some b => .some b
      | none => .err

/-- `FreezerFiles::truncate`.  `delete_after` removes the files after the new head that are in the
    open-files cache (others, e.g. the junk head of a crashed rollover, stay until the next
    rollover truncates them). -/
def truncate (h : Handle) (d : Disk) (item : Nat) : Handle × Disk :=
  if item < 1 ∨ item + 1 ≥ h.number then (h, d)
  else
    let idx := d.idx.take (item + 1)
    match idx[item]? with
    | none => (h, d)
    | some e =>
      let files1 : Nat → Bytes :=
        if e.fid ≠ h.headId then fun i => if i > e.fid ∧ i ∈ h.cache then [] else d.files i
        else d.files
      let files2 := setFile files1 e.fid (setLen (files1 e.fid) e.off)
      let cache := if e.fid ≠ h.headId then e.fid :: h.cache.filter (· ≤ e.fid) else h.cache
      ({ number := item + 1, headId := e.fid, headBytes := e.off, cache := cache },
       { d with idx := idx, files := files2 })

/-! ### the read-handle LRU, exactly (round 6)

`FreezerFiles.files : LruCache<FileId, File>` with capacity `cap` (`open_files_limit`, ≥ 2).  The
lists below are the cached ids, most recently used first (the order of `LruCache::iter`).  `put` of
a new key evicts the least recently used entry when full; `get` and `put` of an existing key
promote it; `pop` removes.  The `…L` operations are the operations above with `Handle.cache`
maintained exactly (the other fields and the disk are, by definition, the ones of the plain
operations, so every theorem about those applies to them). -/

def lruPut (cap : Nat) (c : List Nat) (id : Nat) : List Nat := (id :: c.filter (· ≠ id)).take cap
def lruGet (c : List Nat) (id : Nat) : List Nat := if id ∈ c then id :: c.filter (· ≠ id) else c
def lruPop (c : List Nat) (id : Nat) : List Nat := c.filter (· ≠ id)

/-- `preopen`: `release_all`, `open_read_only(id)` for `tail_id..head_id`, then `put(head_id, clone)` -/
def cachePreopen (cap tailId headId : Nat) : List Nat :=
  lruPut cap (((List.range headId).filter (· ≥ tailId)).foldl (lruPut cap) []) headId

/-- `FreezerFiles::open` (= `build` + `preopen`) -/
def openL (cap : Nat) (d : Disk) : Option (Handle × Disk) :=
  match «open» d with
  | none => none
  | some (h, d') =>
    let tailId := match d'.idx with | t :: _ => t.fid | [] => 0
    some ({ h with cache := cachePreopen cap tailId h.headId }, d')

/-- `append`: on a rollover `open_truncated(next)` puts `next`, `release(head)` pops the old head,
    `open_read_only(head)` puts it again -/
def appendL (cap max : Nat) (h : Handle) (d : Disk) (data : Bytes) : Handle × Disk :=
  let r := append max h d data
  let roll := h.headBytes + data.length > max
  ({ r.1 with cache :=
      if roll then lruPut cap (lruPop (lruPut cap h.cache (h.headId + 1)) h.headId) h.headId
      else h.cache }, r.2)

/-- the cache after `retrieve(item)`: untouched on the early returns, else `get` (promote) or, on a
    miss, `open_read_only` (put) -/
def retrieveCache (cap : Nat) (h : Handle) (d : Disk) (item : Nat) : List Nat :=
  if item < 1 then h.cache
  else if h.number ≤ item then h.cache
  else match getBounds d item with
    | none => h.cache
    | some (_, _, fid) => if fid ∈ h.cache then lruGet h.cache fid else lruPut cap h.cache fid

/-- `truncate`: across files `release(new)` pops, `open_append(new)` puts the new head (which may
    EVICT the least recently used handle of a full cache), then `delete_after(new)` pops and unlinks
    every id above it that is cached AT THAT MOMENT — an id evicted a moment earlier stays on disk.
    The plain `truncate` is run on the handle with that cache. -/
def truncateL (cap : Nat) (h : Handle) (d : Disk) (item : Nat) : Handle × Disk :=
  if item < 1 ∨ item + 1 ≥ h.number then truncate h d item
  else match (d.idx.take (item + 1))[item]? with
    | none => truncate h d item
    | some e =>
      if e.fid ≠ h.headId then
        let atDelete := lruPut cap (lruPop h.cache e.fid) e.fid
        let r := truncate { h with cache := atDelete } d item
        ({ r.1 with cache := atDelete.filter (· ≤ e.fid) }, r.2)
      else truncate h d item

/-! ### `open` as a decision table (round 6)

`FreezerFilesBuilder::build` on ANY directory content — INDEX entries that no history wrote, data
files of any lengths, older files short or missing — decides by one test per index entry, walking
from the newest entry to the oldest: *does the data file the entry names hold at least `offset`
bytes?*  The first entry that passes becomes the head (its file is cut to that offset, everything
after it in the INDEX is dropped); if none passes the loop reads before the start of the INDEX
(`index_size - INDEX_ENTRY_SIZE` underflows: an `Err`/panic).  `Props/C09.lean`
`open_decision_table` proves `open = openTable` for every disk. -/

/-- entry `e` fits: the data file it names holds at least `e.off` bytes -/
def fits (files : Nat → Bytes) (e : Entry) : Bool := decide (e.off ≤ (files e.fid).length)

/-- the part of the reversed index (newest entry first) that starts at the newest fitting entry -/
def lastFit (files : Nat → Bytes) : List Entry → Option (List Entry)
  | [] => none
  | e :: rest => if fits files e then some (e :: rest) else lastFit files rest

/-- what the repair loop returns, as a table -/
def repairTable (files : Nat → Bytes) (rev : List Entry) :
    Option (List Entry × (Nat → Bytes) × Nat × Nat) :=
  match lastFit files rev with
  | some (e :: rest) =>
    some (e :: rest, setFile files e.fid ((files e.fid).take e.off), e.fid, e.off)
  | _ => none

/-- `open` as a total decision table over arbitrary disks -/
def openTable (d : Disk) : Option (Handle × Disk) :=
  if d.idx.isEmpty ∧ d.tail ≠ 0 then none      -- INDEX of 1..11 bytes
  else
    let idx := if d.idx.isEmpty then [⟨0, 0⟩] else d.idx   -- empty INDEX: default entry
    match lastFit d.files idx.reverse with
    | some (e :: rest) =>
      let tailId := match (e :: rest).reverse with | t :: _ => t.fid | [] => 0
      some ({ number := rest.length + 1, headId := e.fid, headBytes := e.off,
              cache := (List.range (e.fid + 1)).filter (· ≥ tailId) },
            { idx := (e :: rest).reverse, tail := 0,
              files := setFile d.files e.fid ((d.files e.fid).take e.off) })
    | _ => none

/-! ### data files that do not EXIST (round 6, second increment)

Everywhere above a missing data file and an empty one are the same thing.  They are not for
`preopen` (`open_read_only(id)` for `tail_id..head_id` fails on a missing file, and with it the whole
`FreezerFiles::open`) nor for a `retrieve` that has to open the file.  `present` is the list of ids
whose file exists; a file that is not present has no bytes (`d.files id = []`, kept by the driver).

* `build` opens data files with `create(true)`: the file of the newest index entry, and, each time
  the repair loop slips back to an entry of another file, that file — i.e. the files of the entries
  it VISITS, from the newest down to the one it stops at (`touchedBy`); these exist afterwards.
* a failed `build` leaves the INDEX empty: a 1..11-byte INDEX is trimmed to 0 before the first read
  fails; when no entry fits, every entry has been cut off before the loop underflows.
* `append` creates the next file at a rollover; `truncate` across files creates (`open_append`) the
  new head if needed and unlinks what `delete_after` pops. -/

/-- ids of the data files `build` opens with `create(true)` -/
def touchedBy (d : Disk) : List Nat :=
  if d.idx.isEmpty then (if d.tail = 0 then [0] else [])
  else
    match lastFit d.files d.idx.reverse with
    | some r => (d.idx.reverse.take (d.idx.length - r.length + 1)).map (·.fid)
    | none => d.idx.map (·.fid)

/-- `preopen` fails: some id in `tail_id..head_id` has no file (neither before nor created by `build`) -/
def preopenFails (present touched : List Nat) (tailId headId : Nat) : Bool :=
  (List.range headId).any fun id => decide (tailId ≤ id) && !(present.contains id) && !(touched.contains id)

/-- `tail_id`: the file id of the first index entry -/
def tailIdOf (d : Disk) : Nat := match d.idx with | t :: _ => t.fid | [] => 0

structure OpenX where
  /-- `none` = `FreezerFiles::open` returned `Err` (or panicked) -/
  h : Option Handle
  /-- the directory afterwards (a failed open has side effects too) -/
  d : Disk
  present : List Nat

/-- `FreezerFiles::open` on a directory in which only the files `present` exist -/
def openX (cap : Nat) (d : Disk) (present : List Nat) : OpenX :=
  let present' := present ++ (touchedBy d).filter (fun id => !(present.contains id))
  match openL cap d with
  | none =>
    if d.idx.isEmpty then ⟨none, { d with tail := 0 }, present'⟩
    else ⟨none, { d with idx := [], tail := 0 }, present'⟩
  | some (h, d') =>
    if preopenFails present (touchedBy d) (tailIdOf d') h.headId then ⟨none, d', present'⟩
    else ⟨some h, d', present'⟩

/-- `retrieve` when files may be missing: `open_read_only` of a missing file is an `Err` -/
def retrieveX (h : Handle) (d : Disk) (present : List Nat) (item : Nat) : Ret :=
  if item < 1 ∨ h.number ≤ item then retrieve h d item
  else match getBounds d item with
    | some (_, _, fid) => if present.contains fid then retrieve h d item else .err
    | none => retrieve h d item

/-- the cache after `retrieveX`: a failed `open_read_only` puts nothing -/
def retrieveCacheX (cap : Nat) (h : Handle) (d : Disk) (present : List Nat) (item : Nat) : List Nat :=
  if item < 1 ∨ h.number ≤ item then h.cache
  else match getBounds d item with
    | some (_, _, fid) => if present.contains fid then retrieveCache cap h d item else h.cache
    | none => h.cache

/-- the files that exist after `appendL`: a rollover creates the next one -/
def presentAppend (max : Nat) (h : Handle) (data : Bytes) (present : List Nat) : List Nat :=
  if h.headBytes + data.length > max ∧ !(present.contains (h.headId + 1)) then present ++ [h.headId + 1]
  else present

/-- the files that exist after `truncateL`: across files the new head is created if need be and
    the ids `delete_after` pops are unlinked -/
def presentTruncate (cap : Nat) (h : Handle) (d : Disk) (item : Nat) (present : List Nat) : List Nat :=
  if item < 1 ∨ item + 1 ≥ h.number then present
  else match (d.idx.take (item + 1))[item]? with
    | none => present
    | some e =>
      if e.fid ≠ h.headId then
        let atDelete := lruPut cap (lruPop h.cache e.fid) e.fid
        let p1 := if present.contains e.fid then present else present ++ [e.fid]
        p1.filter fun id => !(decide (id > e.fid) && atDelete.contains id)
      else present

end CkbVerif.Freezer
