/-
"The next run continues" on the COMBINED state (rows + freezer files + crash cut), round 6.

`Model/FreezeSys.lean` has the steps of one pass and the crash cut followed by `Freezer::open`.  This
file adds what happens AFTER the re-open, as it happens on a node: any number of further whole
passes of `Shared::freeze` — each under ANY data-file limit (`FreezerFiles.max_size`: a constant of
the build, set per start by the hook `verif_set_limits` in the tie; it is read by `append`'s
rollover test only, so a limit under which the next block still fits into the head file the re-open
ended in — e.g. the file the repair loop SLIPPED BACK into — gives "append into the old head file,
then roll over") —, further crashes, clean restarts, chain-service steps in between.

`cutAt` is the crash state of the tie's `cutcont` lines, rebuilt on the model's own files from a
description that does not depend on byte sizes (item in flight + which of data / index entry reached
the disk), so that model and node can be compared state by state although their blocks serialise to
different lengths.  Core Lean only.
-/
import CkbVerif.Model.FreezeSys
namespace CkbVerif.FreezeSys
open CkbVerif.Store CkbVerif.Freeze CkbVerif.Freezer

/-- the same codec under another data-file limit (`FreezerFiles.max_size`) -/
def Codec.withMax (k : Codec) (m : Nat) : Codec := { k with cfg := { k.cfg with max := m } }

/-- a clean restart: `Freezer::open` on the files as they are (= the crash "cut" that cuts nothing) -/
def stepReopen (k : Codec) (s : Sys) : Option Sys :=
  stepCrash k s s.top.d.idxSize (some (s.top.d.files s.top.h.headId).length)

/-- one event in the life of a node with a freezer, seen from outside -/
inductive ContOp where
  /-- one whole pass of `Shared::freeze` (threshold, append loop on the files, `sync_all`, the two
  delete batches) under the data-file limit `max`, with any behaviour of the stop flag -/
  | pass (max : Nat) (stopped : Nat → Bool)
  /-- process death / power loss leaving INDEX at `il` bytes and the head data file at `fl` bytes
  (`none`: missing), then `Freezer::open` -/
  | crash (il : Nat) (fl : Option Nat)
  /-- stop and start -/
  | reopen

/-- `none`: `Freezer::open` fails (the theorems show it does not, for cuts that respect the write order) -/
def contStep (k : Codec) (s : Sys) : ContOp → Option Sys
  | .pass m st => some (pass (k.withMax m) s st).1
  | .crash il fl => stepCrash k s il fl
  | .reopen => stepReopen k s

def contRun (k : Codec) : Sys → List ContOp → Option Sys
  | s, [] => some s
  | s, op :: rest =>
    match contStep k s op with
    | none => none
    | some t => contRun k t rest

/-! ### the crash states of the tie (`cutcont <item> <state> <limit>`), on the model's own files -/

/-- which part of the append in flight reached the disk -/
inductive CutKind where
  /-- data written, index entry not written (a process crash between `Head::write` and `write_index`) -/
  | dataNoIndex
  /-- rolled over, the new head still empty / nothing of the item written -/
  | nothing
  /-- half of the data bytes written, no index entry -/
  | partialData
  /-- data written, `t` of the 12 index bytes written -/
  | partialIndex (t : Nat)
  /-- power loss before `sync_all`: the index entry is on disk, the data is not (`half`: half of it;
  `missing`: the data file does not exist) -/
  | indexNoData (half missing : Bool)
  /-- power loss over two appends: the index entries of the item AND of the item before it are on
  disk, the data of the item is not, of the item before only `half ? half : none` of it -/
  | twoLost (half : Bool)
  /-- every append of the pass complete and indexed (rows not yet wiped) -/
  | complete
deriving Repr, DecidableEq

/-- start offset and length of item `j` in its data file, from the INDEX -/
def itemSpan (d : Disk) (j : Nat) : Nat × Nat × Nat :=
  match d.idx[j - 1]?, d.idx[j]? with
  | some p, some e =>
    let start := if p.fid ≠ e.fid then 0 else p.off
    (e.fid, start, e.off - start)
  | _, _ => (0, 0, 0)

/-- the files of `top` (a state in which item `j` is the LAST item appended) cut back to the crash
state `kind` of that append — INDEX length, and the data file(s) of the item (and, for `twoLost`, of
the item before it) -/
def cutDisk (top : FreezerTop.Top) (j : Nat) (kind : CutKind) : Disk :=
  let d := top.d
  let (f, start, len) := itemSpan d j
  let base := INDEX_ENTRY_SIZE * j
  match kind with
  | .dataNoIndex => applyCut d base f (some (start + len))
  | .nothing => applyCut d base f (some start)
  | .partialData => applyCut d base f (some (start + len / 2))
  | .partialIndex t => applyCut d (base + t) f (some (start + len))
  | .indexNoData half missing =>
    applyCut d (base + INDEX_ENTRY_SIZE) f
      (if missing && start == 0 then none else some (start + (if half then len / 2 else 0)))
  | .twoLost half =>
    let (pf, pstart, plen) := itemSpan d (j - 1)
    let keep := pstart + (if half then plen / 2 else 0)
    if pf = f then applyCut d (base + INDEX_ENTRY_SIZE) f (some keep)
    else (applyCut d (base + INDEX_ENTRY_SIZE) f none).cutFile pf keep
  | .complete => d

/-- the crash state `kind` of the append of item `j` during the pass that starts in `s` (rows and
synced mark of BEFORE the pass: the write order), re-opened.  `none`: `Freezer::open` fails. -/
def cutAt (k : Codec) (s : Sys) (j : Nat) (kind : CutKind) : Option Sys :=
  let y := (stepFreeze k s (if kind = .complete then j else j + 1) (fun _ => false)).1
  match FreezerTop.openTop k.cfg (cutDisk y.top j kind) with
  | none => none
  | some t => some { s with top := t, synced := t.number }

/-- the data-file limit under which the next `n` items to be frozen exactly fit into the head file
(`head.bytes + Σ len = max`: the boundary of `append`'s rollover test) -/
def fitLimit (k : Codec) (s : Sys) (n : Nat) : Nat :=
  s.top.h.headBytes +
    ((List.range n).map fun i =>
      match getUnfrozen s.rows (s.top.number + i) with
      | some b => (FreezerTop.stored k.cfg (up k b)).length
      | none => 0).sum

end CkbVerif.FreezeSys
