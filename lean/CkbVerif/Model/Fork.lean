/-
Model of `find_fork` (core Lean only).

Sources followed, statement by statement:
* `chain/src/verify.rs`  — `ConsumeUnverifiedBlockProcessor::{find_fork, alignment_fork,
  find_fork_until_latest_common}`, the `zip` of `reconcile_main_chain`, the index writes of
  `rollback` / `reconcile_main_chain` (`detach_block` / `attach_block`, `store/src/transaction.rs`);
* `chain/src/lib.rs`     — `GlobalIndex { number, hash, unseen }`, `GlobalIndex::forward`;
* `chain/src/utils/forkchanges.rs` — `ForkChanges`, `verified_len`, `is_sorted`.

Blocks are small identifiers (`Nat`).  What `find_fork` reads from the store is four look-ups:
`get_block(hash).parent_hash`, `header.number` (of the new tip only), `get_block_hash(number)` (the
main-chain index) and `get_block_ext(hash).verified.is_none()`.  They are total functions here; the
`expect("… stored before …")` calls of the code are the well-formedness hypotheses of the theorems
(`Lemmas/Fork.lean`, `Fork.WF`).

A `VecDeque` is a `List` whose head is the deque's front: `push_front x` is `x :: l`, `push_back x`
is `l ++ [x]`.  A `BlockExt` value is represented by the identifier of the block whose row was read
(`get_block_ext(&index.hash)`); the ext passed in for the new tip (the one `verify_block` has just
built, `verified: None`) is represented by the new tip's identifier.  This is what makes the pairing
of `dirty_exts.zip(attached.skip(verified_len))` observable: a pair is right iff both components
are the same identifier.

`loop` / `while` take fuel; `index.number` iterations always suffice (each iteration decrements
`index.number`, and both loops stop at the latest when it reaches `0` / `current_tip_number`).
-/
namespace CkbVerif.Fork

/-- the part of the store `find_fork` reads -/
structure Store where
  /-- `get_block(h).data().header().raw().parent_hash()` -/
  parent : Nat → Nat
  /-- `header().number()` -/
  number : Nat → Nat
  /-- `get_block_hash(number)`: the main-chain index (meaningful up to the current tip number) -/
  mainAt : Nat → Nat
  /-- `get_block_ext(h).verified.is_none()` -/
  verNone : Nat → Bool

/-- `chain/src/lib.rs` `GlobalIndex` -/
structure GlobalIndex where
  number : Nat
  hash : Nat
  unseen : Bool
deriving DecidableEq, Repr, Inhabited

/-- `GlobalIndex::forward`: `self.number -= 1; self.hash = hash` -/
def GlobalIndex.forward (i : GlobalIndex) (hash : Nat) : GlobalIndex :=
  { i with number := i.number - 1, hash := hash }

/-- `ForkChanges` (without `detached_proposal_id`, which `find_fork` does not touch) -/
structure ForkChanges where
  attached : List Nat := []
  detached : List Nat := []
  dirtyExts : List Nat := []
deriving DecidableEq, Repr, Inhabited

/-- `ForkChanges::verified_len`: `attached_blocks.len() - dirty_exts.len()` (usize) -/
def ForkChanges.verifiedLen (f : ForkChanges) : Nat :=
  f.attached.length - f.dirtyExts.length

/-- `IsSorted::is_sorted_by_key(iter, key)`: every adjacent pair is in `≤` order -/
def sortedByKey (key : Nat → Nat) : List Nat → Bool
  | [] => true
  | [_] => true
  | x :: y :: rest => decide (key x ≤ key y) && sortedByKey key (y :: rest)

/-- `ForkChanges::is_sorted` (what `is_sorted_assert` asserts in debug builds) -/
def ForkChanges.isSorted (s : Store) (f : ForkChanges) : Bool :=
  sortedByKey s.number f.attached && sortedByKey s.number f.detached

/-- The block shared by both loops:
```
if index.unseen {
    let ext = get_block_ext(&index.hash);
    if ext.verified.is_none() { fork.dirty_exts.push_front(ext) } else { index.unseen = false; }
}
``` -/
def collectExt (s : Store) (f : ForkChanges) (i : GlobalIndex) : ForkChanges × GlobalIndex :=
  if i.unseen then
    if s.verNone i.hash then ({ f with dirtyExts := i.hash :: f.dirtyExts }, i)
    else (f, { i with unseen := false })
  else (f, i)

/-- `alignment_fork`, first branch: `for bn in new_tip_number..=current_tip_number
{ fork.detached_blocks.push_back(get_block(get_block_hash(bn))) }`; `n` = remaining iterations -/
def alignDown (s : Store) (f : ForkChanges) : Nat → Nat → ForkChanges
  | _, 0 => f
  | bn, n + 1 => alignDown s { f with detached := f.detached ++ [s.mainAt bn] } (bn + 1) n

/-- `alignment_fork`, else branch: `while index.number > current_tip_number { … }` -/
def alignUp (s : Store) (cur : Nat) : Nat → ForkChanges → GlobalIndex → ForkChanges × GlobalIndex
  | 0, f, i => (f, i)
  | fuel + 1, f, i =>
    if i.number > cur then
      let (f, i) := collectExt s f i
      -- new_block = get_block(&index.hash); index.forward(new_block.parent_hash);
      -- fork.attached_blocks.push_front(new_block)
      alignUp s cur fuel { f with attached := i.hash :: f.attached } (i.forward (s.parent i.hash))
    else (f, i)

/-- `alignment_fork` -/
def alignmentFork (s : Store) (f : ForkChanges) (i : GlobalIndex) (newTipNumber cur : Nat) :
    ForkChanges × GlobalIndex :=
  if newTipNumber ≤ cur then
    (alignDown s f newTipNumber (cur + 1 - newTipNumber), i)
  else
    alignUp s cur i.number f i

/-- `find_fork_until_latest_common` -/
def untilCommon (s : Store) : Nat → ForkChanges → GlobalIndex → ForkChanges × GlobalIndex
  | 0, f, i => (f, i)
  | fuel + 1, f, i =>
    if i.number = 0 then (f, i) else
    let detachedHash := s.mainAt i.number
    if detachedHash = i.hash then (f, i) else
    let f := { f with detached := detachedHash :: f.detached }
    let (f, i) := collectExt s f i
    untilCommon s fuel { f with attached := i.hash :: f.attached } (i.forward (s.parent i.hash))

/-- `find_fork(fork = default, current_tip_number, new_tip_block, new_tip_ext)` -/
def findFork (s : Store) (cur newTip : Nat) : ForkChanges :=
  let newTipNumber := s.number newTip
  let f : ForkChanges := { dirtyExts := [newTip], attached := [newTip], detached := [] }
  let i : GlobalIndex := ⟨newTipNumber - 1, s.parent newTip, true⟩
  let (f, i) := alignmentFork s f i newTipNumber cur
  (untilCommon s i.number f i).1

/-- the `(ext, block)` pairs `reconcile_main_chain` verifies:
`fork.dirty_exts.iter().zip(fork.attached_blocks.iter().skip(verified_len))` -/
def ForkChanges.dirtyPairs (f : ForkChanges) : List (Nat × Nat) :=
  f.dirtyExts.zip (f.attached.drop f.verifiedLen)

/-- the blocks `reconcile_main_chain` attaches without verifying them again:
`fork.attached_blocks().iter().take(verified_len)` -/
def ForkChanges.verifiedPrefix (f : ForkChanges) : List Nat :=
  f.attached.take f.verifiedLen

/-! ### the number → hash index under `rollback` + `reconcile_main_chain` -/

def upd (f : Nat → Option Nat) (k : Nat) (v : Option Nat) : Nat → Option Nat :=
  fun x => if x = k then v else f x

/-- `rollback`: `for block in detached.iter().rev() { detach_block(block) }` deletes
`index[block.number]` -/
def rollbackIndex (s : Store) (idx : Nat → Option Nat) : List Nat → Nat → Option Nat
  | [] => idx
  | d :: ds => rollbackIndex s (upd idx (s.number d) none) ds

/-- `reconcile_main_chain`: `attach_block(b)` writes `index[b.number] = b.hash`, oldest first -/
def attachIndex (s : Store) (idx : Nat → Option Nat) : List Nat → Nat → Option Nat
  | [] => idx
  | a :: as => attachIndex s (upd idx (s.number a) (some a)) as

/-- the index after the reorganisation described by `f` -/
def applyFork (s : Store) (idx : Nat → Option Nat) (f : ForkChanges) : Nat → Option Nat :=
  attachIndex s (rollbackIndex s idx f.detached.reverse) f.attached

/-- the index of a main chain of tip number `cur` -/
def mainIndex (s : Store) (cur : Nat) : Nat → Option Nat :=
  fun n => if n ≤ cur then some (s.mainAt n) else none

/-! ### specification vocabulary (used by the theorems and by the driver's self-check) -/

/-- `k`-th ancestor -/
def anc (s : Store) (x : Nat) : Nat → Nat
  | 0 => x
  | k + 1 => s.parent (anc s x k)

/-- the ancestor of `x` at height `h` (`x` itself for `h = number x`) -/
def ancAt (s : Store) (x : Nat) (h : Nat) : Nat := anc s x (s.number x - h)

end CkbVerif.Fork
