import CkbVerif.Model.RichIndexer

/-!
# Rich-indexer with custom filters (`CustomFilters`: rhai block filter / cell filter)

`AsyncRichIndexer::append` with `custom_filters` (`util/rich-indexer/src/indexer/mod.rs`):
* block filter not matching: only `bulk_insert_blocks_simple` (the block row: hash, number) — no
  transaction of the block is looked at, so cells it spends stay live in the index;
* cell filter: only matching outputs get rows (with their ORIGINAL output_index) and scripts; every
  input still runs `spend_cell`; when a row was updated the spent cell is read back
  (`query_output_cell`) and gets an input row iff it matches the filter; the transaction row (and all
  its rows) is inserted iff an output or an input matched.

The filters the harness uses are a fixed menu (ids in the `config` op), evaluated here on the
abstract cell: the rhai sources are in `harness/hnode/src/c18_rich.rs`.
-/
namespace CkbVerif.Rich
open CkbVerif.Indexer CkbVerif.Gen.RichIndexer

/-- block filter menu: 0 = none, 1 = `block.header.number` even -/
def blockMatch (bf : Nat) (b : Block) : Bool :=
  match bf with
  | 1 => b.number % 2 = 0
  | _ => true

/-- cell filter menu: 0 = none, 1 = lock code_hash of code id 1, 2 = capacity >= 100, 3 = non-empty data -/
def cellMatch (cf : Nat) (o : Output) : Bool :=
  match cf with
  | 1 => o.lock.code = 1
  | 2 => 100 ≤ o.cap
  | 3 => !o.data.isEmpty
  | _ => true

/-- `query_output_cell` + `build_cell_output`: the cell read back from the rows (lock by LEFT JOIN) -/
def queryOutputCell (db : DB) (op : OutPoint) : Option (Nat × Output) :=
  match findTx db op.tx with
  | none => none
  | some t =>
    match db.outs.find? (outAt t.id op.idx) with
    | none => none
    | some o =>
      some (o.id, ⟨o.cap, (scriptById db o.lockId).getD ⟨0, []⟩, scriptById db o.typeId, o.data⟩)

/-- one input under a cell filter; state = (store, input rows, is_tx_matched) -/
def inputStepF (cf : Nat) (acc : DB × List (Nat × Nat) × Bool) (op : OutPoint) (ii : Nat) :
    DB × List (Nat × Nat) × Bool :=
  let r := spendCell acc.1 op
  if r.2 then
    match queryOutputCell r.1 op with
    | some (oid, cell) =>
      if cellMatch cf cell then (r.1, acc.2.1 ++ [(oid, ii)], true) else (r.1, acc.2.1, acc.2.2)
    | none => (r.1, acc.2.1, acc.2.2)
  else (r.1, acc.2.1, acc.2.2)

def inputsLoopF (cf : Nat) (acc : DB × List (Nat × Nat) × Bool) : Nat → List OutPoint → DB × List (Nat × Nat) × Bool
  | _, [] => acc
  | ii, op :: r => inputsLoopF cf (inputStepF cf acc op ii) (ii + 1) r

/-- output rows of the matching cells, with their original indices -/
def insertOutputsF (cf : Nat) (db : DB) (txId : Nat) : Nat → List Output → DB
  | _, [] => db
  | oi, o :: r =>
    if cellMatch cf o then
      let row : ROut := ⟨nextId (db.outs.map (·.id)), txId, oi, o.cap, scriptId db o.lock,
        (match o.type with | some t => scriptId db t | none => none), o.data, LIVE_IS_SPENT⟩
      insertOutputsF cf { db with outs := db.outs ++ [row] } txId (oi + 1) r
    else insertOutputsF cf db txId (oi + 1) r

/-- `insert_transaction` with a cell filter (`cf ≠ 0`) -/
def insertTxF (cf : Nat) (db : DB) (blockId txIndex : Nat) (tx : Tx) : DB :=
  let outsMatched := tx.outputs.any (cellMatch cf)
  let r := if txIndex = 0 then (db, [], false) else inputsLoopF cf (db, [], false) 0 tx.inputs
  if outsMatched || r.2.2 then
    let d := r.1
    let txId := nextId (d.txs.map (·.id))
    let d1 : DB := { d with txs := d.txs ++ [(⟨txId, tx.id, blockId, txIndex⟩ : RTx)] }
    let d2 : DB := { d1 with ins := d1.ins ++ r.2.1.map fun p => (⟨p.1, txId, p.2⟩ : RIn) }
    insertOutputsF cf (insertScripts d2 (tx.outputs.filter (cellMatch cf))) txId 0 tx.outputs
  else r.1

def insertTxsF (cf : Nat) (db : DB) (blockId : Nat) : Nat → List Tx → DB
  | _, [] => db
  | i, tx :: r => insertTxsF cf (insertTxF cf db blockId i tx) blockId (i + 1) r

/-- `AsyncRichIndexer::append` with custom filters; without filters it IS `appendBlock` -/
def appendBlockF (bf cf : Nat) (db : DB) (b : Block) : DB :=
  if blockMatch bf b then
    if cf = 0 then appendBlock db b else
      let bid := nextId (db.blocks.map (·.id))
      insertTxsF cf { db with blocks := db.blocks ++ [⟨bid, b.number, b.hash⟩] } bid 0 b.txs
  else
    { db with blocks := db.blocks ++ [⟨nextId (db.blocks.map (·.id)), b.number, b.hash⟩] }

theorem appendBlockF_none (db : DB) (b : Block) : appendBlockF 0 0 db b = appendBlock db b := by
  simp [appendBlockF, blockMatch]

end CkbVerif.Rich
