import CkbVerif.Model.Proto
/-!
# The alert protocol (C16, stream `alert`)

`util/network-alert/src/alert_relayer.rs` (`<AlertRelayer as CKBProtocolHandler>::received` /
`connected`), `verifier.rs` (`Verifier::verify_signatures`), `notifier.rs` (`Notifier::add`,
`cancel`, `clear_expired_alerts`, `has_received`), `util/multisig/src/secp256k1.rs`
(`verify_m_of_n`), `util/crypto/src/secp/signature.rs` (`Signature::from_slice`, `is_valid`).

* `utf8Valid` — `std::str::from_utf8(bs).is_ok()` (what `BytesReader::is_utf8` answers): the
  well-formed byte sequences of the Unicode standard, table 3-7.
* `sigCounted` — the `filter_map` of `verify_signatures`: the item is 65 bytes long and `is_valid`
  (`v <= 1`, `1 <= r < N`, `1 <= s < N`).
* `verifyMofN` — `verify_m_of_n` with public-key recovery as a parameter (`rec : List (Option K)`:
  what `sig.recover(message)` answers for each counted signature).
* `received` / `connected` — the handler with the `Notifier` and the two `LruCache`s it owns.
Core Lean only.
-/
namespace CkbVerif.Alert
open CkbVerif.Molecule CkbVerif.Gen.Schemas CkbVerif.Gen.Codec CkbVerif.Proto

/-! ## UTF-8 -/

/-- a continuation byte `80..BF` -/
def cont (b : UInt8) : Bool := decide (0x80 ≤ b.toNat ∧ b.toNat ≤ 0xBF)

def inR (b : UInt8) (lo hi : Nat) : Bool := decide (lo ≤ b.toNat ∧ b.toNat ≤ hi)

/-- the second byte after a three-byte lead `x` (E0: no overlong, ED: no surrogates) -/
def second3 (x : Nat) (b1 : UInt8) : Bool :=
  if x = 0xE0 then inR b1 0xA0 0xBF else if x = 0xED then inR b1 0x80 0x9F else cont b1

/-- the second byte after a four-byte lead `x` (F0: no overlong, F4: at most U+10FFFF) -/
def second4 (x : Nat) (b1 : UInt8) : Bool :=
  if x = 0xF0 then inR b1 0x90 0xBF else if x = 0xF4 then inR b1 0x80 0x8F else cont b1

/-- one well-formed scalar value off the front (`none`: ill-formed or truncated) -/
def utf8Step : Bytes → Option Bytes
  | [] => none
  | b0 :: rest =>
    let x := b0.toNat
    if x < 0x80 then some rest
    else if 0xC2 ≤ x ∧ x ≤ 0xDF then
      match rest with
      | b1 :: r => if cont b1 then some r else none
      | _ => none
    else if 0xE0 ≤ x ∧ x ≤ 0xEF then
      match rest with
      | b1 :: b2 :: r =>
        if second3 x b1 && cont b2 then some r else none
      | _ => none
    else if 0xF0 ≤ x ∧ x ≤ 0xF4 then
      match rest with
      | b1 :: b2 :: b3 :: r =>
        if second4 x b1 && cont b2 && cont b3 then some r else none
      | _ => none
    else none

def utf8Fuel : Nat → Bytes → Bool
  | _, [] => true
  | 0, _ :: _ => false
  | n + 1, b :: bs =>
    match utf8Step (b :: bs) with
    | some r => utf8Fuel n r
    | none => false

/-- `std::str::from_utf8(bs).is_ok()` -/
def utf8Valid (bs : Bytes) : Bool := utf8Fuel bs.length bs

/-- `Identify::verify` in full: `Model/Proto.lean`'s `identifyVerify` leaves the UTF-8 test of the
client version open (`undecided`); `reader.client_version().as_utf8().ok()?` decides it -/
def identifyVerifyFull (name : Bytes) (bs : Bytes) : Idv :=
  match identifyVerify name bs with
  | .undecided => if utf8Valid ((fld bs 2).drop 4) then .some (truncFlags (leNat (fld bs 0))) else .none
  | r => r

/-! ## the gate of `AlertRelayer::received` -/

/-- raw data of a molecule `Bytes` (the 4-byte item count dropped) -/
def rawData (bs : Bytes) : Bytes := bs.drop 4

/-- `BytesOpt::to_opt().map(is_utf8).unwrap_or(true)` -/
def optUtf8 (bs : Bytes) : Bool := if bs.isEmpty then true else utf8Valid (rawData bs)

inductive AGate
  | malformed
  | notUtf8
  | pass
deriving Repr, DecidableEq

def gate (bs : Bytes) : AGate :=
  if !verify false S.Alert bs then .malformed else
  let raw := fld bs 0
  if utf8Valid (rawData (fld raw 4)) && optUtf8 (fld raw 5) && optUtf8 (fld raw 6) then .pass else .notUtf8

/-- the fields of a (verified) alert the handlers read -/
structure AlertV where
  id : Nat
  cancel : Nat
  priority : Nat
  noticeUntil : Nat
  /-- fnv-free identity of the whole alert: the byte string itself (`noticed_alerts.contains`) -/
  bytes : Bytes
deriving Repr, DecidableEq

def alertOf (bs : Bytes) : AlertV :=
  let raw := fld bs 0
  { noticeUntil := leNat (fld raw 0), id := leNat (fld raw 1), cancel := leNat (fld raw 2),
    priority := leNat (fld raw 3), bytes := bs }

/-- the signature items (`alert.signatures()`), raw data each -/
def sigItems (bs : Bytes) : List Bytes := (dynItems (fld bs 1)).map rawData

/-! ## the version test of `Notifier::is_version_effective` -/

/-- decimal number without leading zero (`semver` numeric identifier) -/
def parseNum (bs : Bytes) : Option Nat :=
  if bs.isEmpty then none
  else if !bs.all (fun b => decide (48 ≤ b.toNat ∧ b.toNat ≤ 57)) then none
  else if bs.length > 1 && bs.head? == some 48 then none
  else some (bs.foldl (fun acc b => acc * 10 + (b.toNat - 48)) 0)

/-- split at every `.` -/
def splitDots : Bytes → List Bytes
  | [] => [[]]
  | b :: rest =>
    match splitDots rest with
    | cur :: more => if b.toNat = 46 then [] :: cur :: more else (b :: cur) :: more
    | [] => [[b]]

/-- `semver::Version::parse` restricted to the plain `major.minor.patch` form -/
def parseSemver (bs : Bytes) : Option (Nat × Nat × Nat) :=
  match splitDots bs with
  | [a, b, c] =>
    match parseNum a, parseNum b, parseNum c with
    | some a, some b, some c => some (a, b, c)
    | _, _, _ => none
  | _ => none

/-- outside the fragment `parseSemver` decides: a byte other than `0..9` / `.` (pre-release or build
identifiers), or a component that may not fit `u64` -/
def exoticVersion (bs : Bytes) : Bool :=
  bs.any (fun b => !(decide (48 ≤ b.toNat ∧ b.toNat ≤ 57) || b.toNat == 46)) ||
  (splitDots bs).any (fun c => c.length > 18)

def verLt (a b : Nat × Nat × Nat) : Bool :=
  a.1 < b.1 || (a.1 == b.1 && (a.2.1 < b.2.1 || (a.2.1 == b.2.1 && a.2.2 < b.2.2)))

/-- `is_version_effective` for a client of version `client`; `none`: a bound is outside the modelled
fragment of semver -/
def versionEffective (client : Nat × Nat × Nat) (bs : Bytes) : Option Bool :=
  let raw := fld bs 0
  let minB := fld raw 5
  let maxB := fld raw 6
  if (!minB.isEmpty && exoticVersion (rawData minB)) || (!maxB.isEmpty && exoticVersion (rawData maxB)) then none else
  let minFailed :=
    if minB.isEmpty then false else
    match parseSemver (rawData minB) with
    | some v => verLt client v
    | none => true
  let maxFailed :=
    if maxB.isEmpty then false else
    match parseSemver (rawData maxB) with
    | some v => verLt v client
    | none => true
  some (!minFailed && !maxFailed)

/-! ## signatures -/

/-- big-endian value (`H256` comparison) -/
def beNat (bs : Bytes) : Nat := bs.foldl (fun acc b => acc * 256 + b.toNat) 0

/-- `Signature::from_slice(item).ok().filter(is_valid)` is `Some` -/
def sigCounted (s : Bytes) : Bool :=
  s.length == SIG_LEN &&
  (let r := beNat (s.take 32)
   let sv := beNat ((s.drop 32).take 32)
   let v := (s.getD 64 0).toNat
   decide (v ≤ SIG_MAX_V) && decide (1 ≤ r) && decide (r < SECP_N) && decide (1 ≤ sv) && decide (sv < SECP_N))

inductive MErr
  | sigCountOverflow
  | sigNotEnough
  | threshold (pass : Nat)
deriving Repr, DecidableEq

variable {K : Type} [DecidableEq K]

/-- `.filter(|pk| pks.contains(pk) && used_pks.insert(pk)).take(m).count()` over the recovered keys:
`m` = how many more `take` lets through, `used` = `used_pks` -/
def countDistinct (pks : List K) : Nat → List (Option K) → List K → Nat
  | 0, _, _ => 0
  | _ + 1, [], _ => 0
  | m + 1, none :: rest, used => countDistinct pks (m + 1) rest used
  | m + 1, some k :: rest, used =>
    if k ∈ pks ∧ k ∉ used then 1 + countDistinct pks m rest (k :: used)
    else countDistinct pks (m + 1) rest used

/-- `verify_m_of_n(message, m, sigs, pks)`: `rec` = `sig.recover(message).ok()` per signature,
`pks` = the configured keys (a `HashSet`: duplicates collapse); `none` = `Ok(())` -/
def verifyMofN (m : Nat) (rec : List (Option K)) (pks : List K) : Option MErr :=
  if rec.length > pks.eraseDups.length then some .sigCountOverflow
  else if m > rec.length then some .sigNotEnough
  else
    let c := countDistinct pks m rec []
    if c < m then some (.threshold c) else none

/-- `Verifier::verify_signatures`: `cls` = per signature item, the key that produced it over this
alert's hash (`none`: recovery fails or gives another key) — a parameter (secp256k1 is opaque) -/
def verifySignatures (m : Nat) (pks : List K) (bs : Bytes) (cls : List (Option K)) : Option MErr :=
  let counted := ((sigItems bs).zip cls).filter (fun p => sigCounted p.1)
  verifyMofN m (counted.map (·.2)) pks

/-! ## `lru::LruCache` as used here: most recently used first -/

/-- `put(k, v)` -/
def lruPut {κ ν : Type} [BEq κ] (cap : Nat) (k : κ) (v : ν) (l : List (κ × ν)) : List (κ × ν) :=
  if l.any (·.1 == k) then (k, v) :: l.filter (fun e => !(e.1 == k))
  else (k, v) :: (if l.length ≥ cap then l.dropLast else l)

structure St where
  /-- `Notifier::received_alerts` (a map by id; kept sorted by nothing — printed sorted) -/
  received : List AlertV := []
  /-- `Notifier::cancel_filter`, most recent first -/
  cancelled : List (Nat × Unit) := []
  /-- `Notifier::noticed_alerts`, in order -/
  noticed : List AlertV := []
  /-- `AlertRelayer::known_lists`, most recent first -/
  known : List (Nat × List Nat) := []
deriving Repr

def hasReceived (st : St) (id : Nat) : Bool :=
  st.received.any (·.id == id) || st.cancelled.any (·.1 == id)

/-- `mark_as_known`: `get_mut` promotes the peer; `true` = first time this peer knows the alert -/
def markKnown (known : List (Nat × List Nat)) (peer id : Nat) : List (Nat × List Nat) × Bool :=
  match known.find? (·.1 == peer) with
  | some (_, ids) =>
    ((peer, if ids.contains id then ids else id :: ids) :: known.filter (fun e => !(e.1 == peer)), !ids.contains id)
  | none => (lruPut ALERT_KNOWN_LIST_SIZE peer [id] known, true)

/-- the `filter(|peer| self.mark_as_known(*peer, alert_id))` over `connected_peers()` -/
def selectPeers (id : Nat) : List Nat → List (Nat × List Nat) → List Nat → List (Nat × List Nat) × List Nat
  | [], known, acc => (known, acc.reverse)
  | p :: ps, known, acc =>
    let (known', fresh) := markKnown known p id
    selectPeers id ps known' (if fresh then p :: acc else acc)

/-- stable insertion for `sort_by_key(|a| u32::MAX - priority)`: before the first element of
strictly lower priority -/
def insertByPriority (a : AlertV) : List AlertV → List AlertV
  | [] => [a]
  | b :: rest => if b.priority < a.priority then a :: b :: rest else b :: insertByPriority a rest

/-- `Notifier::cancel` -/
def cancel (st : St) (cid : Nat) : St :=
  { st with cancelled := lruPut ALERT_CANCEL_FILTER_SIZE cid () st.cancelled
            received := st.received.filter (fun a => !(a.id == cid))
            noticed := st.noticed.filter (fun a => !(a.id == cid)) }

/-- `Notifier::add` for a node whose version test answers `effective` -/
def add (st : St) (a : AlertV) (effective : Bool) : St :=
  if hasReceived st a.id then st else
  let st := if a.cancel > 0 then cancel st a.cancel else st
  -- `HashMap::insert`: replaces an entry of the same id (there is none: has_received was false,
  -- unless the alert cancels itself — then `cancel` removed nothing and the insert adds it)
  let st := { st with received := a :: st.received.filter (fun b => !(b.id == a.id)) }
  if !effective then st
  else if st.noticed.contains a then st
  else { st with noticed := insertByPriority a st.noticed }

inductive Verdict
  | malformed
  | notUtf8
  | ignored
  | badSig (e : MErr)
  /-- the peers the message is broadcast to, in `connected_peers()` order -/
  | relay (to : List Nat)
deriving Repr, DecidableEq

/-- `<AlertRelayer as CKBProtocolHandler>::received` -/
def received (m : Nat) (pks : List K) (st : St) (peer : Nat) (connected : List Nat) (bs : Bytes)
    (cls : List (Option K)) (effective : Bool) : St × Verdict :=
  match gate bs with
  | .malformed => (st, .malformed)
  | .notUtf8 => (st, .notUtf8)
  | .pass =>
    let a := alertOf bs
    if hasReceived st a.id then (st, .ignored) else
    match verifySignatures m pks bs cls with
    | some e => (st, .badSig e)
    | none =>
      let (known1, _) := markKnown st.known peer a.id
      let (known2, sel) := selectPeers a.id connected known1 []
      (add { st with known := known2 } a effective, .relay sel)

/-- `Notifier::clear_expired_alerts(now)` -/
def clearExpired (st : St) (now : Nat) : St :=
  { st with received := st.received.filter (fun a => decide (a.noticeUntil > now))
            noticed := st.noticed.filter (fun a => decide (a.noticeUntil > now)) }

/-- `connected`: expired alerts are dropped, every received alert is sent to the new peer -/
def connected (st : St) (now : Nat) : St × List AlertV :=
  let st' := clearExpired st now
  (st', st'.received)

end CkbVerif.Alert
