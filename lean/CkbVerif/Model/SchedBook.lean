import CkbVerif.Gen.Cycles

/-!
C05 — the bookkeeping of `script/src/scheduler.rs` as coded (`Scheduler::{run, iterate_outer,
iterate_inner, iterate_process_results, process_message_box, process_io, ensure_vms_instantiated,
resume_vm, suspend_vm, boot_vm, suspend, resume}`), over OPAQUE VMs: what one VM run does (cycles
consumed on the machine, how it stopped, the message it left in the message box) is an input event;
everything the scheduler decides from there is computed here:

* which VM runs next (the runnable VM with the largest id), deadlock when there is none;
* `states` / `fds` (pipe ownership) / `inherited_fd` / `terminated_vms` / id counters under every
  message kind (spawn, wait, pipe, read, write, close, inherited_fd, exec) in the order of the code;
* the instantiated / suspended split with `MAX_INSTANTIATED_VMS`: who is swapped out by
  `ensure_vms_instantiated` and `boot_vm`, in which order, and the `SPAWN_EXTRA_CYCLES_BASE` charge of
  every `suspend_vm` / `resume_vm` into `iteration_cycles`;
* `iterate_outer` in the order of the code: `iterate_inner`, `consume_cycles(iteration_cycles)`,
  `limit_cycles.checked_sub(iteration_cycles)?` (an EARLY return that skips `process_io` and leaves
  `iteration_cycles` set), reset, `process_io`, then the result of `iterate_inner`;
* `process_io`: closed ends first (readers, then writers, in id order), then read/write pairs;
* whole-scheduler `suspend` (every instantiated VM is suspended, the charges stay in the recorded
  `iteration_cycles`, `instantiated_ids` recorded) and `resume` (everything suspended,
  `ensure_vms_instantiated(instantiated_ids)`, `iteration_cycles = 0`).

VM memory / registers (the exit code written for a joining VM, the `A0` results) are inside the
opaque VM and not modelled. Constants come from the source through the translator. Core Lean only.
-/
namespace CkbVerif.SchedBook
open CkbVerif.Gen.Cycles

def U64 : Nat := 2 ^ 64

/-- `VmState` (addresses dropped: they only matter to VM memory) -/
inductive VmState where
  | runnable
  | terminated
  | wait (target : Nat)
  | waitWrite (fd consumed length : Nat)
  | waitRead (fd length : Nat)
  deriving Repr, DecidableEq, Inhabited

inductive SErr where
  /-- `ckb_vm::Error::CyclesExceeded` -/
  | cyclesExceeded
  /-- `ckb_vm::Error::Pause` -/
  | pause
  /-- `Unexpected("A deadlock situation has been reached!")` -/
  | deadlock
  /-- the other `Error::Unexpected` of the bookkeeping (VM not instantiated / not suspended / too many) -/
  | unexpected
  /-- an error of the VM run itself -/
  | vm
  deriving Repr, DecidableEq, Inhabited

/-- what the scheduler does that is visible in the hook trace -/
inductive Out where
  | sv (id : Nat)
  | rv (id : Nat)
  | ioScan (closed pairs : Nat)
  | io (reader writer bytes : Nat)
  deriving Repr, DecidableEq

/-! ### sorted key sets / maps (`BTreeMap`) -/

def sinsert (a : Nat) : List Nat → List Nat
  | [] => [a]
  | b :: l => if a < b then a :: b :: l else if a = b then b :: l else b :: sinsert a l

def sremove (a : Nat) (l : List Nat) : List Nat := l.filter (· ≠ a)

def mget {α : Type} (k : Nat) : List (Nat × α) → Option α
  | [] => none
  | (k', v) :: l => if k = k' then some v else mget k l

def minsert {α : Type} (k : Nat) (v : α) : List (Nat × α) → List (Nat × α)
  | [] => [(k, v)]
  | (k', v') :: l =>
    if k < k' then (k, v) :: (k', v') :: l else if k = k' then (k, v) :: l else (k', v') :: minsert k v l

def mremove {α : Type} (k : Nat) (l : List (Nat × α)) : List (Nat × α) := l.filter (·.1 ≠ k)

def mhas {α : Type} (k : Nat) (l : List (Nat × α)) : Bool := (mget k l).isSome

/-- `Fd::other_fd` (`fd ^ 1`) -/
def otherFd (fd : Nat) : Nat := if fd % 2 = 0 then fd + 1 else fd - 1

/-- the scheduler -/
structure Sch where
  total : Nat := 0
  iter : Nat := 0
  nextVm : Nat := FIRST_VM_ID
  nextFd : Nat := FIRST_FD_SLOT
  states : List (Nat × VmState) := []
  fds : List (Nat × Nat) := []
  inherited : List (Nat × List Nat) := []
  inst : List Nat := []
  susp : List Nat := []
  term : List (Nat × Int) := []
  /-- hook-visible decisions, newest first -/
  log : List Out := []
  deriving Repr, DecidableEq, Inhabited

/-- `FullSuspendedState` -/
structure Full where
  total : Nat
  iter : Nat
  nextVm : Nat
  nextFd : Nat
  vms : List (Nat × VmState)
  fds : List (Nat × Nat)
  inherited : List (Nat × List Nat)
  term : List (Nat × Int)
  instIds : List Nat
  deriving Repr, DecidableEq, Inhabited

/-! ### `resume_vm` / `suspend_vm` / `ensure_vms_instantiated` / `boot_vm` -/

def resumeVm (id : Nat) (s : Sch) : Except SErr Sch :=
  if !s.susp.contains id then .error .unexpected
  else if s.iter + SPAWN_EXTRA_CYCLES_BASE < U64 then
    .ok { s with iter := s.iter + SPAWN_EXTRA_CYCLES_BASE, inst := sinsert id s.inst,
                 susp := sremove id s.susp, log := .rv id :: s.log }
  else .error .cyclesExceeded

def suspendVm (id : Nat) (s : Sch) : Except SErr Sch :=
  if !s.inst.contains id then .error .unexpected
  else if s.iter + SPAWN_EXTRA_CYCLES_BASE < U64 then
    .ok { s with iter := s.iter + SPAWN_EXTRA_CYCLES_BASE, susp := sinsert id s.susp,
                 inst := sremove id s.inst, log := .sv id :: s.log }
  else .error .cyclesExceeded

/-- first loop of `ensure_vms_instantiated`: ids are popped from the END of `uninstantiated_ids`
(here: the list is given reversed) and resumed while fewer than `MAX_INSTANTIATED_VMS` are
instantiated; returns what is left (still reversed) -/
def fillLoop : List Nat → Sch → Except SErr (List Nat × Sch)
  | [], s => .ok ([], s)
  | id :: rest, s =>
    if s.inst.length < MAX_INSTANTIATED_VMS then
      match resumeVm id s with
      | .error e => .error e
      | .ok s' => fillLoop rest s'
    else .ok (id :: rest, s)

/-- second loop: `suspend_vm(suspendable[i]); resume_vm(uninstantiated[i])` -/
def swapLoop : List Nat → List Nat → Sch → Except SErr Sch
  | _, [], s => .ok s
  | [], _ :: _, _ => .error .unexpected   -- the `assert!(suspendable_ids.len() >= …)`
  | a :: as, b :: bs, s =>
    match suspendVm a s with
    | .error e => .error e
    | .ok s1 =>
      match resumeVm b s1 with
      | .error e => .error e
      | .ok s2 => swapLoop as bs s2

def ensureInst (ids : List Nat) (s : Sch) : Except SErr Sch :=
  if MAX_INSTANTIATED_VMS < ids.length then .error .unexpected
  else
    let un := ids.filter (fun id => !s.inst.contains id)
    match fillLoop un.reverse s with
    | .error e => .error e
    | .ok (leftRev, s1) =>
      let left := leftRev.reverse
      if left.isEmpty then .ok s1
      else
        let suspendable := s1.inst.filter (fun id => !ids.contains id)
        swapLoop suspendable left s1

/-- the eviction loop of `boot_vm`: the instantiated VM with the smallest id goes first -/
def evictLoop : Nat → Sch → Except SErr Sch
  | 0, s => .ok s
  | fuel + 1, s =>
    if MAX_INSTANTIATED_VMS ≤ s.inst.length then
      match s.inst with
      | [] => .error .unexpected
      | id :: _ =>
        match suspendVm id s with
        | .error e => .error e
        | .ok s' => evictLoop fuel s'
    else .ok s

/-- `boot_vm`; `parent` = the spawner whose memory the arguments are read from
(`VmArgs::Reader`: `ensure_get_instantiated(parent)` inside `load_vm_program`) -/
def bootVm (parent : Option Nat) (s : Sch) : Except SErr (Nat × Sch) :=
  let id := s.nextVm
  let s0 := { s with nextVm := s.nextVm + 1 }
  let r1 : Except SErr Sch := match parent with
    | none => .ok s0
    | some p => ensureInst [p] s0
  match r1 with
  | .error e => .error e
  | .ok s1 =>
    match evictLoop (s1.inst.length + 1) s1 with
    | .error e => .error e
    | .ok s2 => .ok (id, { s2 with inst := sinsert id s2.inst, states := minsert id .runnable s2.states })

/-! ### messages -/

inductive Msg where
  | exec (vm : Nat)
  | spawn (vm : Nat) (fds : List Nat)
  | wait (vm target : Nat)
  | pipe (vm : Nat)
  | read (vm fd length : Nat)
  | write (vm fd length : Nat)
  | inh (vm : Nat)
  | close (vm fd : Nat)
  deriving Repr, DecidableEq, Inhabited

def processMsg (m : Msg) (s : Sch) : Except SErr Sch :=
  match m with
  | .exec vm => if s.inst.contains vm then ensureInst [vm] s else .error .unexpected
  | .spawn vm fds =>
    if fds.any (fun fd => mget fd s.fds != some vm) then ensureInst [vm] s            -- INVALID_FD
    else if MAX_VMS_COUNT < s.susp.length + s.inst.length then ensureInst [vm] s       -- MAX_VMS_SPAWNED
    else
      match bootVm (some vm) s with
      | .error e => .error e
      | .ok (id, s1) =>
        let s2 := { s1 with fds := fds.foldl (fun acc fd => minsert fd id acc) s1.fds,
                            inherited := minsert id fds s1.inherited }
        ensureInst [vm] s2
  | .wait vm target =>
    match mget target s.term with
    | some _ =>
      match ensureInst [vm] s with
      | .error e => .error e
      | .ok s1 => .ok { s1 with states := minsert vm .runnable s1.states, term := mremove target s1.term }
    | none =>
      if !mhas target s.states then ensureInst [vm] s                                   -- WAIT_FAILURE
      else .ok { s with states := minsert vm (.wait target) s.states }
  | .pipe vm =>
    if MAX_FDS ≤ s.fds.length then ensureInst [vm] s                                    -- MAX_FDS_CREATED
    else
      let s1 := { s with nextFd := s.nextFd + 2,
                         fds := minsert (s.nextFd + 1) vm (minsert s.nextFd vm s.fds) }
      ensureInst [vm] s1
  | .read vm fd len =>
    if mget fd s.fds != some vm then ensureInst [vm] s                                  -- INVALID_FD
    else if !mhas (otherFd fd) s.fds then ensureInst [vm] s                             -- OTHER_END_CLOSED
    else .ok { s with states := minsert vm (.waitRead fd len) s.states }
  | .write vm fd len =>
    if mget fd s.fds != some vm then ensureInst [vm] s
    else if !mhas (otherFd fd) s.fds then ensureInst [vm] s
    else .ok { s with states := minsert vm (.waitWrite fd 0 len) s.states }
  | .inh vm => ensureInst [vm] s
  | .close vm fd =>
    if mget fd s.fds != some vm then ensureInst [vm] s
    else ensureInst [vm] { s with fds := mremove fd s.fds }

def processMsgs : List Msg → Sch → Except SErr Sch
  | [], s => .ok s
  | m :: ms, s =>
    match processMsg m s with
    | .error e => .error e
    | .ok s' => processMsgs ms s'

/-- how one VM run ended -/
inductive RunRes where
  | exit (code : Int)
  | yield
  | exceeded
  | pause
  | err
  deriving Repr, DecidableEq, Inhabited

/-- one VM run as observed: the VM, the cycles on its machine when it stopped, how it stopped, the
messages it left -/
structure Ev where
  vm : Nat
  cycles : Nat
  res : RunRes
  msgs : List Msg := []
  deriving Repr, DecidableEq, Inhabited

def wakeJoining : List Nat → Sch → Except SErr Sch
  | [], s => .ok s
  | vm :: rest, s =>
    match ensureInst [vm] s with
    | .error e => .error e
    | .ok s1 => wakeJoining rest { s1 with states := minsert vm .runnable s1.states }

/-- `iterate_process_results`; the state is returned on the error paths the run can continue from
after a suspension (`CyclesExceeded` / `Pause` of the VM) -/
def processResults (id : Nat) (ev : Ev) (s : Sch) : Sch × Option SErr :=
  match processMsgs ev.msgs s with
  | .error e => (s, some e)
  | .ok s1 =>
    match ev.res with
    | .yield => (s1, none)
    | .exceeded => (s1, some .cyclesExceeded)
    | .pause => (s1, some .pause)
    | .err => (s1, some .vm)
    | .exit code =>
      let s2 := { s1 with term := minsert id code s1.term }
      if id = FIRST_VM_ID then
        match ensureInst [id] s2 with
        | .error e => (s2, some e)
        | .ok s3 =>
          ({ s3 with inst := s3.inst.filter (· = id), susp := [], states := [(id, .terminated)] }, none)
      else
        let joining := s2.states.filterMap (fun (vm, st) =>
          match st with
          | .wait t => if t = id then some vm else none
          | _ => none)
        match wakeJoining joining s2 with
        | .error e => (s2, some e)
        | .ok s3 =>
          ({ s3 with fds := s3.fds.filter (·.2 ≠ id), states := mremove id s3.states,
                     inst := sremove id s3.inst, susp := sremove id s3.susp }, none)

/-- `iterate_prepare_machine`: the runnable VM with the largest id -/
def chooseVm (s : Sch) : Option Nat :=
  (s.states.reverse.find? (fun p => p.2 = .runnable)).map (·.1)

/-- `iterate_inner` (the event is not looked at when no VM is runnable) -/
def iterateInner (ev : Ev) (s : Sch) : Sch × Option SErr :=
  match chooseVm s with
  | none => (s, some .deadlock)
  | some id =>
    match ensureInst [id] s with
    | .error e => (s, some e)
    | .ok s1 =>
      if s1.iter + ev.cycles < U64 then
        processResults id ev { s1 with iter := s1.iter + ev.cycles }
      else (s1, some .cyclesExceeded)

/-! ### `process_io` -/

def closedReaders (s : Sch) : List Nat :=
  s.states.filterMap (fun (vm, st) =>
    match st with
    | .waitRead fd _ => if mhas (otherFd fd) s.fds then none else some vm
    | _ => none)

def closedWriters (s : Sch) : List Nat :=
  s.states.filterMap (fun (vm, st) =>
    match st with
    | .waitWrite fd _ _ => if mhas (otherFd fd) s.fds then none else some vm
    | _ => none)

/-- the `reads` map: read fd → (vm, length), for readers whose other end is open -/
def openReads (s : Sch) : List (Nat × (Nat × Nat)) :=
  s.states.filterMap (fun (vm, st) =>
    match st with
    | .waitRead fd len => if mhas (otherFd fd) s.fds then some (fd, (vm, len)) else none
    | _ => none)

structure Pair where
  reader : Nat
  rlen : Nat
  writer : Nat
  wfd : Nat
  consumed : Nat
  wlen : Nat
  deriving Repr, DecidableEq

def ioPairs (s : Sch) : List Pair :=
  let reads := openReads s
  s.states.filterMap (fun (vm, st) =>
    match st with
    | .waitWrite fd consumed len =>
      if mhas (otherFd fd) s.fds then
        match reads.reverse.lookup (otherFd fd) with     -- a later insert of the same key wins
        | some (rvm, rlen) => some ⟨rvm, rlen, vm, fd, consumed, len⟩
        | none => none
      else none
    | _ => none)

def serveClosed : List Nat → Sch → Except SErr Sch
  | [], s => .ok s
  | vm :: rest, s =>
    match mget vm s.states with
    | some (.waitRead _ _) | some (.waitWrite _ _ _) =>
      match ensureInst [vm] s with
      | .error e => .error e
      | .ok s1 => serveClosed rest { s1 with states := minsert vm .runnable s1.states }
    | _ => serveClosed rest s

def servePairs : List Pair → Sch → Except SErr Sch
  | [], s => .ok s
  | p :: rest, s =>
    match ensureInst [p.reader, p.writer] s with
    | .error e => .error e
    | .ok s1 =>
      let copiable := min p.rlen (p.wlen - p.consumed)
      let s2 := { s1 with log := .io p.reader p.writer copiable :: s1.log,
                          states := minsert p.reader .runnable s1.states }
      let consumed := p.consumed + copiable
      let s3 :=
        if consumed = p.wlen then { s2 with states := minsert p.writer .runnable s2.states }
        else { s2 with states := minsert p.writer (.waitWrite p.wfd consumed p.wlen) s2.states }
      servePairs rest s3

def processIo (s : Sch) : Except SErr Sch :=
  let closed := closedReaders s ++ closedWriters s
  let pairs := ioPairs s
  let s0 := { s with log := .ioScan closed.length pairs.length :: s.log }
  match serveClosed closed s0 with
  | .error e => .error e
  | .ok s1 => servePairs pairs s1

/-- pipe IO that `process_io` would serve at once -/
def servableIo (s : Sch) : Bool := !(closedReaders s ++ closedWriters s).isEmpty || !(ioPairs s).isEmpty

/-! ### `iterate_outer` / `run` -/

/-- `iterate_outer`: result = remaining limit -/
def iterateOuter (ev : Ev) (limit : Nat) (s : Sch) : Sch × Except SErr Nat :=
  let (s1, r) := iterateInner ev s
  if s1.total + s1.iter < U64 then
    let s2 := { s1 with total := s1.total + s1.iter }
    if limit < s2.iter then (s2, .error .cyclesExceeded)      -- before `process_io`, `iteration_cycles` stays
    else
      let remaining := limit - s2.iter
      let s3 := { s2 with iter := 0 }
      match processIo s3 with
      | .error e => (s3, .error e)
      | .ok s4 =>
        match r with
        | some e => (s4, .error e)
        | none => (s4, .ok remaining)
  else (s1, .error .cyclesExceeded)

def terminated (s : Sch) : Bool := mget FIRST_VM_ID s.states == some .terminated

inductive RunEnd where
  /-- `Ok(TerminatedResult { exit_code, consumed_cycles })` -/
  | done (code : Int) (total : Nat)
  | stopped (e : SErr)
  /-- the model wants to run a VM but the observed trace has no further run -/
  | starved
  /-- the observed run is of another VM than `iterate_prepare_machine` chooses -/
  | wrongVm
  deriving Repr, DecidableEq, Inhabited

/-- `terminated_result` -/
def finish (s : Sch) (evs : List Ev) : Sch × RunEnd × List Ev :=
  match ensureInst [FIRST_VM_ID] s with
  | .error e => (s, .stopped e, evs)
  | .ok s' => (s', .done ((mget FIRST_VM_ID s'.term).getD 0) s'.total, evs)

/-- the `while !self.terminated()` loop of `run` over the observed VM runs; returns the unused events -/
def runLoop : List Ev → Nat → Sch → Sch × RunEnd × List Ev
  | [], limit, s =>
    if terminated s then finish s []
    else if (chooseVm s).isSome then (s, .starved, [])
    else
      match iterateOuter default limit s with
      | (s', .error e) => (s', .stopped e, [])
      | (s', .ok _) => (s', .starved, [])
  | ev :: rest, limit, s =>
    if terminated s then finish s (ev :: rest)
    else if (chooseVm s).isNone then
      match iterateOuter default limit s with
      | (s', .error e) => (s', .stopped e, ev :: rest)
      | (s', .ok _) => (s', .starved, ev :: rest)
    else if chooseVm s != some ev.vm then (s, .wrongVm, ev :: rest)
    else
      match iterateOuter ev limit s with
      | (s', .error e) => (s', .stopped e, rest)
      | (s', .ok remaining) => runLoop rest remaining s'

/-- `Scheduler::run(LimitCycles(limit))` -/
def run (evs : List Ev) (limit : Nat) (s : Sch) : Sch × RunEnd × List Ev :=
  if s.states.isEmpty then
    match bootVm none s with
    | .error e => (s, .stopped e, evs)
    | .ok (_, s') => runLoop evs limit s'
  else runLoop evs limit s

/-! ### whole-scheduler `suspend` / `resume` -/

def suspendAll : List Nat → Sch → Except SErr Sch
  | [], s => .ok s
  | id :: rest, s =>
    match suspendVm id s with
    | .error e => .error e
    | .ok s' => suspendAll rest s'

/-- `Scheduler::suspend`; also returns the scheduler (for its log) -/
def suspend (s : Sch) : Except SErr (Full × Sch) :=
  let ids := s.inst
  match suspendAll ids s with
  | .error e => .error e
  | .ok s1 =>
    if s1.states.all (fun p => s1.susp.contains p.1) then
      .ok (⟨s1.total, s1.iter, s1.nextVm, s1.nextFd, s1.states, s1.fds, s1.inherited, s1.term, ids⟩, s1)
    else .error .unexpected

/-- `Scheduler::resume` (`log` carried over for the comparison with the hook trace) -/
def resume (f : Full) (log : List Out) : Except SErr Sch :=
  let s0 : Sch := { total := f.total, iter := f.iter, nextVm := f.nextVm, nextFd := f.nextFd,
                    states := f.vms, fds := f.fds, inherited := f.inherited, inst := [],
                    susp := f.vms.map (·.1), term := f.term, log := log }
  match ensureInst f.instIds s0 with
  | .error e => .error e
  | .ok s1 => .ok { s1 with iter := 0 }

/-- the resumable API on one script group: one `run` per limit; a run that stops with
`CyclesExceeded` / `Pause` is suspended and the next one starts from the resumed scheduler (`rs` =
the resume function: `resume` for the code as written). Returns the suspended states on the way and
how it ended (`none` = limits used up) -/
def chunkedWith (rs : Full → List Out → Except SErr Sch) : List Nat → List Ev → Sch → List Full × Option RunEnd × Sch
  | [], _, s => ([], none, s)
  | l :: ls, evs, s =>
    match run evs l s with
    | (s1, .stopped .cyclesExceeded, rest) | (s1, .stopped .pause, rest) =>
      match suspend s1 with
      | .error e => ([], some (.stopped e), s1)
      | .ok (f, s2) =>
        match rs f s2.log with
        | .error e => ([f], some (.stopped e), s2)
        | .ok s3 =>
          let (fs, r, s4) := chunkedWith rs ls rest s3
          (f :: fs, r, s4)
    | (s1, e, _) => ([], some e, s1)

def chunked := chunkedWith resume

/-- how a chunked run ended -/
def chunkedEnd (rs : Full → List Out → Except SErr Sch) (ls : List Nat) (evs : List Ev) : Option RunEnd :=
  (chunkedWith rs ls evs {}).2.1

/-- the uninterrupted run -/
def oneShot (evs : List Ev) : RunEnd := (run evs (U64 - 1) {}).2.1

end CkbVerif.SchedBook
