/-!
# Block filter — element set of a block and the filter-hash chain

Follows `util/types/src/utilities/block_filter.rs` (`build_filter_data`, `calc_filter_hash`) and
`block-filter/src/filter.rs` (`build_filter_data`, `build_filter_data_for_block`).

Scripts are opaque ids (the real element is the 32-byte script hash; two cells carrying the same
script contribute the same element). The Golomb-coded set itself is not modelled: the filter is the
*set* of elements handed to `GCSFilterWriter::add_element` (which deduplicates in a `HashSet`).
Hashes are opaque: `H : parentFilterHash → dataId → filterHash` is a parameter.
-/
namespace CkbVerif.Filter

/-- a cell output: lock script id, optional type script id -/
structure Cell where
  lock : Nat
  type : Option Nat
  deriving DecidableEq, Repr

/-- a transaction as the filter builder sees it: `inputs` are the provider's answers for
`tx.input_pts_iter()` (`none` = the provider does not find the cell) -/
structure Tx where
  cellbase : Bool
  inputs : List (Option Cell)
  outputs : List Cell
  deriving Repr

def cellElems (c : Cell) : List Nat :=
  c.lock :: (match c.type with | some t => [t] | none => [])

/-- elements added for one transaction, in the order of the code: inputs (unless cellbase), outputs -/
def txElems (tx : Tx) : List Nat :=
  (if tx.cellbase then [] else tx.inputs.flatMap fun i => match i with | some c => cellElems c | none => [])
  ++ tx.outputs.flatMap cellElems

def txMissing (tx : Tx) : Nat :=
  if tx.cellbase then 0 else (tx.inputs.filter Option.isNone).length

/-- every `add_element` call of `build_filter_data`, in order -/
def blockElems (txs : List Tx) : List Nat := txs.flatMap txElems

def blockMissing (txs : List Tx) : Nat := (txs.map txMissing).sum

def insertUniq (x : Nat) : List Nat → List Nat
  | [] => [x]
  | y :: ys => if x < y then x :: y :: ys else if x = y then y :: ys else y :: insertUniq x ys

/-- the element *set* (sorted, unique) -/
def elemSet (l : List Nat) : List Nat := l.foldr insertUniq []

/-! ## filter-hash chain and the builder's restart rule -/

/-- a block of the block tree, as the filter service sees it -/
structure Blk where
  id : Nat
  parent : Nat          -- id of the parent (genesis: itself, never read)
  number : Nat
  deriving DecidableEq, Repr

/-- filter hashes already stored, keyed by block id: `(blockId, hash)`; `H parentHash dataOf(block)` -/
structure FState (ρ : Type) where
  built : List (Nat × ρ)
  latest : Option Nat

def lookupHash {ρ : Type} (built : List (Nat × ρ)) (id : Nat) : Option ρ :=
  (built.find? fun e => e.1 = id).map (·.2)

/-- `build_filter_data_for_block`: skip if a hash exists; parent hash = zero for genesis, else it
must exist (`expect`) — `none` models that panic. -/
def buildOne {ρ : Type} (H : ρ → Nat → ρ) (zero : ρ) (s : FState ρ) (b : Blk) : Option (FState ρ) :=
  match lookupHash s.built b.id with
  | some _ => some s
  | none =>
    let parentHash := if b.number = 0 then some zero else lookupHash s.built b.parent
    match parentHash with
    | none => none
    | some ph => some { built := (b.id, H ph b.id) :: s.built, latest := some b.id }

def buildRange {ρ : Type} (H : ρ → Nat → ρ) (zero : ρ) (s : FState ρ) : List Blk → Option (FState ρ)
  | [] => some s
  | b :: bs =>
    match buildOne H zero s b with
    | none => none
    | some s' => buildRange H zero s' bs

/-! ## `BlockFilter::build_filter_data`: where the service restarts -/

/-- what the service reads from the snapshot -/
structure View where
  /-- header by block id -/
  blk : Nat → Blk
  /-- `is_main_chain(hash)` -/
  isMain : Nat → Bool
  /-- `get_block_hash(number)` -/
  mainAt : Nat → Nat
  /-- tip number -/
  tip : Nat

/-- `while !is_main_chain(header.parent_hash) { header = parent }` (at most `number` steps) -/
def walkBack (v : View) : Nat → Blk → Blk
  | 0, h => h
  | f + 1, h => if v.isMain h.parent then h else walkBack v f (v.blk h.parent)

/-- `start_number`: after the latest built block if it is still on the main chain, else the first
block of its fork (the block whose parent is on the main chain), else 0 -/
def startNumber (v : View) (latest : Option Nat) : Nat :=
  match latest with
  | none => 0
  | some id =>
    if v.isMain id then (v.blk id).number + 1
    else (walkBack v (v.blk id).number (v.blk id)).number

/-- one pass of `build_filter_data`: main-chain blocks `start_number ..= tip`, in order -/
def buildFilterData {ρ : Type} (H : ρ → Nat → ρ) (zero : ρ) (v : View) (s : FState ρ) : Option (FState ρ) :=
  let start := startNumber v s.latest
  buildRange H zero s ((List.range (v.tip + 1 - start)).map fun i => v.blk (v.mainAt (start + i)))

end CkbVerif.Filter
