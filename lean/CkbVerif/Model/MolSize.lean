import CkbVerif.Model.Hash
import CkbVerif.Gen.Schemas
/-!
# `serialized_size` helpers (C15): `util/gen-types/src/extension/serialized_size.rs`

* `TransactionReader::serialized_size_in_block`  = `as_slice().len() + NUMBER_SIZE`
* `BlockReader::serialized_size_without_uncle_proposals` = `as_slice().len() - Σ_uncles (proposals().as_slice().len() - NUMBER_SIZE)`,
  read through the same offsets as the generated accessors (`uncles()`, `UncleBlockVec::iter`, `UncleBlock::proposals()`)
* `UncleBlock::serialized_size_in_block()` = `Header::TOTAL_SIZE + 5 * NUMBER_SIZE`
* `ProposalShortId::serialized_size()` (the literal 10 of the Rust code is compared with the schema's size)

Core Lean only.
-/
namespace CkbVerif.Hash
open CkbVerif.Molecule CkbVerif.Gen.Schemas

/-- `molecule::NUMBER_SIZE` -/
def numberSize : Nat := 4

/-- `TransactionReader::serialized_size_in_block` -/
def txSizeInBlock (tx : Bytes) : Nat := tx.length + numberSize

/-- `x.proposals().as_slice().len() - NUMBER_SIZE` for one `UncleBlock` slice (field 1 of the table) -/
def uncleProposalsExtra (u : Bytes) : Nat := ((tableFieldBytes u 1).getD []).length - numberSize

/-- `BlockReader::serialized_size_without_uncle_proposals` on a (compatible) `Block` slice; `none` when the
model cannot slice the bytes (they do not verify) -/
def sizeWithoutUncleProposals (bs : Bytes) : Option Nat :=
  match dynHeader bs with
  | none => none
  | some offs =>
    match slices bs offs with
    | _hdr :: uncles :: _ =>
      match dynItems uncles with
      | some us => some (bs.length - (us.map uncleProposalsExtra).sum)
      | none => none
    | _ => none

/-- `UncleBlock::serialized_size_in_block()` -/
def uncleSizeInBlock : Nat := size S.Header + 5 * numberSize

/-- what `ProposalShortId::serialized_size()` must be: the schema's `TOTAL_SIZE` -/
def proposalShortIdSize : Nat := size S.ProposalShortId

end CkbVerif.Hash
