import CkbVerif.Gen.Indexer

/-!
# Model of the built-in indexer (`util/indexer/src/indexer.rs`, `util/indexer/src/service.rs`)

Core Lean only. The model follows the Rust code as it is:

* the KV store is an association list `Key ↦ Val`; keys are the eight key families of `enum Key`;
  `Key.bytes` is the byte encoding of `From<Key> for Vec<u8>` (big-endian numbers) with ONE
  abstraction: the 33 bytes `code_hash ‖ hash_type` of a script are one symbol `Script.code` (the
  harness chooses code hashes whose byte order is the order of the ids), and the 32 bytes of a tx /
  block hash are one symbol (their relative order is never observed: see `tip`);
* `append` builds a write batch (`List BOp`) reading from the *pre-batch* store, with the fallback
  lookup of an input among the block's own transactions, then commits it; `rollback` likewise reads
  the pre-batch store; `prune` as the code (ConsumedOutPoint rows `< prune_to`, Header/TxHash rows
  from the smallest pruned ConsumedOutPoint number to `≤ prune_to`);
* the RPC queries (`get_cells`, `get_transactions`, `get_cells_capacity`) are iterations over the
  rows in key-byte order with `starts_with(prefix)`, the exact-mode key length test, the filters in
  the code's order, `limit`, and the `after_cursor` = last key.
-/
namespace CkbVerif.Indexer
open CkbVerif.Gen.Indexer

structure Script where
  code : Nat
  args : List Nat
deriving DecidableEq, Repr, Inhabited

structure OutPoint where
  tx : Nat
  idx : Nat
deriving DecidableEq, Repr, Inhabited

/-- `CellOutput` together with its `outputs_data` entry. -/
structure Output where
  cap : Nat
  lock : Script
  type : Option Script
  data : List Nat
deriving DecidableEq, Repr, Inhabited

/-- `Value::Cell(block_number, tx_index, output, output_data)` -/
structure Cell where
  bn : Nat
  txIdx : Nat
  out : Output
deriving DecidableEq, Repr, Inhabited

inductive IoType | input | output
deriving DecidableEq, Repr

inductive Key
  | outPoint (op : OutPoint)
  | consumed (bn : Nat) (op : OutPoint)
  | cellLock (s : Script) (bn tx io : Nat)
  | cellType (s : Script) (bn tx io : Nat)
  | txLock (s : Script) (bn tx io : Nat) (t : IoType)
  | txType (s : Script) (bn tx io : Nat) (t : IoType)
  | txHash (tx : Nat)
  | header (bn : Nat) (hash : Nat) (filtered : Bool)
deriving DecidableEq, Repr

inductive Val
  | cell (c : Cell)
  | tx (h : Nat)
  | inputs (l : List OutPoint)
  | txs (l : List (Nat × Nat × Option Nat))
deriving DecidableEq, Repr

abbrev Store := List (Key × Val)

def get (s : Store) (k : Key) : Option Val :=
  match s with
  | [] => none
  | (k', v) :: r => if k' = k then some v else get r k

def del (s : Store) (k : Key) : Store := s.filter fun e => e.1 ≠ k

def put (s : Store) (k : Key) (v : Val) : Store := (k, v) :: del s k

/-- one write-batch entry -/
inductive BOp
  | put (k : Key) (v : Val)
  | del (k : Key)
deriving DecidableEq, Repr

def BOp.key : BOp → Key
  | .put k _ => k
  | .del k => k

def applyOp (s : Store) : BOp → Store
  | .put k v => put s k v
  | .del k => del s k

/-- `batch.commit()`: the operations take effect in the order they were added. -/
def commit (s : Store) (ops : List BOp) : Store := ops.foldl applyOp s

structure Tx where
  id : Nat
  inputs : List OutPoint
  outputs : List Output
deriving DecidableEq, Repr, Inhabited

structure Block where
  number : Nat
  hash : Nat
  txs : List Tx
deriving DecidableEq, Repr, Inhabited

/-! ## key bytes -/

/-- big-endian, `w` bytes -/
def be (n w : Nat) : List Nat := (List.range w).reverse.map fun i => (n / 256 ^ i) % 256

def scriptRaw (s : Script) : List Nat := s.code :: s.args

def ioByte : IoType → Nat
  | .input => 0
  | .output => 1

def Key.bytes : Key → List Nat
  | .outPoint op => [KP_OUT_POINT, op.tx] ++ be op.idx 4
  | .consumed bn op => [KP_CONSUMED_OUT_POINT] ++ be bn 8 ++ [op.tx] ++ be op.idx 4
  | .cellLock s bn tx io => [KP_CELL_LOCK_SCRIPT] ++ scriptRaw s ++ be bn 8 ++ be tx 4 ++ be io 4
  | .cellType s bn tx io => [KP_CELL_TYPE_SCRIPT] ++ scriptRaw s ++ be bn 8 ++ be tx 4 ++ be io 4
  | .txLock s bn tx io t => [KP_TX_LOCK_SCRIPT] ++ scriptRaw s ++ be bn 8 ++ be tx 4 ++ be io 4 ++ [ioByte t]
  | .txType s bn tx io t => [KP_TX_TYPE_SCRIPT] ++ scriptRaw s ++ be bn 8 ++ be tx 4 ++ be io 4 ++ [ioByte t]
  | .txHash tx => [KP_TX_HASH, tx]
  | .header bn h f => [KP_HEADER] ++ be bn 8 ++ [h] ++ (if f then [1] else [])

/-- lexicographic `<` on byte strings -/
def bytesLt : List Nat → List Nat → Bool
  | [], [] => false
  | [], _ :: _ => true
  | _ :: _, [] => false
  | a :: as, b :: bs => if a < b then true else if b < a then false else bytesLt as bs

def insertRow (r : Key × Val) : List (Key × Val) → List (Key × Val)
  | [] => [r]
  | x :: xs => if bytesLt r.1.bytes x.1.bytes then r :: x :: xs else x :: insertRow r xs

/-- rows in key-byte order (what a RocksDB iterator yields) -/
def sortRows (l : List (Key × Val)) : List (Key × Val) := l.foldr insertRow []

/-! ## append -/

/-- `self.store.get(OutPoint).or_else(|| find the creating transaction among this block's own)` -/
def lookupInput (s : Store) (b : Block) (op : OutPoint) : Option Cell :=
  match get s (.outPoint op) with
  | some (.cell c) => some c
  | _ =>
    match b.txs.zipIdx.find? (fun p => p.1.id = op.tx) with
    | some (tx, i) => (tx.outputs[op.idx]?).map fun o => ⟨b.number, i, o⟩
    | none => none

/-- batch entries for one resolved input -/
def consumeOps (bn txIndex inputIndex txId : Nat) (op : OutPoint) (c : Cell) : List BOp :=
  [.del (.cellLock c.out.lock c.bn c.txIdx op.idx),
   .put (.txLock c.out.lock bn txIndex inputIndex .input) (.tx txId)] ++
  (match c.out.type with
   | some t => [.del (.cellType t c.bn c.txIdx op.idx),
                .put (.txType t bn txIndex inputIndex .input) (.tx txId)]
   | none => []) ++
  [.del (.outPoint op), .put (.consumed bn op) (.cell c)]

def inputsOps (s : Store) (b : Block) (txIndex : Nat) (tx : Tx) : List BOp :=
  if txIndex = 0 then [] else
  tx.inputs.zipIdx.flatMap fun (op, ii) =>
    match lookupInput s b op with
    | some c => consumeOps b.number txIndex ii tx.id op c
    | none => []

def inputsMatched (s : Store) (b : Block) (txIndex : Nat) (tx : Tx) : Bool :=
  txIndex ≠ 0 && tx.inputs.any fun op => (lookupInput s b op).isSome

def createOps (bn txIndex txId oi : Nat) (o : Output) : List BOp :=
  [.put (.cellLock o.lock bn txIndex oi) (.tx txId),
   .put (.txLock o.lock bn txIndex oi .output) (.tx txId)] ++
  (match o.type with
   | some t => [.put (.cellType t bn txIndex oi) (.tx txId),
                .put (.txType t bn txIndex oi .output) (.tx txId)]
   | none => []) ++
  [.put (.outPoint ⟨txId, oi⟩) (.cell ⟨bn, txIndex, o⟩)]

def outputsOps (b : Block) (txIndex : Nat) (tx : Tx) : List BOp :=
  tx.outputs.zipIdx.flatMap fun (o, oi) => createOps b.number txIndex tx.id oi o

def txMatched (s : Store) (b : Block) (txIndex : Nat) (tx : Tx) : Bool :=
  inputsMatched s b txIndex tx || !tx.outputs.isEmpty

def txOps (s : Store) (b : Block) (txIndex : Nat) (tx : Tx) : List BOp :=
  inputsOps s b txIndex tx ++ outputsOps b txIndex tx ++
  (if txMatched s b txIndex tx then [.put (.txHash tx.id) (.inputs tx.inputs)] else [])

def matchedTxs (s : Store) (b : Block) : List (Nat × Nat × Option Nat) :=
  b.txs.zipIdx.filterMap fun (tx, i) =>
    if txMatched s b i tx then some (tx.id, tx.outputs.length, some i) else none

def headerOp (s : Store) (b : Block) : BOp :=
  let m := matchedTxs s b
  if m.length = b.txs.length then
    .put (.header b.number b.hash false) (.txs (m.map fun (h, n, _) => (h, n, none)))
  else
    .put (.header b.number b.hash true) (.txs m)

def appendOps (s : Store) (b : Block) : List BOp :=
  (b.txs.zipIdx.flatMap fun (tx, i) => txOps s b i tx) ++ [headerOp s b]

/-- `append` up to and including `batch.commit()` -/
def appendCore (s : Store) (b : Block) : Store := commit s (appendOps s b)

/-! ## tip -/

def headerRows (s : Store) : List (Nat × Nat × Bool × List (Nat × Nat × Option Nat)) :=
  s.filterMap fun e =>
    match e with
    | (.header bn h f, .txs l) => some (bn, h, f, l)
    | _ => none

/-- the greatest Header key: by number, then hash symbol, then the `filtered` suffix -/
def hdrLt (a b : Nat × Nat × Bool × List (Nat × Nat × Option Nat)) : Bool :=
  a.1 < b.1 || (a.1 = b.1 && (a.2.1 < b.2.1 || (a.2.1 = b.2.1 && (!a.2.2.1 && b.2.2.1))))

def tipRow (s : Store) : Option (Nat × Nat × Bool × List (Nat × Nat × Option Nat)) :=
  (headerRows s).foldl (fun acc r =>
    match acc with
    | none => some r
    | some a => if hdrLt a r then some r else some a) none

def tip (s : Store) : Option (Nat × Nat) := (tipRow s).map fun r => (r.1, r.2.1)

/-! ## prune -/

def consumedNumbers (s : Store) : List Nat :=
  s.filterMap fun e => match e.1 with | .consumed bn _ => some bn | _ => none

def listMin : List Nat → Option Nat
  | [] => none
  | a :: r => match listMin r with | none => some a | some m => some (min a m)

def pruneOps (s : Store) (keep : Nat) : List BOp :=
  match tip s with
  | none => []
  | some (tipNumber, _) =>
    let pruneNumber := keep + 1
    if tipNumber > pruneNumber then
      let pruneTo := tipNumber - pruneNumber
      let cons : List BOp := s.filterMap fun e =>
        match e.1 with
        | .consumed bn op => if bn < pruneTo then some (.del (.consumed bn op)) else none
        | _ => none
      match listMin ((consumedNumbers s).filter (· < pruneTo)) with
      | none => cons
      | some minBn =>
        cons ++ (headerRows s).flatMap fun (bn, h, f, l) =>
          if minBn ≤ bn ∧ bn ≤ pruneTo then
            (l.map fun (t, _, _) => BOp.del (.txHash t)) ++ [.del (.header bn h f)]
          else []
    else []

def prune (s : Store) (keep : Nat) : Store := commit s (pruneOps s keep)

/-- the whole `append`: commit, then `prune` when `block_number.is_multiple_of(prune_interval)` -/
def append (keep interval : Nat) (s : Store) (b : Block) : Store :=
  let s' := appendCore s b
  if b.number % interval = 0 then prune s' keep else s'

/-! ## rollback -/

def rbOutputOps (s : Store) (bn txIndex txId oi : Nat) : List BOp :=
  let op : OutPoint := ⟨txId, oi⟩
  let found : Option Output :=
    match get s (.outPoint op) with
    | some (.cell c) => some c.out
    | _ => match get s (.consumed bn op) with
      | some (.cell c) => some c.out
      | _ => none
  match found with
  | none => []
  | some o =>
    [.del (.cellLock o.lock bn txIndex oi), .del (.txLock o.lock bn txIndex oi .output)] ++
    (match o.type with
     | some t => [.del (.cellType t bn txIndex oi), .del (.txType t bn txIndex oi .output)]
     | none => []) ++
    [.del (.outPoint op)]

def rbInputOps (s : Store) (bn txIndex ii : Nat) (op : OutPoint) : List BOp :=
  match get s (.consumed bn op) with
  | some (.cell c) =>
    [.put (.cellLock c.out.lock c.bn c.txIdx op.idx) (.tx op.tx),
     .del (.txLock c.out.lock bn txIndex ii .input)] ++
    (match c.out.type with
     | some t => [.put (.cellType t c.bn c.txIdx op.idx) (.tx op.tx),
                  .del (.txType t bn txIndex ii .input)]
     | none => []) ++
    [.put (.outPoint op) (.cell c)]
  | _ => []

def rbTxOps (s : Store) (bn : Nat) (pos : Nat) (e : Nat × Nat × Option Nat) : List BOp :=
  let txId := e.1
  let txIndex := e.2.2.getD pos
  ((List.range e.2.1).flatMap fun oi => rbOutputOps s bn txIndex txId oi) ++
  (if txIndex = 0 then [] else
    match get s (.txHash txId) with
    | some (.inputs l) => l.zipIdx.flatMap fun (op, ii) => rbInputOps s bn txIndex ii op
    | _ => []) ++
  [.del (.txHash txId)]

def rollbackOps (s : Store) : List BOp :=
  match tipRow s with
  | none => []
  | some (bn, h, f, l) =>
    (l.zipIdx.reverse.flatMap fun (e, pos) => rbTxOps s bn pos e) ++ [.del (.header bn h f)]

def rollback (s : Store) : Store := commit s (rollbackOps s)

/-! ## queries of `Indexer` (`get_live_cells_by_script`, `get_transactions_by_script`) -/

def isPrefix : List Nat → List Nat → Bool
  | [], _ => true
  | _ :: _, [] => false
  | a :: as, b :: bs => a = b && isPrefix as bs

/-- rows whose key starts with `prefix`, in key order (`iter(from prefix).take_while(starts_with)`) -/
def scan (s : Store) (pre : List Nat) : List (Key × Val) :=
  sortRows (s.filter fun e => isPrefix pre e.1.bytes)

def Key.io : Key → Nat
  | .cellLock _ _ _ io | .cellType _ _ _ io | .txLock _ _ _ io _ | .txType _ _ _ io _ => io
  | _ => 0

def valTx : Val → Nat
  | .tx h => h
  | _ => 0

def liveCellsByScript (s : Store) (fam : Nat) (q : Script) : List OutPoint :=
  (scan s (fam :: scriptRaw q)).map fun e => ⟨valTx e.2, e.1.io⟩

def transactionsByScript (s : Store) (fam : Nat) (q : Script) : List Nat :=
  (scan s (fam :: scriptRaw q)).map fun e => valTx e.2

/-! ## RPC queries of `IndexerHandle` -/

inductive DataMode | pre | exact | infix
deriving DecidableEq, Repr

structure Filter where
  script : Option Script := none
  scriptLenRange : Option (Nat × Nat) := none
  data : Option (DataMode × List Nat) := none
  dataLenRange : Option (Nat × Nat) := none
  capRange : Option (Nat × Nat) := none
  blockRange : Option (Nat × Nat) := none
deriving Repr, Inhabited

/-- the length of `extract_raw_data`: 32 + 1 + args -/
def rawLen (s : Script) : Nat := 33 + s.args.length

def isInfix (pat l : List Nat) : Bool :=
  match l with
  | [] => pat.isEmpty
  | _ :: r => isPrefix pat l || isInfix pat r

def inRange (r : Option (Nat × Nat)) (x : Nat) : Bool :=
  match r with
  | none => true
  | some (a, b) => a ≤ x && x < b

/-- `get_cells` row filter; `lockSearch` = the search key is a lock script, so the filter script
and `script_len_range` apply to the type script. `lenIncl` = the variant of the script_len_range test
that `get_cells_capacity` had BEFORE the repair 963ba99 (`> r1` instead of `>= r1`); the code now
uses `lenIncl = false` everywhere. -/
def cellPasses (f : Filter) (lockSearch : Bool) (lenIncl : Bool) (c : Cell) : Bool :=
  (match f.script with
   | none => true
   | some fs =>
     if lockSearch then
       match c.out.type with
       | none => false
       | some t => isPrefix (scriptRaw fs) (scriptRaw t)
     else isPrefix (scriptRaw fs) (scriptRaw c.out.lock)) &&
  (match f.scriptLenRange with
   | none => true
   | some (a, b) =>
     let n := if lockSearch then (match c.out.type with | none => 0 | some t => rawLen t) else rawLen c.out.lock
     a ≤ n && (if lenIncl then n ≤ b else n < b)) &&
  (match f.data with
   | none => true
   | some (.pre, d) => isPrefix d c.out.data
   | some (.exact, d) => d = c.out.data
   | some (.infix, d) => isInfix d c.out.data) &&
  inRange f.dataLenRange c.out.data.length &&
  inRange f.capRange c.out.cap &&
  inRange f.blockRange c.bn

structure CellAns where
  op : OutPoint
  cell : Cell
  key : List Nat
deriving Repr

/-- rows after the cursor in iteration direction -/
def afterCursor (rows : List (Key × Val)) (desc : Bool) (cursor : Option (List Nat)) : List (Key × Val) :=
  let rows := if desc then rows.reverse else rows
  match cursor with
  | none => rows
  | some c =>
    -- `IteratorMode::From(cursor, dir)` then `skip(1)`
    let r := rows.dropWhile fun e => if desc then bytesLt c e.1.bytes else bytesLt e.1.bytes c
    r.drop 1

/-- all answers of `get_cells` for one search key, before `take(limit)`; `none` = the code would
panic on `expect("stored OutPoint")` -/
def cellRows (s : Store) (lockSearch : Bool) (q : Script) (exact : Bool) (f : Filter) (lenIncl : Bool)
    (rows : List (Key × Val)) : Option (List CellAns) :=
  let pre := (if lockSearch then KP_CELL_LOCK_SCRIPT else KP_CELL_TYPE_SCRIPT) :: scriptRaw q
  rows.foldr (fun e acc =>
    match acc with
    | none => none
    | some l =>
      if exact && e.1.bytes.length ≠ pre.length + 16 then some l else
      let op : OutPoint := ⟨valTx e.2, e.1.io⟩
      match get s (.outPoint op) with
      | some (.cell c) => if cellPasses f lockSearch lenIncl c then some (⟨op, c, e.1.bytes⟩ :: l) else some l
      | _ => none) (some [])

def cellPrefix (lockSearch : Bool) (q : Script) : List Nat :=
  (if lockSearch then KP_CELL_LOCK_SCRIPT else KP_CELL_TYPE_SCRIPT) :: scriptRaw q

/-- one `get_cells` call: (objects, last_cursor) -/
def getCells (s : Store) (lockSearch : Bool) (q : Script) (exact : Bool) (f : Filter) (desc : Bool)
    (limit : Nat) (cursor : Option (List Nat)) : Option (List CellAns × List Nat) :=
  let rows := afterCursor (scan s (cellPrefix lockSearch q)) desc cursor
  match cellRows s lockSearch q exact f false rows with
  | none => none
  | some l =>
    let page := l.take limit
    some (page, match page.getLast? with | some a => a.key | none => [])

/-- repeated `get_cells` calls following `last_cursor` until a page comes back empty -/
def getCellsPages (s : Store) (lockSearch : Bool) (q : Script) (exact : Bool) (f : Filter) (desc : Bool)
    (limit : Nat) : Nat → Option (List Nat) → Option (List (List CellAns))
  | 0, _ => some []
  | fuel + 1, cursor =>
    match getCells s lockSearch q exact f desc limit cursor with
    | none => none
    | some (page, last) =>
      if page.isEmpty then some [[]] else
      match getCellsPages s lockSearch q exact f desc limit fuel (some last) with
      | none => none
      | some rest => some (page :: rest)

/-- `get_cells_capacity` (since the repair 963ba99 the `script_len_range` test is the one of
`get_cells`: `script_len < r0 || script_len >= r1`) -/
def getCellsCapacity (s : Store) (lockSearch : Bool) (q : Script) (exact : Bool) (f : Filter) :
    Option Nat :=
  (cellRows s lockSearch q exact f false (scan s (cellPrefix lockSearch q))).map fun l =>
    (l.map fun a => a.cell.out.cap).foldl (· + ·) 0

/-- `get_cells_capacity` as it was BEFORE the repair 963ba99 (`script_len > r1`: the end of
`script_len_range` inclusive) — kept only for the pre-fix witness theorem -/
def getCellsCapacityBuggy (s : Store) (lockSearch : Bool) (q : Script) (exact : Bool) (f : Filter) :
    Option Nat :=
  (cellRows s lockSearch q exact f true (scan s (cellPrefix lockSearch q))).map fun l =>
    (l.map fun a => a.cell.out.cap).foldl (· + ·) 0

/-! ### get_transactions -/

structure TxRow where
  tx : Nat
  bn : Nat
  txIdx : Nat
  io : Nat
  isInput : Bool
  key : List Nat
deriving Repr

def txPrefix (lockSearch : Bool) (q : Script) : List Nat :=
  (if lockSearch then KP_TX_LOCK_SCRIPT else KP_TX_TYPE_SCRIPT) :: scriptRaw q

def Key.txFields : Key → Option (Nat × Nat × Nat × IoType)
  | .txLock _ bn tx io t | .txType _ bn tx io t => some (bn, tx, io, t)
  | _ => none

/-- a scanned row decoded the way the code decodes it (numbers from the END of the key), after the
exact-mode length test; `none` = row skipped by the exact test -/
def decodeTxRow (pre : List Nat) (exact : Bool) (e : Key × Val) : Option TxRow :=
  if exact && e.1.bytes.length ≠ pre.length + 17 then none else
  match e.1.txFields with
  | some (bn, tx, io, t) => some ⟨valTx e.2, bn, tx, io, t = .input, e.1.bytes⟩
  | none => none

/-- the filter-script test: a point lookup of the sibling Tx*Script row -/
def txRowPasses (s : Store) (lockSearch : Bool) (fs : Option Script) (br : Option (Nat × Nat)) (r : TxRow) : Bool :=
  (match fs with
   | none => true
   | some f =>
     let t : IoType := if r.isInput then .input else .output
     let k : Key := if lockSearch then .txType f r.bn r.txIdx r.io t else .txLock f r.bn r.txIdx r.io t
     (get s k).isSome) &&
  inRange br r.bn

/-- ungrouped page -/
def getTxs (s : Store) (lockSearch : Bool) (q : Script) (exact : Bool) (fs : Option Script)
    (br : Option (Nat × Nat)) (desc : Bool) (limit : Nat) (cursor : Option (List Nat)) : List TxRow × List Nat :=
  let pre := txPrefix lockSearch q
  let rows := afterCursor (scan s pre) desc cursor
  let l := (rows.filterMap (decodeTxRow pre exact)).filter (txRowPasses s lockSearch fs br)
  let page := l.take limit
  (page, match page.getLast? with | some a => a.key | none => [])

structure TxGroup where
  tx : Nat
  bn : Nat
  txIdx : Nat
  cells : List (Bool × Nat)
deriving Repr

/-- grouped page: the loop of the code (`break` test before the filters, `last_key` set before them) -/
def groupLoop (s : Store) (lockSearch : Bool) (fs : Option Script) (br : Option (Nat × Nat)) (limit : Nat) :
    List TxRow → List TxGroup → List Nat → List TxGroup × List Nat
  | [], acc, last => (acc.reverse, last)
  | r :: rest, acc, last =>
    match acc with
    | g :: gs =>
      if acc.length = limit ∧ g.tx ≠ r.tx then (acc.reverse, last) else
      if !txRowPasses s lockSearch fs br r then groupLoop s lockSearch fs br limit rest acc r.key else
      if g.tx = r.tx then
        groupLoop s lockSearch fs br limit rest ({ g with cells := g.cells ++ [(r.isInput, r.io)] } :: gs) r.key
      else
        groupLoop s lockSearch fs br limit rest (⟨r.tx, r.bn, r.txIdx, [(r.isInput, r.io)]⟩ :: acc) r.key
    | [] =>
      if limit = 0 then ([], last) else
      if !txRowPasses s lockSearch fs br r then groupLoop s lockSearch fs br limit rest acc r.key else
      groupLoop s lockSearch fs br limit rest [⟨r.tx, r.bn, r.txIdx, [(r.isInput, r.io)]⟩] r.key

def getTxsGrouped (s : Store) (lockSearch : Bool) (q : Script) (exact : Bool) (fs : Option Script)
    (br : Option (Nat × Nat)) (desc : Bool) (limit : Nat) (cursor : Option (List Nat)) : List TxGroup × List Nat :=
  let pre := txPrefix lockSearch q
  let rows := afterCursor (scan s pre) desc cursor
  groupLoop s lockSearch fs br limit (rows.filterMap (decodeTxRow pre exact)) [] []

def getTxsPages (s : Store) (lockSearch : Bool) (q : Script) (exact : Bool) (fs : Option Script)
    (br : Option (Nat × Nat)) (desc : Bool) (limit : Nat) : Nat → Option (List Nat) → List (List TxRow)
  | 0, _ => []
  | fuel + 1, cursor =>
    let (page, last) := getTxs s lockSearch q exact fs br desc limit cursor
    if page.isEmpty then [[]] else page :: getTxsPages s lockSearch q exact fs br desc limit fuel (some last)

def getTxsGroupedPages (s : Store) (lockSearch : Bool) (q : Script) (exact : Bool) (fs : Option Script)
    (br : Option (Nat × Nat)) (desc : Bool) (limit : Nat) : Nat → Option (List Nat) → List (List TxGroup)
  | 0, _ => []
  | fuel + 1, cursor =>
    let (page, last) := getTxsGrouped s lockSearch q exact fs br desc limit cursor
    if page.isEmpty then [[]] else page :: getTxsGroupedPages s lockSearch q exact fs br desc limit fuel (some last)


/-! ## `tip()` as the code computes it when NO Header row exists

`tip()` / `get_indexer_tip` / the tip of `get_cells_capacity` seek to the greatest key below
`[KeyPrefix::Header + 1]` and decode it WITHOUT testing that it is a Header key. When no Header row
exists, a residue row is decoded: for a ConsumedOutPoint row (which `rollback` never deletes) the
"number" is the consuming block's number and the "hash" is the out-point's transaction hash. Rows of
the families in between (hash-ordered or script-ordered keys) cannot be decoded in this model. -/
inductive TipAns
  | none
  | header (n h : Nat)
  | residue (n : Nat)   -- decoded from a ConsumedOutPoint row: (n, some transaction hash)
  | garbage             -- decoded from another non-Header row
deriving DecidableEq, Repr

def listMax : List Nat → Option Nat
  | [] => none
  | a :: r => match listMax r with | none => some a | some m => some (max a m)

def tipAsCode (s : Store) : TipAns :=
  match tip s with
  | some (n, h) => .header n h
  | none =>
    if s.any (fun e => match e.1 with | .consumed .. | .header .. => false | _ => true) then .garbage else
    match listMax (consumedNumbers s) with
    | some n => .residue n
    | none => .none

end CkbVerif.Indexer
