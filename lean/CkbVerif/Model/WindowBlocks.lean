import CkbVerif.Model.Window

/-!
# Blocks with embedded uncles: the three places that gather a block's proposal ids (C20)

Follows the code as written:

* `util/types/src/core/views.rs` — `BlockView::union_proposal_ids`: the block's own `proposals()`
  chained with `uncles().flat_map(|u| u.proposals())` (`Blk.unionIds`). Used by
  `update_proposal_table` (attached blocks) and `reload_proposal_table` (blocks read back from the
  store) in `chain/src/verify.rs`.
* `shared/src/shared_builder.rs` — `init_proposal_table`: per height, `ids_set.extend` of
  `store.get_block_proposal_txs_ids(&hash)`, then of every uncle's `proposals()` from
  `store.get_block_uncles(&hash)` (`Blk.gatherIds`; two separate store columns).
* `verification/contextual/src/contextual_block_verifier.rs` — `TwoPhaseCommitVerifier::verify`: per
  ancestor, the same two lookups and `extend`s (`Blk.gatherIds` again, written out a second time in
  the code).

A main chain of blocks is a `List Blk`; `Window.switch` / `Window.init` / `Window.verifierIds` take the
per-block id lists these functions produce.
-/
namespace CkbVerif.Window

/-- the proposal-relevant part of a stored block -/
structure Blk where
  own : Ids := []
  uncles : List Ids := []
deriving Repr

/-- `BlockView::union_proposal_ids` -/
def Blk.unionIds (b : Blk) : Ids := b.own ++ b.uncles.flatMap (fun u => u)

/-- `ids_set.extend(own); for u in uncles { ids_set.extend(u.proposals()) }` -/
def Blk.gatherIds (b : Blk) : Ids := b.uncles.foldl (fun acc u => acc ++ u) ([] ++ b.own)

/-- a main-chain change delivered as blocks: rows come from `union_proposal_ids` -/
def switchB (w : Win) (s : Node) (common : Nat) (branch : List Blk) : Node × Ids :=
  switch w s common (branch.map Blk.unionIds)

/-- start-up on a stored chain of blocks: rows come from the two store lookups -/
def initB (w : Win) (chain : List Blk) : Node := init w (chain.map Blk.gatherIds)

/-- the ids the commit verifier collects for block `n` on a stored chain of blocks -/
def verifierIdsB (w : Win) (chain : List Blk) (n : Nat) : Ids :=
  verifierIds w (chain.map Blk.gatherIds) n

def commitOkB (w : Win) (chain : List Blk) (n : Nat) (committed : Ids) : Bool :=
  commitOk w (chain.map Blk.gatherIds) n committed

end CkbVerif.Window
