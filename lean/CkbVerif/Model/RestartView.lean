import CkbVerif.Model.Chain
import CkbVerif.Model.Window

/-!
# The proposal table / proposal view across a process restart (C08)

`Model/Chain` is the import pipeline with its persisted part; `Model/Window` is the proposal table
(`ProposalTable::{insert, remove, finalize}`, `update_proposal_table`, `init_proposal_table`) over a main
chain given as a `List Ids`. This file joins them:

* a block of the tree carries its OWN proposals zone and the proposals zones of its embedded UNCLES
  (`Props`); `unionIds` is `BlockView::union_proposal_ids` (own ++ every uncle's), which is what BOTH
  `chain/src/verify.rs update_proposal_table` (running node) and `shared/src/shared_builder.rs
  init_proposal_table` (start-up: `get_block_proposal_txs_ids` ∪ `get_block_uncles(..).proposals()`) collect;
* the main chain of a tip is its path from genesis (`path`), its `List Ids` is `chainIds`;
* the RUNNING node keeps a `Window.Node` (table, view; `chain` is a ghost copy of the main chain the table
  was last finalised for): a verification that moves the tip performs `Window.switch` from the fork point
  (`switchTo`: detached numbers removed, attached blocks' union ids inserted, `reload_proposal_table`,
  `finalize`), anything else leaves it alone;
* a process death (`Op.crash`) loses it; the next process rebuilds it with `Window.init` over the main chain
  of the PERSISTED tip (`SharedBuilder::init_snapshot` → `init_proposal_table`, as written: walk of the
  numbers `tip − w_far ..= tip`, one `insert` per number, then `finalize` with an empty origin view).
  (The start-up scan's deliveries that follow are ordinary `deliver` operations.)

`initOwn` is the seeded regression (only `get_block_proposal_txs_ids`, no uncles): used by a decided
witness only.
-/
namespace CkbVerif.RestartView
open CkbVerif.Chain CkbVerif.Window

/-- proposal ids carried by the blocks of the tree -/
structure Props where
  /-- the block's own proposals zone -/
  own : Nat → Ids
  /-- the proposals zones of the uncles embedded in the block, in order -/
  uncles : Nat → List Ids

/-- `BlockView::union_proposal_ids` (the genesis block carries none) -/
def unionIds (P : Props) (b : Nat) : Ids := if b = 0 then [] else P.own b ++ (P.uncles b).flatten

/-- the seeded regression's per-block id set: the own zone only -/
def ownIds (P : Props) (b : Nat) : Ids := if b = 0 then [] else P.own b

/-- `b, parent b, …, 0` (fuel `b` suffices: `par b < b`) -/
def pathRev (T : Tree) : Nat → Nat → List Nat
  | 0, _ => [0]
  | fuel + 1, b => if b = 0 then [0] else b :: pathRev T fuel (T.par b)

/-- the main chain whose tip is `b`: genesis first -/
def path (T : Tree) (b : Nat) : List Nat := (pathRev T b b).reverse

/-- the main chain of tip `b` as `Model/Window` sees it: element `n` = union ids of the block of number `n` -/
def chainIds (P : Props) (T : Tree) (b : Nat) : List Ids := (path T b).map (unionIds P)

def commonPrefix : List Nat → List Nat → List Nat
  | a :: as, b :: bs => if a = b then a :: commonPrefix as bs else []
  | _, _ => []

/-- `verify_block`'s new-best-block branch for the proposal table: `find_fork` between the old and the new
tip, `update_proposal_table(fork)` + `finalize` = `Window.switch` at the fork point -/
def switchTo (w : Win) (P : Props) (T : Tree) (n : Node) (oldTip newTip : Nat) : Node :=
  let cp := commonPrefix (path T oldTip) (path T newTip)
  (switch w n (cp.length - 1) (((path T newTip).drop cp.length).map (unionIds P))).1

/-- start-up: `init_proposal_table` over the main chain of the persisted tip -/
def initAt (w : Win) (P : Props) (T : Tree) (tip : Nat) : Node := Window.init w (chainIds P T tip)

/-- the seeded regression: the uncles' zones are not read at start-up -/
def initOwn (w : Win) (P : Props) (T : Tree) (tip : Nat) : Node :=
  Window.init w ((path T tip).map (ownIds P))

/-- pipeline state + the running process's proposal table / view -/
structure XState where
  st : State
  pv : Node

def xinit (w : Win) (P : Props) (T : Tree) : XState := { st := Chain.init T, pv := initAt w P T 0 }

/-- one operation of the pipeline; the proposal table follows the tip, a crash rebuilds it from the store -/
def xstep (w : Win) (P : Props) (T : Tree) (x : XState) (op : Op) : XState :=
  let s' := (step T x.st op).1
  match op with
  | .crash => { st := s', pv := initAt w P T s'.tip }
  | _ => { st := s', pv := if s'.tip = x.st.tip then x.pv else switchTo w P T x.pv x.st.tip s'.tip }

def xrun (w : Win) (P : Props) (T : Tree) (x : XState) : List Op → XState
  | [] => x
  | op :: ops => xrun w P T (xstep w P T x op) ops

end CkbVerif.RestartView
