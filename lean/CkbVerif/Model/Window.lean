import CkbVerif.Gen.Window

/-!
# Proposal window / proposal table model (C20; shared with C03, C06, C12, C13)

Follows the code as written:

* `util/proposal-table/src/lib.rs` — `ProposalTable::{insert, remove, finalize}`; the table is a
  `BTreeMap<BlockNumber, HashSet<ProposalShortId>>`, here an association list whose operations are
  filters (so a key occurs at most once after `insert`, as in the map). Id sets are lists; all
  statements about them are membership statements and the driver prints them sorted and deduplicated.
* `chain/src/verify.rs` — `update_proposal_table` (remove detached numbers, insert attached blocks'
  `union_proposal_ids`, `reload_proposal_table`), followed by `finalize(origin, new_tip)`; the same
  sequence is used by `truncate` (no attached blocks).
* `shared/src/shared_builder.rs` — `init_proposal_table` (start-up reconstruction).
* `verification/contextual/src/contextual_block_verifier.rs` — `TwoPhaseCommitVerifier::verify`.

A main chain is a `List Ids`: element `n` is `union_proposal_ids` of the main-chain block with
number `n` (own proposals and the uncles'); element 0 is the genesis block.
Block numbers are `Nat` (the code's `number + 1` cannot overflow below 2^64 − 1 blocks).
-/
namespace CkbVerif.Window

/-- `ProposalWindow(closest, farthest)` -/
structure Win where
  close : Nat
  far : Nat
deriving Repr, DecidableEq

/-- the consensus default, regenerated from `spec/src/consensus.rs` on every run -/
def defaultWin : Win := ⟨CkbVerif.Gen.Window.W_CLOSE, CkbVerif.Gen.Window.W_FAR⟩

abbrev Ids := List Nat
abbrev Table := List (Nat × Ids)

/-- `ProposalView { gap, set }` -/
structure View where
  gap : Ids := []
  set : Ids := []
deriving Repr

namespace Table

/-- `BTreeMap::insert` (replaces an existing entry) -/
def insert (t : Table) (n : Nat) (ids : Ids) : Table :=
  (n, ids) :: t.filter (fun e => e.1 != n)

/-- `BTreeMap::remove` (the new map) -/
def remove (t : Table) (n : Nat) : Table :=
  t.filter (fun e => e.1 != n)

/-- `BTreeMap::get` -/
def get? (t : Table) (n : Nat) : Option Ids :=
  (t.find? (fun e => e.1 == n)).map (·.2)

/-- `BTreeMap::split_off(&k)`: the part with keys `≥ k` (which the code keeps) -/
def splitOff (t : Table) (k : Nat) : Table :=
  t.filter (fun e => decide (k ≤ e.1))

/-- `table.range(..).flat_map(|pair| pair.1)` for a key predicate -/
def rangeIds (t : Table) (p : Nat → Bool) : Ids :=
  (t.filter (fun e => p e.1)).flatMap (·.2)

def removeAll (t : Table) : List Nat → Table
  | [] => t
  | n :: ns => (t.remove n).removeAll ns

def insertAll (t : Table) : List (Nat × Ids) → Table
  | [] => t
  | e :: es => (t.insert e.1 e.2).insertAll es

end Table

/-- `ProposalTable::finalize(origin, number)`: new table, removed ids, new view. -/
def finalize (w : Win) (t : Table) (origin : View) (number : Nat) : Table × Ids × View :=
  let cand := number + 1
  let pstart := cand - w.far          -- saturating_sub
  let pend := cand - w.close          -- saturating_sub
  let t' := if pstart > 1 then t.splitOff pstart else t
  let newIds : Ids :=
    if cand ≤ w.close then []
    else t'.rangeIds (fun n => decide (pstart ≤ n) && decide (n ≤ pend))
  let gap : Ids :=
    if cand ≤ w.close then t'.rangeIds (fun n => decide (n ≤ number))
    else t'.rangeIds (fun n => decide (pend < n) && decide (n ≤ number))
  (t', origin.set.filter (fun x => !(newIds.contains x)), { gap := gap, set := newIds })

/-- ids of the main-chain block with number `n` (`expect("block stored")` for the ranges used) -/
def idsAt (chain : List Ids) (n : Nat) : Ids := chain.getD n []

/-- `(start, b0), (start+1, b1), …` — the attached blocks with their numbers -/
def numbered (start : Nat) : List Ids → List (Nat × Ids)
  | [] => []
  | b :: bs => (start, b) :: numbered (start + 1) bs

/-- entries `(bn, ids of main-chain block bn)` for `bn` in `lo ..= hi` -/
def chainEntries (chain : List Ids) (lo hi : Nat) : List (Nat × Ids) :=
  (List.range' lo (hi + 1 - lo)).map (fun bn => (bn, idsAt chain bn))

/-- The node state the property is about. -/
structure Node where
  /-- main chain; `chain[n]` = union proposal ids of block `n` -/
  chain : List Ids
  table : Table
  view : View
deriving Repr

/-- `update_proposal_table(fork)` for a fork that detaches the blocks above `common` and attaches
`branch` on top of `common` (`newChain` is the store after the commit). -/
def updateTable (w : Win) (t : Table) (oldTip common : Nat) (branch : List Ids) (newChain : List Ids) : Table :=
  let t1 := t.removeAll (List.range' (common + 1) (oldTip - common))
  let t2 := t1.insertAll (numbered (common + 1) branch)
  -- reload_proposal_table
  if oldTip > common then               -- fork.has_detached()
    let detachedFront := common + 1
    if detachedFront < 2 then t2 else
    let newTip := common + branch.length   -- attached.back().number() or common
    let pstart := max 1 (newTip + 1 - w.far)
    t2.insertAll (chainEntries newChain pstart common)
  else t2

/-- One main-chain change as `verify_block` (new best block) / `truncate` perform it:
the chain becomes `chain[0..=common] ++ branch`. Covers extension (`common = tip`), reorganisation
of any depth, and truncation (`branch = []`). Returns the new node and `detached_proposal_id`. -/
def switch (w : Win) (s : Node) (common : Nat) (branch : List Ids) : Node × Ids :=
  let oldTip := s.chain.length - 1
  let newChain := s.chain.take (common + 1) ++ branch
  let t := updateTable w s.table oldTip common branch newChain
  let r := finalize w t s.view (common + branch.length)
  ({ chain := newChain, table := r.1, view := r.2.2 }, r.2.1)

/-- `init_proposal_table`: rebuild from the store at start-up. -/
def init (w : Win) (chain : List Ids) : Node :=
  let tip := chain.length - 1
  let pstart := tip - w.far
  let t := Table.insertAll [] (chainEntries chain pstart tip)
  let r := finalize w t {} tip
  { chain := chain, table := r.1, view := r.2.2 }

/-- `TwoPhaseCommitVerifier::verify`'s walk: from `proposal_end` down to `proposal_start` along
parent links, stopping at the genesis block (`header.is_genesis() → break`). -/
def verifierWalk (chain : List Ids) (pstart : Nat) : Nat → Ids
  | 0 => []
  | pend + 1 =>
    if pstart ≤ pend + 1 then idsAt chain (pend + 1) ++ verifierWalk chain pstart pend else []

/-- the proposal ids the verifier collects for a block with number `n` on top of `chain` -/
def verifierIds (w : Win) (chain : List Ids) (n : Nat) : Ids :=
  verifierWalk chain (n - w.far) (n - w.close)

/-- `committed_ids.difference(&proposal_txs_ids).next().is_none()` -/
def commitOk (w : Win) (chain : List Ids) (n : Nat) (committed : Ids) : Bool :=
  committed.all (fun x => (verifierIds w chain n).contains x)

end CkbVerif.Window
