/-
Model of the freezer pass over the store model (core Lean only).

Sources followed: `shared/src/shared.rs` (`freeze`, `wipe_out_frozen_data`), `freezer/src/freezer.rs`
(`freeze`: contiguous from `freezer.number()`, parent-hash check, stop at the first missing block),
`store/src/write_batch.rs` (`delete_block_body`, `delete_block`), `store/src/store.rs` (the accessors:
`get_block`, `get_packed_block` and `get_transaction_with_info` ask the freezer first, the six part
accessors fall back to `get_frozen_block` when their kv row is gone — the repair of F18; the code
before it is kept as `…PreF18`, the code before the repair of F17 as `getBlockPreF17`).

State on top of the C02 view: which blocks still have their header row / their body rows
(COLUMN_BLOCK_BODY, _UNCLE, _EXTENSION, _PROPOSAL_IDS and the NUMBER_HASH row are inserted together by
`insert_block` and deleted together by `delete_block_body`, so they are one flag), and the freezer as
the list of frozen blocks (item `k` is height `k+1`; `freezer.number() = length + 1`; the freezer files
themselves are C09's model).
-/
import CkbVerif.Model.Store
namespace CkbVerif.Freeze
open CkbVerif.Store

def THRESHOLD_EPOCH : Nat := Gen.Store.THRESHOLD_EPOCH
def MAX_FREEZE_LIMIT : Nat := Gen.Store.MAX_FREEZE_LIMIT

structure FS where
  v : View
  /-- header row present -/
  hdr : Nat → Bool
  /-- body rows (+ uncles, extension, proposals, number-hash row) present -/
  body : Nat → Bool
  /-- ids that have a NUMBER_HASH row -/
  stored : List Nat
  frozen : List Block

def frozenNumber (s : FS) : Nat := s.frozen.length + 1

/-- `insert_block` of the chain service -/
def insertBlock (s : FS) (id : Nat) : FS :=
  { s with hdr := fun x => if x = id then true else s.hdr x,
           body := fun x => if x = id then true else s.body x,
           stored := if s.stored.contains id then s.stored else id :: s.stored }

inductive Thr where
  | idle
  | panic
  | at (n : Nat)
deriving DecidableEq, Repr

/-- the threshold computation of `Shared::freeze` (`expect`s are `panic`; since the repair of F9 the
epoch-number row names a main-chain epoch — `Props/C02` — so on a consistent store none of them fires) -/
def threshold (s : FS) : Thr :=
  match s.v.m.curEpoch with
  | none => .panic
  | some ce =>
    if ce.number ≤ THRESHOLD_EPOCH then .idle else
    match s.v.m.epochNum (ce.number + 1 - THRESHOLD_EPOCH) with
    | none => .panic
    | some idx =>
      match s.v.r.epochExt idx with
      | none => .panic
      | some e =>
        match s.v.m.rindex e.key with
        | none => .panic
        | some ln => .at (min ln (frozenNumber s + MAX_FREEZE_LIMIT))

/-- the same computation with `freezer.number()` passed in (`Model/FreezeSys.lean` reads it from the
freezer files instead of the abstract list); `threshold s = thresholdAt s (frozenNumber s)` by `rfl` -/
def thresholdAt (s : FS) (fnum : Nat) : Thr :=
  match s.v.m.curEpoch with
  | none => .panic
  | some ce =>
    if ce.number ≤ THRESHOLD_EPOCH then .idle else
    match s.v.m.epochNum (ce.number + 1 - THRESHOLD_EPOCH) with
    | none => .panic
    | some idx =>
      match s.v.r.epochExt idx with
      | none => .panic
      | some e =>
        match s.v.m.rindex e.key with
        | none => .panic
        | some ln => .at (min ln (fnum + MAX_FREEZE_LIMIT))

/-- `get_block_hash(number).and_then(get_unfrozen_block)` (a header without body rows would make the
real accessor panic; it is `none` here) -/
def getUnfrozen (s : FS) (n : Nat) : Option Block :=
  match s.v.m.index n with
  | none => none
  | some id => if s.hdr id && s.body id then s.v.r.bodies id else none

/-- the append loop of `Freezer::freeze`: heights `n, n+1, … < thr`; stops at the first missing block;
a parent-hash mismatch is an error (second component) -/
def freezeLoop (get : Nat → Option Block) (thr : Nat) : Nat → Nat → List Block → List Block × Bool
  | 0, _, frozen => (frozen, false)
  | fuel + 1, n, frozen =>
    if n ≥ thr then (frozen, false) else
    match get n with
    | none => (frozen, false)
    | some b =>
      match frozen.getLast? with
      | some t => if t.id ≠ b.parent then (frozen, true) else freezeLoop get thr fuel (n + 1) (frozen ++ [b])
      | none => freezeLoop get thr fuel (n + 1) (frozen ++ [b])

/-! micro-steps of `wipe_out_frozen_data` (each is part of one write batch; the two batches are
committed separately: bodies first, side-chain blocks second) -/

def wipeBody (s : FS) (id : Nat) : FS :=
  { s with body := fun x => if x = id then false else s.body x, stored := s.stored.filter (· ≠ id) }

def wipeSide (s : FS) (id : Nat) : FS :=
  { s with hdr := fun x => if x = id then false else s.hdr x,
           body := fun x => if x = id then false else s.body x,
           stored := s.stored.filter (· ≠ id) }

def numberOfId (s : FS) (id : Nat) : Nat := numberOf s.v.r id

/-- side-chain blocks at the heights of `newly`: read from the snapshot's NUMBER_HASH rows -/
def sideOf (s : FS) (newly : List Block) : List Nat :=
  s.stored.filter fun id => newly.any fun b => numberOfId s id == b.number && id != b.id

def wipe (s : FS) (newly : List Block) : FS :=
  let side := sideOf s newly
  let s1 := newly.foldl (fun s b => wipeBody s b.id) s
  side.foldl wipeSide s1

inductive Res where
  | ok
  | idle
  | err
  | panic
deriving DecidableEq, Repr

/-- one pass of `Shared::freeze` -/
def freeze (s : FS) : FS × Res :=
  match threshold s with
  | .idle => (s, .idle)
  | .panic => (s, .panic)
  | .at thr =>
    let start := frozenNumber s
    let (frozen', err) := freezeLoop (getUnfrozen s) thr (thr + 1) start s.frozen
    let s1 := { s with frozen := frozen' }
    if err then (s1, .err)   -- `freezer.freeze(..)?`: nothing is wiped
    else (wipe s1 (frozen'.drop s.frozen.length), .ok)

/-! ### accessors (`store/src/store.rs`) -/

inductive Ans (α : Type) where
  | some (a : α)
  | none
  | panic
deriving DecidableEq, Repr

/-- `get_frozen_block(hash)` (the helper of the F18 repair, formerly the freezer branch of
`get_block`): nothing without a header row; below `freezer.number()` the freezer item *at that
height*, and only if it is the block asked for (the hash test is the repair of F17, /repo ea444a5) -/
def getFrozen (s : FS) (id : Nat) : Option Block :=
  if !s.hdr id then none else
  match s.v.r.bodies id with
  | none => none
  | some blk =>
    if 0 < blk.number && blk.number < frozenNumber s then
      match s.frozen[blk.number - 1]? with
      | some fb => if fb.id = id then some fb else none
      | none => none
    else none

/-- `get_block(hash)` as /repo has it (F17 and F18 repaired): header from the kv store; the frozen
block if `get_frozen_block` has it; else the body rows (`expect` on the uncles row) -/
def getBlock (s : FS) (id : Nat) : Ans Block :=
  if !s.hdr id then .none else
  match s.v.r.bodies id with
  | none => .none
  | some blk =>
    match getFrozen s id with
    | some fb => .some fb
    | none => if s.body id then .some blk else .panic

/-- `get_block(hash)` BEFORE the repair of F17 (regression witnesses only): below
`freezer.number()` the freezer item at that height, whatever its hash -/
def getBlockPreF17 (s : FS) (id : Nat) : Ans Block :=
  if !s.hdr id then .none else
  match s.v.r.bodies id with
  | none => .none
  | some blk =>
    if 0 < blk.number && blk.number < frozenNumber s then
      match s.frozen[blk.number - 1]? with
      | some fb => .some fb
      | none => .none
    else if s.body id then .some blk else .panic

def getHeader (s : FS) (id : Nat) : Option Block :=
  if s.hdr id then s.v.r.bodies id else none

/-- the part accessors as /repo has them since the repair of F18 (`get_block_body`,
`get_block_txs_hashes`, `get_cellbase`, `get_block_uncles`, `get_block_proposal_txs_ids`,
`get_block_extension`): the kv rows if they are there (no header test), else the frozen block.  The
block stands for all its parts (one presence flag, see the header of this file); the named
projections are below. -/
def getPart (s : FS) (id : Nat) : Option Block :=
  if s.body id then s.v.r.bodies id else getFrozen s id

/-- `get_packed_block`: the frozen block first, else header row + body rows -/
def getPacked (s : FS) (id : Nat) : Option Block :=
  match getFrozen s id with
  | some fb => some fb
  | none => if s.hdr id && s.body id then s.v.r.bodies id else none

/-- the part accessors BEFORE the repair of F18 (regression witness only): kv rows only -/
def getPartPreF18 (s : FS) (id : Nat) : Option Block :=
  if s.body id then s.v.r.bodies id else none

def getPackedPreF18 (s : FS) (id : Nat) : Option Block :=
  if s.hdr id && s.body id then s.v.r.bodies id else none

/-! the named part accessors, as projections of `getPart` -/

/-- `get_block_body` (empty when nothing is stored) -/
def getBody (s : FS) (id : Nat) : List Tx := ((getPart s id).map (·.txs)).getD []
/-- `get_block_txs_hashes` -/
def getTxsHashes (s : FS) (id : Nat) : List Nat := (getBody s id).map (·.id)
/-- `get_cellbase` -/
def getCellbase (s : FS) (id : Nat) : Option Tx := (getPart s id).bind (·.txs.head?)
/-- `get_block_uncles` -/
def getUncles (s : FS) (id : Nat) : Option (List Nat) := (getPart s id).map (·.uncles)
/-- `get_ancestor(tip, n)` for a main-chain base: number index, then the header -/
def getAncestor (s : FS) (n : Nat) : Option Block := (s.v.m.index n).bind (getHeader s)

/-- `get_transaction_with_info` -/
def getTx (s : FS) (txId : Nat) : Option (Tx × TxInfo) :=
  match s.v.m.txInfo txId with
  | none => none
  | some info =>
    if 0 < info.number && info.number < frozenNumber s then
      match s.frozen[info.number - 1]? with
      | some fb => (fb.txs[info.index]?).map fun t => (t, info)
      | none => none
    else if s.body info.blockId then
      match s.v.r.bodies info.blockId with
      | some blk => (blk.txs[info.index]?).map fun t => (t, info)
      | none => none
    else none

end CkbVerif.Freeze
