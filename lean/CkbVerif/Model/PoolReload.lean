import CkbVerif.Model.Store

/-!
# The tx-pool across a restart (C08): `tx-pool/src/persisted.rs`, `service.rs` `load_persisted_data`

`save_into_file` writes `drain_all_transactions()` (the pool is emptied) as one `TransactionVec`;
`TxPoolServiceBuilder::start` reads the file (`load_from_file`; the file is NOT removed) and, once the
service runs, `load_persisted_data` hands every transaction, in FILE ORDER, to `submit_local_tx`
("assume that all txs are sorted"); a transaction that is refused is dropped ("stale txs are ignored").
A process that dies without saving leaves the file of the last save.

Abstraction: a pool transaction is (id, inputs, number of outputs); `live` is the live-cell set of the
tip (the `cells` column of `Model/Store.lean`). `accepts` is the resolve rule of `submit_local_tx` for a
local transaction: not in the pool yet, every input is a live cell or an output of a pool transaction
(`Resolve(Unknown)` otherwise — a LOCAL transaction is not parked in the orphan pool), and is not spent
by a pool transaction (a conflict is a replace-by-fee attempt: not modelled, the generator makes none).
Fee-rate, size, cycles and ancestor limits are not modelled (the generated transactions pass them).
-/
namespace CkbVerif.PoolReload
open CkbVerif.Store

structure PTx where
  id : Nat
  inputs : List OutPoint
  nout : Nat
deriving DecidableEq, Repr, Inhabited

def createdBy (pool : List PTx) (o : OutPoint) : Bool :=
  pool.any fun t => t.id == o.tx && decide (o.idx < t.nout)

def spentBy (pool : List PTx) (o : OutPoint) : Bool :=
  pool.any fun t => decide (o ∈ t.inputs)

def accepts (live : OutPoint → Bool) (pool : List PTx) (t : PTx) : Bool :=
  !(pool.any fun p => p.id == t.id) &&
  t.inputs.all fun o => (live o || createdBy pool o) && !spentBy pool o

/-- `submit_local_tx`: the pool in insertion order -/
def submit (live : OutPoint → Bool) (pool : List PTx) (t : PTx) : List PTx :=
  if accepts live pool t then pool ++ [t] else pool

/-- `load_persisted_data` on an empty pool -/
def reload (live : OutPoint → Bool) (file : List PTx) : List PTx := file.foldl (submit live) []

/-- one pass of `remove_tx`'s descendant closure: drop every transaction that spends an output of a
transaction whose id is in `gone` -/
def dependsOn (gone : List Nat) (t : PTx) : Bool := t.inputs.any fun o => gone.contains o.tx

/-- `remove_local_tx`: the transaction and all its descendants (the pool is in insertion order, so a
descendant comes after its ancestors: one left-to-right pass) -/
def removeTx (pool : List PTx) (id : Nat) : List PTx :=
  (pool.foldl (fun (acc : List PTx × List Nat) t =>
    if t.id == id || dependsOn acc.2 t then (acc.1, acc.2 ++ [t.id]) else (acc.1 ++ [t], acc.2)) ([], [])).1

/-- every transaction of the file would be accepted on top of the ones before it -/
def Admissible (live : OutPoint → Bool) (acc : List PTx) : List PTx → Prop
  | [] => True
  | t :: rest => accepts live acc t = true ∧ Admissible live (acc ++ [t]) rest

/-! ### the order of the file: `drain_all_transactions` over the multi-index map

`PoolMap.entries` is a `multi_index_map` over a `slab::Slab`: `insert` takes the vacant slot that was
freed LAST (`Slab::next`, a LIFO list threaded through the vacant entries), else appends; the
`hashed_non_unique` status index keeps a `BTreeSet<usize>` of slots per status, and
`remove_by_status(&Status::Pending)` walks it in ascending slot order. So the pending part of the file is in
SLOT order, which is the insertion order only as long as no slot has been reused. -/

structure Slab where
  slots : List (Option PTx)
  /-- the vacant list, head = `next` -/
  free : List Nat
deriving Repr, DecidableEq

def Slab.empty : Slab := ⟨[], []⟩

/-- `Slab::insert` -/
def Slab.insert (s : Slab) (t : PTx) : Slab :=
  match s.free with
  | [] => ⟨s.slots ++ [some t], []⟩
  | k :: rest => ⟨s.slots.set k (some t), rest⟩

def slotHas (id : Nat) : Option PTx → Bool
  | some t => t.id == id
  | none => false

/-- `remove_by_id`: the slot becomes the head of the vacant list -/
def Slab.remove (s : Slab) (id : Nat) : Slab :=
  match s.slots.findIdx? (slotHas id) with
  | some k => ⟨s.slots.set k none, k :: s.free⟩
  | none => s

/-- `remove_by_status(&Status::Pending)`: ascending slot order -/
def Slab.drain (s : Slab) : List PTx := s.slots.filterMap id

/-- the pool with its slab -/
structure SPool where
  pool : List PTx
  slab : Slab
deriving Repr, DecidableEq

def SPool.empty : SPool := ⟨[], Slab.empty⟩

inductive POp
  | sub (t : PTx)
  | rem (id : Nat)
deriving Repr, DecidableEq

/-- `remove_entry_and_descendants` removes the entry first, then its descendants (`calc_descendants` is a
`HashSet`: with two or more descendants their order — hence the order of the vacant list — is not
determined; the model takes the pool's insertion order, the driver stops predicting the file order) -/
def removedIds (pool : List PTx) (id : Nat) : List Nat :=
  let after := removeTx pool id
  let gone := (pool.filter fun t => !(after.any fun x => x.id == t.id)).map (·.id)
  (gone.filter (· == id)) ++ (gone.filter (· != id))

def sstep (live : OutPoint → Bool) (s : SPool) : POp → SPool
  | .sub t => if accepts live s.pool t then ⟨s.pool ++ [t], s.slab.insert t⟩ else s
  | .rem id => ⟨removeTx s.pool id, (removedIds s.pool id).foldl Slab.remove s.slab⟩

def srun (live : OutPoint → Bool) (s : SPool) (ops : List POp) : SPool := ops.foldl (sstep live) s

/-- `save_into_file` (pending transactions only) -/
def SPool.file (s : SPool) : List PTx := s.slab.drain

end CkbVerif.PoolReload
