import CkbVerif.Model.Chain

/-!
# `Shared::get_block_status` (shared/src/shared.rs) and `BlockStatus` (shared/src/block_status.rs)

The answer is taken from three places, in this order (the earlier one SHADOWS the later ones):
1. the in-memory `block_status_map` entry of the hash (written by ckb-chain: only `BLOCK_INVALID` —
   `chain_service.rs` non-contextual failure, `orphan_broker.rs process_invalid_block`, `verify.rs` failed
   verification; removed by `verify.rs` after a successful verification and by the orphan expiry; written
   by the sync layer: `BLOCK_RECEIVED`, `BLOCK_INVALID`),
2. the sync layer's `HeaderMap` (`HEADER_VALID` when it has the hash),
3. the `BlockExt` row of the current snapshot: none → `UNKNOWN`, `verified == None` → `BLOCK_STORED`,
   `Some(true)` → `BLOCK_VALID`, `Some(false)` → `BLOCK_INVALID` (never persisted, see Model/Chain.lean).

`getBlockStatus` is the function as written, over arbitrary map contents; `blockStatus` is its value on a
`Chain.State` (ckb-chain alone: status map = the `invalid` marks, header map empty). The bit patterns follow
the shift-or definitions of block_status.rs; the `BLOCK_INVALID` bit is the generated constant
`BLOCK_INVALID_BIT` (the harness self-test compares all six patterns and the containment relation with
the real `bitflags` type).
-/
namespace CkbVerif.Chain
open CkbVerif.Gen.Chain

inductive Status
  | unknown | headerValid | received | stored | valid | invalid
  deriving DecidableEq, Repr

def HEADER_VALID_BITS : Nat := 1
def BLOCK_RECEIVED_BITS : Nat := 1 ||| (HEADER_VALID_BITS <<< 1)
def BLOCK_STORED_BITS : Nat := 1 ||| (BLOCK_RECEIVED_BITS <<< 1)
def BLOCK_VALID_BITS : Nat := 1 ||| (BLOCK_STORED_BITS <<< 1)
def BLOCK_INVALID_BITS : Nat := 1 <<< BLOCK_INVALID_BIT

def Status.bits : Status → Nat
  | .unknown => 0
  | .headerValid => HEADER_VALID_BITS
  | .received => BLOCK_RECEIVED_BITS
  | .stored => BLOCK_STORED_BITS
  | .valid => BLOCK_VALID_BITS
  | .invalid => BLOCK_INVALID_BITS

/-- `BlockStatus::contains` (bitflags): every bit of `b` is set in `a` -/
def Status.contains (a b : Status) : Bool := (a.bits &&& b.bits) == b.bits

def Status.letter : Status → String
  | .unknown => "U" | .headerValid => "H" | .received => "R" | .stored => "S" | .valid => "V" | .invalid => "I"

/-- `Shared::get_block_status` as written. `smap` = `block_status_map`, `hmap` = `header_map().contains_key`,
`td` / `ver` = the `BlockExt` rows of the snapshot (`verified == Some(false)` does not occur). -/
def getBlockStatus (smap : Nat → Option Status) (hmap : Nat → Bool) (td : Nat → Option Nat) (ver : Nat → Bool)
    (b : Nat) : Status :=
  match smap b with
  | some st => st
  | none =>
    if hmap b then .headerValid
    else match td b with
      | none => .unknown
      | some _ => if ver b then .valid else .stored

/-- the status map of a node that runs ckb-chain alone: the `BLOCK_INVALID` marks -/
def statusMap (s : State) (b : Nat) : Option Status := if s.invalid b then some .invalid else none

/-- the answer of `get_block_status` in pipeline state `s` (header map empty) -/
def blockStatus (s : State) (b : Nat) : Status := getBlockStatus (statusMap s) (fun _ => false) s.td s.ver b

end CkbVerif.Chain
