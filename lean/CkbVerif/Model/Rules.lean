import CkbVerif.Gen.Rules
import CkbVerif.Model.Window

/-!
# Block consensus rules as the node checks them (C03)

Follows the code as written, stage by stage and in the code's order:

* `verification/src/header_verifier.rs` — `HeaderVerifier::verify`: PoW, parent known, `NumberVerifier`,
  `EpochVerifier` (`is_well_formed`, `is_successor_of`, skipped when the parent's epoch field is the
  genesis value), `TimestampVerifier` (`block_median_time`, `ALLOWED_FUTURE_BLOCKTIME`).
* `verification/src/block_verifier.rs` — `BlockVerifier::verify`: proposals limit, block bytes,
  `CellbaseVerifier`, `DuplicateVerifier`, `MerkleRootVerifier`; then `NonContextualBlockTxsVerifier`
  (an oracle here: C04 owns transaction rules).
* `verification/contextual/src/contextual_block_verifier.rs` — `ContextualBlockVerifier::verify`:
  `EpochVerifier`, `UnclesVerifier` (`uncles_verifier.rs`), `TwoPhaseCommitVerifier` (the walk of
  `Model/Window.lean`), `DaoHeaderVerifier`, `RewardVerifier`, `BlockExtensionVerifier`,
  `BlockTxsVerifier`; preceded by `resolve_block_transactions` (`chain/src/verify.rs`).
* `chain/src/chain_service.rs`, `chain/src/verify.rs`, `rpc/src/module/miner.rs` — the pipeline
  `submit`: header check, non-contextual check (failure → `BLOCK_INVALID`), store, heavier-than-tip
  test, all-or-nothing verification of every unverified block of the branch, failure → the submitted
  block is deleted and marked invalid and nothing else changes.

Abstractions: hashes are small identifiers; the PoW verdict, merkle-root equalities, the extra-hash
equality, cell resolution, the transaction verdict and cycle count, the expected epoch / target /
DAO field / reward of a block's context are *inputs* (oracles owned by C04/C06/C07/C19) — the model
is about how they are combined, ordered and compared.
-/
namespace CkbVerif.Rules
open CkbVerif.Window (Win Ids)

/-- error classes, one per `return Err(..)` site of the verifiers -/
inductive Err
  -- HeaderVerifier
  | powInvalid | unknownParent | number | epochMalformed | epochNonContinuous | timeTooOld | timeTooNew
  -- BlockVerifier + NonContextualBlockTxsVerifier
  | proposalsLimit | blockBytes
  | cbQuantity | cbPosition | cbOutputQuantity | cbOutputData | cbWitness | cbTypeScript | cbOutputLock | cbInput
  | txDuplicate | proposalDuplicate | txRoot | proposalsHash | txsNonContextual
  -- chain service
  | parentInvalid | orphan
  -- resolve + ContextualBlockVerifier
  | resolve | epochNumberMismatch | targetMismatch
  | unclesOverCount | uncleTarget | uncleEpoch | uncleNumber | uncleDescendant | uncleDuplicate
  | uncleDoubleInclusion | uncleProposalsLimit | uncleProposalsHash | uncleProposalDuplicate | unclePow
  | commitAncestorNotFound | commitInvalid
  | daoCalc | invalidDao | rewardTarget | rewardAmount
  | noExtension | unknownFields | emptyExtension | extensionTooLong | invalidExtension | invalidChainRoot | invalidExtraHash
  | txs | exceededCycles
  -- `DaoScriptSizeVerifier` inside `BlockTxsVerifier` (a bare `TransactionError::DaoLockSizeMismatch`,
  -- NOT wrapped in `BlockTransactionsError`: the `?` sits after the `map_err`)
  | daoLockSizeMismatch
deriving DecidableEq, Repr, Inhabited

/-- `EpochNumberWithFraction` -/
structure Epoch where
  number : Nat := 0
  index : Nat := 0
  length : Nat := 0
deriving DecidableEq, Repr, Inhabited

namespace Epoch
/-- `is_genesis` -/
def isGenesis (e : Epoch) : Bool := e.number == 0 && e.index == 0 && e.length == 0
/-- `is_well_formed` -/
def wellFormed (e : Epoch) : Bool := decide (e.length > 0) && decide (e.length > e.index)
/-- `is_successor_of` -/
def isSuccessorOf (e pred : Epoch) : Bool :=
  if pred.index + 1 == pred.length then e.number == pred.number + 1 && e.index == 0
  else e.number == pred.number && e.index == pred.index + 1 && e.length == pred.length
end Epoch

/-- consensus parameters the rules read -/
structure Cfg where
  medianCount : Nat := CkbVerif.Gen.Rules.MEDIAN_TIME_BLOCK_COUNT
  maxUncles : Nat := CkbVerif.Gen.Rules.MAX_UNCLE_NUM
  maxProposals : Nat := CkbVerif.Gen.Rules.MAX_BLOCK_PROPOSALS_LIMIT
  maxBytes : Nat := CkbVerif.Gen.Rules.TWO_IN_TWO_OUT_BYTES * CkbVerif.Gen.Rules.TWO_IN_TWO_OUT_COUNT
  maxCycles : Nat := CkbVerif.Gen.Rules.TWO_IN_TWO_OUT_CYCLES * CkbVerif.Gen.Rules.TWO_IN_TWO_OUT_COUNT
  win : Win := ⟨CkbVerif.Gen.Rules.W_CLOSE, CkbVerif.Gen.Rules.W_FAR⟩
  /-- `ALLOWED_FUTURE_BLOCKTIME` (ms) -/
  future : Nat := CkbVerif.Gen.Rules.ALLOWED_FUTURE_BLOCKTIME
  /-- the local `mmr_active` of `BlockExtensionVerifier::verify` (chain-root extension required).
  Since round 6 it is not a free parameter of a verification: `contextualCheck` sets it, for each
  block, to `rfc0044_active(parent.epoch().number())` (`Cfg.forParentEpoch`) -/
  mmrActive : Bool := true
  extMax : Nat := CkbVerif.Gen.Rules.EXTENSION_MAX_BYTES
  extMinRoot : Nat := CkbVerif.Gen.Rules.EXTENSION_MIN_ROOT_BYTES
  /-- hardening variant, NOT in /repo: answer `Ok(false)` for a hash whose stored ext says
  `verified = Some(true)` before anything else. `false` (the default) = `chain_service.rs` as it is:
  the body that accompanies an attached hash is run through the non-contextual stage again. Only
  in-process callers can hand over two bodies under one header hash (every RPC / P2P entry point
  builds its `BlockView` with `into_view()`, which re-derives the header's roots from the body). -/
  redeliveryGuard : Bool := false
  /-- `rfc0044_active_epoch` of `Consensus::rfc0044_active`: selected by the consensus id
  (`softfork::mainnet::RFC0044_ACTIVE_EPOCH` for `"ckb"`, `softfork::testnet::…` for `"ckb_testnet"`,
  `0` for every other id — `rfc0044EpochOf`) -/
  rfc0044Epoch : Nat := CkbVerif.Gen.Rules.RFC0044_ACTIVE_EPOCH_OTHER
  /-- `starting_block_limiting_dao_withdrawing_lock` (read by `DaoScriptSizeVerifier`) -/
  daoLimitStart : Nat := CkbVerif.Gen.Rules.STARTING_BLOCK_LIMITING_DAO_WITHDRAWING_LOCK
deriving Repr

/-- the three arms of `match self.id.as_str()` in `Consensus::rfc0044_active` -/
inductive ChainId
  | mainnet | testnet | other
deriving DecidableEq, Repr

/-- `rfc0044_active_epoch` by consensus id (constants regenerated from the source) -/
def rfc0044EpochOf : ChainId → Nat
  | .mainnet => CkbVerif.Gen.Rules.RFC0044_ACTIVE_EPOCH_MAINNET
  | .testnet => CkbVerif.Gen.Rules.RFC0044_ACTIVE_EPOCH_TESTNET
  | .other => CkbVerif.Gen.Rules.RFC0044_ACTIVE_EPOCH_OTHER

/-- `Consensus::rfc0044_active(target)`: `target >= rfc0044_active_epoch` -/
def Cfg.rfc0044Active (c : Cfg) (target : Nat) : Bool := decide (c.rfc0044Epoch ≤ target)

/-- the configuration as the hardfork-conditional verifiers see it for a child of a block whose
header says epoch number `parentEpoch`: `let mmr_active = consensus.rfc0044_active(self.parent.epoch().number())` -/
def Cfg.forParentEpoch (c : Cfg) (parentEpoch : Nat) : Cfg :=
  { c with mmrActive := c.rfc0044Active parentEpoch }

/-- `finalization_delay_length` = farthest + 1 -/
def Cfg.finDelay (c : Cfg) : Nat := c.win.far + CkbVerif.Gen.Rules.FINALIZATION_DELAY_EXTRA

/-- an uncle as the verifier sees it -/
structure Uncle where
  id : Nat
  parent : Nat
  number : Nat
  epochNumber : Nat
  target : Nat
  proposals : Ids := []
  proposalsHashOk : Bool := true
  powOk : Bool := true
deriving Repr, Inhabited

/-- a block: header fields, the body features the verifiers read, and the oracle values of the
block's own context (they are functions of the block's ancestry, fixed once the parent is) -/
structure Blk where
  id : Nat := 0
  parent : Nat := 0
  number : Nat := 0
  epoch : Epoch := {}
  ts : Nat := 0
  target : Nat := 0
  /-- `header.difficulty()` -/
  work : Nat := 1
  powOk : Bool := true
  -- body, non-contextual
  proposals : Ids := []
  /-- `serialized_size_without_uncle_proposals` -/
  bytes : Nat := 0
  /-- number of transactions with `is_cellbase()` -/
  nCellbase : Nat := 1
  firstIsCellbase : Bool := true
  cbOutputs : Nat := 1
  cbOutputsData : Nat := 1
  /-- `outputs_data.get(0).map(is_empty).unwrap_or(true)` -/
  cbDataEmpty : Bool := true
  cbWitnessOk : Bool := true
  cbNoType : Bool := true
  cbLockOk : Bool := true
  /-- `since` of the first input of the first transaction -/
  cbSince : Nat := 0
  /-- hashes of all transactions, in order -/
  txIds : List Nat := []
  txRootOk : Bool := true
  proposalsHashOk : Bool := true
  txsNonCtxOk : Bool := true
  -- body, contextual
  uncles : List Uncle := []
  /-- proposal short ids of the non-cellbase transactions -/
  committed : Ids := []
  /-- `count_extra_fields()` -/
  extraFields : Nat := 1
  /-- `extension().map(len)` -/
  extLen : Option Nat := some 32
  /-- first 32 bytes of the extension = the chain root of the parent chain -/
  rootOk : Bool := true
  extraHashOk : Bool := true
  -- oracles of the block's own context
  resolveOk : Bool := true
  expEpoch : Epoch := {}
  expTarget : Nat := 0
  daoCalcOk : Bool := true
  daoEq : Bool := true
  /-- `output.is_lack_of_capacity` for the finalized reward -/
  rewardInsufficient : Bool := false
  /-- `outputs_capacity()` of the cellbase -/
  cbCapacity : Nat := 0
  /-- `block_reward.total` -/
  expReward : Nat := 0
  /-- cellbase output lock = target lock -/
  cbLockEq : Bool := true
  txsOk : Bool := true
  cycles : Nat := 0
  /-- what `DaoScriptSizeVerifier` reads, over all non-cellbase transactions of the block: one entry
  per (input `i`, output `i`) pair in which both cells carry the Nervos DAO type script and the input's
  data is all zero (a deposit cell): `(input lock total_size, output lock total_size, number of the
  block that committed the input cell)` -/
  daoPairs : List (Nat × Nat × Nat) := []
deriving Repr, Inhabited

/-- `DaoScriptSizeVerifier::verify` over the block's deposit → withdrawing pairs: pairs whose deposit
was committed below `starting_block_limiting_dao_withdrawing_lock` are skipped, the others need lock
scripts of equal size (`DaoLockSizeMismatch` otherwise) -/
def daoLockSizeOk (cfg : Cfg) (b : Blk) : Bool :=
  b.daoPairs.all fun p => decide (p.2.2 < cfg.daoLimitStart) || p.1 == p.2.1

/-- union of the block's own proposals and its uncles' (`union_proposal_ids`) -/
def Blk.unionProposals (b : Blk) : Ids := b.proposals ++ b.uncles.flatMap (·.proposals)

/-! ## small helpers -/

/-- `seen.insert` returns false on a repeat -/
def hasDup : List Nat → Bool
  | [] => false
  | x :: xs => xs.contains x || hasDup xs

/-- insertion into an ascending list -/
def insertSorted (x : Nat) : List Nat → List Nat
  | [] => [x]
  | y :: ys => if x ≤ y then x :: y :: ys else y :: insertSorted x ys

/-- `sort_unstable` on timestamps -/
def sortAsc : List Nat → List Nat
  | [] => []
  | x :: xs => insertSorted x (sortAsc xs)

/-- `timestamps[timestamps.len() >> 1]` after sorting ("greater one if count is even") -/
def median (ts : List Nat) : Nat := (sortAsc ts).getD (ts.length / 2) 0

/-! ## stage 1: HeaderVerifier -/

/-- the parent fields and the past timestamps the header verifier reads:
`pastTs` = timestamps of the parent, its parent, … (at most `median_time_block_count`, stopping
at the genesis block) -/
structure HeaderCx where
  parent : Option (Nat × Epoch)
  pastTs : List Nat
  now : Nat

def headerCheck (cfg : Cfg) (cx : HeaderCx) (b : Blk) : Option Err :=
  if !b.powOk then some .powInvalid else
  match cx.parent with
  | none => some .unknownParent
  | some (pn, pe) =>
    if b.number != pn + 1 then some .number else
    if !b.epoch.wellFormed then some .epochMalformed else
    if !pe.isGenesis && !b.epoch.isSuccessorOf pe then some .epochNonContinuous else
    if b.number == 0 then none else
    if b.ts ≤ median cx.pastTs then some .timeTooOld else
    if b.ts > cx.now + cfg.future then some .timeTooNew else
    none

/-! ## stage 2: BlockVerifier + NonContextualBlockTxsVerifier -/

def cellbaseCheck (b : Blk) : Option Err :=
  if b.number == 0 then none else
  if b.nCellbase != 1 then some .cbQuantity else
  if !b.firstIsCellbase then some .cbPosition else
  if b.cbOutputs > 1 || b.cbOutputsData > 1 || b.cbOutputs != b.cbOutputsData then some .cbOutputQuantity else
  if !b.cbDataEmpty then some .cbOutputData else
  if !b.cbWitnessOk then some .cbWitness else
  if !b.cbNoType then some .cbTypeScript else
  if !b.cbLockOk then some .cbOutputLock else
  if b.cbSince != b.number then some .cbInput else
  none

def nonContextualCheck (cfg : Cfg) (b : Blk) : Option Err :=
  if b.proposals.length > cfg.maxProposals then some .proposalsLimit else
  if b.number != 0 && b.bytes > cfg.maxBytes then some .blockBytes else
  match cellbaseCheck b with
  | some e => some e
  | none =>
    if hasDup b.txIds then some .txDuplicate else
    if hasDup b.proposals then some .proposalDuplicate else
    if !b.txRootOk then some .txRoot else
    if !b.proposalsHashOk then some .proposalsHash else
    if !b.txsNonCtxOk then some .txsNonContextual else
    none

/-! ## stage 3: ContextualBlockVerifier -/

/-- what the contextual verifier reads from the store *as of the block's parent chain* -/
structure Cx where
  /-- parent header number -/
  parentNumber : Nat
  /-- `get_block_number(hash)` / header number for blocks on the (candidate) main chain -/
  mainNum : Nat → Option Nat
  /-- `get_uncle_header(hash).number` for uncles embedded in main-chain blocks (`is_uncle`) -/
  uncleNum : Nat → Option Nat
  /-- union proposal ids of main-chain block `n`, for `n = 0 ..= parent` -/
  chain : List Ids
  /-- `parent.epoch().number()` of the parent HEADER: the argument of `rfc0044_active` -/
  parentEpochNumber : Nat := 0

/-- `UncleProvider::descendant` -/
def Cx.descendant (cx : Cx) (u : Uncle) : Bool :=
  match cx.mainNum u.parent with
  | some n => n + 1 == u.number
  | none =>
    match cx.uncleNum u.parent with
    | some n => n + 1 == u.number
    | none => false

/-- `UncleProvider::double_inclusion` -/
def Cx.doubleInclusion (cx : Cx) (h : Nat) : Bool :=
  (cx.mainNum h).isSome || (cx.uncleNum h).isSome

/-- `included.get(parent).map(|n| n + 1 == uncle.number).unwrap_or(false)` -/
def embeddedDescendant (included : List (Nat × Nat)) (u : Uncle) : Bool :=
  match included.find? (fun e => e.1 == u.parent) with
  | some e => e.2 + 1 == u.number
  | none => false

/-- the body of the `for uncle in uncles` loop -/
def uncleCheck (cfg : Cfg) (cx : Cx) (b : Blk) (included : List (Nat × Nat)) (u : Uncle) : Option Err :=
  if u.target != b.expTarget then some .uncleTarget else
  if b.expEpoch.number != u.epochNumber then some .uncleEpoch else
  if u.number ≥ b.number then some .uncleNumber else
  if !(embeddedDescendant included u || cx.descendant u) then some .uncleDescendant else
  if included.any (fun e => e.1 == u.id) then some .uncleDuplicate else
  if cx.doubleInclusion u.id then some .uncleDoubleInclusion else
  if u.proposals.length > cfg.maxProposals then some .uncleProposalsLimit else
  if !u.proposalsHashOk then some .uncleProposalsHash else
  if hasDup u.proposals then some .uncleProposalDuplicate else
  if !u.powOk then some .unclePow else
  none

def unclesLoop (cfg : Cfg) (cx : Cx) (b : Blk) : List (Nat × Nat) → List Uncle → Option Err
  | _, [] => none
  | inc, u :: us =>
    match uncleCheck cfg cx b inc u with
    | some e => some e
    | none => unclesLoop cfg cx b ((u.id, u.number) :: inc) us

def unclesCheck (cfg : Cfg) (cx : Cx) (b : Blk) : Option Err :=
  if b.uncles.length == 0 then none else
  if b.number == 0 then some .unclesOverCount else
  if b.uncles.length > cfg.maxUncles then some .unclesOverCount else
  unclesLoop cfg cx b [] b.uncles

/-- `TwoPhaseCommitVerifier::verify` -/
def commitCheck (cfg : Cfg) (cx : Cx) (b : Blk) : Option Err :=
  if b.number == 0 then none else
  if cx.chain.length ≤ b.number - cfg.win.close then some .commitAncestorNotFound else
  if !CkbVerif.Window.commitOk cfg.win cx.chain b.number b.committed then some .commitInvalid else
  none

/-- `RewardVerifier::verify` -/
def rewardCheck (cfg : Cfg) (cx : Cx) (b : Blk) : Option Err :=
  if decide (cx.parentNumber + 1 ≤ cfg.finDelay) || b.rewardInsufficient then
    (if b.cbOutputs == 0 then none else some .rewardTarget)
  else
    if b.cbCapacity != b.expReward then some .rewardAmount else
    if !b.cbLockEq then some .rewardTarget else
    none

/-- `BlockExtensionVerifier::verify`, after `let mmr_active = …` (`cfg.mmrActive`; see
`Cfg.forParentEpoch` for the value `contextualCheck` passes) -/
def extensionCheck (cfg : Cfg) (b : Blk) : Option Err :=
  match b.extraFields with
  | 0 => if cfg.mmrActive then some .noExtension else
         if !b.extraHashOk then some .invalidExtraHash else none
  | 1 =>
    match b.extLen with
    | none => some .unknownFields
    | some len =>
      if len == 0 then some .emptyExtension else
      if len > cfg.extMax then some .extensionTooLong else
      if cfg.mmrActive && decide (len < cfg.extMinRoot) then some .invalidExtension else
      if cfg.mmrActive && !b.rootOk then some .invalidChainRoot else
      if !b.extraHashOk then some .invalidExtraHash else none
  | _ => some .unknownFields

def contextualCheck (cfg : Cfg) (cx : Cx) (b : Blk) : Option Err :=
  if !b.resolveOk then some .resolve else
  if b.epoch != b.expEpoch then some .epochNumberMismatch else
  if b.expTarget != b.target then some .targetMismatch else
  match unclesCheck cfg cx b with
  | some e => some e
  | none =>
  match commitCheck cfg cx b with
  | some e => some e
  | none =>
  if !b.daoCalcOk then some .daoCalc else
  if !b.daoEq then some .invalidDao else
  match rewardCheck cfg cx b with
  | some e => some e
  | none =>
  match extensionCheck (cfg.forParentEpoch cx.parentEpochNumber) b with
  | some e => some e
  | none =>
  if !b.txsOk then some .txs else
  -- `BlockTxsVerifier`: `if rfc0044_active(parent.epoch().number()) { DaoScriptSizeVerifier … .verify()? }`
  -- (the second rfc0044-gated rule; its error is the bare `DaoLockSizeMismatch`)
  if cfg.rfc0044Active cx.parentEpochNumber && !daoLockSizeOk cfg b then some .daoLockSizeMismatch else
  if b.cycles > cfg.maxCycles then some .exceededCycles else
  none

/-- all three stages on explicit contexts, in pipeline order -/
def accept (cfg : Cfg) (hcx : HeaderCx) (cx : Cx) (b : Blk) : Option Err :=
  match headerCheck cfg hcx b with
  | some e => some e
  | none =>
  match nonContextualCheck cfg b with
  | some e => some e
  | none => contextualCheck cfg cx b

/-! ## the pipeline over a block store -/

/-- `get_header_fields` / `get_block_header` by hash -/
def findBlk (st : List Blk) (id : Nat) : Option Blk := st.find? (fun b => b.id == id)

/-- the block `id` and its ancestors (newest first), following parent links until the genesis block -/
def ancestors (st : List Blk) : Nat → Nat → List Blk
  | 0, _ => []
  | f + 1, id =>
    match findBlk st id with
    | none => []
    | some b => b :: (if b.number == 0 then [] else ancestors st f b.parent)

structure St where
  /-- stored blocks (block bodies + headers), the genesis block included -/
  stored : List Blk
  /-- tip hash -/
  tip : Nat
  /-- blocks whose `BlockExt.verified = Some(true)` -/
  verified : List Nat
  /-- `BLOCK_INVALID` marks (in memory) -/
  invalid : List Nat
deriving Repr

def St.init (genesis : Blk) : St := ⟨[genesis], genesis.id, [genesis.id], []⟩

/-- `anc` = the parent and its ancestors, newest first -/
def headerCxOf (cfg : Cfg) (st : List Blk) (now : Nat) (b : Blk) : HeaderCx :=
  match findBlk st b.parent with
  | none => ⟨none, [], now⟩
  | some p => ⟨some (p.number, p.epoch), ((ancestors st (p.number + 1) p.id).take cfg.medianCount).map (·.ts), now⟩

/-- the store view of the chain ending in `p` (`p` = the block's parent) -/
def cxOf (st : List Blk) (p : Blk) : Cx :=
  let anc := ancestors st (p.number + 1) p.id
  { parentNumber := p.number
    mainNum := fun h => (anc.find? (fun a => a.id == h)).map (·.number)
    uncleNum := fun h => ((anc.flatMap (·.uncles)).find? (fun u => u.id == h)).map (·.number)
    chain := anc.reverse.map (·.unionProposals)
    parentEpochNumber := p.epoch.number }

/-- total difficulty of the chain ending in block `id` (genesis excluded: equal on every chain) -/
def totalWork (st : List Blk) (b : Blk) : Nat :=
  ((ancestors st (b.number + 1) b.id).map (·.work)).sum

/-- blocks of the branch ending in `p` that are not verified yet, oldest first
(`fork.attached_blocks` whose ext is dirty) -/
def dirtyBranch (s : St) (p : Blk) : List Blk :=
  ((ancestors s.stored (p.number + 1) p.id).filter (fun a => !s.verified.contains a.id)).reverse

/-- verify blocks in order, each in the context of its own parent chain; first error wins -/
def verifyAll (cfg : Cfg) (st : List Blk) : List Blk → Option Err
  | [] => none
  | x :: xs =>
    match findBlk st x.parent with
    | none => some .unknownParent
    | some p =>
      match contextualCheck cfg (cxOf st p) x with
      | some e => some e
      | none => verifyAll cfg st xs

inductive Res
  | attached            -- Ok(true), new tip
  | sideStored          -- Ok(true), stored on a side branch, not verified
  | known               -- Ok(false)
  | rejected (e : Err)
deriving DecidableEq, Repr

/-- one block through `HeaderVerifier` and then the chain service (`blocking_process_block`).
Stored blocks are immutable in the model (`st'` keeps the first body stored under an id); the code
overwrites the body rows of a re-delivered hash (`insert_block`), which only matters when an
in-process caller delivers a second body under the same header hash — outside the property's
quantifier and not modelled; the `BLOCK_INVALID` marking in that situation is. -/
def submit (cfg : Cfg) (s : St) (now : Nat) (b : Blk) : St × Res :=
  match headerCheck cfg (headerCxOf cfg s.stored now b) b with
  | some e => (s, .rejected e)
  | none =>
  if cfg.redeliveryGuard && s.verified.contains b.id then (s, .known) else
  match nonContextualCheck cfg b with
  | some e => ({ s with invalid := b.id :: s.invalid }, .rejected e)
  | none =>
  if s.invalid.contains b.parent then ({ s with invalid := b.id :: s.invalid }, .rejected .parentInvalid) else
  if s.verified.contains b.id then (s, .known) else
  match findBlk s.stored b.parent, findBlk s.stored s.tip with
  | some p, some t =>
    let st' := if (findBlk s.stored b.id).isSome then s.stored else s.stored ++ [b]
    if totalWork s.stored p + b.work > totalWork s.stored t then
      -- new best block: verify every unverified block of the branch, then this one
      match verifyAll cfg st' (dirtyBranch s p ++ [b]) with
      | some e => ({ s with invalid := b.id :: s.invalid }, .rejected e)
      | none =>
        ({ s with stored := st', tip := b.id,
                  verified := s.verified ++ (dirtyBranch s p).map (·.id) ++ [b.id] }, .attached)
    else ({ s with stored := st' }, .sideStored)
  | _, _ => (s, .rejected .orphan)

/-- the main chain: the tip and its ancestors -/
def mainChain (s : St) : List Blk :=
  match findBlk s.stored s.tip with
  | none => []
  | some t => ancestors s.stored (t.number + 1) t.id

end CkbVerif.Rules
