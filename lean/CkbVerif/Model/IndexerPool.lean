import CkbVerif.Model.Indexer

/-!
# The tx-pool overlay of the built-in indexer and the handlers' snapshot discipline

`util/indexer-sync/src/pool.rs` (`Pool { dead_cells: HashSet<OutPoint> }`), its use in
`util/indexer/src/indexer.rs` (`append` takes the write lock first and calls
`pool.transactions_committed(&transactions)` after `batch.commit()`) and in
`util/indexer/src/service.rs` (`get_cells` / `get_cells_capacity`: after the exact-mode key length
test and BEFORE the `expect("stored OutPoint")` lookup, a row whose out-point
`is_consumed_by_pool_tx` is skipped; `get_transactions` does not read the overlay).

The handlers read every row through ONE RocksDB snapshot taken before the iteration; the overlay's
read lock is taken AFTER the snapshot. `…At` below are the handlers with the two states made explicit:
`snap` = the store at the moment of the snapshot, `pool` = the overlay at the moment its lock is
taken (a writer — `append`, `rollback`, a pool notification — may run in between: the `x` ops of the
correspondence harness do exactly that through `service::verif_hook`).

Core Lean only.
-/
namespace CkbVerif.Indexer
open CkbVerif.Gen.Indexer

/-- `Pool::dead_cells` (a set: kept duplicate-free by `newTx`) -/
abbrev Pool := List OutPoint

/-- `is_consumed_by_pool_tx` -/
def Pool.consumed (p : Pool) (op : OutPoint) : Bool := p.contains op

/-- `dead_cells.insert(out_point)` -/
def Pool.insert (p : Pool) (op : OutPoint) : Pool := if p.contains op then p else op :: p

/-- `dead_cells.remove(&out_point)` -/
def Pool.remove (p : Pool) (op : OutPoint) : Pool := p.filter (· ≠ op)

/-- `new_transaction`: every input (in order) is marked dead -/
def Pool.newTx (p : Pool) (tx : Tx) : Pool := tx.inputs.foldl Pool.insert p

/-- `transaction_committed` = `transaction_rejected`: every input is unmarked -/
def Pool.removeTx (p : Pool) (tx : Tx) : Pool := tx.inputs.foldl Pool.remove p

/-- `transactions_committed(&block.transactions())` — the cellbase included -/
def Pool.committed (p : Pool) (txs : List Tx) : Pool := txs.foldl Pool.removeTx p

/-- `Indexer::append` with the overlay: the store as before, the inputs of every transaction of the
block leave the overlay (also on the block-filter early return; there is no custom filter here) -/
def appendP (keep interval : Nat) (sp : Store × Pool) (b : Block) : Store × Pool :=
  (append keep interval sp.1 b, sp.2.committed b.txs)

/-- `Indexer::rollback` does not touch the overlay -/
def rollbackP (sp : Store × Pool) : Store × Pool := (rollback sp.1, sp.2)

/-! ## `get_cells` / `get_cells_capacity` with the overlay -/

/-- `cellRows` with the overlay test at the code's position: after the exact-mode length test, before
the OutPoint lookup (so a dead row never reaches `expect("stored OutPoint")`) -/
def cellRowsP (s : Store) (pool : Pool) (lockSearch : Bool) (q : Script) (exact : Bool) (f : Filter)
    (lenIncl : Bool) (rows : List (Key × Val)) : Option (List CellAns) :=
  let pre := (if lockSearch then KP_CELL_LOCK_SCRIPT else KP_CELL_TYPE_SCRIPT) :: scriptRaw q
  rows.foldr (fun e acc =>
    match acc with
    | none => none
    | some l =>
      if exact && e.1.bytes.length ≠ pre.length + 16 then some l else
      let op : OutPoint := ⟨valTx e.2, e.1.io⟩
      if pool.consumed op then some l else
      match get s (.outPoint op) with
      | some (.cell c) => if cellPasses f lockSearch lenIncl c then some (⟨op, c, e.1.bytes⟩ :: l) else some l
      | _ => none) (some [])

/-- one `get_cells` call; `snap` = the snapshot, `pool` = the overlay when its lock is taken -/
def getCellsAt (snap : Store) (pool : Pool) (lockSearch : Bool) (q : Script) (exact : Bool) (f : Filter)
    (desc : Bool) (limit : Nat) (cursor : Option (List Nat)) : Option (List CellAns × List Nat) :=
  let rows := afterCursor (scan snap (cellPrefix lockSearch q)) desc cursor
  match cellRowsP snap pool lockSearch q exact f false rows with
  | none => none
  | some l =>
    let page := l.take limit
    some (page, match page.getLast? with | some a => a.key | none => [])

/-- repeated `get_cells` calls following `last_cursor` (no writer in between) -/
def getCellsPagesP (s : Store) (pool : Pool) (lockSearch : Bool) (q : Script) (exact : Bool) (f : Filter)
    (desc : Bool) (limit : Nat) : Nat → Option (List Nat) → Option (List (List CellAns))
  | 0, _ => some []
  | fuel + 1, cursor =>
    match getCellsAt s pool lockSearch q exact f desc limit cursor with
    | none => none
    | some (page, last) =>
      if page.isEmpty then some [[]] else
      match getCellsPagesP s pool lockSearch q exact f desc limit fuel (some last) with
      | none => none
      | some rest => some (page :: rest)

/-- `get_cells_capacity`: the sum over the snapshot minus the overlay's dead cells, and the tip READ
FROM THE SAME SNAPSHOT (`snapshot.iterator(tip_mode)`), `none` when the snapshot has no row at all
below `Header + 1`; inner `none` = the code would panic on `expect("stored OutPoint")` -/
def getCellsCapacityAt (snap : Store) (pool : Pool) (lockSearch : Bool) (q : Script) (exact : Bool)
    (f : Filter) : Option (Option (Nat × TipAns)) :=
  match cellRowsP snap pool lockSearch q exact f false (scan snap (cellPrefix lockSearch q)) with
  | none => none
  | some l =>
    match tipAsCode snap with
    | .none => some none
    | t => some (some ((l.map fun a => a.cell.out.cap).foldl (· + ·) 0, t))

/-! ## the descending seek key

`build_query_options`: `Desc` without a cursor seeks (in reverse) from
`prefix ‖ 0xff × (MAX_PREFIX_SEARCH_SIZE − args_len)`; the iteration starts at the greatest key that
is `≤` this seek key. `maxPre` = `MAX_PREFIX_SEARCH_SIZE` (`u16::MAX`). -/

def descSeekKey (maxPre : Nat) (pre : List Nat) (argsLen : Nat) : List Nat :=
  pre ++ List.replicate (maxPre - argsLen) 255

/-- the rows a reverse iteration from the seek key yields (before `take_while(starts_with(prefix))`,
which `scan` already applied): the rows in descending order without those above the seek key -/
def descRows (maxPre : Nat) (rows : List (Key × Val)) (pre : List Nat) (argsLen : Nat) : List (Key × Val) :=
  rows.reverse.dropWhile fun e => bytesLt (descSeekKey maxPre pre argsLen) e.1.bytes

/-- The store as a DESCENDING walk sees it: rows of the searched family (`prefix`) above the seek key
are never reached — neither by the first call (the reverse seek starts below them) nor by a later
call (it continues downwards from `last_cursor`). Rows of other families are untouched (the OutPoint
and sibling Tx*Script point lookups of the handlers read them). -/
def descView (maxPre : Nat) (s : Store) (pre : List Nat) (argsLen : Nat) : Store :=
  let seek := descSeekKey maxPre pre argsLen   -- built once per query
  s.filter fun e => !(isPrefix pre e.1.bytes && bytesLt seek e.1.bytes)

end CkbVerif.Indexer
