/-!
# JSON-RPC scalar encodings (C15)

`util/jsonrpc-types/src/uints.rs` (`JsonUint<T>`: `0x` + minimal lower-case hex on output;
on input: `0x` prefix, at least one more character, no redundant leading zero, then
`T::from_str_radix(_, 16)` — which also accepts upper-case digits and one leading `+`) and
`util/jsonrpc-types/src/bytes.rs` (`JsonBytes`: `0x` + two lower-case hex digits per byte on output;
on input `0x`, even length, `faster_hex::hex_decode` — either case).
Core Lean only.
-/
namespace CkbVerif.Json

def hexDigit (n : Nat) : Char :=
  if n < 10 then Char.ofNat (48 + n) else Char.ofNat (87 + n)

/-- value of a hex digit, either case -/
def hexVal (c : Char) : Option Nat :=
  if '0' ≤ c ∧ c ≤ '9' then some (c.toNat - 48)
  else if 'a' ≤ c ∧ c ≤ 'f' then some (c.toNat - 87)
  else if 'A' ≤ c ∧ c ≤ 'F' then some (c.toNat - 55)
  else none

/-- `{:x}` — minimal lower-case hex, `"0"` for zero -/
def showHex (n : Nat) : List Char :=
  if _h : n < 16 then [hexDigit n] else showHex (n / 16) ++ [hexDigit (n % 16)]
decreasing_by omega

/-- digits → number, `none` on a non-digit (no overflow check here) -/
def digitStep (acc : Option Nat) (c : Char) : Option Nat :=
  match acc, hexVal c with
  | some a, some d => some (a * 16 + d)
  | _, _ => none

def parseDigits (cs : List Char) : Option Nat := cs.foldl digitStep (some 0)

/-- `uN::from_str_radix(s, 16)`: optional single `+`, at least one digit, value < 2^bits -/
def stripPlus : List Char → List Char
  | '+' :: rest => rest
  | cs => cs

def fromStrRadix16 (bits : Nat) (cs : List Char) : Option Nat :=
  let ds := stripPlus cs
  if ds.isEmpty then none else
  match parseDigits ds with
  | some n => if n < 2 ^ bits then some n else none
  | none => none

/-- `impl Display for JsonUint`: `0x{:x}` -/
def showUintChars (n : Nat) : List Char := '0' :: 'x' :: showHex n

def showUint (n : Nat) : String := String.ofList (showUintChars n)

/-- `JsonUintVisitor::visit_str` -/
def parseUint (bits : Nat) (cs : List Char) : Option Nat :=
  match cs with
  | '0' :: 'x' :: c :: rest =>
    if c = '0' ∧ ¬ rest.isEmpty then none else fromStrRadix16 bits (c :: rest)
  | _ => none

/-- `impl Serialize for JsonBytes` -/
def showBytesChars (bs : List UInt8) : List Char :=
  '0' :: 'x' :: bs.flatMap (fun b => [hexDigit (b.toNat / 16), hexDigit (b.toNat % 16)])

def showBytes (bs : List UInt8) : String := String.ofList (showBytesChars bs)

def parsePairs : List Char → Option (List UInt8)
  | [] => some []
  | [_] => none
  | a :: b :: rest =>
    match hexVal a, hexVal b, parsePairs rest with
    | some x, some y, some r => some (UInt8.ofNat (x * 16 + y) :: r)
    | _, _, _ => none

/-- `BytesVisitor::visit_str` -/
def parseBytes (cs : List Char) : Option (List UInt8) :=
  match cs with
  | '0' :: 'x' :: rest => parsePairs rest
  | _ => none

end CkbVerif.Json
