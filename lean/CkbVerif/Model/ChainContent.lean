/-!
# Content model: what the contextual verdict of a block reads from its chain, under attach / detach

The pipeline model (Model/Chain.lean) abstracts the contextual verifier into a per-block flag `ok b` =
"the verdict on top of b's own verified parent chain". This file models the three pieces of chain state that
verdict reads and that `reconcile_main_chain` / `rollback` maintain INCREMENTALLY while the main chain switches
between branches (`store/src/transaction.rs attach_block / detach_block`, `store/src/cell.rs
attach_block_cell / detach_block_cell`, the proposal window of `TwoPhaseCommitVerifier`):
* `live`   — the live-cell set (`COLUMN_CELL`),
* `uncles` — the uncle index (`COLUMN_UNCLES`: hashes embedded as uncles by main-chain blocks),
* `props`  — the proposal ids of the main-chain blocks, newest first (what the proposal window walks).
A block's content is the cells it spends / creates, the uncles it embeds, the ids it proposes / commits.
-/
namespace CkbVerif.Content

structure Body where
  spends : List Nat
  creates : List Nat
  uncles : List Nat
  proposes : List Nat
  commits : List Nat
  deriving DecidableEq

structure View where
  live : Nat → Bool
  uncles : Nat → Bool
  props : List (List Nat)

/-- the ids proposed in the window `[closest, farthest]` blocks back (`w0 ≥ 1`: position 0 is the parent) -/
def window (w0 w1 : Nat) (props : List (List Nat)) : List Nat :=
  ((props.drop (w0 - 1)).take (w1 + 1 - w0)).flatten

/-- the content part of the contextual verdict of a block with body `c` on a chain whose view is `v`:
every input is live (no double spend, no unknown cell), every created cell is new, no uncle is embedded
twice on this chain, every committed id was proposed inside the window on this chain -/
def verdict (w0 w1 : Nat) (v : View) (c : Body) : Bool :=
  c.spends.all (fun x => v.live x) && c.creates.all (fun x => !v.live x && !c.spends.contains x) &&
  c.uncles.all (fun u => !v.uncles u) && c.commits.all (fun t => (window w0 w1 v.props).contains t)

/-- `attach_block` + `attach_block_cell` -/
def attach (v : View) (c : Body) : View :=
  { live := fun x => (v.live x && !c.spends.contains x) || c.creates.contains x
    uncles := fun u => v.uncles u || c.uncles.contains u
    props := c.proposes :: v.props }

/-- `detach_block` + `detach_block_cell` -/
def detach (v : View) (c : Body) : View :=
  { live := fun x => (v.live x && !c.creates.contains x) || c.spends.contains x
    uncles := fun u => v.uncles u && !c.uncles.contains u
    props := v.props.tail }

/-- the view of a chain, replayed from the genesis view (`chain` newest first) -/
def replay (g : View) : List Body → View
  | [] => g
  | c :: r => attach (replay g r) c

/-- the moves of the chain service on its main chain: `rollback` detaches the top block, `reconcile_main_chain`
attaches a block. A block is only ever attached after it passed the verdict on the chain below it — at that
moment, or EARLIER on the same chain (`fork.verified_len()`: the already-verified prefix is attached without
being verified again). -/
inductive Move
  | attach (c : Body)
  | detach
  deriving DecidableEq

/-- incremental state: the maintained view and the current main chain (newest first) -/
structure Inc where
  view : View
  chain : List Body

def move (s : Inc) : Move → Inc
  | .attach c => { view := attach s.view c, chain := c :: s.chain }
  | .detach =>
    match s.chain with
    | [] => s
    | c :: r => { view := detach s.view c, chain := r }

def moves (s : Inc) : List Move → Inc
  | [] => s
  | m :: r => moves (move s m) r

/-- every attached block passes the verdict on the REPLAYED view of the chain below it (i.e. it is valid
on its own chain) -/
def Legal (w0 w1 : Nat) (g : View) : List Body → List Move → Prop
  | _, [] => True
  | chain, .attach c :: r => verdict w0 w1 (replay g chain) c = true ∧ Legal w0 w1 g (c :: chain) r
  | chain, .detach :: r => Legal w0 w1 g chain.tail r

/-- seeded change m1: `detach_block` forgets to delete the uncle index -/
def detachKeepUncles (v : View) (c : Body) : View := { detach v c with uncles := v.uncles }

/-- seeded change m3: a block of the verified prefix is re-attached without `attach_block_cell` -/
def attachNoCells (v : View) (c : Body) : View := { attach v c with live := v.live }

end CkbVerif.Content
