import CkbVerif.Model.Store
import CkbVerif.Model.Chain

/-!
# The store view under the commit log of the import pipeline (C08)

`Model/Chain.lean` (pipeline: which block is stored / has an ext / is verified / is the tip) and
`Model/Store.lean` (what the columns hold) describe the SAME sequence of RocksDB commits. This file
puts the column view under that commit log, one function application per commit, in the code's order:

* `Commit.ins b`  — `chain_service.rs` `insert_block`: one transaction with
  `StoreTransaction::insert_block` (COLUMN_BLOCK_HEADER / _UNCLE / _EXTENSION / NUMBER_HASH /
  _PROPOSAL_IDS / _BODY rows of `b`) — nothing else.
* `Commit.del id` — `delete_unverified_block` → `StoreTransaction::delete_block`: the same six
  columns, nothing else (the ext, block→epoch and epoch rows are NOT deleted).
* `Commit.ver b`  — `verify.rs` `verify_block`: ONE transaction with `insert_block_epoch_index`,
  `insert_epoch_ext_only` (block opens an epoch), and either the side-branch ext (`verified = None`) or
  `rollback` + `reconcile_main_chain` (attach/detach rows, cells, exts of the dirty run) +
  `insert_tip_header` + (`new_epoch || has_detached || attached > 1`) `insert_current_epoch_ext`.
  It is `Store.process` without the `insert_block` rows (`verifyCommit_insert_eq_process`, by `rfl`).
  A verification that fails commits nothing (the transaction is dropped); the failed block is then
  removed by a `del` commit.

A crash keeps exactly the prefix of the log committed so far: `applyLog v (log.take k)`.

`diffCommits` reads the commits of one pipeline step off the persisted part of `Chain.State`
(`stored`, `td`): one `deliver` (without drain) inserts one block and deletes any number of rejected
ones (commits on pairwise distinct blocks: they commute), one `verifyHead` commits at most once. The
driver applies it along the trace of micro-states of every operation.
-/
namespace CkbVerif.CrashStore
open CkbVerif.Store

/-- `StoreTransaction::delete_block`: the block rows only -/
def deleteBlock (r : Recs) (id : Nat) : Recs := { r with bodies := upd r.bodies id none }

/-- the single transaction of `verify_block` for a block whose rows are already stored:
`Store.process` from `insert_block_epoch_index` on -/
def verifyCommit (v : View) (b : Block) : View :=
  let r0 := v.r
  let ext := freshExt r0 b
  let tipId := v.m.tip.getD 0
  let newBest := decide (ext.td > tdOf r0 tipId)
  let r1 := insertBlockEpoch r0 b
  let r2 := if b.isHead then insertEpochExt r1 b.epochRec else r1
  if newBest then
    let r3 := putExt r2 b.id ext
    let (attTail, common) := walkBack v.m r3 (b.number + 1) b.parent []
    let tipNumber := numberOf r3 tipId
    let lo := common.getD 0
    let det := mainBlocks v.m r3 lo (tipNumber - lo)
    commitBest ⟨v.m, r3⟩ b det (attTail ++ [b])
  else
    ⟨v.m, putExt r2 b.id ext⟩

inductive Commit
  | ins (b : Block)
  | del (id : Nat)
  | ver (b : Block)

def applyCommit (v : View) : Commit → View
  | .ins b => ⟨v.m, insertBlock v.r b⟩
  | .del id => ⟨v.m, deleteBlock v.r id⟩
  | .ver b => verifyCommit v b

def applyLog (v : View) : List Commit → View
  | [] => v
  | c :: cs => applyLog (applyCommit v c) cs

/-- the database a process that dies after `k` commits of `log` leaves behind -/
def crashAt (v : View) (log : List Commit) (k : Nat) : View := applyLog v (log.take k)

/-- the commits between two pipeline states one `deliver` (no drain) / `verifyHead` / expiry step apart,
over the declared block ids -/
def diffCommits (body : Nat → Block) (ids : List Nat) (s s' : Chain.State) : List Commit :=
  ((ids.filter fun i => !s.stored i && s'.stored i).map fun i => Commit.ins (body i)) ++
  ((ids.filter fun i => s.stored i && !s'.stored i).map fun i => Commit.del i) ++
  ((ids.filter fun i => (s.td i).isNone && (s'.td i).isSome).map fun i => Commit.ver (body i))

/-- the commit log of a trace of pipeline states -/
def traceLog (body : Nat → Block) (ids : List Nat) : Chain.State → List Chain.State → List Commit
  | _, [] => []
  | s, s' :: rest => diffCommits body ids s s' ++ traceLog body ids s' rest

/-- persisted parts agree on the declared ids (the ghost commit counter included: two micro-states of
one delivery with the same counter have performed the same commits) -/
def samePersisted (ids : List Nat) (a b : Chain.State) : Bool :=
  a.tip == b.tip && a.commits == b.commits &&
  ids.all fun i => a.stored i == b.stored i && a.td i == b.td i && a.ver i == b.ver i

/-- main-chain ids of the persisted tip, genesis first (`fuel` ≥ tip id suffices: `par b < b`) -/
def pathIds (T : Chain.Tree) : Nat → Nat → List Nat
  | 0, _ => [0]
  | fuel + 1, b => if b = 0 then [0] else pathIds T fuel (T.par b) ++ [b]

/-- the reference: the replay of the persisted tip's chain -/
def replayOf (T : Chain.Tree) (body : Nat → Block) (tip : Nat) : View :=
  replay ((pathIds T tip tip).map body)

end CkbVerif.CrashStore
