import CkbVerif.Gen.Sync

/-!
# Skip-list ancestor lookup and locator construction (C17, stream `skip`)

Follows `shared/src/types/mod.rs` (`get_skip_height`, `HeaderIndexView::{get_ancestor, build_skip}`)
and `sync/src/types/mod.rs` (`ActiveChain::get_locator`).

A header store is a partial function from ids (hashes) to headers; `scan` is the `fast_scanner`
closure (main-chain shortcut), an arbitrary partial function constrained only in the theorems.
Block numbers are `Nat` (the code's `as i64` casts are exact below 2^63).
-/
namespace CkbVerif.Skip

/-- `n & (n - 1)` -/
def invertLowestOne (n : Nat) : Nat := n &&& (n - 1)

/-- `get_skip_height` -/
def getSkipHeight (h : Nat) : Nat :=
  if h < 2 then 0
  else if h &&& 1 > 0 then invertLowestOne (invertLowestOne (h - 1)) + 1
  else invertLowestOne h

structure Hdr where
  id : Nat
  number : Nat
  parent : Nat
  skip : Option Nat
deriving Repr, DecidableEq

abbrev Store := Nat → Option Hdr

/-- one iteration of the `while number_walk > number` loop before the `fast_scanner` call:
the header moved to and the new `number_walk` (`none` = `get_header_view` failed) -/
def nextStep (store : Store) (number : Nat) (cur : Hdr) (nw : Nat) : Option (Hdr × Nat) :=
  let ns := getSkipHeight nw
  let nsp := getSkipHeight (nw - 1)
  match cur.skip with
  | some s =>
    if ns == number || (decide (ns > number) && !(decide (nsp + 2 < ns) && decide (nsp ≥ number))) then
      (store s).map (fun c => (c, ns))
    else (store cur.parent).map (fun c => (c, nw - 1))
  | none => (store cur.parent).map (fun c => (c, nw - 1))

/-- the loop of `get_ancestor`; `fuel` bounds the iterations (`number_walk` strictly decreases) -/
def ancestorLoop (store : Store) (scan : Nat → Hdr → Option Hdr) (number : Nat) :
    Nat → Hdr → Nat → Option Hdr
  | 0, cur, _ => some cur
  | fuel + 1, cur, nw =>
    if nw > number then
      match nextStep store number cur nw with
      | none => none
      | some (c, nw') =>
        match scan number c with
        | some t => some t
        | none => ancestorLoop store scan number fuel c nw'
    else some cur

/-- `HeaderIndexView::get_ancestor` -/
def getAncestor (store : Store) (scan : Nat → Hdr → Option Hdr) (h : Hdr) (number : Nat) : Option Hdr :=
  if number > h.number then none
  else ancestorLoop store scan number h.number h h.number

/-- `HeaderIndexView::build_skip` -/
def buildSkip (store : Store) (scan : Nat → Hdr → Option Hdr) (h : Hdr) : Hdr :=
  if h.number == 0 then h
  else { h with skip := (getAncestor store scan h (getSkipHeight h.number)).map (·.id) }

/-- walking parent links one by one -/
def walk (store : Store) : Nat → Hdr → Option Hdr
  | 0, h => some h
  | k + 1, h => (store h.parent).bind (walk store k)

/-- the loop of `ActiveChain::get_locator`, with the ancestor lookup as a parameter
(`anc base index`); returns the locator without the trailing genesis hash and whether the
genesis hash is appended. `fuel` bounds the iterations (`index` strictly decreases). -/
def locatorLoop (anc : Nat → Nat → Option Nat) :
    Nat → (step index base : Nat) → List Nat → Option (List Nat × Bool)
  | 0, _, _, _, acc => some (acc, false)
  | fuel + 1, step, index, base, acc =>
    match anc base index with
    | none => none          -- the code panics
    | some hh =>
      let acc := acc ++ [hh]
      let step := if acc.length ≥ 10 then step * 2 else step
      if index < step * 2 then
        if acc.length < 52 && decide (index > CkbVerif.Gen.Sync.ONE_DAY_BLOCK_NUMBER) then
          locatorLoop anc fuel step (index / 2) hh acc
        else some (acc, index != 0)
      else locatorLoop anc fuel step (index - step) hh acc

/-- `ActiveChain::get_locator(start)` (ids; `genesis` is the genesis hash) -/
def getLocator (anc : Nat → Nat → Option Nat) (genesis startNumber startId : Nat) : Option (List Nat) :=
  (locatorLoop anc (startNumber + 1) 1 startNumber startId []).map
    (fun r => if r.2 then r.1 ++ [genesis] else r.1)

end CkbVerif.Skip
