import CkbVerif.Model.Dao

/-!
# `transaction_maximum_withdraw` / `modified_occupied_capacity` on RAW inputs (C06)

`Model/Dao.lean` is handed, per input, a ready-made classification (`InKind`: plain / satoshi /
NervosDAO withdrawing cell with its two headers). This file models the code that DECIDES that
classification and its error paths, following `util/dao/src/lib.rs` line by line:

* `transaction_maximum_withdraw`: per input (`enumerate`, index `i`)
  1. `is_dao_type_script`: there is a type script, its `hash_type` is `Type` and its `code_hash` is
     `consensus.dao_type_hash()`;
  2. `is_withdrawing_input`: `load_cell_data` returns data of length 8 whose `read_u64` is `> 0`
     (a deposit cell carries 8 zero bytes: it counts at its capacity);
  3. `withdrawing_header_hash`: `transaction_info.block_hash`, which must be among the header deps,
     else `InvalidOutPoint` (also without `transaction_info`);
  4. `deposit_header_hash`: witness `i` must exist (`InvalidOutPoint`), parse as `WitnessArgs`
     (`InvalidDaoFormat`), have an `input_type` of exactly 8 bytes (`InvalidDaoFormat`); its
     `read_u64` indexes `header_deps()` (`InvalidOutPoint` beyond the end);
  5. `Capacity::bytes(cell_meta.data_bytes)` (`Overflow`) — evaluated before the call;
  6. `calculate_maximum_withdraw`: deposit header, then withdrawing header, from the data loader
     (`InvalidHeader`), then the arithmetic of `maxWithdrawWith`.
  The fold adds `c.safe_add(capacities)`.
* `modified_occupied_capacity`: the satoshi rule applies iff there is a `transaction_info` with
  `block_number == 0` (`is_genesis`), `index == 0` (`is_cellbase`) and the lock args equal
  `satoshi_pubkey_hash`.

Hashes are natural-number ids; the data loader's `get_header` is a function `hash id → (number, AR)`.
Core Lean only.
-/
namespace CkbVerif.Dao
open CkbVerif.Arith

/-- witness `i` as the calculator reads it: `WitnessArgs::from_slice` fails, or it parses and its
`input_type` is absent / `(byte length, LittleEndian::read_u64 of it — meaningful for length 8)` -/
inductive RawWitness where
  | malformed
  | args (inputType : Option (Nat × Nat))
deriving Repr, DecidableEq

/-- `TransactionInfo` of the transaction that created the cell -/
structure TxInfo where
  blockHash : Nat
  blockNumber : Nat
  index : Nat
deriving Repr, DecidableEq

structure RawInput where
  cell : Cell
  /-- the type script, if any: (`hash_type == Type`, `code_hash == dao_type_hash`) -/
  typeScript : Option (Bool × Bool)
  /-- `data_loader.load_cell_data(cell_meta)`: `(length, read_u64)` -/
  loaded : Option (Nat × Nat)
  txInfo : Option TxInfo
  /-- `lock.args().raw_data() == consensus.satoshi_pubkey_hash` -/
  lockIsSatoshi : Bool
deriving Repr, DecidableEq

structure RawTx where
  inputs : List RawInput
  outputs : List Cell
  witnesses : List RawWitness
  headerDeps : List Nat
deriving Repr

/-- `data_loader.get_header(hash)` → `(number, AR of its dao field)` -/
abbrev Headers := Nat → Option (Nat × Nat)

def isDaoType (i : RawInput) : Bool :=
  match i.typeScript with
  | some (hashTypeIsType, codeIsDao) => hashTypeIsType && codeIsDao
  | none => false

def isWithdrawingInput (i : RawInput) : Bool :=
  match i.loaded with
  | some (len, v) => len == 8 && decide (v > 0)
  | none => false

def isDaoWithdrawing (i : RawInput) : Bool := isDaoType i && isWithdrawingInput i

/-- step 3 -/
def withdrawingHeaderHash (deps : List Nat) (i : RawInput) : R Nat :=
  match i.txInfo with
  | some info => if deps.contains info.blockHash then pure info.blockHash else throw .invalidOutPoint
  | none => throw .invalidOutPoint

/-- step 4, the witness part -/
def depositHeaderIndex (ws : List RawWitness) (k : Nat) : R Nat :=
  match ws[k]? with
  | none => throw .invalidOutPoint
  | some .malformed => throw .invalidDaoFormat
  | some (.args none) => throw .invalidDaoFormat
  | some (.args (some (len, v))) => if len ≠ 8 then throw .invalidDaoFormat else pure v

/-- step 4: `header_deps().get(index as usize).and_then(|hash| header_deps.get(&hash))` -/
def depositHeaderHash (deps : List Nat) (ws : List RawWitness) (k : Nat) : R Nat := do
  let idx ← depositHeaderIndex ws k
  match deps[idx]? with
  | some h => pure h
  | none => throw .invalidOutPoint

/-- step 6: `calculate_maximum_withdraw` with the two header lookups in front -/
def maxWithdrawRaw (hdr : Headers) (c : Cell) (dataCap depHash wdHash : Nat) : R Nat :=
  match hdr depHash with
  | none => throw .invalidHeader
  | some (dn, da) =>
    match hdr wdHash with
    | none => throw .invalidHeader
    | some (wn, wa) => maxWithdrawWith c dataCap dn da wn wa

/-- the per-input summand of `transaction_maximum_withdraw`, input index `k` -/
def rawInputMaxWithdraw (hdr : Headers) (deps : List Nat) (ws : List RawWitness) (k : Nat)
    (i : RawInput) : R Nat :=
  if isDaoWithdrawing i then do
    let wd ← withdrawingHeaderHash deps i
    let dep ← depositHeaderHash deps ws k
    let d ← capBytes i.cell.dataBytes
    maxWithdrawRaw hdr i.cell d dep wd
  else pure i.cell.cap

/-- `iter().enumerate().try_fold(zero, |acc, (i, x)| f(i, x).and_then(|c| c.safe_add(acc)))` -/
def sumRIdx {α : Type} (f : Nat → α → R Nat) : Nat → List α → Nat → R Nat
  | _, [], acc => pure acc
  | k, x :: xs, acc => do
    let c ← f k x
    let acc' ← ovf (safeAdd acc c)
    sumRIdx f (k + 1) xs acc'

/-- `transaction_maximum_withdraw` -/
def rawTxMaxWithdraw (hdr : Headers) (t : RawTx) : R Nat :=
  sumRIdx (rawInputMaxWithdraw hdr t.headerDeps t.witnesses) 0 t.inputs 0

/-- `transaction_fee` -/
def rawTransactionFee (hdr : Headers) (t : RawTx) : R Nat := do
  let m ← rawTxMaxWithdraw hdr t
  let o ← sumR (fun (c : Cell) => pure c.cap) t.outputs 0
  ovf (safeSub m o)

def isSatoshiInput (i : RawInput) : Bool :=
  match i.txInfo with
  | some info => info.blockNumber == 0 && info.index == 0 && i.lockIsSatoshi
  | none => false

/-- `modified_occupied_capacity` -/
def rawModifiedOccupied (i : RawInput) : R Nat :=
  if isSatoshiInput i then ovf (safeMulRatio i.cell.cap satoshiRatio) else occupied i.cell

/-- `input_occupied_capacities` -/
def rawInputOccupied (t : RawTx) : R Nat := sumR rawModifiedOccupied t.inputs 0

def rawTxAddedOccupied (t : RawTx) : R Nat := sumR occupied t.outputs 0

def rawTxInputCapacities (t : RawTx) : R Nat := sumR (fun (i : RawInput) => pure i.cell.cap) t.inputs 0

/-- `withdrawed_interests` -/
def rawWithdrawedInterests (hdr : Headers) (txs : List RawTx) : R Nat := do
  let m ← sumR (rawTxMaxWithdraw hdr) txs 0
  let i ← sumR rawTxInputCapacities txs 0
  ovf (safeSub m i)

/-- `dao_field_with_current_epoch` over raw transactions -/
def rawDaoField (hdr : Headers) (ser : Nat) (e : Epoch) (parentNumber : Nat) (p : DaoField)
    (txs : List RawTx) : R DaoField := do
  let freed ← sumR rawInputOccupied txs 0
  let added ← sumR rawTxAddedOccupied txs 0
  let interests ← rawWithdrawedInterests hdr txs
  let n ← pnc (chk64 (parentNumber + 1))
  let g2 ← secondaryIssuance e n ser
  let primary ← blockReward e n
  daoUpdate p primary g2 added freed interests

/-! ### the classification the kind-level model (`Model/Dao.lean`) is handed -/

/-- the `InKind` of a raw input when it is well formed (`none`: an error path, or a cell that is
both a satoshi gift cell and a withdrawing NervosDAO cell, which `InKind` cannot express) -/
def kindOf (hdr : Headers) (deps : List Nat) (ws : List RawWitness) (k : Nat) (i : RawInput) :
    Option InKind :=
  if isDaoWithdrawing i then
    if isSatoshiInput i then none else
    match withdrawingHeaderHash deps i, depositHeaderHash deps ws k with
    | .ok wd, .ok dep =>
      match hdr dep, hdr wd with
      | some (dn, da), some (wn, wa) => some (.daoWithdraw dn da wn wa)
      | _, _ => none
    | _, _ => none
  else if isSatoshiInput i then some .satoshi else some .plain

/-- the kind-level inputs of a raw input list starting at index `k` -/
def kindsFrom (hdr : Headers) (deps : List Nat) (ws : List RawWitness) :
    Nat → List RawInput → Option (List Input)
  | _, [] => some []
  | k, i :: is =>
    match kindOf hdr deps ws k i, kindsFrom hdr deps ws (k + 1) is with
    | some kd, some r => some (⟨i.cell, kd⟩ :: r)
    | _, _ => none

/-- the kind-level transaction of a well-formed raw transaction -/
def txOf (hdr : Headers) (t : RawTx) : Option Tx :=
  (kindsFrom hdr t.headerDeps t.witnesses 0 t.inputs).map fun ins => ⟨ins, t.outputs⟩

/-- the kind-level transactions of a list of well-formed raw transactions -/
def txsOf (hdr : Headers) : List RawTx → Option (List Tx)
  | [] => some []
  | t :: ts =>
    match txOf hdr t, txsOf hdr ts with
    | some t', some r => some (t' :: r)
    | _, _ => none

end CkbVerif.Dao
