import CkbVerif.Model.Arith
import CkbVerif.Gen.Epoch

/-!
C07 — executable model of the epoch / difficulty / issuance arithmetic, following the Rust code.

* `spec/src/consensus.rs`: `next_epoch_ext` (non-`permanent_difficulty` branch), `bounding_hash_rate`,
  `bounding_epoch_length`, `primary_epoch_reward`, `primary_epoch_reward_of_next_epoch`, `u256_low_u64`
* `util/rational/src/lib.rs`: `RationalU256` with the code's gcd reductions (they decide *when* a
  `U256` product overflows, i.e. panics)
* `util/types/src/core/extras.rs`: `EpochExt::{primary_reward, block_reward, secondary_block_issuance}`,
  `EpochNumberWithFraction`
* `util/types/src/utilities/difficulty.rs`: the compact/target/difficulty conversions
* `pow/src/eaglesong.rs`: `verify` (the 256-bit digest is an input), `verification/src/header_verifier.rs`
  `EpochVerifier`

All integers are `Nat`; `none` = the Rust code panics (checked overflow, division by zero,
`denominator == 0`) or returns `Err(Overflow)`.  Shifts of in-range values are written as
multiplication / division by powers of two; truncations (`as u32`, `u256_low_u64`, `convert_into().0`,
`<<` on a fixed-width integer) are explicit `%`.
Constants come from `Gen/Epoch.lean` (regenerated from /repo on every run).
-/
namespace CkbVerif.Epoch
open CkbVerif.Arith CkbVerif.Gen.Epoch

/-- `const MAX_EPOCH_LENGTH = DEFAULT_EPOCH_DURATION_TARGET / MIN_BLOCK_INTERVAL` (formula text is
pinned by `Gen.Epoch.MAX_EPOCH_LENGTH_NUM_IS_TARGET`) -/
def MAX_EPOCH_LENGTH : Nat := EPOCH_DURATION_TARGET / MIN_BLOCK_INTERVAL
/-- `const MIN_EPOCH_LENGTH = DEFAULT_EPOCH_DURATION_TARGET / MAX_BLOCK_INTERVAL` -/
def MIN_EPOCH_LENGTH : Nat := EPOCH_DURATION_TARGET / MAX_BLOCK_INTERVAL

/-! ## compact target / difficulty (`util/types/src/utilities/difficulty.rs`) -/

/-- `256 - leading_zeros()` -/
def bitLen (n : Nat) : Nat := if n = 0 then 0 else Nat.log2 n + 1

def MANT_BITS : Nat := COMPACT_EXPONENT_SHIFT
def MANT_BYTES : Nat := COMPACT_EXPONENT_SHIFT / 8

/-- `target_to_compact` (argument `< 2^256`) -/
def targetToCompact (t : Nat) : Nat :=
  let exponent := (bitLen t + 7) / 8
  let compact :=
    if exponent ≤ MANT_BYTES then ((t % U64) * 2 ^ (8 * (MANT_BYTES - exponent))) % U64
    else (t / 2 ^ (8 * (exponent - MANT_BYTES))) % U64
  (compact ||| ((exponent * 2 ^ COMPACT_EXPONENT_SHIFT) % U64)) % U32

/-- `compact_to_target` (argument `< 2^32`): `(target, overflow)` -/
def compactToTarget (c : Nat) : Nat × Bool :=
  let exponent := c / 2 ^ COMPACT_EXPONENT_SHIFT
  let mantissa := c &&& COMPACT_MANTISSA_MASK
  let ret :=
    if exponent ≤ MANT_BYTES then mantissa / 2 ^ (8 * (MANT_BYTES - exponent))
    else (mantissa * 2 ^ (8 * (exponent - MANT_BYTES))) % U256
  (ret, decide (mantissa ≠ 0) && decide (exponent > COMPACT_MAX_EXPONENT))

/-- `target_to_difficulty` (`HSPACE / 0` panics; callers exclude 0) -/
def targetToDifficulty (t : Nat) : Option Nat :=
  if t = 1 then some (U256 - 1) else (divChk U256 t).map (· % U256)

/-- `difficulty_to_target` -/
def difficultyToTarget (d : Nat) : Option Nat :=
  if d = 1 then some (U256 - 1) else (divChk U256 d).map (· % U256)

/-- `compact_to_difficulty` -/
def compactToDifficulty (c : Nat) : Nat :=
  let (t, ovf) := compactToTarget c
  if t = 0 || ovf then 0 else (targetToDifficulty t).getD 0

/-- `difficulty_to_compact` (panics on difficulty 0) -/
def difficultyToCompact (d : Nat) : Option Nat :=
  (difficultyToTarget d).map targetToCompact

/-- `EaglesongPowEngine::verify` with the digest (big-endian value `hash < 2^256`) as an input -/
def powVerify (compact hash : Nat) : Bool :=
  let (t, ovf) := compactToTarget compact
  if t = 0 || ovf then false
  else if hash > t then false
  else true

/-! ## `EpochNumberWithFraction` (`util/types/src/core/extras.rs`) -/

def NUMBER_OFFSET : Nat := 0
def INDEX_OFFSET : Nat := EPOCH_NUMBER_BITS
def LENGTH_OFFSET : Nat := EPOCH_NUMBER_BITS + EPOCH_INDEX_BITS
def NUMBER_MASK : Nat := 2 ^ EPOCH_NUMBER_BITS - 1
def INDEX_MASK : Nat := 2 ^ EPOCH_INDEX_BITS - 1
def LENGTH_MASK : Nat := 2 ^ EPOCH_LENGTH_BITS - 1

/-- `new_unchecked` on `u64` arguments (`<<` on u64 drops high bits silently) -/
def enfPack (number index length : Nat) : Nat :=
  ((length * 2 ^ LENGTH_OFFSET) % U64) ||| ((index * 2 ^ INDEX_OFFSET) % U64) ||| ((number * 2 ^ NUMBER_OFFSET) % U64)

def enfNumber (v : Nat) : Nat := (v / 2 ^ NUMBER_OFFSET) &&& NUMBER_MASK
def enfIndex (v : Nat) : Nat := (v / 2 ^ INDEX_OFFSET) &&& INDEX_MASK
def enfLength (v : Nat) : Nat := (v / 2 ^ LENGTH_OFFSET) &&& LENGTH_MASK

def enfIsWellFormed (v : Nat) : Bool := decide (enfLength v > 0) && decide (enfLength v > enfIndex v)

def enfIsGenesis (v : Nat) : Bool :=
  decide (enfNumber v = 0) && decide (enfIndex v = 0) && decide (enfLength v = 0)

/-- `self.is_successor_of(predecessor)` -/
def enfIsSuccessorOf (self pred : Nat) : Bool :=
  if enfIndex pred + 1 = enfLength pred then
    decide (enfNumber self = enfNumber pred + 1) && decide (enfIndex self = 0)
  else
    decide (enfNumber self = enfNumber pred) && decide (enfIndex self = enfIndex pred + 1)
      && decide (enfLength self = enfLength pred)

inductive EpochVerdict | ok | malformed | nonContinuous
  deriving DecidableEq, Repr

/-- `EpochVerifier::verify` -/
def epochVerify (parent header : Nat) : EpochVerdict :=
  if !enfIsWellFormed header then .malformed
  else if !enfIsGenesis parent && !enfIsSuccessorOf header parent then .nonContinuous
  else .ok

inductive HeaderVerdict | ok | invalidNonce | unknownParent | numberMismatch | epochMalformed | epochNonContinuous
  deriving DecidableEq, Repr

/-- `HeaderVerifier::verify` (verification/src/header_verifier.rs) up to and including the
`EpochVerifier`: PoW first, then parent lookup, `NumberVerifier` (`parent + 1`, u64: panics at
`u64::MAX`), `EpochVerifier`.  The `TimestampVerifier` that follows is not part of this property and
not modelled (the harness keeps timestamps valid).  `digest`: eaglesong of the header's PoW message. -/
def headerVerify (compact digest : Nat) (parentKnown : Bool) (pNumber hNumber pEpoch hEpoch : Nat) :
    Option HeaderVerdict :=
  if !powVerify compact digest then some .invalidNonce
  else if !parentKnown then some .unknownParent
  else do
    let expect ← chk64 (pNumber + 1)
    if hNumber ≠ expect then some .numberMismatch
    else match epochVerify pEpoch hEpoch with
      | .malformed => some .epochMalformed
      | .nonContinuous => some .epochNonContinuous
      | .ok => some .ok

/-! ## epoch statistics (`traits/src/epoch_provider.rs`) and the timestamp rule -/

/-- the default method `EpochProvider::get_block_epoch`: `some none` = `NonTailBlock`,
`some (some (uncles, duration_ms))` = `TailBlock`, `none` = panic (u64 arithmetic is checked).
`tuH`/`tsH`: `total_uncles_count` / timestamp of `header`; `tuP`/`tsP`: those of the last block of the
previous epoch (block 0 for the genesis epoch). -/
def getBlockEpoch (hdrNumber start len tuH tuP tsH tsP : Nat) : Option (Option (Nat × Nat)) := do
  let stop ← chk64 (start + len)
  let tail ← subChk stop 1
  if hdrNumber ≠ tail then some none
  else do
    let uncles ← subChk tuH tuP
    let dur ← subChk tsH tsP
    some (some (uncles, dur))

def insertSorted (x : Nat) : List Nat → List Nat
  | [] => [x]
  | y :: ys => if x ≤ y then x :: y :: ys else y :: insertSorted x ys

def sortNat (l : List Nat) : List Nat := l.foldr insertSorted []

/-- `HeaderFieldsProvider::block_median_time`: `prev` = timestamps of the parent and its ancestors,
most recent first, at most `median_block_count` of them and not beyond block 0; sorted, element
`len >> 1`. -/
def medianTime (prev : List Nat) : Nat := (sortNat prev).getD (prev.length / 2) 0

/-- lower bound of `TimestampVerifier` (the upper bound `now + 15 s` concerns the wall clock) -/
def timestampOk (t : Nat) (prev : List Nat) : Bool := decide (t > medianTime prev)

/-- every non-genesis block of a chain (timestamps oldest first) passes the median rule with
`m = median_time_block_count`; `revPrev`: the ancestors, most recent first -/
def chainTimestampsOk (m : Nat) : List Nat → List Nat → Bool
  | _, [] => true
  | revPrev, t :: rest =>
    (revPrev.isEmpty || timestampOk t (revPrev.take m)) && chainTimestampsOk m (t :: revPrev) rest

/-! ## `EpochExt` rewards -/

structure EpochExt where
  number : Nat
  base : Nat        -- base_block_reward
  rem : Nat         -- remainder_reward
  prevHR : Nat      -- previous_epoch_hash_rate (U256)
  start : Nat
  length : Nat
  compact : Nat
  deriving Repr, DecidableEq

/-- `EpochExt::primary_reward` -/
def primaryReward (e : EpochExt) : Option Nat := do
  let p ← chk64 (e.base * e.length)
  chk64 (p + e.rem)

/-- `EpochExt::block_reward` (`Err(Overflow)` and panics are both `none`) -/
def blockReward (e : EpochExt) (n : Nat) : Option Nat :=
  if n ≥ e.start then do
    let stop ← chk64 (e.start + e.rem)
    if n < stop then safeAdd e.base 1 else some e.base
  else some e.base

/-- `EpochExt::secondary_block_issuance` -/
def secondaryBlockIssuance (e : EpochExt) (n secondaryEpochIssuance : Nat) : Option Nat := do
  let g2 ← divChk secondaryEpochIssuance e.length
  let r ← modChk secondaryEpochIssuance e.length
  if n ≥ e.start then do
    let stop ← chk64 (e.start + r)
    if n < stop then safeAdd g2 1 else some g2
  else some g2

/-- `EpochExt::number_with_fraction` (the `debug_assert!`s of debug builds are not modelled; the
`number - start_number` subtraction panics on underflow).  The contextual `EpochVerifier`
(verification/contextual) accepts a block iff `header.epoch()` equals this value and
`header.compact_target()` equals the epoch's. -/
def numberWithFraction (e : EpochExt) (n : Nat) : Option Nat := do
  let idx ← subChk n e.start
  some (enfPack e.number idx e.length)

/-- configurable consensus parameters (builder setters exist for all of them) -/
structure Params where
  T : Nat          -- epoch_duration_target (seconds)
  initial : Nat    -- initial_primary_epoch_reward
  halving : Nat    -- primary_epoch_reward_halving_interval
  ortN : Nat := ORPHAN_RATE_TARGET_NUMER   -- orphan_rate_target (`new_raw`, not reduced)
  ortD : Nat := ORPHAN_RATE_TARGET_DENOM
  deriving Repr

/-- `Consensus::primary_epoch_reward`: `initial >> (epoch_number / halving_interval)` -/
def primaryEpochReward (P : Params) (epochNumber : Nat) : Option Nat := do
  let h ← divChk epochNumber P.halving
  if h < 64 then some (P.initial / 2 ^ h) else none

/-- `u64::is_multiple_of` -/
def isMultipleOf (n m : Nat) : Bool := if m = 0 then n == 0 else n % m == 0

/-- `Consensus::primary_epoch_reward_of_next_epoch` -/
def primaryRewardOfNext (P : Params) (e : EpochExt) : Option Nat := do
  let n1 ← chk64 (e.number + 1)
  if !isMultipleOf n1 P.halving then primaryReward e else primaryEpochReward P n1

/-! ## `RationalU256` -/

structure URat where
  n : Nat
  d : Nat
  deriving Repr, DecidableEq

namespace URat

@[inline] def umul (a b : Nat) : Option Nat := chk256 (a * b)
@[inline] def uadd (a b : Nat) : Option Nat := chk256 (a + b)

/-- `RationalU256::new`: panics on a zero denominator, reduces -/
def new (n d : Nat) : Option URat :=
  if d = 0 then none else
    let g := Nat.gcd n d
    some ⟨n / g, d / g⟩

def one : URat := ⟨1, 1⟩
def zero : URat := ⟨0, 1⟩

/-- `Mul<&RationalU256> for &RationalU256` -/
def mul (a b : URat) : Option URat := do
  let gad := Nat.gcd a.n b.d
  let gbc := Nat.gcd a.d b.n
  let n ← umul (← divChk a.n gad) (← divChk b.n gbc)
  let d ← umul (← divChk a.d gbc) (← divChk b.d gad)
  some ⟨n, d⟩

/-- `Mul<&U256> for &RationalU256` -/
def mulU (a : URat) (u : Nat) : Option URat := do
  let g := Nat.gcd a.d u
  let n ← umul a.n (← divChk u g)
  let d ← divChk a.d g
  some ⟨n, d⟩

/-- `Div<&RationalU256> for &RationalU256` -/
def div (a b : URat) : Option URat := do
  let gac := Nat.gcd a.n b.n
  let gbd := Nat.gcd a.d b.d
  let n ← umul (← divChk a.n gac) (← divChk b.d gbd)
  let d ← umul (← divChk a.d gbd) (← divChk b.n gac)
  some ⟨n, d⟩

/-- `Add<&U256> for &RationalU256` -/
def addU (a : URat) (u : Nat) : Option URat := do
  let n ← uadd a.n (← umul a.d u)
  some ⟨n, a.d⟩

/-- `saturating_sub_u256` -/
def satSubU (a : URat) (u : Nat) : Option URat := do
  let t ← umul a.d u
  if a.n < t then some zero else some ⟨a.n - t, a.d⟩

/-- `into_u256` -/
def floor (a : URat) : Option Nat := divChk a.n a.d

/-- `Ord::cmp(a, b) == Greater` -/
def gt (a b : URat) : Option Bool := do
  let g := Nat.gcd a.d b.d
  let lhs ← umul a.n (← divChk b.d g)
  let rhs ← umul b.n (← divChk a.d g)
  some (decide (lhs > rhs))

end URat

/-! ## `Consensus::next_epoch_ext` -/

/-- `Consensus::orphan_rate_target()` -/
def Params.ort (P : Params) : URat := ⟨P.ortN, P.ortD⟩

/-- `bounding_hash_rate` -/
def boundingHashRate (hr prev : Nat) : Option Nat :=
  if prev = 0 then some hr else
  let lower := prev / TAU
  if hr < lower then some lower else do
    let upper ← chk256 (prev * TAU)
    if hr > upper then some upper else some hr

/-- `last_epoch_duration`: `max(ms / 1000, 1)` seconds -/
def durationSecs (durMs : Nat) : Nat := max (durMs / MILLISECONDS_IN_A_SECOND) 1

/-- `last_epoch_hash_rate` (unclamped) -/
def rawHashRate (diff L uncles dur : Nat) : Option Nat := do
  let blocks ← chk64 (L + uncles)
  let prod ← chk256 (diff * blocks)
  divChk prod dur

/-- step (1): `adjusted_last_epoch_hash_rate` -/
def adjustedHashRate (diff L uncles dur prevHR : Nat) : Option Nat := do
  let hr ← rawHashRate diff L uncles dur
  let b ← boundingHashRate hr prevHR
  some (max b 1)

/-- `bounding_epoch_length` -/
def boundingEpochLength (len L : Nat) : Option (Nat × Bool) := do
  let l2 ← chk64 (L * TAU)
  let maxL := min MAX_EPOCH_LENGTH l2
  let minL := max MIN_EPOCH_LENGTH (L / TAU)
  if len > maxL then some (maxL, true)
  else if len < minL then some (minL, true)
  else some (len, false)

/-- the unbounded length estimate `numerator / denominator` as a rational -/
def rawLengthRat (ort : URat) (T L dur : Nat) (lor : URat) : Option URat := do
  let a ← lor.addU 1
  let n1 ← ort.mul a
  let n2 ← n1.mulU T
  let num ← n2.mulU L
  let b ← ort.addU 1
  let d1 ← lor.mul b
  let den ← d1.mulU dur
  num.div den

/-- step (2): `(next_epoch_length, bound)` -/
def nextLength (ort : URat) (T L uncles dur : Nat) (lor : URat) : Option (Nat × Bool) :=
  if uncles = 0 then do
    let l2 ← chk64 (L * TAU)
    some (min MAX_EPOCH_LENGTH l2, true)
  else do
    let q ← rawLengthRat ort T L dur lor
    let raw ← q.floor
    boundingEpochLength (raw % U64) L

/-- `(o_ideal + 1) * next_epoch_length` -/
def idealDenominator (ort : URat) (L' : Nat) : Option URat := do
  let c ← ort.addU 1
  c.mulU L'

/-- `orphan_rate_estimation_recip` -/
def estimationRecip (T L dur L' : Nat) (lor : URat) : Option URat := do
  let a ← lor.addU 1
  let a ← a.mulU T
  let a ← a.mulU L
  let b ← lor.mulU dur
  let b ← b.mulU L'
  let q ← a.div b
  q.satSubU 1

/-- step (3a): `diff_denominator` -/
def diffDenominator (ort : URat) (T L dur L' : Nat) (bound : Bool) (lor : URat) : Option URat :=
  if bound then
    if lor.n = 0 then URat.new L' 1
    else do
      let recip ← estimationRecip T L dur L' lor
      if recip.n = 0 then idealDenominator ort L'
      else do
        let est ← URat.one.div recip
        let c ← est.addU 1
        c.mulU L'
  else idealDenominator ort L'

/-- step (3b): `next_epoch_diff` -/
def nextDiff (adj T : Nat) (den : URat) : Option Nat := do
  let x ← chk256 (adj * T)
  let num ← URat.new x 1
  if (← URat.gt num den) then do
    let q ← num.div den
    q.floor
  else some 1

/-- `Consensus::next_epoch_ext`, `BlockEpoch::TailBlock` arm, `permanent_difficulty() == false`.
`hdrNumber`, `hdrCompact`: the tail header's number and compact target; `uncles`, `durMs`: the
epoch statistics delivered by the `EpochProvider`. -/
def nextEpochExt (P : Params) (e : EpochExt) (hdrNumber hdrCompact uncles durMs : Nat) : Option EpochExt := do
  let diff := compactToDifficulty hdrCompact
  let dur := durationSecs durMs
  let adj ← adjustedHashRate diff e.length uncles dur e.prevHR
  let lor ← URat.new uncles e.length
  let (L', bound) ← nextLength P.ort P.T e.length uncles dur lor
  let den ← diffDenominator P.ort P.T e.length dur L' bound lor
  let nd ← nextDiff adj P.T den
  let R ← primaryRewardOfNext P e
  let base ← divChk R L'
  let rem ← modChk R L'
  let number ← chk64 (e.number + 1)
  let start ← chk64 (hdrNumber + 1)
  let compact ← difficultyToCompact nd
  some { number, base, rem, prevHR := adj, start, length := L', compact }

/-! ## whole-chain view: the epoch of every block of a chain

What a node computes for the block after `tip`: `next_epoch_ext(tip header)` = the tip's epoch
(`NonTailBlock` → `NonHeadBlock`), or for a tail block the next epoch from the statistics
`get_block_epoch` collects (`total_uncles_count` and timestamps of the tip and of the previous epoch's
last block).  The contextual `EpochVerifier` then requires the new block's `epoch` field to be
`number_with_fraction(number)` of that epoch and its compact target to be the epoch's. -/

structure ChainSt where
  P : Params
  cur : EpochExt        -- epoch of the tip
  lastEndTs : Nat       -- timestamp of the last block of the previous epoch (block 0 in epoch 0)
  lastEndTU : Nat       -- its total_uncles_count
  tu : Nat              -- total_uncles_count of the tip
  tipNumber : Nat
  tipTs : Nat
  deriving Repr

/-- epoch of the block built on the tip; the flag says whether it is a new epoch (`HeadBlock`) -/
def epochOfNext (s : ChainSt) : Option (EpochExt × Bool) := do
  match ← getBlockEpoch s.tipNumber s.cur.start s.cur.length s.tu s.lastEndTU s.tipTs s.lastEndTs with
  | none => some (s.cur, false)
  | some (uncles, dur) =>
    let e ← nextEpochExt s.P s.cur s.tipNumber s.cur.compact uncles dur
    some (e, true)

/-- append a block with `ts`, `nUncles` uncles: `(epoch field, compact target, head?)` the verifier demands -/
def chainStep (s : ChainSt) (ts nUncles : Nat) : Option (ChainSt × Nat × Nat × Bool) := do
  let (e, head) ← epochOfNext s
  let number := s.tipNumber + 1
  let field ← numberWithFraction e number
  let s' : ChainSt :=
    { s with cur := e, tu := s.tu + nUncles, tipNumber := number, tipTs := ts,
             lastEndTs := if head then s.tipTs else s.lastEndTs,
             lastEndTU := if head then s.tu else s.lastEndTU }
  some (s', field, e.compact, head)

/-! ## contextual `EpochVerifier` (verification/contextual/src/contextual_block_verifier.rs)

`ContextualBlockVerifier::verify` computes the epoch of the new block as
`consensus.next_epoch_ext(&parent, store).epoch()` (= `epochOfNext` of the parent's state) and runs
`EpochVerifier::new(&epoch_ext, block).verify()` FIRST: the header's epoch field (the full `u64`,
compared without normalisation) must be `epoch_ext.number_with_fraction(number)`, then the header's
compact target must be the epoch's. -/

inductive CtxVerdict | ok | numberMismatch | targetMismatch
  deriving DecidableEq, Repr

/-- contextual `EpochVerifier::verify` (`none`: `number_with_fraction` panics, `number < start`) -/
def ctxEpochVerify (e : EpochExt) (hNumber hEpoch hCompact : Nat) : Option CtxVerdict := do
  let want ← numberWithFraction e hNumber
  if hEpoch ≠ want then some .numberMismatch
  else if e.compact ≠ hCompact then some .targetMismatch
  else some .ok

/-- what `ContextualBlockVerifier` answers (epoch stage) for a candidate child of the tip carrying
`hEpoch` / `hCompact` (its number is the tip's + 1: the non-contextual `NumberVerifier`) -/
def chainVerify (s : ChainSt) (hEpoch hCompact : Nat) : Option CtxVerdict := do
  let (e, _) ← epochOfNext s
  ctxEpochVerify e (s.tipNumber + 1) hEpoch hCompact

/-- primary reward of the block just appended (`EpochExt::block_reward(number)` of its own epoch) -/
def tipBlockReward (s : ChainSt) : Option Nat := blockReward s.cur s.tipNumber

/-- secondary issuance of the block just appended (`EpochExt::secondary_block_issuance(number,
consensus.secondary_epoch_reward())` of its own epoch) -/
def tipSecondaryIssuance (s : ChainSt) (secondaryEpochReward : Nat) : Option Nat :=
  secondaryBlockIssuance s.cur s.tipNumber secondaryEpochReward

/-- run the whole-chain view over `(timestamp, uncles)` pairs: the final state -/
def chainRun (s : ChainSt) : List (Nat × Nat) → Option ChainSt
  | [] => some s
  | (ts, u) :: rest => do
    let (s', _, _, _) ← chainStep s ts u
    chainRun s' rest

/-- `next_epoch_ext`, `TailBlock` arm with `permanent_difficulty()` (dummy PoW dev chains): constant
length `⌈T / MIN_BLOCK_INTERVAL⌉`, difficulty and hash-rate estimate copied. -/
def nextEpochExtPermanent (P : Params) (e : EpochExt) (hdrNumber : Nat) : Option EpochExt := do
  let L' := (P.T + MIN_BLOCK_INTERVAL - 1) / MIN_BLOCK_INTERVAL
  let R ← primaryRewardOfNext P e
  let base ← divChk R L'
  let rem ← modChk R L'
  let number ← chk64 (e.number + 1)
  let start ← chk64 (hdrNumber + 1)
  some { e with number, base, rem, start, length := L' }

/-- `build_genesis_epoch_ext(epoch_reward, compact_target, genesis_epoch_length,
epoch_duration_target, genesis_orphan_rate)` -/
def genesisEpochExt (R compact L T on od : Nat) : Option EpochExt := do
  let base ← divChk R L
  let rem ← modChk R L
  let oc ← divChk (← chk64 (L * on)) od
  let blocks ← chk64 (L + oc)
  let prod ← chk256 (compactToDifficulty compact * blocks)
  let hr ← divChk prod T
  some { number := 0, base, rem, prevHR := hr, start := 0, length := L, compact }

end CkbVerif.Epoch
