import CkbVerif.Model.Orphan

/-!
# Orphan block pool with its three maps (C17, stream `orphan`)

`Model/Orphan.lean` keeps the two indexes `blocks` and `parents` of
`chain/src/utils/orphan_block_pool.rs` as one relation. This file follows the code literally:
`InnerPool { blocks : HashMap<ParentHash, HashMap<Byte32, LonelyBlockHash>>, parents :
HashMap<Byte32, ParentHash>, leaders : HashSet<ParentHash> }` with every map an association list,
and `insert`, `remove_blocks_by_parent`, `clean_expired_blocks`, `need_clean`, `get_block`
statement by statement. `Lemmas/Orphan3.lean` proves that the three maps stay in step and that
this model and the one-relation model answer alike (`Sim`); the driver runs this model and prints
all three maps.
-/
namespace CkbVerif.Orphan

structure Pool3 where
  /-- `blocks`: parent hash ↦ the pooled children of that parent -/
  blocks : List (Nat × List Blk) := []
  /-- `parents`: hash of a pooled block ↦ its parent hash -/
  parents : List (Nat × Nat) := []
  leaders : List Nat := []
deriving Repr

/-- `blocks.get(q)` -/
def group (blocks : List (Nat × List Blk)) (q : Nat) : Option (List Blk) :=
  (blocks.find? (fun e => e.1 == q)).map (·.2)

/-- `parents.contains_key(h)` -/
def hasParent (parents : List (Nat × Nat)) (h : Nat) : Bool :=
  parents.any (fun e => e.1 == h)

/-- `blocks.entry(parent).or_default().insert(hash, block)` -/
def putBlock (blocks : List (Nat × List Blk)) (b : Blk) : List (Nat × List Blk) :=
  match group blocks b.parent with
  | some _ =>
    blocks.map (fun e => if e.1 == b.parent then (e.1, b :: e.2.filter (fun c => c.id != b.id)) else e)
  | none => (b.parent, [b]) :: blocks

/-- `InnerPool::insert` -/
def insert3 (s : Pool3) (b : Blk) : Pool3 :=
  let blocks' := putBlock s.blocks b
  let l1 := s.leaders.filter (fun h => h != b.id)
  let l2 := if hasParent s.parents b.parent then l1
            else if l1.contains b.parent then l1 else b.parent :: l1
  { blocks := blocks', parents := (b.id, b.parent) :: s.parents.filter (fun e => e.1 != b.id),
    leaders := l2 }

/-- the `while let Some(parent_hash) = queue.pop_front()` loop: `blocks.remove(&parent_hash)`,
`parents.remove(hash)` for every removed child, children queued and collected -/
def bfs3 : Nat → List (Nat × List Blk) → List (Nat × Nat) → List Nat → List Blk →
    (List (Nat × List Blk) × List (Nat × Nat)) × List Blk
  | 0, bl, pa, _, removed => ((bl, pa), removed)
  | _ + 1, bl, pa, [], removed => ((bl, pa), removed)
  | fuel + 1, bl, pa, q :: rest, removed =>
    match group bl q with
    | some g =>
      bfs3 fuel (bl.filter (fun e => e.1 != q))
        (pa.filter (fun e => !(g.any (fun c => c.id == e.1))))
        (rest ++ g.map (·.id)) (removed ++ g)
    | none => bfs3 fuel bl pa rest removed

/-- `InnerPool::remove_blocks_by_parent` -/
def removeByParent3 (s : Pool3) (p : Nat) : Pool3 × List Blk :=
  if s.leaders.contains p then
    let r := bfs3 (2 * s.parents.length + 2) s.blocks s.parents [p] []
    ({ blocks := r.1.1, parents := r.1.2, leaders := s.leaders.filter (fun h => h != p) }, r.2)
  else (s, [])

/-- `InnerPool::need_clean` -/
def needClean3 (blocks : List (Nat × List Blk)) (h tipEpoch : Nat) : Bool :=
  match group blocks h with
  | some (b :: _) => decide (b.epoch + CkbVerif.Gen.Sync.EXPIRED_EPOCH < tipEpoch)
  | _ => false

/-- `InnerPool::clean_expired_blocks` -/
def cleanExpired3 (s : Pool3) (tipEpoch : Nat) : Pool3 × List Blk :=
  s.leaders.foldl
    (fun (acc : Pool3 × List Blk) h =>
      if needClean3 acc.1.blocks h tipEpoch then
        let r := removeByParent3 acc.1 h
        (r.1, acc.2 ++ r.2)
      else acc)
    (s, [])

/-- `InnerPool::get_block`: `parents.get(hash)` then `blocks.get(parent).get(hash)` -/
def getBlock3 (s : Pool3) (h : Nat) : Option Blk :=
  match s.parents.find? (fun e => e.1 == h) with
  | some (_, p) => (group s.blocks p).bind (fun g => g.find? (fun c => c.id == h))
  | none => none

/-- `OrphanBlockPool::len` -/
def len3 (s : Pool3) : Nat := s.parents.length

end CkbVerif.Orphan
