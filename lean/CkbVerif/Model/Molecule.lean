/-!
# Molecule layout interpreter (C15 / C16)

A generic, executable model of the molecule 0.9 serialisation used by every `packed::*` type of
ckb (`util/gen-types/schemas/*.mol` → `util/gen-types/src/generated/*.rs`).

* `Schema`  — byte / array / struct / fixvec / dynvec / table / option / union
* `Val`     — abstract values
* `encode`  — what the generated *builders* write (`Builder::write`)
* `verify`  — what the generated *readers* check (`Reader::verify(slice, compatible)`), check by check
* `decode`  — verify + read every field through the offsets (what the accessors return)
* accessors — the start/end arithmetic of the generated field / item accessors

Core Lean only (the `ckbmodel` driver links this file).
-/
namespace CkbVerif.Molecule

abbrev Bytes := List UInt8

inductive Schema
  | byte
  | array (item : Schema) (n : Nat)
  | struct (fields : List Schema)
  | fixvec (item : Schema)
  | dynvec (item : Schema)
  | table (fields : List Schema)
  | option (inner : Schema)
  /-- `ids[i]` is the item id of `items[i]` (custom ids as in `union SyncMessage { … InIBD : 8 }`) -/
  | union (ids : List Nat) (items : List Schema)
deriving Repr, Inhabited

inductive Val
  | byte (b : UInt8)
  /-- array items, struct fields, vector items, table fields (declared fields only) -/
  | seq (items : List Val)
  | none
  | some (v : Val)
  | union (id : Nat) (v : Val)
deriving Repr, Inhabited

/-! ## numbers and slices -/

/-- `molecule::pack_number(n as u32)` — little endian, truncating. -/
def le32 (n : Nat) : Bytes :=
  [UInt8.ofNat n, UInt8.ofNat (n / 256), UInt8.ofNat (n / 65536), UInt8.ofNat (n / 16777216)]

/-- `molecule::unpack_number(slice)`; the Rust function panics when `slice.len() < 4`, every
caller below checks the length first (that is part of `verified_accessors_in_bounds`). -/
def num : Bytes → Nat
  | a :: b :: c :: d :: _ => a.toNat + 256 * b.toNat + 65536 * c.toNat + 16777216 * d.toNat
  | _ => 0

/-- `&slice[a..b]` -/
def slice (bs : Bytes) (a b : Nat) : Bytes := (bs.drop a).take (b - a)

/-- `k` consecutive u32 numbers (`chunks_exact(4).map(unpack_number)`). -/
def readNums : Nat → Bytes → List Nat
  | 0, _ => []
  | k + 1, bs => num bs :: readNums k (bs.drop 4)

/-- `!offsets.windows(2).any(|i| i[0] > i[1])` -/
def monotone : List Nat → Bool
  | a :: b :: rest => decide (a ≤ b) && monotone (b :: rest)
  | _ => true

/-- `offsets.windows(2)` → `&slice[start..end]` -/
def slices (bs : Bytes) : List Nat → List Bytes
  | a :: b :: rest => slice bs a b :: slices bs (b :: rest)
  | _ => []

/-- `k` consecutive chunks of `sz` bytes -/
def chunk (sz : Nat) : Nat → Bytes → List Bytes
  | 0, _ => []
  | k + 1, bs => bs.take sz :: chunk sz k (bs.drop sz)

def mapOpt {α β : Type} (f : α → Option β) : List α → Option (List β)
  | [] => some []
  | x :: xs =>
    match f x with
    | Option.none => Option.none
    | Option.some y =>
      match mapOpt f xs with
      | Option.none => Option.none
      | Option.some ys => Option.some (y :: ys)

/-! ## static sizes -/

mutual
/-- `TOTAL_SIZE` of a fixed-size type (byte / array / struct); 0 for dynamic types. -/
def size : Schema → Nat
  | .byte => 1
  | .array it n => size it * n
  | .struct fs => sizeL fs
  | _ => 0
def sizeL : List Schema → Nat
  | [] => 0
  | f :: fs => size f + sizeL fs
end

mutual
def fixed : Schema → Bool
  | .byte => true
  | .array it _ => fixed it
  | .struct fs => fixedL fs
  | _ => false
def fixedL : List Schema → Bool
  | [] => true
  | f :: fs => fixed f && fixedL fs
end

mutual
/-- every encoding of the type has at least one byte (needed under `option`). -/
def nonEmpty : Schema → Bool
  | .byte => true
  | .array it n => decide (0 < n) && nonEmpty it
  | .struct fs => nonEmptyL fs
  | .fixvec _ => true
  | .dynvec _ => true
  | .table _ => true
  | .option _ => false
  | .union _ _ => true
def nonEmptyL : List Schema → Bool
  | [] => false
  | f :: fs => nonEmpty f || nonEmptyL fs
end

mutual
/-- Schema well-formedness (what the molecule compiler enforces). -/
def wf : Schema → Bool
  | .byte => true
  | .array it _ => fixed it && wf it
  | .struct fs => fixedL fs && wfL fs
  | .fixvec it => fixed it && wf it
  | .dynvec it => wf it
  | .table fs => wfL fs
  | .option it => nonEmpty it && wf it
  | .union ids its => decide (ids.length = its.length) && ids.all (fun i => decide (i < 4294967296)) && wfL its
def wfL : List Schema → Bool
  | [] => true
  | f :: fs => wf f && wfL fs
end

/-! ## builders -/

/-- offsets written by the dynvec / table builders -/
def offsetsFrom (start : Nat) : List Bytes → List Nat
  | [] => []
  | x :: xs => start :: offsetsFrom (start + x.length) xs

/-- `Builder::write` of a dynvec or a table: total size, offsets, items (just `4` when empty). -/
def encDyn (items : List Bytes) : Bytes :=
  match items with
  | [] => le32 4
  | _ =>
    let hdr := 4 * (items.length + 1)
    le32 (hdr + items.flatten.length) ++ ((offsetsFrom hdr items).flatMap le32 ++ items.flatten)

/-- `Builder::write` of a fixvec: item count, items. -/
def encFixvec (items : List Bytes) : Bytes := le32 items.length ++ items.flatten

mutual
def encode : Schema → Val → Bytes
  | .byte, .byte b => [b]
  | .array it _, .seq vs => (vs.map (encode it)).flatten
  | .struct fs, .seq vs => (encodeL fs vs).flatten
  | .fixvec it, .seq vs => encFixvec (vs.map (encode it))
  | .dynvec it, .seq vs => encDyn (vs.map (encode it))
  | .table fs, .seq vs => encDyn (encodeL fs vs)
  | .option _, .none => []
  | .option it, .some v => encode it v
  | .union ids its, .union id v => le32 id ++ encodeU ids its id v
  | _, _ => []
def encodeL : List Schema → List Val → List Bytes
  | f :: fs, v :: vs => encode f v :: encodeL fs vs
  | _, _ => []
def encodeU : List Nat → List Schema → Nat → Val → Bytes
  | i :: ids, s :: ss, id, v => if i = id then encode s v else encodeU ids ss id v
  | _, _, _, _ => []
end

/-! ## value well-formedness (what a builder can be given) -/

mutual
def wfv : Schema → Val → Bool
  | .byte, .byte _ => true
  | .array it n, .seq vs => decide (vs.length = n) && vs.all (wfv it)
  | .struct fs, .seq vs => wfvL fs vs
  | .fixvec it, .seq vs => decide (vs.length < 4294967296) && vs.all (wfv it)
  | .dynvec it, .seq vs =>
      vs.all (wfv it) && decide (4 * (vs.length + 1) + ((vs.map (encode it)).flatten).length < 4294967296)
  | .table fs, .seq vs =>
      wfvL fs vs && decide (4 * (fs.length + 1) + ((encodeL fs vs).flatten).length < 4294967296)
  | .option _, .none => true
  | .option it, .some v => wfv it v
  | .union ids its, .union id v => wfvU ids its id v
  | _, _ => false
def wfvL : List Schema → List Val → Bool
  | [], [] => true
  | f :: fs, v :: vs => wfv f v && wfvL fs vs
  | _, _ => false
def wfvU : List Nat → List Schema → Nat → Val → Bool
  | i :: ids, s :: ss, id, v => if i = id then wfv s v else wfvU ids ss id v
  | _, _, _, _ => false
end

/-! ## readers: `verify` -/

/-- The checks shared by the dynvec and table readers once `slice_len ≥ 8`:
total size, first offset (multiple of 4, ≥ 8, inside the slice), offsets monotone up to the total.
Returns `offsets ++ [total_size]`. -/
def dynHeader (bs : Bytes) : Option (List Nat) :=
  let len := bs.length
  if len < 4 then Option.none else
  let total := num bs
  if len ≠ total then Option.none else
  if len < 8 then Option.none else
  let first := num (bs.drop 4)
  if first % 4 ≠ 0 ∨ first < 8 then Option.none else
  if len < first then Option.none else
  let offs := readNums (first / 4 - 1) (bs.drop 4) ++ [total]
  if monotone offs then Option.some offs else Option.none

/-- `slice_len == NUMBER_SIZE` and the total-size header says 4 (the empty dynvec). -/
def isEmptyDyn (bs : Bytes) : Bool := bs.length == 4 && num bs == 4

/-- zero-field table reader (`table InIBD {}`): total size only; extra bytes only if compatible. -/
def emptyTableOk (c : Bool) (bs : Bytes) : Bool :=
  decide (4 ≤ bs.length) && num bs == bs.length && (bs.length == 4 || c)

/-- `field_count < FIELD_COUNT` or (`!compatible` and `field_count > FIELD_COUNT`) → reject -/
def fieldCountOk (c : Bool) (declared found : Nat) : Bool :=
  decide (declared ≤ found) && (c || decide (found ≤ declared))

mutual
def verify (c : Bool) : Schema → Bytes → Bool
  | .byte, bs => bs.length == 1
  | .array it n, bs => bs.length == size it * n
  | .struct fs, bs => bs.length == sizeL fs
  | .fixvec it, bs => decide (4 ≤ bs.length) && bs.length == 4 + size it * num bs
  | .dynvec it, bs =>
      if isEmptyDyn bs then true else
      match dynHeader bs with
      | Option.none => false
      | Option.some offs => (slices bs offs).all (verify c it)
  | .table fs, bs =>
      match fs with
      | [] => emptyTableOk c bs
      | _ =>
        match dynHeader bs with
        | Option.none => false
        | Option.some offs => fieldCountOk c fs.length (offs.length - 1) && verifyL c fs (slices bs offs)
  | .option it, bs => bs.isEmpty || verify c it bs
  | .union ids its, bs => decide (4 ≤ bs.length) && verifyU c ids its (num bs) (bs.drop 4)
/-- declared fields against the first slices; extra slices (compatible mode) are not looked at -/
def verifyL (c : Bool) : List Schema → List Bytes → Bool
  | [], _ => true
  | f :: fs, b :: bs => verify c f b && verifyL c fs bs
  | _ :: _, [] => false
def verifyU (c : Bool) : List Nat → List Schema → Nat → Bytes → Bool
  | i :: ids, s :: ss, id, bs => if i = id then verify c s bs else verifyU c ids ss id bs
  | _, _, _, _ => false
end

/-! ## readers: `decode` (verify + every accessor) -/

mutual
def decode (c : Bool) : Schema → Bytes → Option Val
  | .byte, bs =>
      match bs with
      | [b] => Option.some (.byte b)
      | _ => Option.none
  | .array it n, bs =>
      if bs.length = size it * n then (mapOpt (decode c it) (chunk (size it) n bs)).map .seq else Option.none
  | .struct fs, bs =>
      if bs.length = sizeL fs then (decodeS c fs bs).map .seq else Option.none
  | .fixvec it, bs =>
      if 4 ≤ bs.length ∧ bs.length = 4 + size it * num bs then
        (mapOpt (decode c it) (chunk (size it) (num bs) (bs.drop 4))).map .seq
      else Option.none
  | .dynvec it, bs =>
      if isEmptyDyn bs then Option.some (.seq []) else
      match dynHeader bs with
      | Option.none => Option.none
      | Option.some offs => (mapOpt (decode c it) (slices bs offs)).map .seq
  | .table fs, bs =>
      match fs with
      | [] => if emptyTableOk c bs then Option.some (.seq []) else Option.none
      | _ =>
        match dynHeader bs with
        | Option.none => Option.none
        | Option.some offs =>
          if fieldCountOk c fs.length (offs.length - 1) then (decodeL c fs (slices bs offs)).map .seq
          else Option.none
  | .option it, bs =>
      if bs.isEmpty then Option.some .none else (decode c it bs).map .some
  | .union ids its, bs =>
      if 4 ≤ bs.length then (decodeU c ids its (num bs) (bs.drop 4)).map (.union (num bs)) else Option.none
/-- struct fields at their static offsets -/
def decodeS (c : Bool) : List Schema → Bytes → Option (List Val)
  | [], _ => Option.some []
  | f :: fs, bs =>
    match decode c f (bs.take (size f)) with
    | Option.none => Option.none
    | Option.some v =>
      match decodeS c fs (bs.drop (size f)) with
      | Option.none => Option.none
      | Option.some vs => Option.some (v :: vs)
def decodeL (c : Bool) : List Schema → List Bytes → Option (List Val)
  | [], _ => Option.some []
  | f :: fs, b :: bs =>
    match decode c f b with
    | Option.none => Option.none
    | Option.some v =>
      match decodeL c fs bs with
      | Option.none => Option.none
      | Option.some vs => Option.some (v :: vs)
  | _ :: _, [] => Option.none
def decodeU (c : Bool) : List Nat → List Schema → Nat → Bytes → Option Val
  | i :: ids, s :: ss, id, bs => if i = id then decode c s bs else decodeU c ids ss id bs
  | _, _, _, _ => Option.none
end

/-! ## field extraction (hash pre-images are selected with these) -/

/-- field `i` of a table exactly as the reader slices it (offsets from the header) -/
def tableFieldBytes (bs : Bytes) (i : Nat) : Option Bytes :=
  match dynHeader bs with
  | Option.some offs => (slices bs offs)[i]?
  | Option.none => Option.none

/-- field `i` of a struct: static offsets -/
def structFieldBytes (fs : List Schema) (bs : Bytes) (i : Nat) : Bytes :=
  slice bs (sizeL (fs.take i)) (sizeL (fs.take i) + size (fs.getD i .byte))

/-! ## accessor arithmetic (C16): what the generated readers index with, *without* re-checking -/

/-- `TableReader::field_count()` / `DynVecReader::item_count()` -/
def fieldCount (bs : Bytes) : Nat :=
  if num bs = 4 then 0 else num (bs.drop 4) / 4 - 1

/-- Positions at which an accessor calls `unpack_number(&slice[p..])` (needs `p + 4 ≤ len`),
and the `(start, end)` it then slices with. -/
structure Access where
  reads : List Nat
  start : Nat
  stop : Nat
deriving Repr

/-- `TableReader::<field i>()` of a table with `n` declared fields. -/
def tableField (n i : Nat) (bs : Bytes) : Access :=
  let p := 4 * (i + 1)
  if i + 1 < n then ⟨[p, p + 4], num (bs.drop p), num (bs.drop (p + 4))⟩
  else if fieldCount bs ≠ n then ⟨[0, 4, p, p + 4], num (bs.drop p), num (bs.drop (p + 4))⟩
  else ⟨[0, 4, p], num (bs.drop p), bs.length⟩

/-- `DynVecReader::get_unchecked(i)` (called by `get(i)` only when `i < len()`). -/
def dynItem (i : Nat) (bs : Bytes) : Access :=
  let p := 4 * (1 + i)
  if i = fieldCount bs - 1 then ⟨[0, 4, p], num (bs.drop p), bs.length⟩
  else ⟨[0, 4, p, p + 4], num (bs.drop p), num (bs.drop (p + 4))⟩

/-- `FixVecReader::get_unchecked(i)` -/
def fixItem (sz i : Nat) (_bs : Bytes) : Access := ⟨[0], 4 + sz * i, 4 + sz * i + sz⟩

/-- struct field `i` / array item: static offsets -/
def structField (sizes : List Nat) (i : Nat) : Access :=
  let start := (sizes.take i).sum
  ⟨[], start, start + sizes.getD i 0⟩

/-- An access is safe on `bs`: every header read and the final slice stay inside `bs`. -/
def Access.safe (a : Access) (bs : Bytes) : Prop :=
  (∀ p ∈ a.reads, p + 4 ≤ bs.length) ∧ a.start ≤ a.stop ∧ a.stop ≤ bs.length

end CkbVerif.Molecule
