import CkbVerif.Model.Window

/-!
# Consumers of the proposal view (C20): the tx-pool's staging, and seeded variants used as witnesses

Follows the code as written:

* `tx-pool/src/process.rs` — `get_tx_status(snapshot, short_id)`: `contains_proposed` (the view's
  `set`) is tested FIRST, then `contains_gap`, else `Fresh`. It decides the stage of every submitted
  transaction (`_submit_entry`: Fresh → pending, Gap → gap, Proposed → proposed) and of every
  transaction re-admitted after a reorganisation (`readd_detached_tx` → `resolve_tx`).
* `tx-pool/src/process.rs` — `_update_tx_pool_for_reorg` (mine mode), per pooled entry:
  `remove_by_detached_proposal` (an entry that is not pending and whose id is in
  `detached_proposal_id` goes back to pending), then gap entries whose id is in the new `set` become
  proposed, pending entries become proposed (id in `set`) or gap (id in `gap`).
* `chain/src/verify.rs` — `update_proposal_table` inserts a row for EVERY attached block, also for
  the first `fork.verified_len()` ones (blocks that were on the main chain before and are re-attached
  by a switch-back). In the model (`Window.switch`) `branch` is the list of ALL attached blocks, in
  attach order, verified before or not; `switchSkip` is the variant that skips the verified prefix.
-/
namespace CkbVerif.Window

/-- `TxStatus` (tx-pool/src/process.rs) -/
inductive TxStatus where
  | fresh
  | gap
  | proposed
deriving Repr, DecidableEq

/-- `get_tx_status`: the committable part first, then the gap part, else fresh — as coded. -/
def txStatus (v : View) (x : Nat) : TxStatus :=
  if v.set.contains x then .proposed
  else if v.gap.contains x then .gap
  else .fresh

/-- variant with the two tests swapped (witness only: misfiles a re-proposed id) -/
def txStatusGapFirst (v : View) (x : Nat) : TxStatus :=
  if v.gap.contains x then .gap
  else if v.set.contains x then .proposed
  else .fresh

def TxStatus.label : TxStatus → String
  | .fresh => "fresh"
  | .gap => "gap"
  | .proposed => "proposed"

/-- pool stage of an entry (`Status` in tx-pool/src/component/pool_map.rs) -/
inductive Stage where
  | pending
  | gap
  | proposed
deriving Repr, DecidableEq

/-- `_submit_entry`: the stage a status maps to -/
def TxStatus.stage : TxStatus → Stage
  | .fresh => .pending
  | .gap => .gap
  | .proposed => .proposed

/-- `_update_tx_pool_for_reorg` in mine mode, for one pooled entry with id `x` that is not committed
by the attached blocks: `removed` = `detached_proposal_id`, `v` = the new snapshot's view. -/
def stageAfter (removed : Ids) (v : View) (st : Stage) (x : Nat) : Stage :=
  -- remove_by_detached_proposal: `if status == Pending { continue }`, else re-put to pending
  let st1 : Stage := if removed.contains x then .pending else st
  match st1 with
  | .proposed => .proposed
  | .gap => if v.set.contains x then .proposed else .gap
  | .pending =>
    if v.set.contains x then .proposed
    else if v.gap.contains x then .gap
    else .pending

/-- variant of `updateTable` that skips the first `k` attached blocks (witness only: `k` =
`fork.verified_len()`, the re-attached blocks that were verified when they were attached before) -/
def updateTableSkip (w : Win) (t : Table) (oldTip common : Nat) (branch : List Ids)
    (newChain : List Ids) (k : Nat) : Table :=
  let t1 := t.removeAll (List.range' (common + 1) (oldTip - common))
  let t2 := t1.insertAll ((numbered (common + 1) branch).drop k)
  if oldTip > common then
    let detachedFront := common + 1
    if detachedFront < 2 then t2 else
    let newTip := common + branch.length
    let pstart := max 1 (newTip + 1 - w.far)
    t2.insertAll (chainEntries newChain pstart common)
  else t2

def switchSkip (w : Win) (s : Node) (common : Nat) (branch : List Ids) (k : Nat) : Node × Ids :=
  let oldTip := s.chain.length - 1
  let newChain := s.chain.take (common + 1) ++ branch
  let t := updateTableSkip w s.table oldTip common branch newChain k
  let r := finalize w t s.view (common + branch.length)
  ({ chain := newChain, table := r.1, view := r.2.2 }, r.2.1)

/-- variant of the verifier's window whose far end is computed from the parent number (witness only) -/
def verifierIdsFromParent (w : Win) (chain : List Ids) (n : Nat) : Ids :=
  verifierWalk chain ((n - 1) - w.far) (n - w.close)

end CkbVerif.Window
