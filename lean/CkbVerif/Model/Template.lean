import CkbVerif.Gen.Template

/-!
# `TemplateSize` bookkeeping of the block assembler (tx-pool/src/block_assembler/mod.rs)

`basic_block_size(cellbase, uncles, proposals, extension)` is
`serialized_size_without_uncle_proposals` of a block holding only the cellbase: it is affine,
`base + U·|uncles| + P·|proposals|` with `base` = header + cellbase + extension + table overhead,
`U = UncleBlockView::serialized_size_in_block()` and `P = ProposalShortId::serialized_size()`.
The state is what `CurrentTemplate` carries about sizes; every update path is modelled with its
own guard and its own arithmetic (`calc_total_by_*` use saturating add/sub).

`sel limit` stands for `package_txs(…, limit)` followed by `calc_dao`'s filter: the total size of the
transactions that end up in the template when the selector is given `limit` bytes.
Core Lean only.
-/
namespace CkbVerif.Template

def P : Nat := Gen.Template.PROPOSAL_SHORT_ID_SIZE

structure TSt where
  /-- consensus max_block_bytes -/
  max : Nat
  /-- uncle size in block -/
  U : Nat
  base : Nat
  nUncles : Nat
  nProposals : Nat
  /-- sum of the sizes of the template's transactions -/
  txsActual : Nat
  -- TemplateSize
  sTxs : Nat
  sProposals : Nat
  sUncles : Nat
  sTotal : Nat
deriving Repr, DecidableEq, Inhabited

def basic (s : TSt) (nU nP : Nat) : Nat := s.base + s.U * nU + P * nP

/-- the real size of the block the template describes -/
def TSt.actual (s : TSt) : Nat := basic s s.nUncles s.nProposals + s.txsActual

inductive Op where
  /-- update_blank: new tip, new cellbase/extension (`base`), `n` uncles prepared -/
  | blank (base nUncles : Nat)
  /-- update_full: `p` proposals packaged, transactions selected under the remaining room -/
  | full (p : Nat) (sel : Nat → Nat)
  /-- update_uncles: `prepare_uncles` returned `n` uncles; `maxUncles` = consensus max_uncles_num -/
  | uncles (n maxUncles : Nat)
  /-- update_proposals -/
  | proposals (p : Nat)
  /-- update_transactions -/
  | txs (sel : Nat → Nat)

def calcTotal (total old new : Nat) : Nat :=
  if new > old then total + (new - old) else total - (old - new)

def step (s : TSt) : Op → TSt
  | .blank base n =>
    { s with base := base, nUncles := n, nProposals := 0, txsActual := 0,
             sTxs := 0, sProposals := 0, sUncles := s.U * n, sTotal := base + s.U * n + P * 0 }
  | .full p sel =>
    let b := basic s s.nUncles p
    if b > s.max then s else            -- checked_sub → Err(Overflow): template unchanged
    let t := sel (s.max - b)
    { s with nProposals := p, txsActual := t, sTxs := t, sTotal := b + t, sProposals := P * p }
  | .uncles n maxU =>
    if s.nUncles < maxU then
      if s.max - s.sTotal > s.U then
        let nt := calcTotal s.sTotal s.sUncles (s.U * n)
        if nt < s.max then { s with nUncles := n, sUncles := s.U * n, sTotal := nt } else s
      else s
    else s
  | .proposals p =>
    let nt := calcTotal s.sTotal s.sProposals (P * p)
    if nt < s.max then { s with nProposals := p, sProposals := P * p, sTotal := nt } else s
  | .txs sel =>
    let b := basic s s.nUncles s.nProposals
    if b > s.max then s else
    let t := sel (s.max - b)
    { s with txsActual := t, sTxs := t, sTotal := calcTotal s.sTotal s.sTxs t }

/-- the selector (plus calc_dao's filter) respects the limit it is given -/
def Op.selOk : Op → Prop
  | .full _ sel => ∀ l, sel l ≤ l
  | .txs sel => ∀ l, sel l ≤ l
  | _ => True

/-- a blank template fits (header + cellbase + extension + max uncles is far below max_block_bytes) -/
def Op.blankOk (max U : Nat) : Op → Prop
  | .blank base n => base + U * n ≤ max
  | _ => True

/-- the bookkeeping is exact and within the limit -/
structure Inv (s : TSt) : Prop where
  total : s.sTotal = s.actual
  txs : s.sTxs = s.txsActual
  props : s.sProposals = P * s.nProposals
  uncles : s.sUncles = s.U * s.nUncles
  le : s.actual ≤ s.max


theorem inv_iff (s : TSt) : Inv s ↔
    (s.sTotal = s.actual ∧ s.sTxs = s.txsActual ∧ s.sProposals = P * s.nProposals ∧
     s.sUncles = s.U * s.nUncles ∧ s.actual ≤ s.max) :=
  ⟨fun h => ⟨h.total, h.txs, h.props, h.uncles, h.le⟩, fun ⟨a, b, c, d, e⟩ => ⟨a, b, c, d, e⟩⟩

/-- the invariant is decidable: the driver evaluates it on the real assembler's bookkeeping -/
instance (s : TSt) : Decidable (Inv s) := decidable_of_iff _ (inv_iff s).symm

end CkbVerif.Template
