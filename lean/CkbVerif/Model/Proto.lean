import CkbVerif.Model.Compact
/-!
# The other peer-facing decoders (C16, stream `proto`)

* `gateFilter` / `gateLight` / `gateTime` — the decode at the top of `BlockFilter::received`
  (`from_compatible_slice`), `LightClientProtocol::received` (`from_slice`) and
  `NetTimeProtocol::received` (`TimeReader::from_slice`).
* `discDecode` — `DiscoveryMessage::decode` (`network/src/protocols/discovery/protocol.rs`): the
  outer message is verified in compatible mode; a `GetNodes` / `Node` table with extra fields is
  **re-verified** as `GetNodes2` / `Node2` (compatible mode) before its 4th / 2nd field is read as a
  `Uint64`.  `discDecodeUnchecked` is the variant that reads the extra field without that second
  verification (NOT the code): `Props/C16.lean` shows its read is not an 8-byte read in general.
* `pingDecode` — `PingMessage::decode` (`network/src/protocols/ping.rs`).
* `identifyVerify` — `Identify::verify` (`network/src/protocols/identify/mod.rs`), up to the UTF-8
  test of the client version (answered `undecided` when that field has a non-ASCII byte).
Core Lean only.
-/
namespace CkbVerif.Proto
open CkbVerif.Molecule CkbVerif.Gen.Schemas CkbVerif.Gen.Codec CkbVerif.Compact

/-- little-endian value of a byte string (`u32::from_le_bytes`, `Uint64 -> u64`) -/
def leNat (bs : Bytes) : Nat := bs.foldr (fun b acc => acc * 256 + b.toNat) 0

inductive PGate
  | pass (id : Nat)
  | malformed
deriving Repr, DecidableEq

def gateFilter (bs : Bytes) : PGate :=
  if verify true S.BlockFilterMessage bs then .pass (num bs) else .malformed

def gateLight (bs : Bytes) : PGate :=
  if verify false S.LightClientMessage bs then .pass (num bs) else .malformed

def gateTime (bs : Bytes) : Bool := verify false S.Time bs

/-- `Flags::all().bits()` -/
def flagsAll : Nat :=
  FLAG_COMPATIBILITY ||| FLAG_DISCOVERY ||| FLAG_SYNC ||| FLAG_RELAY ||| FLAG_LIGHT_CLIENT ||| FLAG_BLOCK_FILTER

/-- `Flags::from_bits_truncate(x).bits()` -/
def truncFlags (x : Nat) : Nat := x &&& flagsAll

/-- field `i` of a (verified) table, empty when absent -/
def fld (bs : Bytes) (i : Nat) : Bytes := (tableFieldBytes bs i).getD []

/-- the items of a (verified) dynvec -/
def dynItems (bs : Bytes) : List Bytes :=
  if isEmptyDyn bs then [] else
  match dynHeader bs with
  | some offs => slices bs offs
  | none => []

inductive Disc
  | none
  | getNodes (version count : Nat) (port : Option Nat) (flags : Nat)
  /-- announce, and per item (number of addresses, flags) -/
  | nodes (announce : Bool) (items : List (Nat × Nat))
deriving Repr, DecidableEq

/-- one `Node` of a `Nodes` message: `none` = decode fails.  `recheck = true` is the code
(`Node2::from_compatible_slice` before `flags()`), `false` reads the field unverified. -/
def nodeItem (recheck : Bool) (node : Bytes) : Option (Nat × Nat) :=
  let nAddr := (dynItems (fld node 0)).length
  if fieldCount node ≠ declaredFields S.Node then
    if recheck && !verify true S.Node2 node then Option.none
    else some (nAddr, truncFlags (leNat (fld node 1)))
  else some (nAddr, FLAG_COMPATIBILITY)

def discDecodeWith (recheck : Bool) (bs : Bytes) : Disc :=
  if !verify true S.DiscoveryMessage bs then .none else
  let payload := fld bs 0
  let id := num payload
  let inner := payload.drop 4
  if id = U.DiscoveryPayload.GetNodes then
    let version := leNat (fld inner 0)
    let count := leNat (fld inner 1)
    let portB := fld inner 2
    let port := if portB.isEmpty then Option.none else some (leNat portB)
    if fieldCount inner ≠ declaredFields S.GetNodes then
      if recheck && !verify true S.GetNodes2 inner then .none
      else .getNodes version count port (truncFlags (leNat (fld inner 3)))
    else .getNodes version count port FLAG_COMPATIBILITY
  else
    let a := leNat (fld inner 0)
    if a > 1 then .none else
    match mapOpt (nodeItem recheck) (dynItems (fld inner 1)) with
    | some items => .nodes (a == 1) items
    | Option.none => .none

/-- `DiscoveryMessage::decode` (Multiaddr parsing of the addresses apart) -/
def discDecode (bs : Bytes) : Disc := discDecodeWith true bs

/-- NOT the code: the extra field read through `new_unchecked` -/
def discDecodeUnchecked (bs : Bytes) : Disc := discDecodeWith false bs

/-- the bytes `GetNodes2Reader::required_flags()` hands to `Uint64 -> u64` (which copies them into
a `[u8; 8]`: any other length panics) when `decode` reaches that read; `none` when it does not -/
def discFlagsRead (recheck : Bool) (bs : Bytes) : Option Bytes :=
  if !verify true S.DiscoveryMessage bs then Option.none else
  let payload := fld bs 0
  let inner := payload.drop 4
  if num payload = U.DiscoveryPayload.GetNodes ∧ fieldCount inner ≠ declaredFields S.GetNodes then
    if recheck && !verify true S.GetNodes2 inner then Option.none else some (fld inner 3)
  else Option.none

inductive Ping
  | none
  | ping (nonce : Nat)
  | pong (nonce : Nat)
deriving Repr, DecidableEq

/-- `PingMessage::decode` (union ids: Ping = 0, Pong = 1) -/
def pingDecode (bs : Bytes) : Ping :=
  if !verify true S.PingMessage bs then .none else
  let payload := fld bs 0
  let nonce := leNat (fld (payload.drop 4) 0)
  if num payload = 0 then .ping nonce else .pong nonce

inductive Idv
  | none
  | some (flags : Nat)
  /-- structurally fine, right name, non-zero flag, but the client version has a non-ASCII byte:
  the UTF-8 test decides (not modelled) -/
  | undecided
deriving Repr, DecidableEq

/-- `Identify::verify` for a node whose network identifier is `name` -/
def identifyVerify (name : Bytes) (bs : Bytes) : Idv :=
  if !verify false S.Identify bs then .none else
  let flag := leNat (fld bs 0)
  let nm := (fld bs 1).drop 4
  let ver := (fld bs 2).drop 4
  if nm ≠ name then .none
  else if flag = 0 then .none
  else if ver.any (fun b => b.toNat ≥ 128) then .undecided
  else .some (truncFlags flag)

/-! ## light-client request arithmetic

`u64` / `usize` arithmetic as the release profile compiles it (`overflow-checks = true`): an
overflowing `+`, `*` or `-` panics — `none` below.  `GetLastStateProofProcess::execute`
(`util/light-client-protocol-server/src/components/get_last_state_proof.rs`) and
`LightClientProtocol::reply_proof` (`…/src/lib.rs`). -/

def U64_MAX : Nat := 18446744073709551615

def ckAdd (a b : Nat) : Option Nat := if a + b ≤ U64_MAX then some (a + b) else none
def ckMul (a b : Nat) : Option Nat := if a * b ≤ U64_MAX then some (a * b) else none
def ckSub (a b : Nat) : Option Nat := if b ≤ a then some (a - b) else none

/-- the "too many samples" test before /repo d5fb657:
`difficulties.len() + (last_n_blocks as usize) * 2 > GET_LAST_STATE_PROOF_LIMIT` -/
def tooManySamplesPreFix (nd lastN : Nat) : Option Bool :=
  (ckMul lastN 2).bind fun m => (ckAdd nd m).map fun s => decide (s > GET_LAST_STATE_PROOF_LIMIT)

/-- … and since: `last_n_blocks > LIMIT as u64 || <the same sum> > LIMIT` (short-circuit) -/
def tooManySamples (nd lastN : Nat) : Option Bool :=
  if lastN > GET_LAST_STATE_PROOF_LIMIT then some true else tooManySamplesPreFix nd lastN

/-- `last_block_number - start_block_number` before /repo 54aa098 -/
def spanPreFix (last start : Nat) : Option Nat := ckSub last start

/-- since: `start_block_number > last_block_number` is answered InvalidRequest (`some none`) first -/
def span (last start : Nat) : Option (Option Nat) :=
  if start > last then some none else (ckSub last start).map some

/-- `chain_root_mmr(last_block.number() - 1)` in `reply_proof` before /repo edc6fe7 -/
def parentRootLeafPreFix (lastNumber : Nat) : Option Nat := ckSub lastNumber 1

/-- since: the genesis block is answered apart (`some none`: default parent chain root) -/
def parentRootLeaf (lastNumber : Nat) : Option (Option Nat) :=
  if lastNumber = 0 then some none else (ckSub lastNumber 1).map some

/-- what stream `proto` observes of a `GetLastStateProof` message that passed the gate: is it
answered "too many samples"?  (`difficulties` is a fixvec: its item count is its first number) -/
def lightTooMany (bs : Bytes) : Option Bool :=
  let inner := bs.drop 4
  tooManySamples (num (fld inner 5)) (leNat (fld inner 3))

end CkbVerif.Proto
