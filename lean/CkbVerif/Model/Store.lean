/-
Model of the chain store as the chain service writes it (core Lean only).

Sources followed: `store/src/cell.rs` (`attach_block_cell`, `detach_block_cell`),
`store/src/transaction.rs` (`attach_block`, `detach_block`, `insert_block`, `insert_block_ext`,
`insert_block_epoch_index`, `insert_epoch_ext`, `insert_tip_header`, `insert_current_epoch_ext`,
`insert_cells`, `delete_cells`), `store/src/db.rs` (`init`), `chain/src/verify.rs` (`verify_block`,
`find_fork`, `rollback`, `reconcile_main_chain`, `truncate`).

Hashes are identifiers (`Nat`); RocksDB columns are total functions `key → Option row`
(one optimistic transaction = one function application, atomic).  The three cell columns
(COLUMN_CELL / COLUMN_CELL_DATA / COLUMN_CELL_DATA_HASH) are written and deleted together by
`insert_cells` / `delete_cells` only, so they are one map `cells` here (the driver prints three
sections from it, the harness prints the three real columns).

`Main` is the main-chain view (what a replay must reproduce exactly); `Recs` are the per-block
records that are only ever inserted (bodies, ext, block→epoch index, epoch records) — the node keeps
them for side-chain blocks too.  The epoch *number* → index row is part of `Main`: since the repair of finding F9
(`fix: the epoch-number index must follow the main chain`) it is written by `attach_block` when the
first block of an epoch is attached and deleted by `detach_block`, and `verify_block` stores only the
epoch record.  The behaviour before the repair (`insert_epoch_ext` wrote the number row for every
block that opens an epoch, main chain or not, and nothing else touched it) is kept as
`PreFix.process` / `PreFix.truncate` for the regression witness in `Props/C02.lean`.  Likewise the
META current-epoch write condition before the repair of finding F12 is kept as `PreF12.process`.
-/
import CkbVerif.Gen.Store
namespace CkbVerif.Store

structure OutPoint where
  tx : Nat
  idx : Nat
deriving DecidableEq, Repr, Inhabited

/-- header field `epoch` (`EpochNumberWithFraction`) -/
structure Ep where
  number : Nat
  index : Nat
  length : Nat
deriving DecidableEq, Repr, Inhabited

/-- abstract payload of an output: the `CellOutput` itself is identified by its out-point, the data
by (length, tag) -/
structure Output where
  dlen : Nat
  dtag : Nat
deriving DecidableEq, Repr, Inhabited

structure Tx where
  id : Nat
  inputs : List OutPoint
  outputs : List Output
  fee : Nat := 0
deriving DecidableEq, Repr, Inhabited

/-- `EpochExt` as far as the store is concerned; `key` = `last_block_hash_in_previous_epoch`,
the key of its COLUMN_EPOCH row -/
structure EpochRec where
  number : Nat
  start : Nat
  length : Nat
  key : Nat
deriving DecidableEq, Repr, Inhabited

structure Block where
  id : Nat
  parent : Nat
  number : Nat
  epoch : Ep
  /-- cellbase first -/
  txs : List Tx
  uncles : List Nat
  /-- `next_epoch_ext(parent).is_head()` -/
  isHead : Bool
  /-- `next_epoch_ext(parent).epoch()` -/
  epochRec : EpochRec
deriving DecidableEq, Repr, Inhabited

/-- COLUMN_CELL entry + COLUMN_CELL_DATA(+_HASH) payload -/
structure CellRow where
  blockId : Nat
  number : Nat
  epoch : Ep
  txIndex : Nat
  out : Output
deriving DecidableEq, Repr, Inhabited

structure TxInfo where
  blockId : Nat
  index : Nat
  number : Nat
  epoch : Ep
deriving DecidableEq, Repr, Inhabited

structure Ext where
  verified : Option Bool
  td : Nat
  uncles : Nat
  fees : List Nat
deriving DecidableEq, Repr, Inhabited

/-- the main-chain view -/
structure Main where
  cells : OutPoint → Option CellRow
  txInfo : Nat → Option TxInfo
  index : Nat → Option Nat
  rindex : Nat → Option Nat
  uncles : Nat → Option Unit
  /-- COLUMN_EPOCH, 8-byte keys: epoch number → key of the epoch record -/
  epochNum : Nat → Option Nat
  tip : Option Nat
  curEpoch : Option EpochRec

/-- per-block records, insert-only -/
structure Recs where
  bodies : Nat → Option Block
  ext : Nat → Option Ext
  blockEpoch : Nat → Option Nat
  epochExt : Nat → Option EpochRec

structure View where
  m : Main
  r : Recs

def upd {α β : Type} [DecidableEq α] (f : α → Option β) (k : α) (v : Option β) : α → Option β :=
  fun x => if x = k then v else f x

def Main.empty : Main :=
  { cells := fun _ => none, txInfo := fun _ => none, index := fun _ => none, rindex := fun _ => none,
    uncles := fun _ => none, epochNum := fun _ => none, tip := none, curEpoch := none }

def Recs.empty : Recs :=
  { bodies := fun _ => none, ext := fun _ => none, blockEpoch := fun _ => none,
    epochExt := fun _ => none }

def View.empty : View := ⟨Main.empty, Recs.empty⟩

/-! ### `insert_cells` / `delete_cells` -/

def insertCells (m : Main) : List (OutPoint × CellRow) → Main
  | [] => m
  | (o, row) :: cs => insertCells { m with cells := upd m.cells o (some row) } cs

def deleteCells (m : Main) : List OutPoint → Main
  | [] => m
  | o :: os => deleteCells { m with cells := upd m.cells o none } os

/-! ### `attach_block_cell` -/

def mkRow (blockId number : Nat) (epoch : Ep) (txIndex : Nat) (out : Output) : CellRow :=
  { blockId, number, epoch, txIndex, out }

/-- rows of the outputs of one transaction, from output index `i` on -/
def outCells (blockId number : Nat) (epoch : Ep) (txIndex txId : Nat) : Nat → List Output → List (OutPoint × CellRow)
  | _, [] => []
  | i, o :: os => (⟨txId, i⟩, mkRow blockId number epoch txIndex o) :: outCells blockId number epoch txIndex txId (i + 1) os

/-- rows of all outputs of the transactions `ts`, the first of which has index `i` in the block -/
def blockCells (b : Block) : Nat → List Tx → List (OutPoint × CellRow)
  | _, [] => []
  | i, t :: ts => outCells b.id b.number b.epoch i t.id 0 t.outputs ++ blockCells b (i + 1) ts

/-- inputs of every transaction but the cellbase -/
def deadInputs (b : Block) : List OutPoint :=
  (b.txs.drop 1).flatMap (·.inputs)

def attachCell (m : Main) (b : Block) : Main :=
  deleteCells (insertCells m (blockCells b 0 b.txs)) (deadInputs b)

/-! ### `attach_block` / `detach_block` -/

def putTxInfos (b : Block) (f : Nat → Option TxInfo) : Nat → List Tx → Nat → Option TxInfo
  | _, [] => f
  | i, t :: ts => putTxInfos b (upd f t.id (some ⟨b.id, i, b.number, b.epoch⟩)) (i + 1) ts

def putAll {α β : Type} [DecidableEq α] (f : α → Option β) (v : Option β) : List α → α → Option β
  | [] => f
  | k :: ks => putAll (upd f k v) v ks

/-- `get_block_epoch(hash)`: block → epoch index, then the epoch record -/
def epochOf (r : Recs) (id : Nat) : Option EpochRec :=
  match r.blockEpoch id with
  | some k => r.epochExt k
  | none => none

/-- the epoch-number row write of `attach_block`: `e` is what `get_block_epoch(block)` returned -/
def attachEpochNum (f : Nat → Option Nat) (e : Option EpochRec) (b : Block) : Nat → Option Nat :=
  match e with
  | some e => if e.start = b.number then upd f e.number (some e.key) else f
  | none => f

def detachEpochNum (f : Nat → Option Nat) (e : Option EpochRec) (b : Block) : Nat → Option Nat :=
  match e with
  | some e => if e.start = b.number then upd f e.number none else f
  | none => f

def attach (m : Main) (e : Option EpochRec) (b : Block) : Main :=
  { m with
    txInfo := putTxInfos b m.txInfo 0 b.txs
    index := upd m.index b.number (some b.id)
    uncles := putAll m.uncles (some ()) b.uncles
    rindex := upd m.rindex b.id (some b.number)
    epochNum := attachEpochNum m.epochNum e b }

def detach (m : Main) (e : Option EpochRec) (b : Block) : Main :=
  { m with
    epochNum := detachEpochNum m.epochNum e b
    txInfo := putAll m.txInfo none (b.txs.map (·.id))
    uncles := putAll m.uncles none b.uncles
    index := upd m.index b.number none
    rindex := upd m.rindex b.id none }

/-! ### `detach_block_cell` -/

/-- `get_transaction_with_info` (kv-store branch): tx-info row, then the body row it points to -/
def getTxWithInfo (m : Main) (r : Recs) (txId : Nat) : Option (Tx × TxInfo) :=
  match m.txInfo txId with
  | none => none
  | some info =>
    match r.bodies info.blockId with
    | none => none
    | some blk =>
      match blk.txs[info.index]? with
      | none => none
      | some tx => some (tx, info)

/-- the cells `detach_block_cell` re-inserts: for every spent out-point whose creating transaction
still has a tx-info row (the rows of the detached block itself are already gone) -/
def restoredCells (m : Main) (r : Recs) : List OutPoint → List (OutPoint × CellRow)
  | [] => []
  | o :: os =>
    match getTxWithInfo m r o.tx with
    | none => restoredCells m r os
    | some (tx, info) =>
      match tx.outputs[o.idx]? with
      | none => restoredCells m r os
      | some out => (o, mkRow info.blockId info.number info.epoch info.index out) :: restoredCells m r os

def outPointsOf (txId : Nat) : Nat → List Output → List OutPoint
  | _, [] => []
  | i, _ :: os => ⟨txId, i⟩ :: outPointsOf txId (i + 1) os

def blockOutPoints (b : Block) : List OutPoint :=
  b.txs.flatMap fun t => outPointsOf t.id 0 t.outputs

def detachCell (m : Main) (r : Recs) (b : Block) : Main :=
  deleteCells (insertCells m (restoredCells m r (deadInputs b))) (blockOutPoints b)

/-- one step of `rollback`: `detach_block` *then* `detach_block_cell` -/
def rollbackOne (v : View) (b : Block) : View :=
  ⟨detachCell (detach v.m (epochOf v.r b.id) b) v.r b, v.r⟩

/-- `rollback(fork)`: callers pass `detached.reverse` -/
def rollback (v : View) : List Block → View
  | [] => v
  | b :: bs => rollback (rollbackOne v b) bs

/-! ### records -/

def insertBlock (r : Recs) (b : Block) : Recs :=
  { r with bodies := upd r.bodies b.id (some b) }

/-- `insert_epoch_ext_only`: the epoch record (what `verify_block` writes for a block that opens an epoch) -/
def insertEpochExt (r : Recs) (e : EpochRec) : Recs :=
  { r with epochExt := upd r.epochExt e.key (some e) }

def insertBlockEpoch (r : Recs) (b : Block) : Recs :=
  { r with blockEpoch := upd r.blockEpoch b.id (some b.epochRec.key) }

def putExt (r : Recs) (id : Nat) (e : Ext) : Recs :=
  { r with ext := upd r.ext id (some e) }

/-- the ext `verify_block` prepares: difficulty is one unit per block (permanent difficulty) -/
def freshExt (r : Recs) (b : Block) : Ext :=
  match r.ext b.parent with
  | some pe => ⟨none, pe.td + 1, pe.uncles + b.uncles.length, []⟩
  | none => ⟨none, 0, 0, []⟩

def feesOf (b : Block) : List Nat := (b.txs.drop 1).map (·.fee)

/-- `insert_ok_ext` -/
def okExt (e : Ext) (b : Block) : Ext := { e with verified := some true, fees := feesOf b }

/-! ### replay: a store that only ever attaches `genesis ..= tip` in order
(`ChainDB::init` for the first block, then what `reconcile_main_chain` + `verify_block` write for a
block that extends the tip; this is also literally `ChainBuilder::attach` of the harness). -/

/-- the epoch the reference store names in its number row: it calls `insert_epoch_ext` (record +
number row) exactly for the blocks that open an epoch -/
def headEpoch (b : Block) : Option EpochRec := if b.isHead then some b.epochRec else none

def attachOneM (m : Main) (b : Block) : Main :=
  { attachCell (attach m (headEpoch b) b) b with tip := some b.id, curEpoch := some b.epochRec }

def attachOneR (r : Recs) (b : Block) : Recs :=
  let r1 := insertBlock r b
  let r2 := insertBlockEpoch r1 b
  let r3 := if b.isHead then insertEpochExt r2 b.epochRec else r2
  putExt r3 b.id (okExt (freshExt r b) b)

def attachOne (v : View) (b : Block) : View := ⟨attachOneM v.m b, attachOneR v.r b⟩

def attachAll (v : View) : List Block → View
  | [] => v
  | b :: bs => attachAll (attachOne v b) bs

/-- `ChainDB::init`: the genesis block is attached to the empty store; its ext carries no fees -/
def init (g : Block) : View :=
  let v := attachOne View.empty g
  ⟨v.m, putExt v.r g.id ⟨some true, 0, 0, []⟩⟩

/-- the reference: the view of the chain `genesis :: rest` -/
def replay : List Block → View
  | [] => View.empty
  | g :: rest => attachAll (init g) rest

/-! ### the chain service (`verify_block`) -/

def numberOf (r : Recs) (id : Nat) : Nat :=
  match r.bodies id with
  | some b => b.number
  | none => 0

def tdOf (r : Recs) (id : Nat) : Nat :=
  match r.ext id with
  | some e => e.td
  | none => 0

/-- `find_fork`, attached side: walk back from `id` until a block that is on the main chain
(`get_block_hash(number) == hash`); returns the blocks walked over, oldest first, and the common
ancestor -/
def walkBack (m : Main) (r : Recs) : Nat → Nat → List Block → List Block × Option Nat
  | 0, _, acc => (acc, none)
  | fuel + 1, id, acc =>
    match r.bodies id with
    | none => (acc, none)
    | some b =>
      if m.index b.number = some id then (acc, some b.number)
      else walkBack m r fuel b.parent (b :: acc)

/-- main-chain blocks with numbers `lo+1 ..= lo+n`, oldest first (`detached_blocks`) -/
def mainBlocks (m : Main) (r : Recs) (lo : Nat) : Nat → List Block
  | 0 => []
  | n + 1 =>
    mainBlocks m r lo n ++
      (match m.index (lo + n + 1) with
       | some id => (match r.bodies id with | some b => [b] | none => [])
       | none => [])

/-- attach one block of `fork.attached_blocks` inside `reconcile_main_chain`: blocks whose ext is
already verified are attached as they are, the others get `insert_ok_ext` (every block is valid here) -/
def reconcileOne (v : View) (b : Block) : View :=
  let m := attachCell (attach v.m (epochOf v.r b.id) b) b
  let r :=
    match v.r.ext b.id with
    | some e => if e.verified = none then putExt v.r b.id (okExt e b) else v.r
    | none => v.r
  ⟨m, r⟩

def reconcile (v : View) : List Block → View
  | [] => v
  | b :: bs => reconcile (reconcileOne v b) bs

/-- what `verify_block` commits for a valid block `b` whose parent is stored and verified
(the body was committed by `insert_block` before). `det`/`att` are `find_fork`'s result. -/
def commitBest (v : View) (b : Block) (det att : List Block) : View :=
  let v1 := rollback v det.reverse
  let v2 := reconcile v1 att
  let m := { v2.m with tip := some b.id }
  -- `if new_epoch || fork.has_detached() || fork.attached_blocks().len() > 1` (the third disjunct
  -- is the repair of finding F12, /repo commit 1f10d03; `PreF12.commitBest` is the code before it)
  let m := if b.isHead || !det.isEmpty || decide (att.length > 1) then { m with curEpoch := some b.epochRec } else m
  ⟨m, v2.r⟩

def process (v : View) (b : Block) : View :=
  let r0 := insertBlock v.r b
  let ext := freshExt r0 b
  let tipId := v.m.tip.getD 0
  let newBest := decide (ext.td > tdOf r0 tipId)
  let r1 := insertBlockEpoch r0 b
  let r2 := if b.isHead then insertEpochExt r1 b.epochRec else r1
  if newBest then
    -- find_fork
    let r3 := putExt r2 b.id ext   -- dirty ext of the new tip (written by insert_ok_ext below)
    let (attTail, common) := walkBack v.m r3 (b.number + 1) b.parent []
    let tipNumber := numberOf r3 tipId
    let lo := common.getD 0
    let det := mainBlocks v.m r3 lo (tipNumber - lo)
    commitBest ⟨v.m, r3⟩ b det (attTail ++ [b])
  else
    ⟨v.m, putExt r2 b.id ext⟩

/-- `truncate(target)` once `make_fork_for_truncate` has listed the blocks above `target`
(`det`, oldest first): roll them back newest first, set tip and current epoch (the epoch is read
through the block → epoch index of the target) -/
def truncateWith (v : View) (target : Nat) (det : List Block) : View :=
  let v1 := rollback v det.reverse
  let ep := match v.r.blockEpoch target with
    | some k => v.r.epochExt k
    | none => none
  ⟨{ v1.m with tip := some target, curEpoch := ep }, v1.r⟩

def truncate (v : View) (target : Nat) : View :=
  let tipId := v.m.tip.getD 0
  let tn := numberOf v.r tipId
  let lo := numberOf v.r target
  truncateWith v target (mainBlocks v.m v.r lo (tn - lo))

/-! ### the behaviour before the repair of finding F9 (regression witnesses only)
The number row was written by `insert_epoch_ext` inside `verify_block` for every block that opens
an epoch, before the best-chain test, and never touched by attach / detach / truncate. -/
namespace PreFix

def process (v : View) (b : Block) : View :=
  let v' := Store.process v b
  ⟨{ v'.m with epochNum := if b.isHead then upd v.m.epochNum b.epochRec.number (some b.epochRec.key) else v.m.epochNum }, v'.r⟩

def truncate (v : View) (target : Nat) : View :=
  let v' := Store.truncate v target
  ⟨{ v'.m with epochNum := v.m.epochNum }, v'.r⟩

end PreFix

/-! ### the behaviour before the repair of finding F12 (regression witness only)
`verify_block` rewrote META current-epoch only `if new_epoch || fork.has_detached()`. -/
namespace PreF12

def commitBest (v : View) (b : Block) (det att : List Block) : View :=
  let v1 := rollback v det.reverse
  let v2 := reconcile v1 att
  let m := { v2.m with tip := some b.id }
  let m := if b.isHead || !det.isEmpty then { m with curEpoch := some b.epochRec } else m
  ⟨m, v2.r⟩

def process (v : View) (b : Block) : View :=
  let r0 := insertBlock v.r b
  let ext := freshExt r0 b
  let tipId := v.m.tip.getD 0
  let newBest := decide (ext.td > tdOf r0 tipId)
  let r1 := insertBlockEpoch r0 b
  let r2 := if b.isHead then insertEpochExt r1 b.epochRec else r1
  if newBest then
    let r3 := putExt r2 b.id ext
    let (attTail, common) := walkBack v.m r3 (b.number + 1) b.parent []
    let tipNumber := numberOf r3 tipId
    let lo := common.getD 0
    let det := mainBlocks v.m r3 lo (tipNumber - lo)
    commitBest ⟨v.m, r3⟩ b det (attTail ++ [b])
  else
    ⟨v.m, putExt r2 b.id ext⟩

end PreF12

end CkbVerif.Store
