import CkbVerif.Model.Locate
import CkbVerif.Model.Inflight

/-!
# Block fetcher (C17, stream `locator`)

Follows `sync/src/synchronizer/block_fetcher.rs`: `BlockFetcher::fetch` — the early returns, its own
two `set_last_common_header` calls, the window arithmetic (`start`, `end`, `n_fetch`, `span`) and the
scan from `get_ancestor(best_known, start + span - 1)` down the parent links, inserting into the
in-flight table. The node's view is passed in (`Env`). Not modelled: the IBD `unknown_header_list`
prelude (empty list), `compare_with_pending_compact` (no pending compact blocks: `true`), metrics.
-/
namespace CkbVerif.Fetch
open CkbVerif.Skip CkbVerif.Inflight CkbVerif.Gen.Sync

structure Env where
  /-- `get_ancestor(&base, n)` (`get_ancestor_with_unverified` in IBD; the same when nothing is unverified) -/
  anc : Nat → Nat → Option Hdr
  /-- `get_header_index_view(hash, false)` -/
  hdr : Nat → Option Hdr
  /-- `get_block_status(hash)` contains BLOCK_STORED / BLOCK_VALID / BLOCK_RECEIVED -/
  stored : Nat → Bool
  valid : Nat → Bool
  received : Nat → Bool
  numOnMain : Nat → Option Nat
  mainHash : Nat → Option Nat
  tipNumber : Nat
  unverifiedTip : Nat
  totalDifficulty : Nat
  ibd : Bool
  now : Nat

/-- `InflightBlocks::peer_can_fetch_count` -/
def peerCanFetch (s : Inflight) (peer : Nat) : Nat :=
  match s.scheds.find? (fun e => e.1 == peer) with
  | some (_, sc) => sc.taskCount - sc.hashes.length
  | none => INIT_BLOCKS_IN_TRANSIT_PER_PEER

/-- in-flight table, fetched headers in push order, peers, `end` -/
abbrev St := Inflight × List Hdr × PeersSt × Nat

/-- the `for _ in 0..span` loop; `false` = the `?` on `get_header_index_view(parent)` left `fetch` -/
def scanSpan (e : Env) (peer : Nat) (bestNumber : Nat) : Nat → Hdr → St → Bool × St
  | 0, _, st => (true, st)
  | k + 1, header, (infl, fetched, ps, endN) =>
    if e.stored header.id then
      let ps := if e.valid header.id then ps.setLastCommon peer (header.number, header.id) else ps
      (true, (infl, fetched, ps, min bestNumber (header.number + BLOCK_DOWNLOAD_WINDOW)))
    else
      let r : Inflight × List Hdr :=
        if e.received header.id then (infl, fetched)
        else
          let i := Inflight.insert infl e.now peer ⟨header.number, header.id⟩
          if i.2 then (i.1, fetched ++ [header]) else (i.1, fetched)
      match e.hdr header.parent with
      | none => (false, (r.1, r.2, ps, endN))
      | some p => scanSpan e peer bestNumber k p (r.1, r.2, ps, endN)

/-- the `while fetch.len() < n_fetch && start <= end` loop; `fuel` bounds the iterations (`start`
strictly increases and `end ≤ best.number`) -/
def fetchLoop (e : Env) (peer : Nat) (best : NH) (nFetch : Nat) : Nat → Nat → St → Bool × St
  | 0, _, st => (true, st)
  | fuel + 1, start, (infl, fetched, ps, endN) =>
    if fetched.length < nFetch && decide (start ≤ endN) then
      let span := min (endN - start + 1) (nFetch - fetched.length)
      match e.anc best.2 (start + span - 1) with
      | none => (false, (infl, fetched, ps, endN))
      | some header =>
        match scanSpan e peer best.1 span header (infl, fetched, ps, endN) with
        | (false, st) => (false, st)
        | (true, st) => fetchLoop e peer best nFetch fuel (start + span) st
    else (true, (infl, fetched, ps, endN))

/-- `slice::chunks(n)` -/
def chunks (n : Nat) : Nat → List Nat → List (List Nat)
  | 0, _ => []
  | fuel + 1, l => if l.isEmpty then [] else l.take n :: chunks n fuel (l.drop n)

/-- `BlockFetcher::fetch(fetch_end)` for `peer`: the answer (hashes in chunks), the in-flight table and
the peers afterwards -/
def fetch (e : Env) (infl : Inflight) (ps : PeersSt) (peer fetchEnd : Nat) :
    Option (List (List Nat)) × Inflight × PeersSt :=
  if e.unverifiedTip ≥ e.tipNumber + BLOCK_DOWNLOAD_WINDOW * 9 then (none, infl, ps)
  else if peerCanFetch infl peer == 0 then (none, infl, ps)
  else
    match (ps.get peer).bind (·.best) with
    | none => (none, infl, ps)
    | some bk =>
      if !(decide (bk.td > e.totalDifficulty)) then
        let ps := if (e.numOnMain bk.hash).isSome then ps.setLastCommon peer (bk.number, bk.hash) else ps
        (none, infl, ps)
      else
        let best : NH := (bk.number, bk.hash)
        let ancNH := fun b n => (e.anc b n).map (fun h => ((h.number, h.id) : NH))
        match updateLastCommonHeader ancNH e.mainHash e.tipNumber ps peer best with
        | (ps, none) => (none, infl, ps)
        | (ps, some lc) =>
          if lc = best then (none, infl, ps)
          else if e.ibd && decide (best.1 ≤ e.unverifiedTip) then (none, infl, ps)
          else
            let start := if e.ibd then e.unverifiedTip + 1 else lc.1 + 1
            let endN := min fetchEnd (min best.1 (start + BLOCK_DOWNLOAD_WINDOW))
            let nFetch := min (endN - start + 1) (peerCanFetch infl peer)
            match fetchLoop e peer best nFetch (best.1 + 2) start (infl, [], ps, endN) with
            | (false, (infl, _, ps, _)) => (none, infl, ps)
            | (true, (infl, fetched, ps, _)) =>
              let sorted := fetched.mergeSort (fun a b => decide (a.number ≤ b.number))
              let shouldMark := match sorted.getLast? with
                | some h => decide (h.number - MAX_BLOCKS_IN_TRANSIT_PER_PEER * CHECK_POINT_WINDOW_FACTOR > e.unverifiedTip)
                | none => false
              let infl := if shouldMark then markSlow infl e.now e.unverifiedTip else infl
              (some (chunks INIT_BLOCKS_IN_TRANSIT_PER_PEER (sorted.length + 1) (sorted.map (·.id))), infl, ps)

end CkbVerif.Fetch
