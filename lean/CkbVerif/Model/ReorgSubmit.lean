import CkbVerif.Model.ReorgReadd
/-!
# `submit_entry` interleaved with the reorg notification (tx-pool/src/process.rs)

A submission is two steps: the pre-check + verification under the pool's READ lock against the snapshot the
pool has then (`pre_check`, `verify_rtx`; result: the resolved transaction, its stage and `tip_hash`), and
later `submit_entry` under the WRITE lock. The write-locked section of `update_tx_pool_for_reorg`
(`reorgR`) can run in between. Every schedule of the service is therefore a sequence of atomic steps on the
pool; the only state a submission carries from its first step to its second is `pre_resolve_tip` and the
stage. `submitEntry` is the second step for a transaction none of whose inputs is spent by a pooled entry
(`check_rbf` / `find_conflict_outpoint` find nothing; replacement is C11's subject and is modelled as the
refusal here):

* `pre_resolve_tip != tip_hash` ("snapshot changed by context switch"): `check_rtx` re-checks every input,
  cell dep (`OverlayCellChecker(PoolCell{rbf: false}, snapshot)`) and header dep against the pool and the
  CURRENT snapshot and recomputes the stage from the current proposal view; a failure refuses the entry;
* the tip is the one of the pre-check: nothing is re-checked, the stage of the pre-check is used;
* then `_submit_entry` = `PoolMap::add_entry` at that stage (`addEntry`: ancestor limit, cell-ref evictions,
  refusal after an eviction with the evictions kept).

`Args` carries the current view: `detachedHeaders` = the header deps that are not on the main chain,
`gap`/`proposed` = the proposal view, `maxAnc`, `evictPref`. `submitEntryNoRecheck` is the variant without the
re-check (a realistic slip: `==` for `!=`, or a dropped block) for the witness theorem. Core Lean only.
-/
namespace CkbVerif.Reorg

/-- `submit_entry` for a transaction without a pooled conflict -/
def submitEntry (a : Args) (live : List Nat) (preTip tip preStage : Nat) (q : Pool) (t : CTx) : Pool × Bool :=
  if t.spent.any (spentInPool q) then (q, false)
  else if preTip != tip then
    if resolves q a live t then addEntry a.maxAnc a.evictPref q (entryOf a t) else (q, false)
  else addEntry a.maxAnc a.evictPref q { entryOf a t with status := preStage }

/-- the same without the re-check against the new snapshot -/
def submitEntryNoRecheck (a : Args) (preStage : Nat) (q : Pool) (t : CTx) : Pool × Bool :=
  if t.spent.any (spentInPool q) then (q, false)
  else addEntry a.maxAnc a.evictPref q { entryOf a t with status := preStage }

/-- a batch of paused submissions released one after the other at the same tip: (transaction, tip of its pre-check, stage of its pre-check) -/
def submitAll (a : Args) (live : List Nat) (tip : Nat) (q : Pool) (l : List (CTx × Nat × Nat)) : Pool :=
  l.foldl (fun q x => (submitEntry a live x.2.1 tip x.2.2 q x.1).1) q

end CkbVerif.Reorg
