import CkbVerif.Model.Molecule
/-!
# Hash structure of a block (C15): CBMT, transactions root, proposals hash, extra hash, `reset_header`

Model of

* `merkle_cbt::CBMT::build_merkle_root` (merkle-cbt 0.3.2, `src/merkle_tree.rs`) as ckb uses it through
  `ckb_types::utilities::merkle_root` (`util/types/src/utilities/merkle_tree.rs`, `MergeByte32::merge`
  = blake2b(left ‖ right));
* `calc_tx_hash` / `calc_witness_hash` / `calc_proposals_hash` / `calc_uncles_hash` /
  `calc_extension_hash` (`util/gen-types/src/extension/calc_hash.rs`), `ExtraHashView::new` /
  `extra_hash()` (`util/types/src/core/views.rs`);
* `ResetBlock::reset_header_with_hashes` (`util/types/src/extension.rs`) and the identical
  computation in `BlockBuilder::build_internal(reset_header = true)`
  (`util/types/src/core/advanced_builders.rs`) as a function body → three header fields.

The hash function is **opaque**: digests live in an abstract type `D` with three operations that
say *which bytes are hashed* (`HashAlg`).  Collision-freeness is a set of explicit hypotheses
(`CollisionFree`), satisfied by the free term algebra `Dg` (which is also what the driver prints, so
the correspondence harness compares *which bytes the real code hashed*, term by term).

Core Lean only.
-/
namespace CkbVerif.Hash
open CkbVerif.Molecule

/-- The three ways ckb feeds blake2b-256 when it commits a block body, with digests abstract.

* `zero`       `Byte32::zero()` (what empty lists hash to *by convention*, no hashing involved)
* `hb bs`      blake2b(bs) for literal bytes `bs`
* `hd ds`      blake2b(d₁ ‖ … ‖ dₙ) for 32-byte digests (CBMT `merge l r = hd [l, r]`, uncles hash,
               extra hash)
* `hm lit ds`  blake2b of a fixed layout made of literal bytes `lit` and digest-typed fields `ds`
               (the 208-byte `Header`: `lit` = version, compact_target, timestamp, number, epoch,
               parent_hash, dao, nonce; `ds` = transactions_root, proposals_hash, extra_hash) -/
structure HashAlg (D : Type) where
  zero : D
  hb : Bytes → D
  hd : List D → D
  hm : Bytes → List D → D

/-- Collision-freeness and the (only) separations ckb's hashing has, as explicit hypotheses.

In the real code all four operations are the same function blake2b-256 applied to byte strings;
`hb x = hd ds` holds structurally iff `x = d₁ ‖ … ‖ dₙ`, which forces `x.length = 32 * n`: the
pre-image **length** is the only thing that separates a data hash (a CBMT leaf, an uncle header
hash, an extension hash) from a hash of digests (a CBMT inner node, an uncles hash, an extra hash).
There is no domain-separation tag. -/
structure CollisionFree {D : Type} (A : HashAlg D) : Prop where
  hb_inj : ∀ x y, A.hb x = A.hb y → x = y
  hd_inj : ∀ x y, A.hd x = A.hd y → x = y
  hm_inj : ∀ l ds l' ds', A.hm l ds = A.hm l' ds' → l = l' ∧ ds = ds'
  /-- the all-zero digest is not the hash of anything (it stands for "empty list") -/
  hb_ne_zero : ∀ x, A.hb x ≠ A.zero
  hd_ne_zero : ∀ ds, A.hd ds ≠ A.zero
  /-- separation by pre-image length only -/
  hb_ne_hd : ∀ x ds, x.length ≠ 32 * ds.length → A.hb x ≠ A.hd ds

/-! ## the complete binary merkle tree, as `CBMT::build_merkle_root` computes it -/

section cbmt
variable {α : Type} (merge : α → α → α)

/-- First loop, on the REVERSED leaf list (`leaves.rchunks_exact(2)` walks from the end):
`[leaf1, leaf2]` chunks are merged and pushed to the back of the queue; `iter.remainder()` is the
single first leaf when the count is odd. -/
def rchunks : List α → List α × Option α
  | r :: l :: rest => ((merge l r) :: (rchunks rest).1, (rchunks rest).2)
  | [x] => ([], some x)
  | [] => ([], none)

/-- the queue after the first loop and `queue.push_front(leaf)` for the remainder -/
def initQueue (leaves : List α) : List α :=
  match (rchunks merge leaves.reverse).2 with
  | some x => x :: (rchunks merge leaves.reverse).1
  | none => (rchunks merge leaves.reverse).1

/-- `while queue.len() > 1 { right = pop_front; left = pop_front; push_back(merge(left, right)) }`
then `pop_front()`; fuel = an upper bound of the number of iterations -/
def reduceQ : Nat → List α → Option α
  | _, [] => none
  | _, [x] => some x
  | 0, _ :: _ :: _ => none
  | f + 1, right :: left :: rest => reduceQ f (rest ++ [merge left right])

/-- `CBMT::<T, M>::build_merkle_root(leaves)`; `zero` is `T::default()` -/
def cbmtRoot (zero : α) (leaves : List α) : α :=
  if leaves.isEmpty then zero else (reduceQ merge leaves.length (initQueue merge leaves)).getD zero

end cbmt

/-! ## block body commitments -/

section body
variable {D : Type} (A : HashAlg D)

/-- `MergeByte32::merge` -/
def merge (l r : D) : D := A.hd [l, r]

/-- `ckb_types::utilities::merkle_root` -/
def merkleRoot (leaves : List D) : D := cbmtRoot (merge A) A.zero leaves

/-- `Transaction::raw().as_slice()`: field 0 of the table, as the reader slices it -/
def txRaw (tx : Bytes) : Bytes := (tableFieldBytes tx 0).getD []

/-- `calc_tx_hash`: blake2b(raw) -/
def txHash (tx : Bytes) : D := A.hb (txRaw tx)
/-- `calc_witness_hash`: blake2b(whole transaction) -/
def witnessHash (tx : Bytes) : D := A.hb tx

/-- what a block body consists of, as far as hashing goes -/
structure Body where
  /-- whole `Transaction` encodings, in block order -/
  txs : List Bytes
  /-- `ProposalShortId`s (10 bytes each), in block order -/
  proposals : List Bytes
  /-- uncle `Header` encodings (208 bytes each), in block order.  The uncles' own proposals are NOT
  hashed into the nephew's `extra_hash` (they are bound by each uncle header's `proposals_hash`). -/
  uncles : List Bytes
  /-- `extension().map(raw_data)`: `none` = field absent, `some []` = present but empty -/
  extension : Option Bytes
deriving Repr, DecidableEq

def rawTransactionsRoot (txs : List Bytes) : D := merkleRoot A (txs.map (txHash A))
def witnessesRoot (txs : List Bytes) : D := merkleRoot A (txs.map (witnessHash A))

/-- `merkle_root(&[raw_transactions_root, witnesses_root])` -/
def transactionsRoot (txs : List Bytes) : D :=
  merkleRoot A [rawTransactionsRoot A txs, witnessesRoot A txs]

/-- `ProposalShortIdVecReader::calc_proposals_hash`: zero when empty, else blake2b over the ids fed
one after the other -/
def proposalsHash (ps : List Bytes) : D :=
  if ps.isEmpty then A.zero else A.hb ps.flatten

/-- `UncleBlockVecReader::calc_uncles_hash`: zero when empty, else blake2b over the uncles' header hashes -/
def unclesHash (us : List Bytes) : D :=
  if us.isEmpty then A.zero else A.hd (us.map A.hb)

/-- `BlockReader::calc_extension_hash`: `extension().map(calc_raw_data_hash)` -/
def extensionHash (e : Option Bytes) : Option D := e.map A.hb

/-- `ExtraHashView::new(uncles_hash, extension_hash).extra_hash()` -/
def extraHash (uh : D) (eh : Option D) : D :=
  match eh with
  | none => uh
  | some e => A.hd [uh, e]

/-- the three header fields a reset writes -/
structure Fields (D : Type) where
  transactionsRoot : D
  proposalsHash : D
  extraHash : D

/-- `reset_header_with_hashes` / `BlockBuilder::build_internal(true)`: body → header fields -/
def resetFields (b : Body) : Fields D :=
  { transactionsRoot := transactionsRoot A b.txs
    proposalsHash := proposalsHash A b.proposals
    extraHash := extraHash A (unclesHash A b.uncles) (extensionHash A b.extension) }

/-- `calc_header_hash` of a header whose non-commitment fields are the literal bytes `lit` -/
def blockHash (lit : Bytes) (f : Fields D) : D :=
  A.hm lit [f.transactionsRoot, f.proposalsHash, f.extraHash]

/-- structural well-formedness of a body (what the molecule layouts guarantee):
a `Transaction` encoding is never 64 bytes long (it is at least 68), a `ProposalShortId` is 10
bytes, a `Header` is 208 bytes -/
def Body.WF (b : Body) : Prop :=
  (∀ t ∈ b.txs, t.length ≠ 64) ∧ (∀ p ∈ b.proposals, p.length = 10) ∧ (∀ u ∈ b.uncles, u.length = 208)

end body

/-! ## the free term algebra (non-vacuity of `CollisionFree`, and what the driver prints) -/

inductive Dg
  | zero
  | hb (bs : Bytes)
  | hd (ds : List Dg)
  | hm (lit : Bytes) (ds : List Dg)
  /-- a 32-byte value of unknown origin (a header field as found in given bytes) -/
  | raw (bs : Bytes)
deriving Repr, Inhabited

def termAlg : HashAlg Dg := { zero := .zero, hb := .hb, hd := .hd, hm := .hm }

/-! ## reading a body out of block bytes (driver side of the byte-level correspondence) -/

/-- items of a dynvec as the reader slices them -/
def dynItems (bs : Bytes) : Option (List Bytes) :=
  if isEmptyDyn bs then some [] else (dynHeader bs).map (slices bs)

/-- `Block::extension()`: the first extra field, if it is a valid `Bytes`; its raw data -/
def extensionOfExtra : List Bytes → Option Bytes
  | [] => none
  | e :: _ => if verify false (.fixvec .byte) e then some (e.drop 4) else none

/-- `(header bytes, body)` of a `Block` encoding read in compatible mode (`BlockV1` = `Block` plus
one extra field): fields header, uncles, transactions, proposals, and `Block::extension()` = the
first extra field if it is a valid `Bytes` -/
def bodyOfBlock (bs : Bytes) : Option (Bytes × Body) :=
  match dynHeader bs with
  | none => none
  | some offs =>
    match slices bs offs with
    | hdr :: uncles :: txs :: props :: rest =>
      match dynItems uncles, dynItems txs with
      | some us, some ts =>
        some (hdr,
          { txs := ts
            proposals := chunk 10 (num props) (props.drop 4)
            uncles := us.map (fun u => (tableFieldBytes u 0).getD [])
            extension := extensionOfExtra rest })
      | _, _ => none
    | _ => none

end CkbVerif.Hash
