import CkbVerif.Model.Indexer
import CkbVerif.Gen.RichIndexer

/-!
# Model of the SQL rich-indexer (`util/rich-indexer`, sqlite backend)

Core Lean only. The database is five relations (the tables that `get_cells`, `get_transactions`,
`get_cells_capacity`, `get_indexer_tip` read), each a list of rows in ascending primary-key order
(a SQLite rowid table); a new row gets `max(id) + 1` (`INTEGER PRIMARY KEY` without AUTOINCREMENT)
and is appended at the end. The model follows the Rust code as written:

* `appendBlock` = `AsyncRichIndexer::append` (block filter always matching, no uncles):
  `insert_block_table`, then per transaction `insert_transaction`: the rows of the outputs are
  prepared, then for a non-cellbase transaction every input runs `spend_cell` (UPDATE .. SET
  is_spent = 1 on the output found through the FIRST transaction row with that hash) and, when a
  row was updated, `query_output_id` for the input row — an input whose previous output is not in
  the index is SKIPPED (`continue`, since the repair 8589800; `insertTxPrefix` keeps the old
  `break`) — then the transaction row, the input rows, the script rows (`ON CONFLICT DO NOTHING`)
  and the output rows (script ids by `query_script_id`) are inserted.
* `rollback` = `rollback_block`: tip = the block row with the greatest id; its transactions; their
  outputs' (lock_script_id, type_script_id); `reset_spent_cells` (outputs referenced by the input
  rows of those transactions become unspent); delete the transaction / input / output rows; a
  script id of a removed output is deleted iff NO remaining output row references it as lock OR as
  type script (`script_exists_in_output`); delete the block row.
* queries: the SQL of `get_cells` / `get_cells_capacity` / `get_transactions` evaluated over the
  relations: the script sub-query (`code_hash =`, `hash_type =`, args by mode: prefix = the range
  `[args, get_binary_upper_boundary(args))`, exact, partial = `instr(args, x) > 0`), the joins, the
  filters of `build_cell_filter` / `build_filter`, `ORDER BY output.id | tx_id`, `LIMIT`, cursors.

Differences from the key-value indexer (`Model/Indexer.lean`), all read off the code:
1. ORDER: answers are ordered by `output.id` / `tx_id` (insertion = chain order), not by key bytes:
   in prefix mode cells of different scripts interleave in chain order.
2. PREFIX mode is a byte RANGE `args >= p AND args < upper(p)`; `upper` of the empty string is
   32 x 0xff and of an all-0xff string of length n is (n+1) x 0xff, so args that continue an
   all-0xff prefix with another 0xff are NOT matched (`upperBound`); no over-match into numbers.
3. the filter script of `get_transactions` is a PREFIX range on the sibling script (the key-value
   indexer does an exact point lookup); `get_transactions` supports every cell filter.
4. `get_cells_capacity` answers `None` when no row matches (SUM is NULL), not `Some(0)`.
5. ungrouped `get_transactions` cursor = (last tx_id, number of rows of that tx returned so far)
   used as `tx_id >= last OFFSET n` (since the repair 706cf75 the count continues across pages;
   `getTxsPreF24` is the old arithmetic, whose walk could cycle).
6. PARTIAL search mode exists (`instr`).
-/
namespace CkbVerif.Rich
open CkbVerif.Indexer CkbVerif.Gen.RichIndexer

structure RBlock where
  id : Nat
  number : Nat
  hash : Nat
deriving DecidableEq, Repr, Inhabited

structure RTx where
  id : Nat
  hash : Nat
  blockId : Nat
  txIndex : Nat
deriving DecidableEq, Repr, Inhabited

structure ROut where
  id : Nat
  txId : Nat
  index : Nat
  cap : Nat
  lockId : Option Nat
  typeId : Option Nat
  data : List Nat
  spent : Nat
deriving DecidableEq, Repr, Inhabited

/-- `input` table: primary key `output_id` -/
structure RIn where
  outputId : Nat
  consumedTx : Nat
  index : Nat
deriving DecidableEq, Repr, Inhabited

structure RScript where
  id : Nat
  script : Script
deriving DecidableEq, Repr, Inhabited

structure DB where
  blocks : List RBlock := []
  txs : List RTx := []
  outs : List ROut := []
  ins : List RIn := []
  scripts : List RScript := []
deriving DecidableEq, Repr, Inhabited

/-- `max(rowid) + 1`; rows are kept in ascending id order, so the maximum is the last one -/
def nextId (ids : List Nat) : Nat :=
  match ids.getLast? with
  | none => 1
  | some i => i + 1

/-! ## append -/

/-- `(SELECT ckb_transaction.id FROM ckb_transaction WHERE tx_hash = $1)` -/
def findTx (db : DB) (h : Nat) : Option RTx := db.txs.find? fun t => t.hash = h

def outAt (txId idx : Nat) (o : ROut) : Bool := o.txId = txId && o.index = idx

/-- `spend_cell`: returns the store and `updated_rows > 0` -/
def spendCell (db : DB) (op : OutPoint) : DB × Bool :=
  match findTx db op.tx with
  | none => (db, false)
  | some t =>
    if db.outs.any (outAt t.id op.idx) then
      ({ db with outs := db.outs.map fun o => if outAt t.id op.idx o then { o with spent := SPEND_SETS_IS_SPENT } else o }, true)
    else (db, false)

/-- `query_output_id` -/
def queryOutputId (db : DB) (op : OutPoint) : Option Nat :=
  match findTx db op.tx with
  | none => none
  | some t => (db.outs.find? (outAt t.id op.idx)).map (·.id)

/-- one input of a non-cellbase transaction; state = (store, input rows (output_id, input_index)) -/
def inputStep (acc : DB × List (Nat × Nat)) (op : OutPoint) (ii : Nat) : DB × List (Nat × Nat) :=
  let r := spendCell acc.1 op
  if r.2 then
    match queryOutputId r.1 op with
    | some oid => (r.1, acc.2 ++ [(oid, ii)])
    | none => (r.1, acc.2)
  else (r.1, acc.2)       -- `continue`

def inputsLoop (acc : DB × List (Nat × Nat)) : Nat → List OutPoint → DB × List (Nat × Nat)
  | _, [] => acc
  | ii, op :: r => inputsLoop (inputStep acc op ii) (ii + 1) r

/-- the loop as it was BEFORE the repair 8589800: `break` at the first input not in the index -/
def inputsLoopPrefix (acc : DB × List (Nat × Nat)) : Nat → List OutPoint → DB × List (Nat × Nat)
  | _, [] => acc
  | ii, op :: r =>
    let s := spendCell acc.1 op
    if s.2 then inputsLoopPrefix (inputStep acc op ii) (ii + 1) r else acc

def scriptId (db : DB) (s : Script) : Option Nat :=
  (db.scripts.find? fun r => r.script = s).map (·.id)

/-- `INSERT .. ON CONFLICT (code_hash, hash_type, args) DO NOTHING` -/
def insertScript (db : DB) (s : Script) : DB :=
  match scriptId db s with
  | some _ => db
  | none => { db with scripts := db.scripts ++ [⟨nextId (db.scripts.map (·.id)), s⟩] }

def outputScripts (o : Output) : List Script :=
  o.lock :: (match o.type with | some t => [t] | none => [])

def insertScripts (db : DB) (outs : List Output) : DB :=
  (outs.flatMap outputScripts).foldl insertScript db

def insertOutputs (db : DB) (txId : Nat) : Nat → List Output → DB
  | _, [] => db
  | oi, o :: r =>
    let row : ROut := ⟨nextId (db.outs.map (·.id)), txId, oi, o.cap, scriptId db o.lock,
      (match o.type with | some t => scriptId db t | none => none), o.data, LIVE_IS_SPENT⟩
    insertOutputs { db with outs := db.outs ++ [row] } txId (oi + 1) r

/-- the part of `insert_transaction` after the input loop -/
def insertTxRows (db : DB) (inRows : List (Nat × Nat)) (blockId txIndex : Nat) (tx : Tx) : DB :=
  let txId := nextId (db.txs.map (·.id))
  let d1 : DB := { db with txs := db.txs ++ [(⟨txId, tx.id, blockId, txIndex⟩ : RTx)] }
  let d2 : DB := { d1 with ins := d1.ins ++ inRows.map fun p => (⟨p.1, txId, p.2⟩ : RIn) }
  insertOutputs (insertScripts d2 tx.outputs) txId 0 tx.outputs

/-- `insert_transaction` (no cell filter) -/
def insertTx (db : DB) (blockId txIndex : Nat) (tx : Tx) : DB :=
  let r := if txIndex = 0 then (db, []) else inputsLoop (db, []) 0 tx.inputs
  insertTxRows r.1 r.2 blockId txIndex tx

def insertTxPrefix (db : DB) (blockId txIndex : Nat) (tx : Tx) : DB :=
  let r := if txIndex = 0 then (db, []) else inputsLoopPrefix (db, []) 0 tx.inputs
  insertTxRows r.1 r.2 blockId txIndex tx

def insertTxs (db : DB) (blockId : Nat) : Nat → List Tx → DB
  | _, [] => db
  | i, tx :: r => insertTxs (insertTx db blockId i tx) blockId (i + 1) r

def insertTxsPrefix (db : DB) (blockId : Nat) : Nat → List Tx → DB
  | _, [] => db
  | i, tx :: r => insertTxsPrefix (insertTxPrefix db blockId i tx) blockId (i + 1) r

/-- `AsyncRichIndexer::append` -/
def appendBlock (db : DB) (b : Block) : DB :=
  let bid := nextId (db.blocks.map (·.id))
  insertTxs { db with blocks := db.blocks ++ [⟨bid, b.number, b.hash⟩] } bid 0 b.txs

/-- `append` with the input loop of before the repair 8589800 (for the pre-fix witness only) -/
def appendBlockPrefix (db : DB) (b : Block) : DB :=
  let bid := nextId (db.blocks.map (·.id))
  insertTxsPrefix { db with blocks := db.blocks ++ [⟨bid, b.number, b.hash⟩] } bid 0 b.txs

/-! ## rollback -/

/-- `script_exists_in_output` over the remaining output rows -/
def scriptReferenced (outs : List ROut) (sid : Nat) : Bool :=
  outs.any fun o => o.lockId = some sid || o.typeId = some sid

/-- the script ids `rollback_block` removes: those of the removed outputs that no remaining output references -/
def scriptsToRemove (removed remaining : List ROut) : List Nat :=
  removed.flatMap fun o =>
    (match o.lockId with | some l => if scriptReferenced remaining l then [] else [l] | none => []) ++
    (match o.typeId with | some t => if scriptReferenced remaining t then [] else [t] | none => [])

/-- `rollback_block` -/
def rollback (db : DB) : DB :=
  match db.blocks.getLast? with
  | none => db
  | some tipB =>
    let txIds := (db.txs.filter fun t => t.blockId = tipB.id).map (·.id)
    let removed := db.outs.filter fun o => txIds.contains o.txId
    -- reset_spent_cells
    let reset := (db.ins.filter fun i => txIds.contains i.consumedTx).map (·.outputId)
    let outs1 := db.outs.map fun o => if reset.contains o.id then { o with spent := RESET_SETS_IS_SPENT } else o
    let remaining := outs1.filter fun o => !txIds.contains o.txId
    let gone := scriptsToRemove removed remaining
    { blocks := db.blocks.dropLast
      txs := db.txs.filter fun t => !txIds.contains t.id
      ins := db.ins.filter fun i => !txIds.contains i.consumedTx
      outs := remaining
      scripts := db.scripts.filter fun s => !gone.contains s.id }

/-- the seeded change m3 (`script_exists_in_output` testing lock_script_id twice): for the witness only -/
def scriptReferencedLockOnly (outs : List ROut) (sid : Nat) : Bool :=
  outs.any fun o => o.lockId = some sid

def rollbackLockOnly (db : DB) : DB :=
  match db.blocks.getLast? with
  | none => db
  | some tipB =>
    let txIds := (db.txs.filter fun t => t.blockId = tipB.id).map (·.id)
    let removed := db.outs.filter fun o => txIds.contains o.txId
    let reset := (db.ins.filter fun i => txIds.contains i.consumedTx).map (·.outputId)
    let outs1 := db.outs.map fun o => if reset.contains o.id then { o with spent := RESET_SETS_IS_SPENT } else o
    let remaining := outs1.filter fun o => !txIds.contains o.txId
    let gone := removed.flatMap fun o =>
      (match o.lockId with | some l => if scriptReferencedLockOnly remaining l then [] else [l] | none => []) ++
      (match o.typeId with | some t => if scriptReferencedLockOnly remaining t then [] else [t] | none => [])
    { blocks := db.blocks.dropLast
      txs := db.txs.filter fun t => !txIds.contains t.id
      ins := db.ins.filter fun i => !txIds.contains i.consumedTx
      outs := remaining
      scripts := db.scripts.filter fun s => !gone.contains s.id }

/-- `get_indexer_tip`: the block row with the greatest id -/
def tip (db : DB) : Option (Nat × Nat) := db.blocks.getLast?.map fun b => (b.number, b.hash)

/-! ## queries -/

inductive Mode | pre | exact | part
deriving DecidableEq, Repr

/-- `get_binary_upper_boundary` -/
def upperBound (v : List Nat) : List Nat :=
  if v.isEmpty then List.replicate EMPTY_PREFIX_UPPER_LEN 255 else
  match v.reverse.dropWhile (fun b => b = 255) with
  | [] => List.replicate (v.length + 1) 255
  | x :: rest => rest.reverse ++ [x + 1]

/-- `col >= p AND col < upper(p)` (BLOB comparison = memcmp, then length) -/
def inPrefixRange (p v : List Nat) : Bool := !bytesLt v p && bytesLt v (upperBound p)

/-- the args test of `build_query_script_sql` / `build_query_script_id_sql` -/
def argsMatch (m : Mode) (q v : List Nat) : Bool :=
  match m with
  | .pre => inPrefixRange q v
  | .exact => v = q
  | .part => isInfix q v      -- `instr(args, $n) > 0` (1 for an empty needle)

def scriptMatch (m : Mode) (q s : Script) : Bool := s.code = q.code && argsMatch m q.args s.args

def scriptById (db : DB) (id : Option Nat) : Option Script :=
  match id with
  | none => none
  | some i => (db.scripts.find? fun r => r.id = i).map (·.script)

def txById (db : DB) (id : Nat) : Option RTx := db.txs.find? fun t => t.id = id
def blockById (db : DB) (id : Nat) : Option RBlock := db.blocks.find? fun b => b.id = id

/-- the values that i64 columns / comparisons can hold: `convert_max_values_in_search_filter` -/
def clampI64 (x : Nat) : Nat := min x 9223372036854775807

def inRangeC (r : Option (Nat × Nat)) (x : Nat) : Bool :=
  match r with
  | none => true
  | some (a, b) => clampI64 a ≤ x && x < clampI64 b

/-- `build_cell_filter` / `build_filter` without the block range: the sibling script (LEFT JOIN: NULL
when the output has none), script_len_range, data length, capacity, output data by mode -/
def outPasses (db : DB) (f : Filter) (lockSearch : Bool) (o : ROut) : Bool :=
  let sib : Option Script := scriptById db (if lockSearch then o.typeId else o.lockId)
  (match f.script with
   | none => true
   | some fs =>
     match sib with
     | none => false
     | some s => s.code = fs.code && inPrefixRange fs.args s.args) &&
  inRangeC f.scriptLenRange (match sib with | none => 0 | some s => rawLen s) &&
  inRangeC f.dataLenRange o.data.length &&
  inRangeC f.capRange o.cap &&
  (match f.data with
   | none => true
   | some (.pre, d) => inPrefixRange d o.data
   | some (.exact, d) => o.data = d
   | some (.infix, d) => isInfix d o.data)

/-- one answer row of `get_cells`; `cur` = `output.id` (the cursor) -/
structure RCell where
  cur : Nat
  op : OutPoint
  cell : Cell
deriving Repr, DecidableEq

/-- the row of `get_cells` for one output row, if it passes every join and WHERE clause -/
def cellRowOf (db : DB) (lockSearch : Bool) (m : Mode) (q : Script) (f : Filter) (o : ROut) : Option RCell :=
  match scriptById db (if lockSearch then o.lockId else o.typeId), txById db o.txId with
  | some s, some t =>
    match blockById db t.blockId with
    | some b =>
      if scriptMatch m q s && o.spent = LIVE_IS_SPENT && outPasses db f lockSearch o && inRangeC f.blockRange b.number then
        -- lock / type of the answer: the searched one and the LEFT JOINed sibling
        let sib := scriptById db (if lockSearch then o.typeId else o.lockId)
        let lock := if lockSearch then s else sib.getD s
        let ty := if lockSearch then sib else some s
        some ⟨o.id, ⟨t.hash, o.index⟩, ⟨b.number, t.txIndex, ⟨o.cap, lock, ty, o.data⟩⟩⟩
      else none
    | none => none
  | _, _ => none

/-- all answers in `ORDER BY output.id ASC` -/
def cellRows (db : DB) (lockSearch : Bool) (m : Mode) (q : Script) (f : Filter) : List RCell :=
  db.outs.filterMap (cellRowOf db lockSearch m q f)

/-- one `get_cells` call: (objects, last_cursor) -/
def getCells (db : DB) (lockSearch : Bool) (m : Mode) (q : Script) (f : Filter) (desc : Bool)
    (limit : Nat) (after : Option Nat) : List RCell × Option Nat :=
  let rows := cellRows db lockSearch m q f
  let rows := if desc then rows.reverse else rows
  let rows := match after with
    | none => rows
    | some a => rows.filter fun r => if desc then r.cur < a else a < r.cur
  let page := rows.take limit
  (page, page.getLast?.map (·.cur))

def getCellsPages (db : DB) (lockSearch : Bool) (m : Mode) (q : Script) (f : Filter) (desc : Bool)
    (limit : Nat) : Nat → Option Nat → List (List RCell)
  | 0, _ => []
  | fuel + 1, after =>
    let r := getCells db lockSearch m q f desc limit after
    if r.1.isEmpty then [[]] else r.1 :: getCellsPages db lockSearch m q f desc limit fuel r.2

/-- `get_cells_capacity`: `None` when SUM is NULL (no matching row) -/
def getCellsCapacity (db : DB) (lockSearch : Bool) (m : Mode) (q : Script) (f : Filter) : Option Nat :=
  let rows := cellRows db lockSearch m q f
  if rows.isEmpty then none else some ((rows.map fun r => r.cell.out.cap).foldl (· + ·) 0)

/-! ### get_transactions -/

structure RTxRow where
  txId : Nat
  tx : Nat
  bn : Nat
  txIdx : Nat
  io : Nat
  isInput : Bool
deriving Repr, DecidableEq

/-- does output row `o` match the searched script and the output filters (no `is_spent` test) -/
def outMatches (db : DB) (lockSearch : Bool) (m : Mode) (q : Script) (f : Filter) (o : ROut) : Bool :=
  (match scriptById db (if lockSearch then o.lockId else o.typeId) with
   | some s => scriptMatch m q s
   | none => false) && outPasses db f lockSearch o

/-- stable insertion sort: `r` goes before the first element that is not `lt` it -/
def insertBy {α : Type} (lt : α → α → Bool) (r : α) : List α → List α
  | [] => [r]
  | x :: xs => if lt x r then x :: insertBy lt r xs else r :: x :: xs

def sortBy {α : Type} (lt : α → α → Bool) (l : List α) : List α := l.foldr (insertBy lt) []

/-- the UNION ALL sub-query: the output part, then the input part (joined with the spent output).
ROW ORDER inside each part is observable only through `LIMIT/OFFSET` inside one transaction (the
outer query orders by `tx_id` alone). With ONE matching script (exact mode) every sqlite plan yields
the outputs by `output.id` and the inputs by the id of the output they spend (primary key of
`input`), which is what is modelled. With several matching scripts (prefix / partial mode) the order
inside a transaction depends on the plan (it was observed to differ between the first and a later
page of the same walk): the driver therefore shows such pages by transaction only. -/
def unionRows (db : DB) (lockSearch : Bool) (m : Mode) (q : Script) (f : Filter) : List (Nat × Bool × Nat) :=
  (db.outs.filterMap fun o => if outMatches db lockSearch m q f o then some (o.txId, false, o.index) else none) ++
  ((sortBy (fun (a b : RIn) => a.outputId < b.outputId) db.ins).filterMap fun i =>
    match db.outs.find? fun o => o.id = i.outputId with
    | some o => if outMatches db lockSearch m q f o then some (i.consumedTx, true, i.index) else none
    | none => none)

/-- joined with ckb_transaction and block, block_range applied -/
def txRows (db : DB) (lockSearch : Bool) (m : Mode) (q : Script) (f : Filter) : List RTxRow :=
  (unionRows db lockSearch m q f).filterMap fun (tid, isIn, io) =>
    match txById db tid with
    | some t =>
      match blockById db t.blockId with
      | some b => if inRangeC f.blockRange b.number then some ⟨tid, t.hash, b.number, t.txIndex, io, isIn⟩ else none
      | none => none
    | none => none

def insertByTx (desc : Bool) (r : RTxRow) : List RTxRow → List RTxRow
  | [] => [r]
  | x :: xs => if (if desc then x.txId ≤ r.txId else r.txId ≤ x.txId) then r :: x :: xs else x :: insertByTx desc r xs

/-- `ORDER BY tx_id` (stable: rows of one transaction keep the order of the UNION ALL) -/
def sortByTx (desc : Bool) (l : List RTxRow) : List RTxRow := l.foldr (insertByTx desc) []

/-- the number of rows at the END of the page that belong to its last transaction -/
def trailingCount (page : List RTxRow) : Nat :=
  match page.getLast? with
  | none => 0
  | some l => (page.reverse.takeWhile fun r => r.txId = l.txId).length

/-- one row of the cursor computation: `if id == last_id { count += 1 } else { last_id = id; count = 1 }` -/
def cursorStep (c : Nat × Nat) (r : RTxRow) : Nat × Nat :=
  if r.txId = c.1 then (c.1, c.2 + 1) else (r.txId, 1)

/-- the rows an ungrouped call sees: `ORDER BY tx_id`, then `tx_id >= last` (`<=` for Desc) and `OFFSET n` -/
def txsAfter (rows : List RTxRow) (desc : Bool) (after : Option (Nat × Nat)) : List RTxRow :=
  match after with
  | none => rows
  | some (last, off) => (rows.filter fun (r : RTxRow) => if desc then r.txId ≤ last else last ≤ r.txId).drop off

/-- one ungrouped `get_transactions` call: (objects, last_cursor = (last tx_id, rows of that
transaction returned SO FAR)). Since the repair 706cf75 the computation starts from the incoming
cursor (`last_cursor.unwrap_or((0, 0))`): rows of the same transaction continue its count, and an
empty page answers the incoming cursor. -/
def getTxs (db : DB) (lockSearch : Bool) (m : Mode) (q : Script) (f : Filter) (desc : Bool)
    (limit : Nat) (after : Option (Nat × Nat)) : List RTxRow × (Nat × Nat) :=
  let page := (txsAfter (sortByTx desc (txRows db lockSearch m q f)) desc after).take limit
  (page, page.foldl cursorStep (after.getD (0, 0)))

def getTxsPages (db : DB) (lockSearch : Bool) (m : Mode) (q : Script) (f : Filter) (desc : Bool)
    (limit : Nat) : Nat → Option (Nat × Nat) → List (List RTxRow)
  | 0, _ => []
  | fuel + 1, after =>
    let r := getTxs db lockSearch m q f desc limit after
    if r.1.isEmpty then [[]] else r.1 :: getTxsPages db lockSearch m q f desc limit fuel (some r.2)

/-- the call as it was BEFORE the repair 706cf75 (F24): the count restarted on every page
(`last_id = 0; count = 0`), i.e. cursor = (last tx_id of the page, rows of it AT THE END OF THE PAGE);
kept for the pre-fix witness only -/
def getTxsPreF24 (db : DB) (lockSearch : Bool) (m : Mode) (q : Script) (f : Filter) (desc : Bool)
    (limit : Nat) (after : Option (Nat × Nat)) : List RTxRow × (Nat × Nat) :=
  let page := (txsAfter (sortByTx desc (txRows db lockSearch m q f)) desc after).take limit
  (page, ((page.getLast?.map (·.txId)).getD 0, trailingCount page))

structure RTxGroup where
  txId : Nat
  tx : Nat
  bn : Nat
  txIdx : Nat
  cells : List (Bool × Nat)
deriving Repr, DecidableEq

/-- `GROUP BY tx_id, block_number, tx_index, tx_hash` of the rows in `ORDER BY tx_id` -/
def groupRows : List RTxRow → List RTxGroup
  | [] => []
  | r :: rest =>
    match groupRows rest with
    | g :: gs => if g.txId = r.txId then { g with cells := (r.isInput, r.io) :: g.cells } :: gs
                 else ⟨r.txId, r.tx, r.bn, r.txIdx, [(r.isInput, r.io)]⟩ :: g :: gs
    | [] => [⟨r.txId, r.tx, r.bn, r.txIdx, [(r.isInput, r.io)]⟩]

/-- one grouped `get_transactions` call: (objects, last_cursor = last tx_id, 0 when empty) -/
def getTxsGrouped (db : DB) (lockSearch : Bool) (m : Mode) (q : Script) (f : Filter) (desc : Bool)
    (limit : Nat) (after : Option Nat) : List RTxGroup × Nat :=
  let groups := groupRows (sortByTx desc (txRows db lockSearch m q f))
  let groups := match after with
    | none => groups
    | some a => groups.filter fun g => if desc then g.txId < a else a < g.txId
  let page := groups.take limit
  (page, (page.getLast?.map (·.txId)).getD 0)

def getTxsGroupedPages (db : DB) (lockSearch : Bool) (m : Mode) (q : Script) (f : Filter) (desc : Bool)
    (limit : Nat) : Nat → Option Nat → List (List RTxGroup)
  | 0, _ => []
  | fuel + 1, after =>
    let r := getTxsGrouped db lockSearch m q f desc limit after
    if r.1.isEmpty then [[]] else r.1 :: getTxsGroupedPages db lockSearch m q f desc limit fuel (some r.2)

/-! ## the live view of the relations (what `get_cells` can answer) -/

/-- the live cell at `op`: transaction row by hash, output row by (tx_id, output_index), unspent, with
the block number / tx index / scripts its joins yield -/
def liveCell (db : DB) (op : OutPoint) : Option Cell :=
  match findTx db op.tx with
  | none => none
  | some t =>
    match db.outs.find? (outAt t.id op.idx) with
    | none => none
    | some o =>
      if o.spent = LIVE_IS_SPENT then
        match blockById db t.blockId, scriptById db o.lockId with
        | some b, some l => some ⟨b.number, t.txIndex, ⟨o.cap, l, scriptById db o.typeId, o.data⟩⟩
        | _, _ => none
      else none

/-! ## decidable well-formedness checks (the `wf` op of the driver; hypotheses of the theorems) -/

/-- non-cellbase inputs of a block, in order -/
def blockInputs (b : Block) : List OutPoint :=
  (b.txs.drop 1).flatMap (·.inputs)

/-- the spent flag of the indexed output `op` refers to, `none` when it is not in the index -/
def indexedSpent (db : DB) (op : OutPoint) : Option Nat :=
  match findTx db op.tx with
  | none => none
  | some t => (db.outs.find? (outAt t.id op.idx)).map (·.spent)

/-- `a`: the transaction ids of the block are pairwise distinct and new to the index -/
def freshTxsB (db : DB) (b : Block) : Bool :=
  decide ((b.txs.map (·.id)).Nodup) && b.txs.all fun tx => (findTx db tx.id).isNone

/-- `o`: an input that refers to a transaction of the block refers to an EARLIER one -/
def orderB (b : Block) : Bool :=
  b.txs.zipIdx.all fun p => p.1.inputs.all fun op =>
    b.txs.zipIdx.all fun q => q.1.id ≠ op.tx || q.2 < p.2

/-- `s`: no out-point is spent twice by the block, and an input that resolves in the index refers
to an unspent output (no double spend along the chain) -/
def noDoubleSpendB (db : DB) (b : Block) : Bool :=
  decide ((blockInputs b).Nodup) &&
  (blockInputs b).all fun op => match indexedSpent db op with | some sp => sp = LIVE_IS_SPENT | none => true

end CkbVerif.Rich
