import CkbVerif.Gen.Sync

/-!
# Headers-sync timeout controller (C17, stream `hsync`)

Follows `sync/src/types/mod.rs`: `HeadersSyncController::is_timeout`, called for every peer with a
controller by the synchronizer's eviction pass (`Some(true)` = evict, `None` = send GetHeaders again).
The wall clock (`unix_time_as_millis`) and the better tip's timestamp are inputs. `saturating_sub` is
`Nat` subtraction; the products `HEADERS_PER_SECOND * x * POW_INTERVAL` are written with plain `*` on
`u64` in the code and do not overflow for times below 2^50 ms.
-/
namespace CkbVerif.HeadersSync
open CkbVerif.Gen.Sync

/-- `HeadersSyncController` -/
structure Ctl where
  startedTs : Nat
  startedTipTs : Nat
  lastUpdatedTs : Nat
  lastUpdatedTipTs : Nat
  closeToEnd : Bool
deriving Repr, DecidableEq

/-- `expected_headers_per_sec * spent * POW_INTERVAL / 1000`: the tip-timestamp progress (ms) expected
of a peer that delivers `HEADERS_DOWNLOAD_HEADERS_PER_SECOND` headers per second for `spent` ms -/
def expected (spent : Nat) : Nat :=
  HEADERS_DOWNLOAD_HEADERS_PER_SECOND * spent * POW_INTERVAL / 1000

/-- `HeadersSyncController::is_timeout(now_tip_ts, now)`: the controller afterwards and the answer -/
def isTimeout (c : Ctl) (nowTipTs now : Nat) : Ctl × Option Bool :=
  let expectedBeforeFinished := now - nowTipTs
  if c.closeToEnd then
    if expectedBeforeFinished > expected HEADERS_DOWNLOAD_INSPECT_WINDOW then
      ({ startedTs := now, startedTipTs := nowTipTs, lastUpdatedTs := now, lastUpdatedTipTs := nowTipTs,
         closeToEnd := false }, none)
    else (c, some false)
  else if expectedBeforeFinished < HEADERS_DOWNLOAD_INSPECT_WINDOW then
    ({ c with closeToEnd := true }, some false)
  else
    let spentSinceLastUpdated := now - c.lastUpdatedTs
    if spentSinceLastUpdated < HEADERS_DOWNLOAD_INSPECT_WINDOW then (c, some false)
    else
      let syncedSinceLastUpdated := nowTipTs - c.lastUpdatedTipTs
      let expectedSinceLastUpdated := expected spentSinceLastUpdated
      if syncedSinceLastUpdated < expectedSinceLastUpdated / HEADERS_DOWNLOAD_TOLERABLE_BIAS_FOR_SINGLE_SAMPLE then
        (c, some true)
      else
        let c' := { c with lastUpdatedTs := now, lastUpdatedTipTs := nowTipTs }
        if syncedSinceLastUpdated > expectedSinceLastUpdated then (c', some false)
        else
          let spentSinceStarted := now - c.startedTs
          let syncedSinceStarted := nowTipTs - c.startedTipTs
          if syncedSinceStarted < expected spentSinceStarted then (c', some true)
          else (c', some false)

/-- `HeadersSyncController::from_header` at clock `now` for a better tip with timestamp `tipTs` -/
def fromHeader (now tipTs : Nat) : Ctl :=
  { startedTs := now, startedTipTs := tipTs, lastUpdatedTs := now, lastUpdatedTipTs := tipTs,
    closeToEnd := false }

end CkbVerif.HeadersSync
