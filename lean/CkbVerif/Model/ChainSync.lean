import CkbVerif.Model.ChainStatus

/-!
# The sync layer's writes to the status map / HeaderMap, as extra operations of the pipeline

`XState` = the pipeline state plus the two things the sync layer writes and `get_block_status` reads:
`recv` (status-map entry `BLOCK_RECEIVED`) and `hdr` (`header_map().contains_key`).

Sync-layer operations, with the guards of the sync code:
* `headerValid h` — `HeadersProcess::accept_first/…` → `SyncShared::insert_valid_header`: performed only when
  the current status of `h` is `UNKNOWN` (`headers_process.rs`: `status.contains(HEADER_VALID)` → already
  known, `BLOCK_INVALID` → rejected);
* `markReceived h` — `SyncShared::new_block_received`: only when the status is exactly `HEADER_VALID` and the
  status map has no entry for `h` (`Entry::Vacant`).
`rawReceived` / `rawHeader` are the same writes WITHOUT the guards (witnesses only).

Chain operations (`chain op`): the pipeline step, and its writes to the two maps as the code performs them:
a successful verification (`Ok(_)` arm of `consume_unverified_blocks`) does `remove_block_status` +
`remove_header_view`; every `BLOCK_INVALID` insert overwrites a `BLOCK_RECEIVED` entry; the orphan expiry
removes both; a process stop forgets both.
-/
namespace CkbVerif.Chain

structure XState where
  st : State
  recv : Nat → Bool
  hdr : Nat → Bool

/-- the status map with the sync layer's entries: `BLOCK_INVALID` inserts overwrite, so a marked-invalid
block answers `BLOCK_INVALID` -/
def statusMapX (x : XState) (b : Nat) : Option Status :=
  if x.st.invalid b then some .invalid else if x.recv b then some .received else none

/-- `get_block_status` in the extended state -/
def statusX (x : XState) (b : Nat) : Status := getBlockStatus (statusMapX x) x.hdr x.st.td x.st.ver b

/-- what `process_lonely_block` / `search_orphan_leader` compute from their two reads -/
def acceptableX (x : XState) (p : Nat) : Bool := x.st.pending p || (statusX x p).contains .stored
def invalidX (x : XState) (p : Nat) : Bool := statusX x p == .invalid

inductive XOp
  | chain (op : Op)
  | headerValid (h : Nat)
  | markReceived (h : Nat)
  deriving DecidableEq

def okIds (o : Out) : List Nat :=
  (o.filter fun e => e.1 != 0 && (e.2 == Verdict.okNew || e.2 == Verdict.okKnown)).map (·.1)
def errIds (o : Out) : List Nat := (o.filter fun e => e.2 == Verdict.err).map (·.1)

def xstep (T : Tree) (x : XState) : XOp → XState
  | .chain .crash => { st := crash x.st, recv := fun _ => false, hdr := fun _ => false }
  | .chain .expire =>
    let s' := expire T x.st
    let gone := fun b => decide (b ∈ x.st.pool) && !decide (b ∈ s'.pool)
    { st := s', recv := fun b => x.recv b && !gone b, hdr := fun b => x.hdr b && !gone b }
  | .chain op =>
    let r := step T x.st op
    { st := r.1
      recv := fun b => x.recv b && !decide (b ∈ okIds r.2) && !decide (b ∈ errIds r.2)
      hdr := fun b => x.hdr b && !decide (b ∈ okIds r.2) }
  | .headerValid h => if statusX x h = .unknown then { x with hdr := upd x.hdr h true } else x
  | .markReceived h => if statusX x h = .headerValid then { x with recv := upd x.recv h true } else x

def xrun (T : Tree) (x : XState) : List XOp → XState
  | [] => x
  | op :: ops => xrun T (xstep T x op) ops

def xinit (T : Tree) : XState := { st := init T, recv := fun _ => false, hdr := fun _ => false }

/-- the chain operations of a mixed history -/
def chainOps : List XOp → List Op
  | [] => []
  | .chain op :: r => op :: chainOps r
  | _ :: r => chainOps r

/-- the unguarded writes (what `insert_block_status(h, BLOCK_RECEIVED)` / `header_map().insert` do when
called without the sync layer's checks) -/
def rawReceived (x : XState) (h : Nat) : XState := { x with recv := upd x.recv h true }
def rawHeader (x : XState) (h : Nat) : XState := { x with hdr := upd x.hdr h true }

end CkbVerif.Chain
