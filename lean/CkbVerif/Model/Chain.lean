import CkbVerif.Gen.Chain

/-!
# Model of the chain-service import pipeline (ckb-chain), used by C01 and C08

Source followed (as it is, not the RFC):
* `chain/src/chain_service.rs`   `asynchronous_process_block` (genesis shortcut, non-contextual
  verification, `insert_block` commit, `OrphanBroker::process_lonely_block`)
* `chain/src/orphan_broker.rs`   `process_lonely_block`, `search_orphan_leaders`,
  `process_descendant`, `process_invalid_block`, `clean_expired_orphans`
* `chain/src/utils/orphan_block_pool.rs` (the pool as a set of hashes; its internal maps are C17's)
* `chain/src/verify.rs`          `consume_unverified_blocks`, `verify_block`, `find_fork`,
  `reconcile_main_chain`
* `shared/src/shared.rs`         `get_block_status` (status map first, else the stored ext)
* `chain/src/init_load_unverified.rs` (restart scan), `store/src/transaction.rs` `delete_block`
  (does NOT delete the ext row).

Abstractions
* a block is a small id; the block tree `T` gives parent, height, epoch, work (difficulty) and two
  abstract verdict flags: `nc b` (passes `BlockVerifier` + `NonContextualBlockTxsVerifier`) and
  `ok b` (passes `ContextualBlockVerifier` when attached on top of its already verified ancestors).
  Ids are topologically numbered (`parent b < b`); `par` clamps so that this is definitional.
* `BlockExt.verified = Some(false)` is never persisted: `insert_failure_ext` only writes into a
  transaction that `verify_block` drops (`?` on the error of `reconcile_main_chain`), so the model's
  ext is `td : Option Nat` (ext present, total difficulty) plus `ver` (= `verified == Some(true)`);
  an ext without `ver` is `verified == None`.
* `HeaderMap` (sync layer) is empty, so `get_block_status` = status-map entry, else from the ext.
  Only `BLOCK_INVALID` is ever put into the status map by ckb-chain, hence `invalid : Nat → Bool`.
* The preload relay thread is a FIFO identity (it only loads the block body): its queue and the
  verify queue are merged into `queue`. (Its two `expect`s are the suspected finding F7; the merged
  model has no panic state — see Props/C01.lean "not covered".)
* Granularity: each actor step is atomic (argument: the chain-service thread is the only writer of
  pending-set insertions and of the orphan pool; the verify thread is the only writer of
  exts/tip/snapshot and publishes ext or BLOCK_INVALID *before* removing the id from the pending set,
  and `process_lonely_block` reads `pending` *before* the status).
* `search_orphan_leaders` iterates a `HashSet` of leaders and `HashMap`s of siblings: the order in
  which released siblings are queued is arbitrary in the implementation. The model takes a `hint`
  (any list) that fixes this order; all theorems hold for every hint. The set of released / rejected
  blocks does not depend on it.
* Persisted part (RocksDB): `stored td ver tip tipTd`; volatile part: `invalid pool queue pending`.
  `crash` keeps exactly the persisted part (atomic, durable commits assumed). Every model step
  performs its persisted writes in the code's commit order and every intermediate state between two
  commits of one step is itself a state reached by a prefix of the step's fold (C08).
* Ghost fields (not in the code): `seen` (ids delivered since the last crash, plus those with an
  ext at the crash) and `expiryFired`.
* `restart` / `ROp` / `rstep` (end of this file): the step function extended with the process
  restart (`crash` followed by the start-up scan's deliveries); C01's restart theorems are about it.
-/
namespace CkbVerif.Chain
open CkbVerif.Gen.Chain

structure Tree where
  parent : Nat → Nat
  num : Nat → Nat
  epoch : Nat → Nat
  work : Nat → Nat
  nc : Nat → Bool
  ok : Nat → Bool

/-- parent pointer, clamped so that `par b < b` for `b ≠ 0` holds by definition -/
def Tree.par (T : Tree) (b : Nat) : Nat := if T.parent b < b then T.parent b else 0

theorem Tree.par_lt (T : Tree) {b : Nat} (h : b ≠ 0) : T.par b < b := by
  unfold Tree.par; split <;> omega

def upd {α : Type} (f : Nat → α) (k : Nat) (v : α) : Nat → α := fun x => if x = k then v else f x

@[simp] theorem upd_same {α : Type} (f : Nat → α) (k : Nat) (v : α) : upd f k v k = v := by simp [upd]
theorem upd_other {α : Type} (f : Nat → α) {k x : Nat} (v : α) (h : x ≠ k) : upd f k v x = f x := by
  simp [upd, h]

inductive Verdict
  | okNew      -- callback Ok(true)
  | okKnown    -- callback Ok(false)
  | err        -- callback Err(_)
  | dropped    -- callback dropped without being called (orphan replaced by a re-delivered copy)
  deriving DecidableEq, Repr

abbrev Out := List (Nat × Verdict)

structure State where
  stored : Nat → Bool          -- block data present (COLUMN_BLOCK_HEADER/BODY/NUMBER_HASH …)
  td : Nat → Option Nat        -- COLUMN_BLOCK_EXT present, with this total difficulty
  ver : Nat → Bool             -- ext.verified == Some(true)
  tip : Nat
  tipTd : Nat
  invalid : Nat → Bool         -- block_status_map entry BLOCK_INVALID
  pool : List Nat              -- orphan pool (hashes in `parents`)
  queue : List Nat             -- preload channel ++ unverified channel (FIFO)
  pending : Nat → Bool         -- is_pending_verify
  seen : Nat → Bool            -- ghost
  expiryFired : Bool           -- ghost
  commits : Nat                -- ghost: number of RocksDB commits performed so far (C08 crash points)

def init (T : Tree) : State :=
  { stored := fun b => b == 0
    td := fun b => if b = 0 then some (T.work 0) else none
    ver := fun b => b == 0
    tip := 0
    tipTd := T.work 0
    invalid := fun _ => false
    pool := []
    queue := []
    pending := fun _ => false
    seen := fun _ => false
    expiryFired := false
    commits := 0 }

/-- `parent_is_pending_verify || parent_status.contains(BLOCK_STORED)` -/
def acceptable (s : State) (p : Nat) : Bool :=
  s.pending p || (!s.invalid p && (s.td p).isSome)

/-- `process_descendant`: mark pending, send to the preload channel -/
def enqueue (s : State) (c : Nat) : State :=
  { s with pending := upd s.pending c true, queue := s.queue ++ [c] }

/-- `process_invalid_block`: delete the block (one commit), mark BLOCK_INVALID, callback Err -/
def rejectBlk (s : State) (c : Nat) : State :=
  { s with stored := upd s.stored c false, invalid := upd s.invalid c true,
           commits := if s.stored c then s.commits + 1 else s.commits }

def unpool (s : State) (c : Nat) : State := { s with pool := s.pool.filter (· != c) }

/-- One candidate of `search_orphan_leaders`. `pool0` is the pool when the search started: a pooled
block whose parent was not pooled then is the child of a *leader* (the code tests the leader's status
`BLOCK_INVALID` first, then pending/stored); any other pooled block follows the fate of its parent
(the code removes a leader's descendants as one group and treats them alike). -/
def stepPool (T : Tree) (pool0 : List Nat) (acc : State × Out) (c : Nat) : State × Out :=
  let s := acc.1
  if c ∈ s.pool then
    let p := T.par c
    if p ∈ pool0 then
      if acceptable s p then (enqueue (unpool s c) c, acc.2)
      else if s.invalid p then (rejectBlk (unpool s c) c, acc.2 ++ [(c, Verdict.err)])
      else acc
    else
      if s.invalid p then (rejectBlk (unpool s c) c, acc.2 ++ [(c, Verdict.err)])
      else if acceptable s p then (enqueue (unpool s c) c, acc.2)
      else acc
  else acc

def poolBound (l : List Nat) : Nat := l.foldl max 0

/-- `search_orphan_leaders`: the hint first (implementation's sibling order), then every id in
ascending order (ids are topological, so one ascending pass completes every cascade). -/
def search (T : Tree) (hint : List Nat) (s : State) : State × Out :=
  (hint ++ List.range (poolBound s.pool + 1)).foldl (stepPool T s.pool) (s, [])

/-- `process_lonely_block` up to (excluding) `search_orphan_leaders` -/
def route (T : Tree) (s : State) (b : Nat) : State × Out :=
  let p := T.par b
  if acceptable s p then (enqueue s b, [])
  else if s.invalid p then (rejectBlk s b, [(b, Verdict.err)])
  else if b ∈ s.pool then (s, [(b, Verdict.dropped)])   -- replaces the pool entry, old callback dropped
  else ({ s with pool := b :: s.pool }, [])

/-- `ChainService::asynchronous_process_block` -/
def deliver (T : Tree) (hint : List Nat) (s : State) (b : Nat) : State × Out :=
  if b = 0 then (s, [(0, Verdict.okKnown)])
  else
    let s := { s with seen := upd s.seen b true }
    if !T.nc b then ({ s with invalid := upd s.invalid b true }, [(b, Verdict.err)])
    else
      let s1 := { s with stored := upd s.stored b true, commits := s.commits + 1 }  -- insert_block commit
      let r := route T s1 b
      let r2 := search T hint r.1
      (r2.1, r.2 ++ r2.2)

/-- `find_fork`'s `dirty_exts` below the submitted block: the run of stored-but-unverified
ancestors, oldest first. (Where the code would `expect` a missing ext the walk stops.) Structural
recursion on a fuel argument (`b` itself suffices because `par b < b`). -/
def dirtyRunAux (T : Tree) (s : State) : Nat → Nat → List Nat
  | 0, _ => []
  | fuel + 1, b =>
    if b = 0 then []
    else if s.ver b then []
    else if (s.td b).isNone then []
    else dirtyRunAux T s fuel (T.par b) ++ [b]

def dirtyRun (T : Tree) (s : State) (b : Nat) : List Nat := dirtyRunAux T s b b

def verifyFail (s0 : State) (b : Nat) : State × Out :=
  ({ s0 with stored := upd s0.stored b false, invalid := upd s0.invalid b true,
             pending := upd s0.pending b false,
             commits := if s0.stored b then s0.commits + 1 else s0.commits }, [(b, Verdict.err)])

def verifyDone (s' : State) (b : Nat) (v : Verdict) : State × Out :=
  ({ s' with invalid := upd s'.invalid b false, pending := upd s'.pending b false }, [(b, v)])

/-- `consume_unverified_blocks` on the head of the queue (no-op when the queue is empty) -/
def verifyHead (T : Tree) (s : State) : State × Out :=
  match s.queue with
  | [] => (s, [])
  | b :: q =>
    let s0 := { s with queue := q }
    let p := T.par b
    if s.invalid p then verifyFail s0 b
    else match s.td p with
      | none => verifyFail s0 b
      | some ptd =>
        if s.ver b && (s.td b).isSome then verifyDone s0 b Verdict.okKnown
        else
          let td := ptd + T.work b
          if s.tipTd < td then
            let dirty := dirtyRun T s p ++ [b]
            if dirty.all T.ok then
              verifyDone { s0 with td := upd s0.td b (some td),
                                   ver := fun x => decide (x ∈ dirty) || s0.ver x,
                                   tip := b, tipTd := td, commits := s0.commits + 1 } b Verdict.okNew
            else verifyFail s0 b
          else verifyDone { s0 with td := upd s0.td b (some td), commits := s0.commits + 1 } b Verdict.okNew

/-- is pooled candidate `c` removed by this expiry run? A leader's child by the epoch test
(`need_clean` looks at one child of the leader; all children of one parent have the same epoch),
any other pooled block iff its parent was removed in this run. `gone` = ids removed so far. -/
def expGone (T : Tree) (pool0 : List Nat) (tipEpoch : Nat) (gone : List Nat) (c : Nat) : Bool :=
  if T.par c ∈ pool0 then decide (T.par c ∈ gone) else decide (T.epoch c + EXPIRED_EPOCH < tipEpoch)

/-- one candidate of `clean_expired_orphans`; `acc.2` = ids removed so far in this run -/
def stepExpire (T : Tree) (pool0 : List Nat) (tipEpoch : Nat) (acc : State × List Nat) (c : Nat) :
    State × List Nat :=
  let s := acc.1
  if c ∈ s.pool then
    if expGone T pool0 tipEpoch acc.2 c then
      ({ unpool s c with stored := upd s.stored c false, invalid := upd s.invalid c false,
                         expiryFired := true,
                         commits := if s.stored c then s.commits + 1 else s.commits }, acc.2 ++ [c])
    else acc
  else acc

/-- `OrphanBroker::clean_expired_orphans` (tip epoch read from the store's tip header) -/
def expire (T : Tree) (s : State) : State :=
  ((List.range (poolBound s.pool + 1)).foldl (stepExpire T s.pool (T.epoch s.tip)) (s, [])).1

/-- process death: the persisted part survives, the volatile part is gone -/
def crash (s : State) : State :=
  { s with invalid := fun _ => false, pool := [], queue := [], pending := fun _ => false,
           seen := fun b => (s.td b).isSome, expiryFired := false }

inductive Op
  | deliver (b : Nat) (hint : List Nat)
  | verify
  | expire
  | crash
  deriving DecidableEq

def step (T : Tree) (s : State) : Op → State × Out
  | .deliver b hint => deliver T hint s b
  | .verify => verifyHead T s
  | .expire => (expire T s, [])
  | .crash => (crash s, [])

def run (T : Tree) (s : State) : List Op → State
  | [] => s
  | op :: ops => run T (step T s op).1 ops

/-- drain the verify queue (fuel = queue length suffices: verification never enqueues) -/
def drain (T : Tree) : Nat → State → Out → State × Out
  | 0, s, o => (s, o)
  | n + 1, s, o =>
    match s.queue with
    | [] => (s, o)
    | _ => let r := verifyHead T s; drain T n r.1 (o ++ r.2)

/-- serialised delivery: deliver, then verify until the queue is empty -/
def deliverQ (T : Tree) (hint : List Nat) (s : State) (b : Nat) : State × Out :=
  let r := deliver T hint s b
  drain T r.1.queue.length r.1 r.2

/-- `InitLoadUnverified::find_unverified_blocks`: the candidates (`order` = all ids sorted by
(number, hash) as the NUMBER_HASH column iterates) that are stored without ext, inside the window
`[max 1 (tip − EXPIRED_EPOCH·maxEpochLen), tip + 10·BLOCK_DOWNLOAD_WINDOW]`, cut at the first
number above the tip that has no such block. -/
def scanList (T : Tree) (maxEpochLen : Nat) (order : List Nat) (s : State) : List Nat :=
  let tipNum := T.num s.tip
  let start := max 1 (tipNum - EXPIRED_EPOCH * maxEpochLen)
  let stop := tipNum + BLOCK_DOWNLOAD_WINDOW * INIT_LOAD_WINDOW_FACTOR
  let cands := order.filter fun c => s.stored c && (s.td c).isNone && c != 0
  cands.filter fun c =>
    decide (start ≤ T.num c) && decide (T.num c ≤ stop) &&
    (List.range (T.num c - tipNum)).all fun i => cands.any fun x => T.num x == tipNum + 1 + i

/-! ## Restart (C01 / C08): stop of the process, start on the same database

`chain/src/init.rs` `build_chain_services` starts the `InitLoadUnverified` thread, which
(`init_load_unverified.rs` `find_and_verify_unverified_blocks`) walks the numbers of the scan window in
ascending order and, per number, hands every stored hash without `BlockExt` (NUMBER_HASH key order) to
`ChainController::asynchronous_process_lonely_block` — the ordinary delivery path, without callback and
without waiting for verification. A stop of the process (clean or not) drops the volatile state: a clean
stop only drains the request channel and then abandons the preload / verify queues, it flushes nothing.
So `restart` = `crash`, then `deliver` (empty sibling hint) of every block of `scanList`, in that order;
the verify thread's steps are separate `verify` operations, interleaved arbitrarily with later ones. -/

/-- `InitLoadUnverified::start` on the database the stopped process left behind -/
def restart (T : Tree) (maxEpochLen : Nat) (order : List Nat) (s : State) : State × Out :=
  let s0 := crash s
  (scanList T maxEpochLen order s0).foldl
    (fun (acc : State × Out) b => let r := deliver T [] acc.1 b; (r.1, acc.2 ++ r.2)) (s0, [])

/-- operations of a node that can also be stopped and started again. `maxEpochLen` is
`Consensus::max_epoch_length()` and `order` the NUMBER_HASH iteration order of the block ids: both are
parameters of the deployment, constant over a history (the theorems hold for every value). -/
inductive ROp
  | op (o : Op)
  | restart (maxEpochLen : Nat) (order : List Nat)
  deriving DecidableEq

/-- the step function with `Restart` -/
def rstep (T : Tree) (s : State) : ROp → State × Out
  | .op o => step T s o
  | .restart mel order => restart T mel order s

def rrun (T : Tree) (s : State) : List ROp → State
  | [] => s
  | op :: ops => rrun T (rstep T s op).1 ops

/-! ## Panic state (finding F7)

The preload thread loads a queued block with `store.get_block(hash).expect("block stored")`
(`preload_unverified_blocks_channel.rs`), the verify thread deletes a block that failed with
`delete_unverified_block` → `get_block` → `expect("block uncles must be stored")` (`store/src/store.rs`):
both assume that the data of a queued block is still in the database. The preload thread runs
independently of the verify thread and may be arbitrarily late (it is forced to be late as soon as more
than 128 blocks are queued in front), so "the head of the merged queue has no block data when it is
taken" is a panic of the code as written under a legal schedule (with an early preload the same head
panics in the verify thread when it fails again and its header is still cached). The thread that
panicked is gone: nothing is verified any more until the process is restarted; the chain-service thread
(deliveries, expiry) keeps running. -/

/-- the verify / preload thread would hit its `expect`: the block it takes from the queue has no data -/
def verifyPanics (s : State) : Bool :=
  match s.queue with
  | [] => false
  | b :: _ => !s.stored b

structure PState where
  st : State
  /-- a pipeline thread has panicked: the verify queue is not consumed any more -/
  dead : Bool

def pinit (T : Tree) : PState := { st := init T, dead := false }

/-- the step function with the panic state; a process restart (`crash`) revives the pipeline -/
def pstep (T : Tree) (p : PState) : Op → PState
  | .verify =>
    if p.dead then p
    else if verifyPanics p.st then { p with dead := true }
    else { p with st := (verifyHead T p.st).1 }
  | .crash => { st := crash p.st, dead := false }
  | op => { p with st := (step T p.st op).1 }

def prun (T : Tree) (p : PState) : List Op → PState
  | [] => p
  | op :: ops => prun T (pstep T p op) ops

end CkbVerif.Chain
