import CkbVerif.Gen.Sync

/-!
# In-flight block download table (C17, stream `inflight`)

Follows `sync/src/types/mod.rs`: `InflightBlocks::{insert, remove_by_peer, remove_by_block, prune,
mark_slow_block}`, `DownloadScheduler::{increase, decrease, punish}`, `TimeAnalyzer::push_time`.
The wall clock (`unix_time_as_millis`) is an input `now`.

Maps are association lists with unique keys. The two loops of `prune` (over the sorted
`inflight_states` up to `tip + 20`, and `trace_number.retain`) are rendered as per-peer
filters: their effects on different entries commute (hash removal, `task_count >>= k`, maximum
of numbers), so iteration order is immaterial; `punish(2)` applied `k` times is `>>> (2*k)`.
-/
namespace CkbVerif.Inflight
open CkbVerif.Gen.Sync

structure Blk where
  number : Nat
  hash : Nat
deriving DecidableEq, Repr

/-- `DownloadScheduler` -/
structure Sched where
  taskCount : Nat := INIT_BLOCKS_IN_TRANSIT_PER_PEER
  timeoutCount : Nat := 0
  hashes : List Blk := []
deriving Repr

/-- `InflightState` -/
structure Req where
  peer : Nat
  ts : Nat
deriving Repr, DecidableEq

def TIME_TRACE_SIZE : Nat := MAX_BLOCKS_IN_TRANSIT_PER_PEER * TIME_TRACE_FACTOR
def FAST_INDEX : Nat := TIME_TRACE_SIZE / FAST_INDEX_DEN
def NORMAL_INDEX : Nat := TIME_TRACE_SIZE * NORMAL_INDEX_NUM / NORMAL_INDEX_DEN
def LOW_INDEX : Nat := TIME_TRACE_SIZE * LOW_INDEX_NUM / LOW_INDEX_DEN

/-- `TimeAnalyzer` -/
structure Analyzer where
  trace : List Nat := List.replicate TIME_TRACE_SIZE 0
  index : Nat := 0
  fast : Nat := 1000
  normal : Nat := 1250
  low : Nat := 1500
deriving Repr

inductive Quantile | minToFast | fastToNormal | normalToUpper | upperToMax
deriving Repr, DecidableEq

/-- `u64::MAX` -/
def U64_MAX : Nat := 18446744073709551615

/-- `u64::saturating_add` -/
def satAdd64 (a b : Nat) : Nat := min (a + b) U64_MAX

/-- `TimeAnalyzer::push_time` -/
def Analyzer.pushTime (a : Analyzer) (time : Nat) : Analyzer × Quantile :=
  let a :=
    if a.index < TIME_TRACE_SIZE then
      { a with trace := a.trace.set a.index time, index := a.index + 1 }
    else
      let sorted := a.trace.mergeSort (fun x y => decide (x ≤ y))
      { trace := sorted.set 0 time, index := 1,
        fast := satAdd64 a.fast (sorted.getD FAST_INDEX 0) / 2,
        normal := satAdd64 a.normal (sorted.getD NORMAL_INDEX 0) / 2,
        low := satAdd64 a.low (sorted.getD LOW_INDEX 0) / 2 }
  let q :=
    if time ≤ a.fast then Quantile.minToFast
    else if time ≤ a.normal then Quantile.fastToNormal
    else if time > a.low then Quantile.upperToMax
    else Quantile.normalToUpper
  (a, q)

def Sched.increase (sc : Sched) (num : Nat) : Sched :=
  if sc.taskCount < MAX_BLOCKS_IN_TRANSIT_PER_PEER then
    { sc with taskCount := min (sc.taskCount + num) MAX_BLOCKS_IN_TRANSIT_PER_PEER }
  else sc

/-- as written: `timeout_count = task_count + num` -/
def Sched.decrease (sc : Sched) (num : Nat) : Sched :=
  let tc := sc.taskCount + num
  if tc > 2 then { sc with taskCount := sc.taskCount - 1, timeoutCount := 0 }
  else { sc with timeoutCount := tc }

def Sched.removeHash (sc : Sched) (b : Blk) : Sched :=
  { sc with hashes := sc.hashes.filter (fun x => x != b) }

structure Inflight where
  scheds : List (Nat × Sched) := []
  states : List (Blk × Req) := []
  trace : List (Blk × Nat) := []
  restartNumber : Nat := 0
  analyzer : Analyzer := {}
  adjustment : Bool := true
  protectNum : Nat := MAX_OUTBOUND_PEERS_TO_PROTECT_FROM_DISCONNECT
deriving Repr

def updSched (scheds : List (Nat × Sched)) (p : Nat) (f : Sched → Sched) : List (Nat × Sched) :=
  scheds.map (fun e => if e.1 == p then (e.1, f e.2) else e)

def hasState (s : Inflight) (b : Blk) : Bool := s.states.any (fun e => e.1 == b)

/-- `InflightBlocks::insert` -/
def insert (s : Inflight) (now peer : Nat) (b : Blk) : Inflight × Bool :=
  if hasState s b then (s, false)
  else
    let states := (b, { peer := peer, ts := now }) :: s.states
    let trace :=
      if s.restartNumber ≥ b.number then (b, now) :: s.trace.filter (fun t => t.1 != b) else s.trace
    match s.scheds.find? (fun e => e.1 == peer) with
    | some (_, sc) =>
      let fresh := !sc.hashes.contains b
      let scheds := updSched s.scheds peer
        (fun sc => if sc.hashes.contains b then sc else { sc with hashes := b :: sc.hashes })
      ({ s with states := states, trace := trace, scheds := scheds }, fresh)
    | none =>
      ({ s with states := states, trace := trace,
                scheds := s.scheds ++ [(peer, { hashes := [b] })] }, true)

/-- `InflightBlocks::remove_by_peer` -/
def removeByPeer (s : Inflight) (peer : Nat) : Inflight × Nat :=
  match s.scheds.find? (fun e => e.1 == peer) with
  | some (_, sc) =>
    ({ s with scheds := s.scheds.filter (fun e => e.1 != peer),
              states := s.states.filter (fun e => !sc.hashes.contains e.1),
              trace := s.trace.filter (fun t => !sc.hashes.contains t.1) },
     sc.hashes.length)
  | none => (s, 0)

/-- `InflightBlocks::remove_by_block` (after /repo commit 4f3b7cd: the slow mark goes with the request,
whether or not the requesting peer still has a scheduler) -/
def removeByBlock (s : Inflight) (now : Nat) (b : Blk) : Inflight × Bool :=
  let shouldPunish := decide (s.scheds.length > s.protectNum)
  match s.states.find? (fun e => e.1 == b) with
  | none => (s, false)
  | some (_, st) =>
    let states := s.states.filter (fun e => e.1 != b)
    let elapsed := now - st.ts
    match s.scheds.find? (fun e => e.1 == st.peer) with
    | none => ({ s with states := states, trace := s.trace.filter (fun t => t.1 != b) }, true)
    | some _ =>
      let r := if s.adjustment then s.analyzer.pushTime elapsed else (s.analyzer, Quantile.fastToNormal)
      let adj (sc : Sched) : Sched :=
        if s.adjustment then
          match r.2 with
          | .minToFast => sc.increase 2
          | .fastToNormal => sc.increase 1
          | .normalToUpper => if shouldPunish then sc.decrease 1 else sc
          | .upperToMax => if shouldPunish then sc.decrease 2 else sc
        else sc
      ({ s with states := states,
                scheds := updSched s.scheds st.peer (fun sc => adj (sc.removeHash b)),
                analyzer := r.1,
                trace := s.trace.filter (fun t => t.1 != b) }, true)

/-- `InflightBlocks::remove_by_block` as it was before /repo commit 4f3b7cd (finding F23): the slow
mark is dropped only inside `if let Some(set) = download_schedulers.get_mut(&state.peer)`, so a
block arriving from a peer that `prune` has evicted keeps its mark. Kept for the witness theorem
`remove_by_block_PreF23_releases_innocent_request`; not used by the driver. -/
def removeByBlockPreF23 (s : Inflight) (now : Nat) (b : Blk) : Inflight × Bool :=
  let shouldPunish := decide (s.scheds.length > s.protectNum)
  match s.states.find? (fun e => e.1 == b) with
  | none => (s, false)
  | some (_, st) =>
    let states := s.states.filter (fun e => e.1 != b)
    let elapsed := now - st.ts
    match s.scheds.find? (fun e => e.1 == st.peer) with
    | none => ({ s with states := states }, true)
    | some _ =>
      let r := if s.adjustment then s.analyzer.pushTime elapsed else (s.analyzer, Quantile.fastToNormal)
      let adj (sc : Sched) : Sched :=
        if s.adjustment then
          match r.2 with
          | .minToFast => sc.increase 2
          | .fastToNormal => sc.increase 1
          | .normalToUpper => if shouldPunish then sc.decrease 1 else sc
          | .upperToMax => if shouldPunish then sc.decrease 2 else sc
        else sc
      ({ s with states := states,
                scheds := updSched s.scheds st.peer (fun sc => adj (sc.removeHash b)),
                analyzer := r.1,
                trace := s.trace.filter (fun t => t.1 != b) }, true)

/-- the first loop's test: within `tip + 20` and older than `BLOCK_DOWNLOAD_TIMEOUT` -/
def timedOut (now tip : Nat) (e : Blk × Req) : Bool :=
  decide (e.1.number ≤ tip + PRUNE_LOOKAHEAD) && decide (e.2.ts + BLOCK_DOWNLOAD_TIMEOUT < now)

/-- remove from each scheduler the blocks of `gone` that were requested from that peer, shifting
its `task_count` right by `shift` per removed block when `punish` -/
def dropFromScheds (scheds : List (Nat × Sched)) (gone : List (Blk × Req)) (punish : Bool) (shift : Nat) :
    List (Nat × Sched) :=
  scheds.map fun e =>
    let mine := gone.filter (fun g => g.2.peer == e.1)
    (e.1, { e.2 with
      hashes := e.2.hashes.filter (fun b => !mine.any (fun g => g.1 == b)),
      taskCount := if punish then e.2.taskCount >>> (shift * mine.length) else e.2.taskCount })

/-- `InflightBlocks::prune`: new table and the disconnect list -/
def prune (s : Inflight) (now tip : Nat) : Inflight × List Nat :=
  let punish := decide (s.scheds.length > s.protectNum) && s.adjustment
  let expired := s.states.filter (timedOut now tip)
  let scheds1 := dropFromScheds s.scheds expired punish 2
  let trace1 := s.trace.filter (fun t => !expired.any (fun e => e.1 == t.1))
  let states1 := s.states.filter (fun e => !timedOut now tip e)
  let disconnect := (scheds1.filter (fun e => e.2.taskCount == 0)).map (·.1)
  let scheds2 := scheds1.filter (fun e => e.2.taskCount != 0)
  let restart1 := if s.restartNumber != 0 && decide (tip + 1 > s.restartNumber) then 0 else s.restartNumber
  let limit := s.analyzer.low
  let texp := trace1.filter (fun t => decide (now > limit + t.2))
  let gone := states1.filter (fun e => texp.any (fun t => t.1 == e.1))
  let scheds3 := dropFromScheds scheds2 gone punish 1
  let states2 := states1.filter (fun e => !texp.any (fun t => t.1 == e.1))
  let restart2 := texp.foldl (fun r t => if t.1.number > r then t.1.number else r) restart1
  let trace2 := trace1.filter (fun t => !decide (now > limit + t.2))
  ({ s with scheds := scheds3, states := states2, trace := trace2, restartNumber := restart2 }, disconnect)

/-- `InflightBlocks::mark_slow_block` -/
def markSlow (s : Inflight) (now tip : Nat) : Inflight :=
  let slow := s.states.filter (fun e => decide (e.1.number ≤ tip + 1))
  let fresh := slow.filter (fun e => !s.trace.any (fun t => t.1 == e.1))
  { s with trace := s.trace ++ fresh.map (fun e => (e.1, now)) }

/-- the two `pub(crate)` policy fields: `Synchronizer::notify` clears `adjustment` after IBD, the
crate's tests set `protect_num` (hook `verif_set_policy`) -/
def setPolicy (s : Inflight) (adjustment : Bool) (protectNum : Nat) : Inflight :=
  { s with adjustment := adjustment, protectNum := protectNum }

end CkbVerif.Inflight
