import CkbVerif.Model.Hash
/-!
# CBMT merkle proofs (C15): `build_merkle_tree`, `build_proof`, `MerkleProof::root` / `verify`, `retrieve_leaves`

Model of merkle-cbt 0.3.2 `src/merkle_tree.rs` as ckb uses it through
`ckb_types::utilities::{CBMT, MerkleProof}` (`util/types/src/utilities/merkle_tree.rs`) in the RPCs
`get_transaction_proof` / `verify_transaction_proof` / `get_transaction_and_witness_proof` /
`verify_transaction_and_witness_proof` (`rpc/src/module/chain.rs`) and in the light-client server's
`GetTransactionsProof`.  The functions follow the Rust code statement by statement:

* `TreeIndex::{sibling, parent, is_left}` with the same bit operations;
* `CBMT::build_merkle_tree`: `nodes = [default; n-1] ++ leaves`, then for `i` from `n-2` down to `0`
  `nodes[i] = merge(nodes[2i+1], nodes[2i+2])`;
* `MerkleTree::build_proof`: indices `leaves_count + i - 1`, stable sort by `Reverse(index)`, the range check on
  the first index only, the queue loop (`pop_front`; `index == 0` → `assert!(queue.is_empty()); break`;
  sibling at the front → popped, else `lemmas.push(nodes[sibling])`; parent pushed unless it is 0), then the
  indices stably re-sorted BY NODE VALUE;
* `MerkleProof::root`: length / emptiness check, `leaves.sort()`, zip with the proof's indices, stable sort by
  `Reverse(index)`, the queue loop (index 0: `Some(node)` iff no lemma is left and the queue is empty; sibling at
  the front or the next lemma; WHEN THE LEMMAS ARE EXHAUSTED THE ENTRY IS SILENTLY DROPPED and the loop
  continues), `verify`;
* `CBMT::retrieve_leaves`: every index in `leaves_count-1 .. 2*leaves_count-1`, leaves in the order of the
  proof's indices;
* the RPC compositions `verify_transaction_proof` / `verify_transaction_and_witness_proof` over digests.

`T: Ord` is a parameter `le` (total preorder as a Bool function); sorts are the stable insertion sort (the result
of a stable sort is unique, so it equals Rust's `sort` / `sort_by_key`).  `u32` index arithmetic is modelled on
`Nat` (assumption: `leaves_count + i` < 2^32, true for every index the RPC derives from a stored block).

Core Lean only.
-/
namespace CkbVerif.Hash

/-! ## `TreeIndex` -/

/-- `((self + 1) ^ 1) - 1`, 0 for the root -/
def tSibling (i : Nat) : Nat := if i = 0 then 0 else ((i + 1) ^^^ 1) - 1
/-- `(self - 1) >> 1`, 0 for the root -/
def tParent (i : Nat) : Nat := if i = 0 then 0 else (i - 1) >>> 1
/-- `self & 1 == 1` -/
def tIsLeft (i : Nat) : Bool := i &&& 1 == 1

/-! ## stable sort by key -/

section sort
variable {β γ : Type}

/-- insert `x` BEFORE the first element whose key is not smaller (`x` came earlier in the input) -/
def insertBy (le : β → β → Bool) (key : γ → β) (x : γ) : List γ → List γ
  | [] => [x]
  | y :: ys => if le (key x) (key y) then x :: y :: ys else y :: insertBy le key x ys

/-- stable insertion sort by `key` (= `slice::sort_by_key`, which is stable) -/
def sortBy (le : β → β → Bool) (key : γ → β) : List γ → List γ
  | [] => []
  | x :: xs => insertBy le key x (sortBy le key xs)

/-- the order of `core::cmp::Reverse<u32>` -/
def leRev (a b : Nat) : Bool := Nat.ble b a

end sort

section proof
variable {α : Type}

/-- `merkle_cbt::MerkleProof { indices, lemmas }` -/
structure MProof (α : Type) where
  indices : List Nat
  lemmas : List α
deriving Repr, DecidableEq

/-! ## `CBMT::build_merkle_tree` -/

/-- `nodes` of `build_merkle_tree(leaves)` (empty for no leaves) -/
def buildTree (merge : α → α → α) (zero : α) (leaves : List α) : List α :=
  if leaves.isEmpty then []
  else
    (List.range (leaves.length - 1)).foldr
      (fun i nodes => nodes.set i (merge (nodes.getD (2 * i + 1) zero) (nodes.getD (2 * i + 2) zero)))
      (List.replicate (leaves.length - 1) zero ++ leaves)

/-- `MerkleTree::root` -/
def treeRoot (zero : α) (nodes : List α) : α := nodes.headD zero

/-! ## `MerkleTree::build_proof` -/

/-- `if parent != 0 { queue.push_back(parent) }` -/
def pushParent (p : Nat) (q : List Nat) : List Nat := if p = 0 then q else q ++ [p]

/-- the queue loop of `build_proof`; the result is the lemma list in push order, `none` = the
`assert!(queue.is_empty())` fired (a panic).  `fuel` bounds the number of iterations. -/
def buildLoop (zero : α) (nodes : List α) : Nat → List Nat → Option (List α)
  | 0, _ => some []
  | _, [] => some []
  | f + 1, index :: q =>
    if index = 0 then (if q.isEmpty then some [] else none)
    else if q.head? = some (tSibling index) then
      buildLoop zero nodes f (pushParent (tParent index) q.tail)
    else
      (buildLoop zero nodes f (pushParent (tParent index) q)).map (nodes.getD (tSibling index) zero :: ·)

/-- iterations needed: every iteration removes an entry and adds at most one with a smaller index -/
def qFuel (q : List Nat) : Nat := (q.map (· + 1)).sum + 1

inductive BuildRes (α : Type)
  | none
  | panic
  | some (p : MProof α)
deriving Repr, DecidableEq

/-- `MerkleTree::build_proof(leaf_indices)` on a tree with node array `nodes` -/
def buildProof (le : α → α → Bool) (zero : α) (nodes : List α) (leafIndices : List Nat) : BuildRes α :=
  if nodes.isEmpty || leafIndices.isEmpty then .none
  else
    let leavesCount := (nodes.length >>> 1) + 1
    let indices := sortBy leRev id (leafIndices.map (fun i => leavesCount + i - 1))
    if indices.headD 0 ≥ (leavesCount <<< 1) - 1 then .none
    else
      match buildLoop zero nodes (qFuel indices) indices with
      | Option.none => .panic
      | Option.some lemmas => .some { indices := sortBy le (fun i => nodes.getD i zero) indices, lemmas := lemmas }

/-- `CBMT::build_merkle_proof(leaves, leaf_indices)` -/
def buildMerkleProof (le : α → α → Bool) (merge : α → α → α) (zero : α) (leaves : List α) (leafIndices : List Nat) :
    BuildRes α :=
  buildProof le zero (buildTree merge zero leaves) leafIndices

/-! ## `MerkleProof::root` / `verify` -/

/-- the sibling of the entry `(index, _)` just popped: the front of the queue when its index is
`index.sibling()`, else the next lemma; `none` = lemmas exhausted -/
def takeSibling (index : Nat) (q : List (Nat × α)) (lem : List α) : Option (α × List (Nat × α) × List α) :=
  match q with
  | (front, s) :: q' =>
    if front = tSibling index then some (s, q', lem)
    else match lem with
      | l :: ls => some (l, q, ls)
      | [] => none
  | [] =>
    match lem with
    | l :: ls => some (l, q, ls)
    | [] => none

/-- `if index.is_left() { merge(node, sibling) } else { merge(sibling, node) }` -/
def mergeAt (merge : α → α → α) (index : Nat) (node sib : α) : α :=
  if tIsLeft index then merge node sib else merge sib node

/-- the queue loop of `MerkleProof::root` -/
def rootLoop (merge : α → α → α) : Nat → List (Nat × α) → List α → Option α
  | 0, _, _ => none
  | _, [], _ => none
  | f + 1, (index, node) :: q, lem =>
    if index = 0 then (if lem.isEmpty && q.isEmpty then some node else none)
    else
      match takeSibling index q lem with
      | some (sib, q1, lem1) => rootLoop merge f (q1 ++ [(tParent index, mergeAt merge index node sib)]) lem1
      | none => rootLoop merge f q lem

def pFuel (q : List (Nat × α)) : Nat := (q.map (·.1 + 1)).sum + 1

/-- `pre` of `MerkleProof::root` -/
def proofPre (le : α → α → Bool) (p : MProof α) (leaves : List α) : List (Nat × α) :=
  sortBy leRev Prod.fst (p.indices.zip (sortBy le id leaves))

/-- `MerkleProof::root(leaves)` -/
def proofRoot (le : α → α → Bool) (merge : α → α → α) (p : MProof α) (leaves : List α) : Option α :=
  if leaves.length != p.indices.length || leaves.isEmpty then none
  else rootLoop merge (pFuel (proofPre le p leaves)) (proofPre le p leaves) p.lemmas

/-- `MerkleProof::verify(root, leaves)` -/
def proofVerify [DecidableEq α] (le : α → α → Bool) (merge : α → α → α) (p : MProof α) (root : α) (leaves : List α) : Bool :=
  match proofRoot le merge p leaves with
  | some r => r = root
  | none => false

/-! ## `CBMT::retrieve_leaves` -/

def retrieveLeaves (zero : α) (leaves : List α) (p : MProof α) : Option (List α) :=
  if leaves.isEmpty || p.indices.isEmpty then none
  else
    let leavesCount := leaves.length
    if p.indices.all (fun i => Nat.ble (leavesCount - 1) i && Nat.blt i ((leavesCount <<< 1) - 1)) then
      some (p.indices.map fun i => leaves.getD (i + 1 - leavesCount) zero)
    else none

end proof

/-! ## the RPC compositions (`rpc/src/module/chain.rs`) over digests -/

section rpc
variable {D : Type} [BEq D] (A : HashAlg D) (le : D → D → Bool)

/-- `get_transaction_proof`: the `proof` field for the block's tx hashes and the leaf indices of the requested
transactions (`get_tx_indices`: distinct positions inside ONE block, in HashSet order) -/
def getTxProof (txHashes : List D) (leafIndices : List Nat) : BuildRes D :=
  buildMerkleProof le (merge A) A.zero txHashes leafIndices

/-- `verify_transaction_proof` after the block lookup: `block.tx_hashes()`, `block.transactions_root()`,
the proof's `witnesses_root` and CBMT proof → the proved tx hashes, or `None` = "Invalid transaction proof" -/
def verifyTxProof (txHashes : List D) (transactionsRoot witnessesRoot : D) (p : MProof D) : Option (List D) :=
  match retrieveLeaves A.zero txHashes p with
  | none => none
  | some hs =>
    match proofRoot le (merge A) p hs with
    | none => none
    | some rawRoot => if transactionsRoot == merkleRoot A [rawRoot, witnessesRoot] then some hs else none

/-- `verify_transaction_and_witness_proof` after the block lookup -/
def verifyTxAndWitnessProof (txHashes witnessHashes : List D) (transactionsRoot : D) (pt pw : MProof D) :
    Option (List D) :=
  match retrieveLeaves A.zero witnessHashes pw with
  | none => none
  | some ws =>
    match proofRoot le (merge A) pw ws with
    | none => none
    | some witnessesRoot =>
      match retrieveLeaves A.zero txHashes pt with
      | none => none
      | some hs =>
        match proofRoot le (merge A) pt hs with
        | none => none
        | some rawRoot => if transactionsRoot == merkleRoot A [rawRoot, witnessesRoot] then some hs else none

end rpc

end CkbVerif.Hash
