import CkbVerif.Model.Cycles

/-!
C05 — the scheduler layer as an abstract deterministic state machine with whole-state
suspend/resume (`script/src/scheduler.rs`: `Scheduler::{run, iterate_outer, suspend, resume}`,
`FullSuspendedState`). Nothing of the VM is modelled: a state is opaque, one atomic step
(`iter`) either ends the run with the root VM's exit code or costs some cycles and gives the next
state. What the theorems in `Props/C05.lean` need from the real code is stated as two hypotheses on
an *observation* `R` of the state (instantiated / suspended VMs with their memory, `terminated_vms`
exit codes, pipes / fds / inherited fds, id counters): `R` determines the next step, and
`R (resume (suspend s)) = R s`. Core Lean only.
-/
namespace CkbVerif.Sched
open CkbVerif.Cycles

/-- result of one atomic scheduler step -/
inductive It (α : Type) where
  /-- the root VM terminated with this exit code -/
  | exit (code : Int)
  /-- `cost` cycles were consumed, `s` is the state after the step -/
  | next (cost : Nat) (s : α)

def It.map {α β : Type} (f : α → β) : It α → It β
  | .exit c => .exit c
  | .next k s => .next k (f s)

/-- a deterministic scheduler with whole-state suspend / resume (`σ`: live scheduler, `Susp`:
`FullSuspendedState`) -/
structure Machine (σ Susp : Type) where
  iter : σ → It σ
  suspend : σ → Susp
  resume : Susp → σ

/-- where a cycle-limited run stopped -/
inductive Stop (σ : Type) where
  | exited (code : Int)
  /-- the next step does not fit into what is left of the limit (`CyclesExceeded`) -/
  | out (s : σ)

/-- `Scheduler::run(LimitCycles(limit))`: steps are executed while they fit into the limit (relative
to this call); at most `fuel` steps. Returns the cycles consumed by this call -/
def runIt {σ Susp : Type} (m : Machine σ Susp) : Nat → σ → Nat → Nat × Stop σ
  | 0, s, _ => (0, .out s)
  | fuel + 1, s, limit =>
    match m.iter s with
    | .exit c => (0, .exited c)
    | .next k s' =>
      if k ≤ limit then
        let r := runIt m fuel s' (limit - k)
        (k + r.1, r.2)
      else (0, .out s)

/-- the trace of a state: the costs of its steps and the exit code, if the run ends within `fuel`
steps (this is the `Group` of the accounting model) -/
def trace {σ Susp : Type} (m : Machine σ Susp) : Nat → σ → List Nat × Option Int
  | 0, _ => ([], none)
  | fuel + 1, s =>
    match m.iter s with
    | .exit c => ([], some c)
    | .next k s' =>
      let r := trace m fuel s'
      (k :: r.1, r.2)

/-- the resumable API at the level of states: one `run` per limit of the list; a run that stops on
the limit is SUSPENDED and the next one starts from the RESUMED state (`chunk_run`:
`scheduler.suspend()` → `FullSuspendedState` → `Scheduler::resume`). Result: total cycles consumed
(on top of `acc`) and the exit code if the run ended -/
def driveS {σ Susp : Type} (m : Machine σ Susp) (fuel : Nat) : List Nat → σ → Nat → Nat × Option Int
  | [], _, acc => (acc, none)
  | l :: ls, s, acc =>
    match runIt m fuel s l with
    | (c, .exited code) => (acc + c, some code)
    | (c, .out s') => driveS m fuel ls (m.resume (m.suspend s')) (acc + c)

/-- the same on a bare trace, with the accounting model's `runSteps` -/
def driveT (code : Int) : List Nat → List Nat → Nat → Nat × Option Int
  | [], _, acc => (acc, none)
  | l :: ls, t, acc =>
    let r := runSteps t l
    if r.2.isEmpty then (acc + r.1, some code) else driveT code ls r.2 (acc + r.1)

end CkbVerif.Sched
