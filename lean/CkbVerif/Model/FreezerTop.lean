/-
Model of `freezer/src/freezer.rs` (`Freezer`: open / freeze / retrieve / truncate / number) on top of
the `FreezerFiles` model of `Model/Freezer.lean`, core Lean only.

Items are blocks.  What the code needs from a block is its header hash, its parent hash, the number
of transactions (for the returned map) and its serialisation; `Block` carries exactly that (plus the
header's own `number`, which the code never compares with the height it freezes the block at, and
neither does the model).

Parameters (`Cfg`), with the hypotheses `Cfg.Ok` used by every theorem and stated there:
* `cmp`/`dcmp` — the snappy switch of `FreezerFiles` (`enable_compression`; `Freezer::open` always
  builds with it ON).  `append` stores `cmp data`, `retrieve` returns `dcmp` of the stored bytes and
  an error when that fails.  Hypothesis: `dcmp (cmp x) = some x` ("decompress ∘ compress = id").
  The switch OFF is the pair `(id, some)`.
* `enc`/`dec` — `block.data()` and `packed::BlockReader::from_compatible_slice(..).to_entity()`
  followed by the `count_extra_fields() > 1` rejection and `header().into_view()` (which recomputes
  the hash from the header bytes).  Hypothesis: `dec (enc b) = some b`.
* `max` — `max_file_size` of the files layer.

What is *not* a parameter: the control flow.  `freezeLoop` is the `for number in number..threshold`
loop of `Freezer::freeze` with its four exits in the order of the code (stop flag, missing block,
parent-hash mismatch — which returns `Err` WITHOUT `sync_all` and drops the map collected so far,
although the blocks appended before stay appended — and the `append` error on a number mismatch);
`openTop` is `Freezer::open` (`FreezerFiles::open`, then `tip` from item `number - 1` iff
`number > 1`); `truncateTop` is `Freezer::truncate` with its own guard in front of the files layer's.

`sync_all` has no effect on the modelled state: durability is what the crash cut (`Freezer.applyCut`)
quantifies over — it may cut anywhere, i.e. no append is assumed durable (`Props/C09.lean`
`crash_any_cut`).

## The read-handle LRU (`FreezerFiles.files`, `open_files_limit`) cannot change an answer

The cache maps a file id to a handle opened on `file_path/blk<id>`.  Reading the code for a path on
which a cached handle could give another answer than a fresh `open_read_only(id)`:

* A handle can only go stale if the *name* `blk<id>` is re-bound to another inode or unlinked while
  the handle stays cached.  Names are unlinked only by `delete_files_by_id`, called only from
  `delete_after`, which pops exactly the ids it is about to unlink from the cache first.  No code
  path renames.  `open_truncated` (rollover) uses `create(true).truncate(true)`: on an existing
  file it empties the *same* inode (any handle on it sees the empty file), and `open_file` then
  `put`s the new handle under that id, replacing the cached one.
* Every other cache operation (`get` promoting, `put` evicting the least recently used entry,
  `release`, `release_all`) only decides *whether* `retrieve` re-opens the file; a re-open by name
  reaches the same inode by the previous point.
* The head file is written through `head.file`; its cached clone shares the cursor (`try_clone`).
  `retrieve` seeks absolutely before reading and `Head::write` seeks to the end before writing
  (this is the `fix:` commit 67f0d92, tied by corpus/C09/retrieve-then-append.ops).
* The only thing the cache content *does* decide is which files `delete_after` unlinks in
  `truncate`: a file above the new head whose handle was evicted is left on disk.  Such an orphan
  is never read: `retrieve` and `build` only open files named by index entries, all `≤ head_id`,
  and the next rollover into that id empties it (`open_truncated`).  Crash junk in a rolled head
  leaves the same kind of orphan.

This is reflected in the model as follows: `Handle.cache` is an *unconstrained* list — `HandleOk`
says nothing about it — and `truncate` deletes exactly the files above the new head that are in it.
All theorems of `Props/C09.lean` therefore hold for every cache content, i.e. for every LRU
capacity, eviction order and retrieve history; `lru_cannot_change_answers` states it explicitly:
two systems holding the same items answer every later operation identically whatever their caches
and orphan files are.  The tie exercises it on the real code: stream `top` runs with LRU capacities
2, 3 and 256 (hook `verif_set_limits`) while the model keeps every handle cached, and compares every
answer.
-/
import CkbVerif.Model.Freezer
namespace CkbVerif.FreezerTop
open CkbVerif CkbVerif.Freezer

structure Block where
  /-- `header().hash()` -/
  hash : Nat
  /-- `header().parent_hash()` -/
  parent : Nat
  /-- `header().number()`; never read by `Freezer` -/
  number : Nat
  /-- `transactions().len()` -/
  txs : Nat
  payload : Bytes
deriving Repr, DecidableEq, Inhabited

structure Cfg where
  max : Nat
  cmp : Bytes → Bytes
  dcmp : Bytes → Option Bytes
  enc : Block → Bytes
  dec : Bytes → Option Block

/-- the hypotheses on the parameters: snappy round trip and block (de)serialisation round trip -/
structure Cfg.Ok (c : Cfg) : Prop where
  snappy : ∀ x, c.dcmp (c.cmp x) = some x
  codec : ∀ b, c.dec (c.enc b) = some b

/-- the bytes `FreezerFiles::append` writes for block `b` -/
def stored (c : Cfg) (b : Block) : Bytes := c.cmp (c.enc b)

/-- `FreezerFiles::retrieve` with the compression switch: the stored range, decompressed;
    a failing decompression is an `Err` -/
def retrieveRaw (c : Cfg) (h : Handle) (d : Disk) (i : Nat) : Ret :=
  match retrieve h d i with
  | .some b =>
    match c.dcmp b with
    | some x => .some x
    | none => .err
  | .none => .none
  | .err => .err

/-- retrieve + decode as done by `Freezer::open` and `Freezer::truncate`; `none` = any of their
    error exits (retrieve `Err`, retrieve `None` = "freezer inconsistent" / `expect`, decode error,
    more than one extra field) -/
def readBlock (c : Cfg) (h : Handle) (d : Disk) (i : Nat) : Option Block :=
  match retrieveRaw c h d i with
  | .some raw => c.dec raw
  | _ => none

/-- `Freezer`: the files layer (`inner.files`, with the shared `number`) and `inner.tip` -/
structure Top where
  h : Handle
  d : Disk
  tip : Option Block

/-- `Freezer::number` -/
def Top.number (s : Top) : Nat := s.h.number

/-- `Freezer::retrieve` -/
def retrieveTop (c : Cfg) (s : Top) (i : Nat) : Ret := retrieveRaw c s.h s.d i

/-- `Freezer::open`; `none` = `Err` -/
def openTop (c : Cfg) (d : Disk) : Option Top :=
  match «open» d with
  | none => none
  | some (h, d') =>
    if h.number > 1 then
      match readBlock c h d' (h.number - 1) with
      | some b => some ⟨h, d', some b⟩
      | none => none
    else some ⟨h, d', none⟩

inductive FreezeOut where
  /-- `Ok(ret)`: (hash, number, tx count) of the blocks appended by this call, in append order
      (the Rust `BTreeMap` is keyed by hash) -/
  | ok (frozen : List (Nat × Nat × Nat))
  | err
deriving Repr, DecidableEq

/-- `if let Some(ref header) = guard.tip && header.hash() != block.header().parent_hash()`;
    `tip` = the stored tip's hash -/
def mismatch (tip : Option Nat) (b : Block) : Bool :=
  match tip with
  | some t => t != b.parent
  | none => false

/-- the `for number in number..threshold` loop of `Freezer::freeze`; `fuel` = iterations left,
    `n` = the loop variable, `acc` = `ret` -/
def freezeLoop (c : Cfg) (get : Nat → Option Block) (stopped : Nat → Bool) :
    (fuel : Nat) → (n : Nat) → Top → List (Nat × Nat × Nat) → Top × FreezeOut
  | 0, _, s, acc => (s, .ok acc)
  | fuel + 1, n, s, acc =>
    -- `if self.stopped.load(..) { sync_all; return Ok(ret) }`
    if stopped n then (s, .ok acc)
    else
      match get n with
      | none => (s, .ok acc)   -- "Freezer block missing": break, sync_all, Ok(ret)
      | some b =>
        if mismatch (s.tip.map (·.hash)) b then (s, .err)
        -- `files.append(number, raw)`: "appending unexpected block expected {} have {}"
        else if s.h.number ≠ n then (s, .err)
        else
          let r := append c.max s.h s.d (stored c b)
          freezeLoop c get stopped fuel (n + 1) ⟨r.1, r.2, some b⟩ (acc ++ [(b.hash, n, b.txs)])

/-- `Freezer::freeze(threshold, get_block_by_number)`; `stopped n` = the value the stop flag has
    when the iteration for height `n` tests it -/
def freeze (c : Cfg) (s : Top) (threshold : Nat) (get : Nat → Option Block)
    (stopped : Nat → Bool) : Top × FreezeOut :=
  freezeLoop c get stopped (threshold - s.h.number) s.h.number s []

/-- `Freezer::truncate`; `none` = `Err` (or the `expect` panic) -/
def truncateTop (c : Cfg) (s : Top) (item : Nat) : Option Top :=
  if item > 0 ∧ item + 1 < s.h.number then
    let r := truncate s.h s.d item
    match readBlock c r.1 r.2 item with
    | some b => some ⟨r.1, r.2, some b⟩
    | none => none
  else some s

/-! ### concurrent use as it exists (round 6)

`Freezer` is `Clone` (the state is behind `Arc<Mutex<Inner>>`, `number` is a shared atomic) and both
`freeze` and `truncate` read `self.number()` BEFORE taking the lock:

* `freeze`:   `let number = self.number(); let mut guard = self.inner.lock(); for number in number..threshold`
* `truncate`: `if item > 0 && item + 1 < self.number() { let mut inner = self.inner.lock(); … }`

so any whole operations of other threads may run between the read and the lock.  The body under the
lock is atomic.  `freezeFrom` / `truncateFrom` are the two operations with the pre-lock read as an
explicit parameter `n0` (ANY value: whatever `number` was at some earlier moment); `freeze` and
`truncateTop` are the instances `n0 = number under the lock`. -/

/-- `Freezer::freeze` whose `let number = self.number()` returned `n0` -/
def freezeFrom (c : Cfg) (s : Top) (n0 threshold : Nat) (get : Nat → Option Block)
    (stopped : Nat → Bool) : Top × FreezeOut :=
  freezeLoop c get stopped (threshold - n0) n0 s []

/-- `Freezer::truncate` whose guard `item + 1 < self.number()` was evaluated on `n0`; under the lock
    `FreezerFiles::truncate` re-tests its own guard on the current number, then `retrieve(item)` is
    `expect`ed to be there.  `none` = `Err` or that `expect` panicking. -/
def truncateFrom (c : Cfg) (s : Top) (n0 item : Nat) : Option Top :=
  if item > 0 ∧ item + 1 < n0 then
    let r := truncate s.h s.d item
    match readBlock c r.1 r.2 item with
    | some b => some ⟨r.1, r.2, some b⟩
    | none => none
  else some s

/-! ### the `Freezer` layer with the exact read-handle LRU (round 6, second increment)

The same operations with `Handle.cache` maintained as the real `LruCache` does (`openL`, `appendL`,
`truncateL`, `retrieveCache` of `Model/Freezer.lean`, capacity `cap`).  `Freezer::open` and
`Freezer::truncate` call `files.retrieve` for the tip block, which promotes / inserts that file's
handle.  The `top` driver runs these; stream `top` compares `Freezer::verif_cached_ids`. -/

def withCache (h : Handle) (c : List Nat) : Handle := { h with cache := c }

/-- `Freezer::retrieve` with the cache it leaves -/
def retrieveTopL (cap : Nat) (c : Cfg) (s : Top) (i : Nat) : Top × Ret :=
  (⟨withCache s.h (retrieveCache cap s.h s.d i), s.d, s.tip⟩, retrieveRaw c s.h s.d i)

/-- `Freezer::open` -/
def openTopL (cap : Nat) (c : Cfg) (d : Disk) : Option Top :=
  match openL cap d with
  | none => none
  | some (h, d') =>
    if h.number > 1 then
      match readBlock c h d' (h.number - 1) with
      | some b => some ⟨withCache h (retrieveCache cap h d' (h.number - 1)), d', some b⟩
      | none => none
    else some ⟨h, d', none⟩

/-- the freeze loop with `appendL` -/
def freezeLoopL (cap : Nat) (c : Cfg) (get : Nat → Option Block) (stopped : Nat → Bool) :
    (fuel : Nat) → (n : Nat) → Top → List (Nat × Nat × Nat) → Top × FreezeOut
  | 0, _, s, acc => (s, .ok acc)
  | fuel + 1, n, s, acc =>
    if stopped n then (s, .ok acc)
    else
      match get n with
      | none => (s, .ok acc)
      | some b =>
        if mismatch (s.tip.map (·.hash)) b then (s, .err)
        else if s.h.number ≠ n then (s, .err)
        else
          let r := appendL cap c.max s.h s.d (stored c b)
          freezeLoopL cap c get stopped fuel (n + 1) ⟨r.1, r.2, some b⟩ (acc ++ [(b.hash, n, b.txs)])

/-- `Freezer::freeze` whose pre-lock read of `number` returned `n0` -/
def freezeFromL (cap : Nat) (c : Cfg) (s : Top) (n0 threshold : Nat) (get : Nat → Option Block)
    (stopped : Nat → Bool) : Top × FreezeOut :=
  freezeLoopL cap c get stopped (threshold - n0) n0 s []

def freezeL (cap : Nat) (c : Cfg) (s : Top) (threshold : Nat) (get : Nat → Option Block)
    (stopped : Nat → Bool) : Top × FreezeOut :=
  freezeFromL cap c s s.h.number threshold get stopped

/-- `Freezer::truncate` whose guard read `n0` -/
def truncateFromL (cap : Nat) (c : Cfg) (s : Top) (n0 item : Nat) : Option Top :=
  if item > 0 ∧ item + 1 < n0 then
    let r := truncateL cap s.h s.d item
    match readBlock c r.1 r.2 item with
    | some b => some ⟨withCache r.1 (retrieveCache cap r.1 r.2 item), r.2, some b⟩
    | none => none
  else some s

def truncateTopL (cap : Nat) (c : Cfg) (s : Top) (item : Nat) : Option Top :=
  truncateFromL cap c s s.h.number item

/-- a crash (index file cut to `il` bytes, head data file to `fl` bytes / removed) followed by
    `Freezer::open` -/
def crashOpen (c : Cfg) (s : Top) (il : Nat) (fl : Option Nat) : Option Top :=
  openTop c (applyCut s.d il s.h.headId fl)

end CkbVerif.FreezerTop
