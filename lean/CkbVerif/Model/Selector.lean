import CkbVerif.Gen.Template

/-!
# `TxSelector::txs_to_commit` (tx-pool/src/component/tx_selector.rs) over an abstract pool view

The model follows the Rust loop statement by statement:

* `sorted_proposed_iter()` = the pool's `score` index walked backwards (`iter_by_score().rev()`):
  descending stored key, equal keys in descending slab index (multi_index_map keeps a
  `BTreeSet<usize>` of slab indices per key); filtered by status = Proposed and by
  `ancestors_size ≤ size_limit ∧ ancestors_cycles ≤ cycles_limit`.
* `modified_entries` = a map id ↦ modified copy of the entry; `next_best_entry` = the largest by
  `AncestorsScoreSortKey` (recomputed from the entry).
* the loop: skip test on the peeked pool entry, choice between pool entry and best modified entry
  (`&best_modified > entry`, strict), admission `size + ancestors_size ≤ limit` (and cycles) using
  the *maintained* aggregates, `calc_ancestors`, "all ancestors proposed", the unfetched ancestors
  sorted by their (possibly modified) `ancestors_count`, then the tx itself, `fetched_txs`,
  `update_modified_entries`, `failed_txs`, `MAX_CONSECUTIVE_FAILURES` (the counter is never reset
  in the code; neither here).

Nondeterminism of the implementation (it iterates `HashSet`s with a random hasher): (a) the order
of ancestors with equal `ancestors_count` after `sort_unstable_by_key`, (b) which of several
modified entries with *equal* score key is `next_best_entry` (their slab slots depend on
`HashSet` iteration order). Both are resolved by a rank `tie : id → Nat` that is part of the view
(the harness supplies the position of the transaction in the implementation's own output). The
theorems hold for every `tie`.

`usize`/`u64` `saturating_add` is modelled by `+` on `Nat` (assumption: the sums of sizes, cycles
and fees of a pool stay below 2^64); `saturating_sub` is `Nat` subtraction (exact).

Ancestor/descendant sets are a parameter of the view (`anc`, `desc`); `View.ofLinks` computes them
from the dumped parent/child links with the code's work-list closure (`calc_relation_ids`).
Core Lean only.
-/

namespace CkbVerif.Selector

/-! ## `get_transaction_weight` (util/types/src/core/tx_pool.rs), exact IEEE-754 double arithmetic -/

/-- round-half-even of n / d -/
def roundHalfEven (n d : Nat) : Nat :=
  let q := n / d
  let r := n % d
  if 2 * r > d then q + 1 else if 2 * r < d then q else if q % 2 = 0 then q else q + 1

/-- number of binary digits -/
def bits (n : Nat) : Nat := if n = 0 then 0 else n.log2 + 1

/-- round a natural to 53 significant bits, half-even: result `(m, sh)` stands for `m * 2^sh` -/
def round53 (n : Nat) : Nat × Nat :=
  let b := bits n
  if b ≤ 53 then (n, 0) else
    let sh := b - 53
    let q := n >>> sh
    let r := n % 2 ^ sh
    let half := 2 ^ (sh - 1)
    let q' := if r > half then q + 1 else if r < half then q else if q % 2 = 0 then q else q + 1
    (q', sh)

/-- binary exponent E with 2^52 ≤ c·2^E < 2^53 for c = BYTES_PER_CYCLES_E10 / 10^10 -/
def cExpAux (num den : Nat) : Nat → Nat → Nat
  | 0, e => e
  | fuel + 1, e => if num * 2 ^ e ≥ 2 ^ 52 * den then e else cExpAux num den fuel (e + 1)

def cDen : Nat := 10000000000
def cExp : Nat := cExpAux Gen.Template.BYTES_PER_CYCLES_E10 cDen 200 0
/-- mantissa of the double nearest to `DEFAULT_BYTES_PER_CYCLES` (the literal is parsed correctly rounded) -/
def cMant : Nat := roundHalfEven (Gen.Template.BYTES_PER_CYCLES_E10 * 2 ^ cExp) cDen

/-- `(cycles as f64 * DEFAULT_BYTES_PER_CYCLES) as u64` -/
def cyclesWeight (cycles : Nat) : Nat :=
  let (m1, e1) := round53 cycles            -- `cycles as f64`
  let (m, sh) := round53 (m1 * cMant)        -- the product, rounded once
  let up := sh + e1                          -- value = m * 2^(up - cExp)
  let v := if up ≥ cExp then m <<< (up - cExp) else m >>> (cExp - up)
  min v (2 ^ 64 - 1)                         -- float → u64 casts saturate

def weight (size cycles : Nat) : Nat := max size (cyclesWeight cycles)

/-! ## entries, keys -/

/-- the part of `TxEntry` the selector reads -/
structure Entry where
  id : Nat
  size : Nat
  cycles : Nat
  fee : Nat
  ancCount : Nat
  ancSize : Nat
  ancCycles : Nat
  ancFee : Nat
deriving DecidableEq, Repr, Inhabited

/-- `AncestorsScoreSortKey` -/
structure Key where
  fee : Nat
  weight : Nat
  ancFee : Nat
  ancWeight : Nat
deriving DecidableEq, Repr, Inhabited

def Entry.key (e : Entry) : Key :=
  ⟨e.fee, weight e.size e.cycles, e.ancFee, weight e.ancSize e.ancCycles⟩

/-- `min_fee_and_weight` as it was before /repo's sort-key repair (F35): a pair with `ancestors_weight = 0`
    (stale aggregates saturated to zero) could be selected -/
def Key.minFeeWeightPreF35 (k : Key) : Nat × Nat :=
  if k.fee * k.ancWeight < k.ancFee * k.weight then (k.fee, k.weight) else (k.ancFee, k.ancWeight)

/-- `impl Ord for AncestorsScoreSortKey` before the repair -/
def Key.cmpPreF35 (a b : Key) : Ordering :=
  let (f, w) := a.minFeeWeightPreF35
  let (f', w') := b.minFeeWeightPreF35
  let l := f * w'
  let r := f' * w
  if l = r then compare a.ancWeight b.ancWeight else compare l r

/-- `min_fee_and_weight` (repaired: a zero-weight ancestors pair is never selected) -/
def Key.minFeeWeight (k : Key) : Nat × Nat :=
  if k.ancWeight = 0 ∨ k.fee * k.ancWeight < k.ancFee * k.weight then (k.fee, k.weight) else (k.ancFee, k.ancWeight)

/-- `impl Ord for AncestorsScoreSortKey` -/
def Key.cmp (a b : Key) : Ordering :=
  let (f, w) := a.minFeeWeight
  let (f', w') := b.minFeeWeight
  let l := f * w'
  let r := f' * w
  if l = r then compare a.ancWeight b.ancWeight else compare l r

/-- `sub_ancestor_weight` -/
def Entry.subAnc (d p : Entry) : Entry :=
  { d with ancCount := d.ancCount - 1, ancSize := d.ancSize - p.size,
           ancCycles := d.ancCycles - p.cycles, ancFee := d.ancFee - p.fee }

/-! ## the pool view -/

structure PEntry where
  e : Entry
  proposed : Bool
  /-- the stored `score` index key of the `PoolEntry` -/
  key : Key
  parents : List Nat
  children : List Nat
deriving Repr, Inhabited

structure View where
  /-- pool entries in slab order (ascending slab index) -/
  ents : List PEntry
  /-- `pool_map.calc_ancestors` -/
  anc : Nat → List Nat
  /-- `pool_map.calc_descendants` -/
  desc : Nat → List Nat
  /-- resolution of the implementation's `HashSet`-order nondeterminism (see header) -/
  tie : Nat → Nat

def View.get (v : View) (id : Nat) : Option PEntry := v.ents.find? (·.e.id == id)

/-- `pool_map.get_proposed` -/
def View.getProposed (v : View) (id : Nat) : Option Entry :=
  match v.get id with
  | some p => if p.proposed then some p.e else none
  | none => none

def View.hasProposed (v : View) (id : Nat) : Bool := (v.getProposed id).isSome

/-! ### `TxLinksMap::calc_relation_ids` -/

/-- work-list closure: `stage` = ids still to expand, `acc` = `relation_ids`. Each round moves one
    id from `stage` to `acc` and stages its direct relatives not yet in `acc` (the code also skips
    nothing else; re-staging an id already staged is idempotent in a set). Fuel bounds the number of
    rounds (each round adds a new id to `acc`; `|links|+1` rounds suffice). -/
def closure (direct : Nat → List Nat) : Nat → List Nat → List Nat → List Nat
  | 0, _, acc => acc
  | _ + 1, [], acc => acc
  | fuel + 1, id :: stage, acc =>
    if acc.contains id then closure direct fuel stage acc else
    let new := (direct id).filter (fun d => !acc.contains d && !stage.contains d && d != id)
    closure direct fuel (stage ++ new) (acc ++ [id])

def directOf (ents : List PEntry) (par : Bool) (id : Nat) : List Nat :=
  match ents.find? (·.e.id == id) with
  | some p => if par then p.parents else p.children
  | none => []

def closureOf (ents : List PEntry) (par : Bool) (id : Nat) : List Nat :=
  let fuel := ents.length + (ents.foldl (fun n p => n + p.parents.length + p.children.length) 0) + 1
  closure (directOf ents par) fuel ((directOf ents par id).eraseDups) []

def View.ofLinks (ents : List PEntry) (tie : Nat → Nat) : View :=
  { ents, anc := closureOf ents true, desc := closureOf ents false, tie }

/-! ### `sorted_proposed_iter` -/

/-- does `a` (slab index `i`) come before `b` (slab index `j`) in `iter_by_score().rev()` -/
def iterBefore (a : PEntry × Nat) (b : PEntry × Nat) : Bool :=
  match Key.cmp a.1.key b.1.key with
  | .gt => true
  | .lt => false
  | .eq => a.2 > b.2

def insertBy {α} (before : α → α → Bool) (x : α) : List α → List α
  | [] => [x]
  | y :: ys => if before x y then x :: y :: ys else y :: insertBy before x ys

def sortBy {α} (before : α → α → Bool) (l : List α) : List α :=
  l.foldr (insertBy before) []

def View.sortedProposed (v : View) (sizeLimit cyclesLimit : Nat) : List Entry :=
  let idx := v.ents.zipIdx
  ((sortBy iterBefore idx).filter fun p =>
      p.1.proposed && (p.1.e.ancSize ≤ sizeLimit && p.1.e.ancCycles ≤ cyclesLimit)).map (·.1.e)

/-! ## `modified_entries` -/

abbrev Mod := List Entry

def Mod.get (m : Mod) (id : Nat) : Option Entry := m.find? (·.id == id)
def Mod.remove (m : Mod) (id : Nat) : Mod := m.filter (·.id != id)
def Mod.insert (m : Mod) (e : Entry) : Mod := e :: m

/-- is `a` a better `next_best_entry` than `b` -/
def modBetter (tie : Nat → Nat) (a b : Entry) : Bool :=
  match Key.cmp a.key b.key with
  | .gt => true
  | .lt => false
  | .eq => tie a.id < tie b.id

def Mod.best (tie : Nat → Nat) : Mod → Option Entry
  | [] => none
  | e :: m =>
    match Mod.best tie m with
    | none => some e
    | some b => if modBetter tie e b then some e else some b

/-! ## the loop -/

structure St where
  size : Nat := 0
  cycles : Nat := 0
  failures : Nat := 0
  iter : List Entry := []
  mod : Mod := []
  fetched : List Nat := []
  failed : List Nat := []
  out : List Entry := []
deriving Repr, Inhabited

/-- `skip_proposed_entry` -/
def St.skip (s : St) (id : Nat) : Bool :=
  s.fetched.contains id || (s.mod.get id).isSome || s.failed.contains id

/-- `retrieve_entry` -/
def retrieve (v : View) (m : Mod) (id : Nat) : Option Entry :=
  match m.get id with
  | some e => some e
  | none => v.getProposed id

/-- one element of the package loop `for (short_id, entry) in &ancestors` -/
def push (s : St) (e : Entry) : St :=
  if s.fetched.contains e.id then s else
  { s with fetched := e.id :: s.fetched, cycles := s.cycles + e.cycles, size := s.size + e.size,
           out := s.out ++ [e], mod := s.mod.remove e.id }

/-- inner loop of `update_modified_entries` for one added entry `p` -/
def updateOne (v : View) (keys : List Nat) (m : Mod) (p : Entry) : Mod :=
  (v.desc p.id).foldl (fun m d =>
    if keys.contains d || !v.hasProposed d then m else
    match m.get d with
    | some old => (m.remove d).insert (old.subAnc p)
    | none =>
      match v.get d with
      | some pe => m.insert (pe.e.subAnc p)
      | none => m) m

def updateModified (v : View) (pkg : List Entry) (m : Mod) : Mod :=
  pkg.foldl (updateOne v (pkg.map (·.id))) m

/-- `ancestors.sort_unstable_by_key(|e| e.ancestors_count)` with ties resolved by `tie` -/
def countBefore (tie : Nat → Nat) (a b : Entry) : Bool :=
  a.ancCount < b.ancCount || (a.ancCount == b.ancCount && tie a.id < tie b.id)

/-- the failure branch shared by the two admission tests -/
def fail (s : St) (iter' : List Entry) (tx : Entry) (usingModified : Bool) : St × Bool :=
  let s1 := { s with iter := iter', failures := s.failures + 1 }
  let s2 := if usingModified then
      { s1 with mod := s1.mod.remove tx.id, failed := tx.id :: s1.failed } else s1
  (s2, !(s2.failures > Gen.Template.MAX_CONSECUTIVE_FAILURES))

/-- the ordered package: unfetched ancestors sorted by count, then the tx (a `LinkedHashMap`, so a
    key equal to the tx's own id is kept only at the back) -/
def package (v : View) (s : St) (tx : Entry) : List Entry :=
  let ancs := (v.anc tx.id).filterMap fun id =>
    if s.fetched.contains id then none else retrieve v s.mod id
  ((sortBy (countBefore v.tie) ancs).filter (·.id != tx.id)) ++ [tx]

/-- one evaluation of the loop body; the flag says whether the loop continues -/
def step (v : View) (sizeLimit cyclesLimit : Nat) (s : St) : St × Bool :=
  match s.iter with
  | e :: rest =>
    if s.skip e.id then ({ s with iter := rest }, true) else
    let (tx, usingModified, iter') : Entry × Bool × List Entry :=
      match Mod.best v.tie s.mod with
      | some bm => if Key.cmp bm.key e.key == .gt then (bm, true, s.iter) else (e, false, rest)
      | none => (e, false, rest)
    body tx usingModified iter'
  | [] =>
    match Mod.best v.tie s.mod with
    | some bm => body bm true []
    | none => (s, false)
where
  body (tx : Entry) (usingModified : Bool) (iter' : List Entry) : St × Bool :=
    if s.cycles + tx.ancCycles > cyclesLimit || s.size + tx.ancSize > sizeLimit then
      fail s iter' tx usingModified
    else if (v.anc tx.id).any (fun id => !v.hasProposed id) then
      fail s iter' tx usingModified
    else
      let pkg := package v s tx
      let s1 := pkg.foldl push { s with iter := iter' }
      ({ s1 with mod := updateModified v pkg s1.mod }, true)

def run (v : View) (sizeLimit cyclesLimit : Nat) : Nat → St → St
  | 0, s => s
  | fuel + 1, s =>
    match step v sizeLimit cyclesLimit s with
    | (s', true) => run v sizeLimit cyclesLimit fuel s'
    | (s', false) => s'

def initSt (v : View) (sizeLimit cyclesLimit : Nat) : St :=
  { iter := v.sortedProposed sizeLimit cyclesLimit }

/-- enough rounds: every round either consumes an iterator element, or fails (at most
    MAX_CONSECUTIVE_FAILURES+1 times), or fetches at least one new entry -/
def fuelFor (v : View) : Nat := 2 * v.ents.length + Gen.Template.MAX_CONSECUTIVE_FAILURES + 8

/-- `txs_to_commit`: (entries, size, cycles) -/
def txsToCommit (v : View) (sizeLimit cyclesLimit : Nat) : St :=
  run v sizeLimit cyclesLimit (fuelFor v) (initSt v sizeLimit cyclesLimit)

end CkbVerif.Selector

/-! ## pool invariants the theorems refer to (decidable; the driver evaluates them on every dumped view) -/

namespace CkbVerif.Selector

def View.ids (v : View) : List Nat := v.ents.map (·.e.id)

def View.sizeOf (v : View) (id : Nat) : Nat := match v.get id with | some p => p.e.size | none => 0
def View.cyclesOf (v : View) (id : Nat) : Nat := match v.get id with | some p => p.e.cycles | none => 0
def View.feeOf (v : View) (id : Nat) : Nat := match v.get id with | some p => p.e.fee | none => 0

def sumBy (f : Nat → Nat) (l : List Nat) : Nat := (l.map f).sum

/-- ids are unique; ancestor lists are duplicate-free, transitively closed and consist of pool
    entries; every listed descendant has the entry among its ancestors; descendant lists are
    duplicate-free -/
def LinksOk (v : View) : Prop :=
  v.ids.Nodup ∧
  (∀ x ∈ v.ids, (v.anc x).Nodup) ∧
  (∀ x ∈ v.ids, ∀ a ∈ v.anc x, a ∈ v.ids) ∧
  (∀ x ∈ v.ids, ∀ a ∈ v.anc x, ∀ b ∈ v.anc a, b ∈ v.anc x) ∧
  (∀ p ∈ v.ids, ∀ d ∈ v.desc p, p ∈ v.anc d) ∧
  (∀ p ∈ v.ids, (v.desc p).Nodup)

instance (v : View) : Decidable (LinksOk v) := by unfold LinksOk; infer_instance

/-- links are acyclic, direct parents are ancestors, and `desc` is exactly the inverse of `anc` -/
def LinksExact (v : View) : Prop :=
  (∀ x ∈ v.ids, x ∉ v.anc x) ∧
  (∀ pe ∈ v.ents, ∀ p ∈ pe.parents, p ∈ v.anc pe.e.id) ∧
  (∀ d ∈ v.ids, ∀ p ∈ v.anc d, d ∈ v.desc p)

instance (v : View) : Decidable (LinksExact v) := by unfold LinksExact; infer_instance

/-- the maintained `ancestors_size/cycles` are not smaller than the recomputation (what admission needs) -/
def AggGe (v : View) : Prop :=
  ∀ pe ∈ v.ents,
    pe.e.size + sumBy v.sizeOf (v.anc pe.e.id) ≤ pe.e.ancSize ∧
    pe.e.cycles + sumBy v.cyclesOf (v.anc pe.e.id) ≤ pe.e.ancCycles

instance (v : View) : Decidable (AggGe v) := by unfold AggGe; infer_instance

/-- the maintained aggregates equal the recomputation -/
def AggExact (v : View) : Prop :=
  ∀ pe ∈ v.ents,
    pe.e.ancCount = (v.anc pe.e.id).length + 1 ∧
    pe.e.ancSize = pe.e.size + sumBy v.sizeOf (v.anc pe.e.id) ∧
    pe.e.ancCycles = pe.e.cycles + sumBy v.cyclesOf (v.anc pe.e.id) ∧
    pe.e.ancFee = pe.e.fee + sumBy v.feeOf (v.anc pe.e.id)

instance (v : View) : Decidable (AggExact v) := by unfold AggExact; infer_instance

/-- the stored index key is the key of the stored entry -/
def KeysOk (v : View) : Prop := ∀ pe ∈ v.ents, pe.key = pe.e.key

instance (v : View) : Decidable (KeysOk v) := by unfold KeysOk; infer_instance

end CkbVerif.Selector
