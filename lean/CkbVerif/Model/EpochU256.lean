import CkbVerif.Model.Epoch

/-!
C07 — the `numext_fixed_uint::U256` operations the difficulty / epoch code relies on
(numext-constructor 0.1.6, `fixed_uint/core/{builtin/std_ops.rs, internal/public_math.rs,
internal/public_basic.rs}`), as functions on `Nat` with the 256-bit range made explicit.

`Model/Epoch.lean` uses the value semantics directly (`chk256 (a * b)`, `a / b`, `Nat.gcd`, `% U256`);
this file states what each U256 operation computes so that the harness can compare the real
operations one by one (ops `u…` of the `epoch` stream), and models `U256::gcd` as the code is written
(Stein's binary algorithm: strip common factors of two, then subtract-and-shift) so that
`gcd = Nat.gcd` is a theorem (`Lemmas/EpochU256.lean`) instead of an assumption.

All arguments are `< 2^256` (the harness parses them into `U256`).  `none` = the operation panics.
-/
namespace CkbVerif.Epoch.U256
open CkbVerif.Arith

/-- `Add for U256`: `overflowing_add`, panics on overflow -/
def add (a b : Nat) : Option Nat := chk256 (a + b)
/-- `Sub for U256`: panics on underflow -/
def sub (a b : Nat) : Option Nat := subChk a b
/-- `Mul for U256`: `overflowing_mul`, panics on overflow -/
def mul (a b : Nat) : Option Nat := chk256 (a * b)
/-- `Div for U256`: panics on a zero divisor -/
def div (a b : Nat) : Option Nat := divChk a b
/-- `Rem for U256` -/
def rem (a b : Nat) : Option Nat := modChk a b
/-- `Shl<u32>`-style shifts: bits shifted beyond 256 are dropped, a shift of 256 or more gives 0 -/
def shl (a k : Nat) : Nat := (a * 2 ^ k) % U256
def shr (a k : Nat) : Nat := a / 2 ^ k
/-- `leading_zeros` -/
def leadingZeros (a : Nat) : Nat := 256 - bitLen a
/-- `u256_low_u64` (spec/src/consensus.rs): the lowest limb -/
def low64 (a : Nat) : Nat := a % U64
/-- `overflowing_mul`: wrapped product and flag -/
def overflowingMul (a b : Nat) : Nat × Bool := ((a * b) % U256, decide (a * b ≥ U256))
/-- `checked_mul` / `saturating_mul` -/
def saturatingMul (a b : Nat) : Nat := if a * b < U256 then a * b else U256 - 1

/-- `trailing_zeros` (256 for zero) -/
def tz (n : Nat) : Nat :=
  if n = 0 then 256 else if n % 2 = 1 then 0 else tz (n / 2) + 1
termination_by n
decreasing_by omega

/-- `x >>= x.trailing_zeros()` for a non-zero `x` -/
def oddPart (n : Nat) : Nat := n / 2 ^ tz n

/-- the `while !m.is_zero()` loop of `gcd`: `m >>= m.trailing_zeros(); if n > m { swap(n, m) }; m -= n`.
`fuel` bounds the number of iterations (the caller passes `m + n`, which the loop never exhausts:
`steinLoop_eq_gcd`). -/
def steinLoop : Nat → Nat → Nat → Nat
  | 0, _, n => n
  | fuel + 1, m, n =>
    if m = 0 then n else
      let m1 := oddPart m
      if n > m1 then steinLoop fuel (n - m1) m1
      else steinLoop fuel (m1 - n) n

/-- `U256::gcd` (Stein's algorithm as written in `public_math.rs`) -/
def gcd (a b : Nat) : Nat :=
  if a = 0 then b
  else if b = 0 then a
  else
    let shift := min (tz a) (tz b)
    let n := oddPart b
    shl (steinLoop (a + n) a n) shift

end CkbVerif.Epoch.U256
