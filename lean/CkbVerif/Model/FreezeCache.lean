/-
The store's read caches (`store/src/cache.rs` `StoreCache`: headers, block_uncles, block_proposals,
block_tx_hashes, block_extensions) in front of the accessors of `Model/Freeze.lean`.  Core Lean only.

Sources followed: `store/src/store.rs` — `get_block_header` (cache, else the row, a found header is
cached), `get_frozen_block` (= `get_block_header` — through the cache! — then
`get_frozen_block_by_header`), `get_block_body` (rows; when empty the frozen block; no cache of its
own), `get_block_txs_hashes` (cache; rows; when empty the frozen block; only a non-empty answer is
cached), `get_block_uncles` / `get_block_proposal_txs_ids` / `get_block_extension` (cache; row; else
the frozen block; a positive answer is cached), `get_cellbase` (row, else the frozen block),
`get_block` (header through the cache, `get_frozen_block_by_header`, body, `expect` on uncles and on
proposals, extension), `get_packed_block` (`get_frozen_block`, RAW header row, RAW body rows, uncles
`?`, proposals `?`, extension).  Neither `delete_block_body` nor `delete_block`
(`store/src/write_batch.rs`, what `wipe_out_frozen_data` calls) touches a cache: entries outlive the
rows they were read from.

A cache is keyed by block hash and holds the part of THE block with that hash (the row and the
frozen item that passed the hash test are both that block), so a cache is the set of ids it has an
entry for and the cached value of `id` is the part of `bodies id`.  LRU eviction is not modelled as a
step: the theorems hold for EVERY cache content (so for every eviction history); the driver's
`probe` answers assume no eviction between `restart` and `probe` (the harness touches < 30 blocks).
-/
import CkbVerif.Model.Freeze
namespace CkbVerif.FreezeCache
open CkbVerif.Store CkbVerif.Freeze

structure Caches where
  hdr : List Nat := []
  unc : List Nat := []
  prop : List Nat := []
  txh : List Nat := []
  ext : List Nat := []
deriving Repr, DecidableEq

def put (l : List Nat) (id : Nat) : List Nat := if l.contains id then l else id :: l

/-- `get_block_header`: the cache first; a header found in the row is cached -/
def hdrC (s : FS) (c : Caches) (id : Nat) : Option Block × Caches :=
  if c.hdr.contains id then (s.v.r.bodies id, c)
  else if s.hdr id then
    match s.v.r.bodies id with
    | some b => (some b, { c with hdr := put c.hdr id })
    | none => (none, c)
  else (none, c)

/-- `get_frozen_block_by_header(header)` for the header of block `id` -/
def frozenByHeader (s : FS) (id : Nat) (h : Block) : Option Block :=
  if 0 < h.number && h.number < frozenNumber s then
    match s.frozen[h.number - 1]? with
    | some fb => if fb.id = id then some fb else none
    | none => none
  else none

/-- `get_frozen_block(hash)`: the header THROUGH THE CACHE, then the freezer -/
def frozenC (s : FS) (c : Caches) (id : Nat) : Option Block × Caches :=
  match hdrC s c id with
  | (some h, c1) => (frozenByHeader s id h, c1)
  | (none, c1) => (none, c1)

/-- the body rows (`COLUMN_BLOCK_BODY` prefix scan) -/
def bodyRows (s : FS) (id : Nat) : List Tx :=
  if s.body id then ((s.v.r.bodies id).map (·.txs)).getD [] else []

/-- `get_block_body` -/
def bodyC (s : FS) (c : Caches) (id : Nat) : List Tx × Caches :=
  let rows := bodyRows s id
  if rows.isEmpty then
    match frozenC s c id with
    | (some fb, c1) => (fb.txs, c1)
    | (none, c1) => (rows, c1)
  else (rows, c)

/-- `get_block_txs_hashes` -/
def txhC (s : FS) (c : Caches) (id : Nat) : List Nat × Caches :=
  if c.txh.contains id then ((((s.v.r.bodies id).map (·.txs)).getD []).map (·.id), c)
  else
    let r := bodyC s c id
    (r.1.map (·.id), if r.1.isEmpty then r.2 else { r.2 with txh := put r.2.txh id })

/-- a row of the block (`COLUMN_BLOCK_UNCLE` / `_PROPOSAL_IDS` / `_EXTENSION`), else the frozen block -/
def rowOrFrozen (s : FS) (c : Caches) (id : Nat) : Option Block × Caches :=
  if s.body id then (s.v.r.bodies id, c) else frozenC s c id

/-- `get_block_uncles` -/
def unclesC (s : FS) (c : Caches) (id : Nat) : Option Block × Caches :=
  if c.unc.contains id then (s.v.r.bodies id, c)
  else
    match rowOrFrozen s c id with
    | (some b, c1) => (some b, { c1 with unc := put c1.unc id })
    | (none, c1) => (none, c1)

/-- `get_block_proposal_txs_ids` -/
def proposalsC (s : FS) (c : Caches) (id : Nat) : Option Block × Caches :=
  if c.prop.contains id then (s.v.r.bodies id, c)
  else
    match rowOrFrozen s c id with
    | (some b, c1) => (some b, { c1 with prop := put c1.prop id })
    | (none, c1) => (none, c1)

/-- `get_block_extension` (of a block that carries one: every block but genesis) -/
def extC (s : FS) (c : Caches) (id : Nat) : Option Block × Caches :=
  if c.ext.contains id then (s.v.r.bodies id, c)
  else
    match rowOrFrozen s c id with
    | (some b, c1) => (some b, { c1 with ext := put c1.ext id })
    | (none, c1) => (none, c1)

/-- `get_cellbase` -/
def cellbaseC (s : FS) (c : Caches) (id : Nat) : Option Tx × Caches :=
  match (bodyRows s id).head? with
  | some t => (some t, c)
  | none =>
    match frozenC s c id with
    | (some fb, c1) => (fb.txs.head?, c1)
    | (none, c1) => (none, c1)

/-- what `get_block` / `get_packed_block` assembled: the block whose header answered, the
transactions actually put into it, and whether an extension was put into it -/
structure Got where
  blk : Block
  txs : List Tx
  ext : Bool
deriving Repr, DecidableEq

/-- the answer is the whole block -/
def Got.whole (g : Got) : Bool := g.txs == g.blk.txs && g.ext

/-- `get_block` -/
def blockC (s : FS) (c : Caches) (id : Nat) : Ans Got × Caches :=
  match hdrC s c id with
  | (none, c1) => (.none, c1)
  | (some h, c1) =>
    match frozenByHeader s id h with
    | some fb => (.some ⟨fb, fb.txs, true⟩, c1)
    | none =>
      let b := bodyC s c1 id
      match unclesC s b.2 id with
      | (none, c3) => (.panic, c3)          -- expect("block uncles must be stored")
      | (some _, c3) =>
        match proposalsC s c3 id with
        | (none, c4) => (.panic, c4)        -- expect("block proposal_ids must be stored")
        | (some _, c4) =>
          let e := extC s c4 id
          (.some ⟨h, b.1, e.1.isSome⟩, e.2)

/-- `get_packed_block` -/
def packedC (s : FS) (c : Caches) (id : Nat) : Option Got × Caches :=
  match frozenC s c id with
  | (some fb, c1) => (some ⟨fb, fb.txs, true⟩, c1)
  | (none, c1) =>
    if !s.hdr id then (none, c1) else
    match s.v.r.bodies id with
    | none => (none, c1)
    | some h =>
      match unclesC s c1 id with
      | (none, c2) => (none, c2)
      | (some _, c2) =>
        match proposalsC s c2 id with
        | (none, c3) => (none, c3)
        | (some _, c3) =>
          let e := extC s c3 id
          (some ⟨h, bodyRows s id, e.1.isSome⟩, e.2)

end CkbVerif.FreezeCache
