/-!
# `_update_tx_pool_for_reorg` (tx-pool/src/process.rs) on the entries that were pooled before

Abstract pool: entries with id, stage, spent out-points, cell-dep out-points, header deps and the
descendant set `calc_descendants` gave before the update (out-points, headers and ids are opaque
numbers). The function follows the order of the Rust code:
`remove_committed_txs` (per attached tx: `remove_entry` of the tx itself, then `resolve_conflict`:
the pooled spender of each of its inputs and every pooled tx having that input as a cell dep go,
with their descendants), `resolve_conflict_header_dep` (entries with a detached header dep, with
descendants), `remove_by_detached_proposal` (non-pending entries with a detached proposal id go back
to pending together with their descendants), the mine-mode stage moves (gap → proposed, pending →
proposed | gap, by the new snapshot's proposal view), `remove_expired` (each expired entry goes
with its descendants — `remove_entry_and_descendants`, as repaired by /repo 3724ae4; `updatePreF5` keeps
the earlier `remove_entry`-only behaviour for the witness theorem). Re-adding detached transactions and `limit_size` are outside this model (the harness
checks them with the implementation-only oracle). Core Lean only.
-/
namespace CkbVerif.Reorg

structure PEnt where
  id : Nat
  /-- 0 pending, 1 gap, 2 proposed -/
  status : Nat
  spent : List Nat
  deps : List Nat
  hdeps : List Nat
  desc : List Nat
deriving Repr, DecidableEq, Inhabited

abbrev Pool := List PEnt

structure Tx where
  id : Nat
  inputs : List Nat
deriving Repr, DecidableEq, Inhabited

structure Args where
  attached : List Tx
  detachedHeaders : List Nat
  detachedProposals : List Nat
  gap : List Nat
  proposed : List Nat
  expired : List Nat
deriving Repr, Inhabited

/-- `remove_entry` -/
def removeEntry (p : Pool) (id : Nat) : Pool := p.filter (·.id != id)

def descOf (p : Pool) (id : Nat) : List Nat :=
  match p.find? (·.id == id) with
  | some e => e.desc
  | none => []

/-- `remove_entry_and_descendants` -/
def removeWithDesc (p : Pool) (id : Nat) : Pool :=
  let ds := descOf p id
  p.filter fun e => e.id != id && !ds.contains e.id

/-- `resolve_conflict` for one consumed out-point -/
def resolveInput (p : Pool) (i : Nat) : Pool :=
  let p1 := match p.find? (fun e => e.spent.contains i) with
    | some e => removeWithDesc p e.id
    | none => p
  (p1.filter fun e => e.deps.contains i).foldl (fun q e => removeWithDesc q e.id) p1

/-- `remove_committed_tx` -/
def removeCommitted (p : Pool) (tx : Tx) : Pool :=
  tx.inputs.foldl resolveInput (removeEntry p tx.id)

/-- `resolve_conflict_header_dep` -/
def resolveHeaderDeps (p : Pool) (hs : List Nat) : Pool :=
  (p.filter fun e => e.hdeps.any hs.contains).foldl (fun q e => removeWithDesc q e.id) p

/-- `remove_by_detached_proposal` (every removed entry is re-added as pending) -/
def detachProposal (p : Pool) (id : Nat) : Pool :=
  match p.find? (·.id == id) with
  | some e =>
    if e.status == 0 then p else
    p.map fun x => if x.id == id || e.desc.contains x.id then { x with status := 0 } else x
  | none => p

/-- the mine-mode moves -/
def moveStage (a : Args) (e : PEnt) : PEnt :=
  if e.status == 1 then (if a.proposed.contains e.id then { e with status := 2 } else e)
  else if e.status == 0 then
    (if a.proposed.contains e.id then { e with status := 2 }
     else if a.gap.contains e.id then { e with status := 1 } else e)
  else e

def update (p : Pool) (a : Args) : Pool :=
  let p1 := a.attached.foldl removeCommitted p
  let p2 := resolveHeaderDeps p1 a.detachedHeaders
  let p3 := a.detachedProposals.foldl detachProposal p2
  let p4 := p3.map (moveStage a)
  a.expired.foldl removeWithDesc p4

/-- the update as it was before /repo 3724ae4 (F5): `remove_expired` used `remove_entry` only -/
def updatePreF5 (p : Pool) (a : Args) : Pool :=
  let p1 := a.attached.foldl removeCommitted p
  let p2 := resolveHeaderDeps p1 a.detachedHeaders
  let p3 := a.detachedProposals.foldl detachProposal p2
  let p4 := p3.map (moveStage a)
  a.expired.foldl removeEntry p4

end CkbVerif.Reorg
