import CkbVerif.Model.Pool
/-!
# `update_tx_pool_for_reorg` (tx-pool/src/process.rs): the pool and the chain side of one chain change

Abstract pool: a list of entries with id, stage, spent out-points, cell-dep out-points, header deps,
created out-points and size (out-points, headers and ids are opaque numbers).

**Links are derived, not given.** `PoolMap` records a parent/child link between two pooled
transactions when the child spends an output of the parent, has an output of the parent as a cell
dep, or spends a cell the parent has as a cell dep (`get_tx_ancenstors` / `record_entry_descendants`
in tx-pool/src/component/pool_map.rs); `remove_entry_links` drops exactly the links of the removed
entry. `isChild`/`childIds` compute that relation from the entries, `descOf` is
`TxLinksMap::calc_descendants` (the closure computation `Pool.calcRelation` of the C11 model) over it.

**Chain side.** `Args.live` is the live-cell set at the old tip; `newLive` un-commits the detached
transactions (newest first: outputs vanish, inputs come back — `detach_block_cell`) and commits the
attached ones (`attach_block_cell`). `retain` = detached \ attached (`detached.difference(&attached)`).

**The update**, in the order of the Rust code (`_update_tx_pool_for_reorg`):
`remove_committed_txs` (per attached tx: `remove_entry` of the tx itself, then `resolve_conflict`:
the pooled spender of each of its inputs and every pooled tx having that input as a cell dep go,
with their descendants), `resolve_conflict_header_dep` (entries with a detached header dep, with
descendants), `remove_by_detached_proposal` (non-pending entries with a detached proposal id go back
to pending together with their descendants), the mine-mode stage moves (gap → proposed, pending →
proposed | gap, by the new snapshot's proposal view), `remove_expired` (each expired entry goes with
its descendants — `remove_entry_and_descendants`, as repaired by /repo 3724ae4; `updatePreF5` keeps
the earlier `remove_entry`-only behaviour for the witness theorem), `limit_size` (`limitSize`: evict
with descendants while the total size exceeds the limit; pending before gap before proposed, within a
stage by the preference list `evictPref` that stands for the evict-key order).

**The re-adds** (`readd_detached_tx`): every transaction of `retain`, in block order, is resolved
against pool + NEW chain (`resolve_tx` with `rbf = false`: an out-point spent by a pooled entry is
dead, an output of a pooled entry is live, otherwise the new chain decides; header deps must be on the
new main chain), must pass the fee check and script verification (`ok`, an input: it does not depend
on the pool), and is then inserted by `_submit_entry` at the stage the new proposal window gives its
id: nothing happens if the id is already pooled, it is refused if it would have more than
`max_ancestors_count - 1` pooled ancestors. A failure only skips that transaction.
(`check_and_record_ancestors`'s branch that evicts cell-ref parents when the ancestor limit is exceeded
only because of them is modelled as the refusal.)

`reorg` = the whole write-locked section. `removeCommittedSkip` / `updateSkip` are the seeded variant
C12/m1 (early return when the committed transaction was pooled itself). Core Lean only.
-/
namespace CkbVerif.Reorg
open CkbVerif.Pool (calcRelation)

structure PEnt where
  id : Nat
  /-- 0 pending, 1 gap, 2 proposed -/
  status : Nat
  spent : List Nat
  deps : List Nat
  hdeps : List Nat
  outs : List Nat
  size : Nat := 0
deriving Repr, DecidableEq, Inhabited

abbrev Pool := List PEnt

/-- a transaction of an attached or detached block -/
structure CTx where
  id : Nat
  spent : List Nat
  deps : List Nat := []
  hdeps : List Nat := []
  outs : List Nat := []
  /-- fee ≥ min fee and the scripts verify (same verdict at every admission) -/
  ok : Bool := true
  size : Nat := 0
deriving Repr, DecidableEq, Inhabited

structure Args where
  attached : List CTx
  detachedHeaders : List Nat
  detachedProposals : List Nat
  gap : List Nat
  proposed : List Nat
  expired : List Nat
  /-- non-cellbase transactions of the detached blocks, block order -/
  detached : List CTx := []
  /-- live out-points at the old tip -/
  live : List Nat := []
  maxAnc : Nat := 25
  maxSize : Nat := 180000000
  evictPref : List Nat := []
deriving Repr, Inhabited

/-! ## links derived from the entries -/

/-- `c` references `e`: spends or depends on an output of `e`, or spends a cell `e` depends on -/
def refs (e c : PEnt) : Bool :=
  c.spent.any e.outs.contains || c.deps.any e.outs.contains || c.spent.any e.deps.contains

/-- `c` is a link child of `e` -/
def isChild (e c : PEnt) : Bool := c.id != e.id && refs e c

def ids (p : Pool) : List Nat := p.map (·.id)

/-- `links.get_children(id)` -/
def childIds (p : Pool) (id : Nat) : List Nat :=
  let es := p.filter (·.id == id)
  (p.filter fun c => es.any fun e => isChild e c).map (·.id)

/-- `calc_descendants` -/
def descOf (p : Pool) (id : Nat) : List Nat := calcRelation (childIds p) (ids p) (childIds p id)

/-- `links.get_parents(id)` -/
def parentIds (p : Pool) (id : Nat) : List Nat :=
  let cs := p.filter (·.id == id)
  (p.filter fun e => cs.any fun c => isChild e c).map (·.id)

/-- `calc_relation_ids(stage, Parents)` -/
def ancestorsOf (p : Pool) (stage : List Nat) : List Nat := calcRelation (parentIds p) (ids p) stage

/-! ## the chain side -/

/-- `detach_block_cell` for one transaction -/
def detachTx (live : List Nat) (t : CTx) : List Nat := (live.filter fun o => !t.outs.contains o) ++ t.spent
/-- `attach_block_cell` for one transaction -/
def attachTx (live : List Nat) (t : CTx) : List Nat := (live.filter fun o => !t.spent.contains o) ++ t.outs

/-- live out-points at the new tip -/
def newLive (a : Args) : List Nat := a.attached.foldl attachTx (a.detached.reverse.foldl detachTx a.live)

/-- `detached.difference(&attached)` -/
def retain (a : Args) : List CTx := a.detached.filter fun d => !a.attached.any (·.id == d.id)

/-! ## `_update_tx_pool_for_reorg` -/

/-- `remove_entry` -/
def removeEntry (p : Pool) (id : Nat) : Pool := p.filter (·.id != id)

/-- `remove_entry_and_descendants` -/
def removeWithDesc (p : Pool) (id : Nat) : Pool :=
  let ds := descOf p id
  p.filter fun e => e.id != id && !ds.contains e.id

/-- `resolve_conflict` for one consumed out-point -/
def resolveInput (p : Pool) (i : Nat) : Pool :=
  let p1 := match p.find? (fun e => e.spent.contains i) with
    | some e => removeWithDesc p e.id
    | none => p
  (p1.filter fun e => e.deps.contains i).foldl (fun q e => removeWithDesc q e.id) p1

/-- `remove_committed_tx` -/
def removeCommitted (p : Pool) (tx : CTx) : Pool :=
  tx.spent.foldl resolveInput (removeEntry p tx.id)

/-- seeded variant C12/m1: early return when the committed transaction was pooled itself -/
def removeCommittedSkip (p : Pool) (tx : CTx) : Pool :=
  if p.any (·.id == tx.id) then removeEntry p tx.id else tx.spent.foldl resolveInput p

/-- `resolve_conflict_header_dep` -/
def resolveHeaderDeps (p : Pool) (hs : List Nat) : Pool :=
  (p.filter fun e => e.hdeps.any hs.contains).foldl (fun q e => removeWithDesc q e.id) p

/-- `remove_by_detached_proposal` (every removed entry is re-added as pending) -/
def detachProposal (p : Pool) (id : Nat) : Pool :=
  match p.find? (·.id == id) with
  | some e =>
    if e.status == 0 then p else
    let ds := descOf p id
    p.map fun x => if x.id == id || ds.contains x.id then { x with status := 0 } else x
  | none => p

/-- the mine-mode moves -/
def moveStage (a : Args) (e : PEnt) : PEnt :=
  if e.status == 1 then (if a.proposed.contains e.id then { e with status := 2 } else e)
  else if e.status == 0 then
    (if a.proposed.contains e.id then { e with status := 2 }
     else if a.gap.contains e.id then { e with status := 1 } else e)
  else e

def update (p : Pool) (a : Args) : Pool :=
  let p1 := a.attached.foldl removeCommitted p
  let p2 := resolveHeaderDeps p1 a.detachedHeaders
  let p3 := a.detachedProposals.foldl detachProposal p2
  let p4 := p3.map (moveStage a)
  a.expired.foldl removeWithDesc p4

/-- the update as it was before /repo 3724ae4 (F5): `remove_expired` used `remove_entry` only -/
def updatePreF5 (p : Pool) (a : Args) : Pool :=
  let p1 := a.attached.foldl removeCommitted p
  let p2 := resolveHeaderDeps p1 a.detachedHeaders
  let p3 := a.detachedProposals.foldl detachProposal p2
  let p4 := p3.map (moveStage a)
  a.expired.foldl removeEntry p4

/-- the update with the seeded variant C12/m1 of `remove_committed_tx` -/
def updateSkip (p : Pool) (a : Args) : Pool :=
  let p1 := a.attached.foldl removeCommittedSkip p
  let p2 := resolveHeaderDeps p1 a.detachedHeaders
  let p3 := a.detachedProposals.foldl detachProposal p2
  let p4 := p3.map (moveStage a)
  a.expired.foldl removeWithDesc p4

/-! ## `limit_size` -/

def totalSize (p : Pool) : Nat := (p.map (·.size)).sum

/-- `next_evict_entry(status)`: the first id of the preference list pooled at that stage, else the
    first entry of the pool at that stage -/
def nextEvictAt (p : Pool) (pref : List Nat) (st : Nat) : Option Nat :=
  match pref.find? (fun id => p.any fun e => e.id == id && e.status == st) with
  | some id => some id
  | none => (p.find? (·.status == st)).map (·.id)

def nextEvict (p : Pool) (pref : List Nat) : Option Nat :=
  match nextEvictAt p pref 0 with
  | some id => some id
  | none =>
    match nextEvictAt p pref 1 with
    | some id => some id
    | none =>
      match nextEvictAt p pref 2 with
      | some id => some id
      | none => p.head?.map (·.id)

def limitLoop (maxSize : Nat) (pref : List Nat) : Nat → Pool → Pool
  | 0, p => p
  | f + 1, p =>
    if totalSize p > maxSize then
      match nextEvict p pref with
      | some id => limitLoop maxSize pref f (removeWithDesc p id)
      | none => p
    else p

def limitSize (a : Args) (p : Pool) : Pool := limitLoop a.maxSize a.evictPref (p.length + 1) p

/-- `_update_tx_pool_for_reorg` including `limit_size` -/
def updateL (p : Pool) (a : Args) : Pool := limitSize a (update p a)

/-! ## `readd_detached_tx` -/

/-- the stage the new proposal view gives an id (`get_tx_status`) -/
def windowStage (a : Args) (id : Nat) : Nat :=
  if a.proposed.contains id then 2 else if a.gap.contains id then 1 else 0

def hasId (q : Pool) (id : Nat) : Bool := q.any (·.id == id)
def spentInPool (q : Pool) (o : Nat) : Bool := q.any (·.spent.contains o)
def madeInPool (q : Pool) (o : Nat) : Bool := q.any (·.outs.contains o)

/-- `OverlayCellProvider(PoolCell{rbf: false}, snapshot)` says live -/
def cellLive (q : Pool) (live : List Nat) (o : Nat) : Bool :=
  !spentInPool q o && (madeInPool q o || live.contains o)

/-- `resolve_tx` succeeds: inputs, cell deps and header deps -/
def resolves (q : Pool) (a : Args) (live : List Nat) (t : CTx) : Bool :=
  t.spent.all (cellLive q live) && t.deps.all (cellLive q live) && t.hdeps.all fun h => !a.detachedHeaders.contains h

def entryOf (a : Args) (t : CTx) : PEnt :=
  { id := t.id, status := windowStage a t.id, spent := t.spent, deps := t.deps, hdeps := t.hdeps, outs := t.outs, size := t.size }

/-- the pooled parents `get_tx_ancenstors` finds for a new transaction -/
def linkParentsOf (q : Pool) (t : CTx) : List Nat :=
  (q.filter fun x => t.spent.any x.outs.contains || t.deps.any x.outs.contains || t.spent.any x.deps.contains).map (·.id)

def readdOne (a : Args) (live : List Nat) (q : Pool) (t : CTx) : Pool :=
  if resolves q a live t && t.ok then
    if hasId q t.id then q
    else if (ancestorsOf q (linkParentsOf q t)).length + 1 > a.maxAnc then q
    else q ++ [entryOf a t]
  else q

def readd (a : Args) (live : List Nat) (q : Pool) (l : List CTx) : Pool := l.foldl (readdOne a live) q

/-- the write-locked section of `update_tx_pool_for_reorg` -/
def reorg (p : Pool) (a : Args) : Pool := readd a (newLive a) (updateL p a) (retain a)

/-- the same with the seeded variant C12/m1 -/
def reorgSkip (p : Pool) (a : Args) : Pool :=
  readd a (newLive a) (limitSize a (updateSkip p a)) (retain a)

end CkbVerif.Reorg
