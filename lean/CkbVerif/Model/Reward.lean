import CkbVerif.Model.Arith
import CkbVerif.Model.Dao
import CkbVerif.Gen.Reward

/-!
# Block reward (C06)

Follows `util/reward-calculator/src/lib.rs` (`RewardCalculator::{block_reward_to_finalize,
block_reward_internal, txs_fees, proposal_reward, base_block_reward}`), `spec/src/consensus.rs`
(`finalize_target`, `finalization_delay_length`, `ProposalWindow::length`) and
`verification/contextual/src/contextual_block_verifier.rs` (`RewardVerifier::verify`).

The main chain is a `List Blk`: element `n` is the main-chain block with number `n` (the walk of
`proposal_reward` follows parent links from `parent`, i.e. decreasing numbers on that chain).
Proposal short ids are natural numbers; `HashSet`s are lists used through membership only.
Core Lean only.
-/
namespace CkbVerif.Reward
open CkbVerif.Arith
open CkbVerif.Dao (R Err ovf pnc)

/-- `consensus.proposer_reward_ratio()` default -/
def proposerRatio : Ratio :=
  ⟨CkbVerif.Gen.Reward.PROPOSER_RATIO_NUMER, CkbVerif.Gen.Reward.PROPOSER_RATIO_DENOM⟩

/-- `ProposalWindow(closest, farthest)` -/
structure Win where
  close : Nat
  far : Nat
deriving Repr, DecidableEq

def defaultWin : Win := ⟨CkbVerif.Gen.Reward.W_CLOSE, CkbVerif.Gen.Reward.W_FAR⟩

/-- `ProposalWindow::length`: `self.1 - self.0 + 1` -/
def Win.length (w : Win) : Nat := w.far - w.close + 1

/-- `Consensus::finalization_delay_length` -/
def finalizationDelay (w : Win) : Nat := w.far + CkbVerif.Gen.Reward.FINALIZATION_DELAY_EXTRA

/-- `Consensus::finalize_target` -/
def finalizeTarget (w : Win) (blockNumber : Nat) : Option Nat :=
  if blockNumber ≠ 0 then some (blockNumber - finalizationDelay w) else none

/-! ### fee split -/

/-- the proposer's part of one fee: `tx_fee.safe_mul_ratio(proposer_ratio)` -/
def proposerShare (r : Ratio) (fee : Nat) : Option Nat := safeMulRatio fee r

/-- the committer's part of one fee: `tx_fee.safe_sub(tx_fee.safe_mul_ratio(ratio)?)` -/
def committerShare (r : Ratio) (fee : Nat) : Option Nat :=
  (safeMulRatio fee r).bind fun p => safeSub fee p

/-- the `try_fold` of `txs_fees` from accumulator `acc` -/
def txsFeesFrom (r : Ratio) : List Nat → Nat → Option Nat
  | [], acc => some acc
  | fee :: rest, acc =>
    (committerShare r fee).bind fun m => (safeAdd acc m).bind fun acc' => txsFeesFrom r rest acc'

/-- `RewardCalculator::txs_fees` over `target_ext.txs_fees` -/
def txsFees (r : Ratio) (fees : List Nat) : Option Nat := txsFeesFrom r fees 0

/-! ### the proposal-reward walk -/

/-- one main-chain block as the walk sees it -/
structure Blk where
  /-- `get_proposal_ids_by_hash`: own proposals and the uncles' -/
  props : List Nat
  /-- proposal short ids of the committed transactions, cellbase skipped, block order -/
  commitIds : List Nat
  /-- `BlockExt.txs_fees` -/
  fees : List Nat
deriving Repr

def blkAt (chain : List Blk) (n : Nat) : Blk := chain.getD n ⟨[], [], []⟩

/-- a fee whose proposer share is paid: committed in block `at` as transaction `id` -/
structure Paid where
  blk : Nat
  id : Nat
  fee : Nat
deriving Repr, DecidableEq

/-- the `for (id, tx_fee) in committed_idx.zip(txs_fees)` loop: `target_proposals.remove(&id)`
and, when `check`, `&& !proposed.contains(&id)`; returns the remaining targets and the paid fees -/
def payLoop (check : Bool) (proposed : List Nat) (at_ : Nat) :
    List (Nat × Nat) → List Nat → List Nat × List Paid
  | [], targets => (targets, [])
  | (id, fee) :: rest, targets =>
    if targets.contains id then
      let targets' := targets.filter (· != id)
      let r := payLoop check proposed at_ rest targets'
      if check && proposed.contains id then r
      else (r.1, ⟨at_, id, fee⟩ :: r.2)
    else payLoop check proposed at_ rest targets

/-- one visited block: the `has_committed` guard followed by the loop -/
def payBlock (check : Bool) (proposed : List Nat) (at_ : Nat) (b : Blk) (targets : List Nat) :
    List Nat × List Paid :=
  let hasCommitted := targets.any (fun x => b.commitIds.contains x)
  if hasCommitted then payLoop check proposed at_ (b.commitIds.zip b.fees) targets
  else (targets, [])

/-- the `while index.number() > competing_commit_start && !target_proposals.is_empty()` loop;
`index` is the number of the block visited last -/
def walk (w : Win) (chain : List Blk) (ccs : Nat) : Nat → List Nat → List Nat → List Paid
  | 0, _, _ => []
  | n + 1, targets, proposed =>
    if n + 1 > ccs ∧ !targets.isEmpty then
      -- index := parent of index, number n
      let pstart := max (n - w.far) 1
      let proposed' := proposed ++ (blkAt chain pstart).props
      let r := payBlock true proposed' n (blkAt chain n) targets
      r.2 ++ walk w chain ccs n r.1 proposed'
    else []

/-- the fees whose proposer share `proposal_reward(parent, target)` pays, in the order the code
adds them -/
def paidList (w : Win) (chain : List Blk) (parentNumber targetNumber : Nat) : List Paid :=
  let blockNumber := parentNumber + 1
  let ccs := max (blockNumber - w.length) (1 + w.close)
  let r := payBlock false [] parentNumber (blkAt chain parentNumber) (blkAt chain targetNumber).props
  r.2 ++ walk w chain ccs parentNumber r.1 []

/-- `reward = reward.safe_add(tx_fee.safe_mul_ratio(proposer_ratio)?)?` over the paid fees -/
def sumShares (r : Ratio) : List Paid → Nat → Option Nat
  | [], acc => some acc
  | p :: rest, acc =>
    (proposerShare r p.fee).bind fun s => (safeAdd acc s).bind fun acc' => sumShares r rest acc'

/-- `RewardCalculator::proposal_reward(parent, target)` -/
def proposalReward (w : Win) (r : Ratio) (chain : List Blk) (parentNumber targetNumber : Nat) : Option Nat :=
  sumShares r (paidList w chain parentNumber targetNumber) 0

/-! ### total -/

/-- `BlockReward` -/
structure BlockReward where
  total : Nat
  primary : Nat
  secondary : Nat
  txFee : Nat
  proposalReward : Nat
deriving Repr, DecidableEq

/-- the tail of `block_reward_internal`:
`txs_fees.safe_add(proposal_reward)?.safe_add(primary)?.safe_add(secondary)?` -/
def totalReward (txFee proposal primary secondary : Nat) : Option BlockReward :=
  (safeAdd txFee proposal).bind fun a =>
  (safeAdd a primary).bind fun b =>
  (safeAdd b secondary).bind fun total =>
  some { total := total, primary := primary, secondary := secondary, txFee := txFee,
         proposalReward := proposal }

/-- `block_reward_internal(target, parent)` on the abstract chain, with the target's epoch and the
dao field of the target's parent as inputs (see `Model/Dao.lean`); the order of the `?`s is
`txs_fees`, `proposal_reward`, `primary`, `secondary`, the three additions. -/
def blockReward (w : Win) (r : Ratio) (ser : Nat) (chain : List Blk)
    (epochOfTarget : Dao.Epoch) (daoOfTargetParent : Dao.DaoField)
    (parentNumber targetNumber : Nat) : R BlockReward := do
  let txFee ← ovf (txsFees r (blkAt chain targetNumber).fees)
  let proposal ← ovf (proposalReward w r chain parentNumber targetNumber)
  let primary ← Dao.primaryBlockReward epochOfTarget targetNumber
  let secondary ← Dao.secondaryBlockReward ser epochOfTarget targetNumber daoOfTargetParent
  match totalReward txFee proposal primary secondary with
  | some br => pure br
  | none => throw .overflow

/-- `block_reward_to_finalize(parent)`: the target is `finalize_target(parent.number + 1)` -/
def blockRewardToFinalize (w : Win) (r : Ratio) (ser : Nat) (chain : List Blk)
    (epochOf : Nat → Dao.Epoch) (daoOf : Nat → Dao.DaoField) (parentNumber : Nat) : R BlockReward :=
  let target := (parentNumber + 1) - finalizationDelay w
  blockReward w r ser chain (epochOf target) (daoOf (target - 1)) parentNumber target

/-! ### `RewardVerifier` -/

inductive Verdict where
  | ok
  | invalidRewardTarget
  | invalidRewardAmount
deriving Repr, DecidableEq

/-- `RewardVerifier::verify` after `finalize_block_reward` succeeded: `lockOcc` is the occupied
capacity of a data-less cell locked with the target lock (`is_lack_of_capacity(0)`),
`outputs` the cellbase outputs as `(capacity, lock = target lock?)`. `none` = `outputs_capacity`
overflow. -/
def rewardVerify (w : Win) (parentNumber : Nat) (total lockOcc : Nat) (outputs : List (Nat × Bool)) :
    Option Verdict :=
  let noTarget := parentNumber + 1 ≤ finalizationDelay w
  let insufficient := lockOcc > total
  if noTarget ∨ insufficient then
    some (if outputs.isEmpty then .ok else .invalidRewardTarget)
  else
    match outputs.foldlM (fun acc o => safeAdd acc o.1) 0 with
    | none => none
    | some s =>
      if s ≠ total then some .invalidRewardAmount
      else
        match outputs with
        | [] => none   -- `expect("cellbase should have output")` (unreachable when total > 0)
        | o :: _ => some (if o.2 then .ok else .invalidRewardTarget)

/-! ### the cellbase a block must carry (both verifiers; used by the driver's `cellbase` / `cbverify`)

`CellbaseVerifier::verify` (`verification/src/block_verifier.rs`, non-contextual, runs before the
contextual `RewardVerifier`) rejects a cellbase with more than one output
(`outputs().len() > 1 → InvalidOutputQuantity`); the other clauses of that verifier (output data
empty, no type script, witness format, hash types) are about fields the reward model does not
carry. -/

inductive CbVerdict where
  | ok
  | invalidOutputQuantity
  | invalidRewardTarget
  | invalidRewardAmount
deriving Repr, DecidableEq

/-- `CellbaseVerifier`'s output-count clause followed by `RewardVerifier::verify`;
`none` = `outputs_capacity` overflow / the unreachable `expect` -/
def cellbaseVerify (w : Win) (parentNumber : Nat) (total lockOcc : Nat) (outputs : List (Nat × Bool)) :
    Option CbVerdict :=
  if outputs.length > 1 then some .invalidOutputQuantity
  else
    match rewardVerify w parentNumber total lockOcc outputs with
    | none => none
    | some .ok => some .ok
    | some .invalidRewardTarget => some .invalidRewardTarget
    | some .invalidRewardAmount => some .invalidRewardAmount

/-- the cellbase outputs a block on parent `parentNumber` has to carry, as `(capacity, lock is the
target's)`: none in the two exempt cases (no finalisation target yet / the reward cannot fill a
cell locked with the target's lock), else exactly one cell of capacity `total` with that lock.
This is what an honest assembler emits (`tx-pool/src/block_assembler/mod.rs build_cellbase`:
`if no_finalization_target || insufficient_reward_to_create_cell { no output } else { output }`) and what the
harness puts into the blocks it submits. -/
def expectedCellbase (w : Win) (parentNumber : Nat) (total lockOcc : Nat) : List (Nat × Bool) :=
  if parentNumber + 1 ≤ finalizationDelay w ∨ lockOcc > total then [] else [(total, true)]

/-- the finalisation target's miner lock, as the verifier reads it: the lock in the cellbase
WITNESS of block `(parentNumber + 1) − finalization_delay` (not the current block's). `locks` is
the per-block witness lock `(lock id, args length)` of the main chain. -/
def targetLock (w : Win) (locks : List (Nat × Nat)) (parentNumber : Nat) : Nat × Nat :=
  locks.getD ((parentNumber + 1) - finalizationDelay w) (0, 0)

/-- **the seeded regression** (`RewardVerifier::verify` without the
`|| insufficient_reward_to_create_cell` alternative): the exempt branch is taken only without a
finalisation target, and the amount/lock checks stay guarded by `if !insufficient…`, so with an
insufficient reward every cellbase passes. Used only by the negative witness
`dropped_insufficient_alternative_admits_minting`. -/
def rewardVerifyDroppedAlternative (w : Win) (parentNumber : Nat) (total lockOcc : Nat)
    (outputs : List (Nat × Bool)) : Option Verdict :=
  let noTarget := parentNumber + 1 ≤ finalizationDelay w
  let insufficient := lockOcc > total
  if noTarget then
    some (if outputs.isEmpty then .ok else .invalidRewardTarget)
  else if ¬ insufficient then
    match outputs.foldlM (fun acc o => safeAdd acc o.1) 0 with
    | none => none
    | some s =>
      if s ≠ total then some .invalidRewardAmount
      else
        match outputs with
        | [] => none
        | o :: _ => some (if o.2 then .ok else .invalidRewardTarget)
  else some .ok

/-! ### specification of the proposer reward (declarative; not used by the driver)

The reading of the property: a committed transaction's proposer share goes to the *earliest*
block, inside the commit's proposal window, that proposed it (itself or through an uncle). -/

/-- some block with number in `[lo, hi)` proposed `id` (own proposals or its uncles') -/
def proposedIn (chain : List Blk) (lo hi : Nat) (id : Nat) : Bool :=
  (List.range' lo (hi - lo)).any fun q => (blkAt chain q).props.contains id

/-- the commits of block `c` whose proposer share belongs to block `t`: `t` proposed the id and no
block in `[max (c − w_far) 1, t)` — the part of `c`'s proposal window before `t`, genesis
excluded — did -/
def specPaidAt (w : Win) (chain : List Blk) (t c : Nat) : List Paid :=
  ((blkAt chain c).commitIds.zip (blkAt chain c).fees).filterMap fun cf =>
    if (blkAt chain t).props.contains cf.1 && !(proposedIn chain (max (c - w.far) 1) t cf.1)
    then some ⟨c, cf.1, cf.2⟩ else none

/-- all fees whose proposer share belongs to block `t`: commits in `t + w_close ..= t + w_far`,
listed from the latest block to the earliest (the order in which the code adds them) -/
def specPaid (w : Win) (chain : List Blk) (t : Nat) : List Paid :=
  (List.range' (t + w.close) (w.far - w.close + 1)).reverse.flatMap (specPaidAt w chain t)

/-- the two-phase commit rule for one commit: `id`, committed in block `c`, was proposed by a block
with number in `[max (c − w_far) 1, c − w_close]` -/
def proposedInWindow (w : Win) (chain : List Blk) (c id : Nat) : Bool :=
  proposedIn chain (max (c - w.far) 1) (c - w.close + 1) id

/-- `t` is the earliest proposer of `id` inside the proposal window of a commit in block `c`:
`t ∈ [max (c − w_far) 1, c − w_close]`, `t` proposed `id`, and no earlier block of the window did -/
def isEarliestProposer (w : Win) (chain : List Blk) (c id t : Nat) : Bool :=
  decide (max (c - w.far) 1 ≤ t) && decide (t ≤ c - w.close) &&
  (blkAt chain t).props.contains id && !(proposedIn chain (max (c - w.far) 1) t id)

end CkbVerif.Reward
