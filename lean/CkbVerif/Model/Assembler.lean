import CkbVerif.Model.Rules
import CkbVerif.Model.Selector
import CkbVerif.Model.Template

/-!
# The block assembler's template as a whole (tx-pool/src/block_assembler/{mod,candidate_uncles}.rs)

`Model/Template.lean` models only the SIZE bookkeeping of the five update paths (counts of uncles /
proposals, a byte total of the transactions). This file puts the CONTENT next to it:

* `prepareUncles`   = `CandidateUncles::prepare_uncles(snapshot, current_epoch_ext)`, the `for uncle in
                      self.values()` loop statement by statement (break at `max_uncles_num`; candidates of
                      another epoch / target are scheduled for removal; a candidate is taken when it is
                      neither on the main chain nor already embedded as an uncle, its number is below the
                      candidate block number, and its parent is a just-selected uncle, a main-chain block
                      or an embedded uncle). NOTE `epochNumber`/`target` are those of `current_epoch_ext`,
                      the epoch of the block BEING ASSEMBLED (`CurrentTemplate.epoch` =
                      `next_epoch_ext(tip)`), not the tip's epoch: they differ when the tip is the last
                      block of its epoch.
* `packageProposals`= `TxPool::package_proposals(limit, uncles)` → `PoolMap::get_proposals`: pending ids in
                      score order, minus the ids proposed by the template's uncles, `take(limit)`. The code
                      collects into a `HashSet` and then a `Vec` (arbitrary order); every statement made
                      about the result is order-independent.
* `astep`           = the five update paths on a template with content, each with the code's own guards
                      and `TemplateSize` arithmetic; `Tmpl.toTSt`/`AOp.toOp` project to `Model/Template.lean`
                      (`Lemmas/Assembler.lean` proves the projection commutes with the step).
                      `keep` stands for `calc_dao`'s `filter_map` (entries whose `rtx.check` fails are
                      dropped; order preserved).
* `sealBlock`       = the block a miner submits for the template, as the verifier model of C03
                      (`Model/Rules.lean`) sees it. Cellbase features follow `build_cellbase`: one input
                      `new_cellbase_input(tip + 1)`, zero or one output with an equal number of (empty)
                      output data, no type script, a `CellbaseWitness`; roots are recomputed by sealing
                      (`into_view`).

Core Lean only.
-/
namespace CkbVerif.Assembler
open CkbVerif.Rules (Uncle Blk Cfg Cx)
open CkbVerif.Template (P calcTotal)

/-- what `prepare_uncles` reads from the snapshot -/
structure Snap where
  tipNumber : Nat
  /-- `snapshot.is_main_chain(hash)` -/
  isMain : Nat → Bool
  /-- `snapshot.is_uncle(hash)` -/
  isUncle : Nat → Bool

/-- the loop of `prepare_uncles`; accumulators `uncles` (push order) and `removed` -/
def prepareLoop (maxUncles : Nat) (snap : Snap) (epochNumber target : Nat) :
    List Uncle → List Uncle → List Uncle → List Uncle × List Uncle
  | [], uncles, removed => (uncles, removed)
  | u :: rest, uncles, removed =>
    if uncles.length == maxUncles then (uncles, removed) else
    if u.target != target || u.epochNumber != epochNumber then
      prepareLoop maxUncles snap epochNumber target rest uncles (removed ++ [u])
    else if !snap.isMain u.id && !snap.isUncle u.id && decide (u.number < snap.tipNumber + 1) &&
        (uncles.any (fun x => x.id == u.parent) || snap.isMain u.parent || snap.isUncle u.parent) then
      prepareLoop maxUncles snap epochNumber target rest (uncles ++ [u]) removed
    else
      prepareLoop maxUncles snap epochNumber target rest uncles removed

/-- `prepare_uncles`: the uncles for the template -/
def prepareUncles (maxUncles : Nat) (snap : Snap) (epochNumber target : Nat) (cands : List Uncle) : List Uncle :=
  (prepareLoop maxUncles snap epochNumber target cands [] []).1

/-- the candidates left in the container (`remove_by_number` for every scheduled removal) -/
def remainingCandidates (maxUncles : Nat) (snap : Snap) (epochNumber target : Nat) (cands : List Uncle) : List Uncle :=
  let removed := (prepareLoop maxUncles snap epochNumber target cands [] []).2
  cands.filter fun c => !(removed.any fun r => r.id == c.id)

/-- `package_proposals` -/
def packageProposals (limit : Nat) (pending : List Nat) (uncles : List Uncle) : List Nat :=
  let exclusion := uncles.flatMap (·.proposals)
  (pending.filter fun id => !exclusion.contains id).take limit

/-- per-tip data computed by `update_blank` from the snapshot (fixed until the next `Reset`) -/
structure Tip where
  snap : Snap
  /-- `current_epoch.number()` where `current_epoch = next_epoch_ext(tip)`: the epoch of the block
      being assembled -/
  epochNumber : Nat
  /-- `current_epoch.compact_target()` -/
  target : Nat
  /-- header + cellbase + extension + table overhead (`basic_block_size` without uncles/proposals) -/
  base : Nat
  /-- number of cellbase outputs (`build_cellbase`: none before the finalization delay or when the
      reward cannot fill a cell, else one) -/
  cbOutputs : Nat
  /-- identifier of the cellbase transaction -/
  cbId : Nat
  /-- the configured block-assembler lock has an enabled `hash_type` -/
  cbWitnessOk : Bool
  /-- the reward target's lock has an enabled `hash_type` -/
  cbLockOk : Bool

structure Tmpl where
  uncles : List Uncle := []
  proposals : List Nat := []
  txs : List Selector.Entry := []
  -- TemplateSize
  sTxs : Nat := 0
  sProposals : Nat := 0
  sUncles : Nat := 0
  sTotal : Nat := 0

structure ASt where
  tip : Tip
  t : Tmpl

inductive AOp where
  /-- `Reset(snapshot)` → `update_blank`: new per-tip data, candidates as of now -/
  | blank (tip : Tip) (cands : List Uncle)
  /-- `update_full`: pending ids and the pool view as of now; `keep` = `calc_dao`'s filter -/
  | full (pending : List Nat) (v : Selector.View) (keep : Selector.Entry → Bool)
  /-- `Uncle` → `update_uncles` -/
  | uncles (cands : List Uncle)
  /-- `Pending` → `update_proposals` -/
  | proposals (pending : List Nat)
  /-- `Proposed` → `update_transactions` -/
  | txs (v : Selector.View) (keep : Selector.Entry → Bool)

def txBytes (txs : List Selector.Entry) : Nat := (txs.map (·.size)).sum
def txCycles (txs : List Selector.Entry) : Nat := (txs.map (·.cycles)).sum

/-- `package_txs` followed by `calc_dao`'s filter -/
def packageTxs (cfg : Cfg) (v : Selector.View) (keep : Selector.Entry → Bool) (sizeLimit : Nat) : List Selector.Entry :=
  (Selector.txsToCommit v sizeLimit cfg.maxCycles).out.filter keep

def astep (cfg : Cfg) (U : Nat) (s : ASt) : AOp → ASt
  | .blank tip cands =>
    let us := prepareUncles cfg.maxUncles tip.snap tip.epochNumber tip.target cands
    { tip := tip,
      t := { uncles := us, proposals := [], txs := [], sTxs := 0, sProposals := 0,
             sUncles := U * us.length, sTotal := tip.base + U * us.length + P * 0 } }
  | .full pending v keep =>
    let props := packageProposals cfg.maxProposals pending s.t.uncles
    let b := s.tip.base + U * s.t.uncles.length + P * props.length
    if b > cfg.maxBytes then s else        -- checked_sub → Err(Overflow): template unchanged
    let txs := packageTxs cfg v keep (cfg.maxBytes - b)
    { s with t := { s.t with proposals := props, txs := txs, sTxs := txBytes txs,
                             sTotal := b + txBytes txs, sProposals := P * props.length } }
  | .uncles cands =>
    if s.t.uncles.length < cfg.maxUncles then
      if cfg.maxBytes - s.t.sTotal > U then
        let us := prepareUncles cfg.maxUncles s.tip.snap s.tip.epochNumber s.tip.target cands
        let nt := calcTotal s.t.sTotal s.t.sUncles (U * us.length)
        if nt < cfg.maxBytes then { s with t := { s.t with uncles := us, sUncles := U * us.length, sTotal := nt } }
        else s
      else s
    else s
  | .proposals pending =>
    let props := packageProposals cfg.maxProposals pending s.t.uncles
    let nt := calcTotal s.t.sTotal s.t.sProposals (P * props.length)
    if nt < cfg.maxBytes then { s with t := { s.t with proposals := props, sProposals := P * props.length, sTotal := nt } }
    else s
  | .txs v keep =>
    let b := s.tip.base + U * s.t.uncles.length + P * s.t.proposals.length
    if b > cfg.maxBytes then s else
    let txs := packageTxs cfg v keep (cfg.maxBytes - b)
    { s with t := { s.t with txs := txs, sTxs := txBytes txs,
                             sTotal := calcTotal s.t.sTotal s.t.sTxs (txBytes txs) } }

def arun (cfg : Cfg) (U : Nat) (s : ASt) (ops : List AOp) : ASt := ops.foldl (astep cfg U) s

/-- projection to the size model -/
def ASt.toTSt (cfg : Cfg) (U : Nat) (s : ASt) : Template.TSt :=
  { max := cfg.maxBytes, U := U, base := s.tip.base, nUncles := s.t.uncles.length,
    nProposals := s.t.proposals.length, txsActual := txBytes s.t.txs,
    sTxs := s.t.sTxs, sProposals := s.t.sProposals, sUncles := s.t.sUncles, sTotal := s.t.sTotal }

def AOp.toOp (cfg : Cfg) (s : ASt) : AOp → Template.Op
  | .blank tip cands => .blank tip.base (prepareUncles cfg.maxUncles tip.snap tip.epochNumber tip.target cands).length
  | .full pending v keep =>
    .full (packageProposals cfg.maxProposals pending s.t.uncles).length (fun l => txBytes (packageTxs cfg v keep l))
  | .uncles cands =>
    .uncles (prepareUncles cfg.maxUncles s.tip.snap s.tip.epochNumber s.tip.target cands).length cfg.maxUncles
  | .proposals pending => .proposals (packageProposals cfg.maxProposals pending s.t.uncles).length
  | .txs v keep => .txs (fun l => txBytes (packageTxs cfg v keep l))

/-- `build_cellbase`: the number of cellbase outputs. `no_finalization_target = candidate_number <=
    finalization_delay_length`, `insufficient_reward_to_create_cell = output.is_lack_of_capacity(0)` =
    `occupied_capacity > block_reward.total` (the reward cannot pay for the target lock's own cell):
    in both cases the cellbase has NO output (and no output data), otherwise exactly one, of capacity
    `block_reward.total` and the finalization target's lock, with empty data -/
def cellbaseOutputs (finDelay tipNumber rewardTotal occupied : Nat) : Nat :=
  if decide (tipNumber + 1 ≤ finDelay) || decide (occupied > rewardTotal) then 0 else 1

/-- the sealed template as the verifier model sees it. The contextual oracle fields (`expEpoch`,
    `expTarget`) are what the verifier computes for a block on this tip; `sealBlock` fills the header
    fields the assembler controls. -/
def sealBlock (U : Nat) (s : ASt) : Blk :=
  { number := s.tip.snap.tipNumber + 1
    target := s.tip.target
    proposals := s.t.proposals
    bytes := s.tip.base + U * s.t.uncles.length + P * s.t.proposals.length + txBytes s.t.txs
    nCellbase := 1
    firstIsCellbase := true
    cbOutputs := s.tip.cbOutputs
    cbOutputsData := s.tip.cbOutputs
    cbDataEmpty := true
    cbWitnessOk := s.tip.cbWitnessOk
    cbNoType := true
    cbLockOk := s.tip.cbLockOk
    cbSince := s.tip.snap.tipNumber + 1
    txIds := s.tip.cbId :: s.t.txs.map (·.id)
    txRootOk := true
    proposalsHashOk := true
    txsNonCtxOk := true
    uncles := s.t.uncles
    committed := s.t.txs.map (·.id)
    expEpoch := { number := s.tip.epochNumber }
    expTarget := s.tip.target
    cycles := txCycles s.t.txs }

end CkbVerif.Assembler
