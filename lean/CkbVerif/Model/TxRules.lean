import CkbVerif.Gen.Tx
import CkbVerif.Model.Tx

/-!
C04 — executable model of the context-free transaction rules, the DAO lock-size rule, the VM-version
selection and the fee law, following the Rust code as written:

* `verification/src/transaction_verifier.rs`: `NonContextualTransactionVerifier::verify` (order:
  `VersionVerifier`, `SizeVerifier`, `EmptyVerifier`, `DuplicateDepsVerifier`, `OutputsDataVerifier`,
  `ScriptHashTypeVerifier` — which looks at the LOCK script of every output only),
  `DaoScriptSizeVerifier::verify`, `FeeCalculator::transaction_fee`
* `tx-pool/src/util.rs` `non_contextual_verify` (pool only: `TRANSACTION_SIZE_LIMIT`, "cellbase like")
* `util/gen-types/src/extension/serialized_size.rs` `serialized_size_in_block` = molecule size + 4, the
  molecule sizes from `util/gen-types/schemas/blockchain.mol` (table = 4 + 4·fields + Σ, fixvec = 4 + n·item,
  dynvec = 4 + 4·n + Σ)
* `util/gen-types/src/core.rs` `ScriptHashType` (`from_repr`: 1 or any even byte), `util/constant`
  `ENABLED_SCRIPT_HASH_TYPE`
* `script/src/types.rs` `select_version` + `script/src/verify_env.rs` `epoch_number_without_proposal_window`
* `util/dao/src/lib.rs` `DaoCalculator::{transaction_fee, transaction_maximum_withdraw,
  calculate_maximum_withdraw}` (u128 product, `as u64` truncation)

Core Lean only.
-/
namespace CkbVerif.TxRules
open CkbVerif.Gen.Tx CkbVerif.Tx

/-! ## Transaction shape -/

structure ScriptShape where
  hashType : Nat
  args : Nat
  deriving Repr, DecidableEq

structure OutShape where
  lock : ScriptShape
  type : Option ScriptShape
  deriving Repr, DecidableEq

/-- a cell dep as `DuplicateDepsVerifier` compares it: the whole `CellDep` (out point and dep type) -/
structure DepShape where
  tx : Nat
  idx : Nat
  depType : Nat
  deriving Repr, DecidableEq

structure NcTx where
  version : Nat
  /-- previous outputs: (tx id, index); tx id 0 with index 2^32-1 is the null out point -/
  inputs : List (Nat × Nat)
  cellDeps : List DepShape
  headerDeps : List Nat
  outputs : List OutShape
  /-- byte lengths of `outputs_data` -/
  outputsData : List Nat
  /-- byte lengths of the witnesses -/
  witnesses : List Nat
  deriving Repr, DecidableEq

/-! ## Molecule sizes -/

def scriptSize (s : ScriptShape) : Nat := 4 + 4 * 3 + 32 + 1 + (4 + s.args)

def outputSize (o : OutShape) : Nat :=
  4 + 4 * 3 + 8 + scriptSize o.lock + (match o.type with | none => 0 | some t => scriptSize t)

/-- dynvec of items with the given sizes -/
def dynvecSize (items : List Nat) : Nat := 4 + 4 * items.length + items.sum

def rawTxSize (t : NcTx) : Nat :=
  4 + 4 * 6 + 4 + (4 + 37 * t.cellDeps.length) + (4 + 32 * t.headerDeps.length) + (4 + 44 * t.inputs.length) +
    dynvecSize (t.outputs.map outputSize) + dynvecSize (t.outputsData.map (4 + ·))

def txSize (t : NcTx) : Nat := 4 + 4 * 2 + rawTxSize t + dynvecSize (t.witnesses.map (4 + ·))

/-- `serialized_size_in_block` -/
def sizeInBlock (t : NcTx) : Nat := txSize t + 4

/-! ## NonContextualTransactionVerifier -/

inductive NcV where
  | ok
  | mismatchedVersion
  | exceededMaximumBlockBytes
  | emptyInputs
  | emptyOutputs
  | duplicateCellDeps (tx idx : Nat)
  | duplicateHeaderDeps (h : Nat)
  | outputsDataLengthMismatch
  | hashTypeNotPermitted (v : Nat)
  | invalidHashType (v : Nat)
  /-- pool only -/
  | exceededTransactionSizeLimit
  | cellbaseLike
  deriving Repr, DecidableEq

def nullIdx : Nat := 2 ^ 32 - 1

/-- `Transaction::is_cellbase` -/
def isCellbase (t : NcTx) : Bool :=
  t.inputs.length == 1 && t.witnesses.length == 1 &&
    (match t.inputs with | [(tx, idx)] => tx == 0 && idx == nullIdx | _ => false)

/-- `find_map(|x| seen.replace(x))`: the first element that occurred before -/
def firstDup {α : Type} [DecidableEq α] : List α → List α → Option α
  | _, [] => none
  | seen, x :: rest => if x ∈ seen then some x else firstDup (x :: seen) rest

/-- `ScriptHashType::from_repr` succeeds -/
def hashTypeKnown (v : Nat) : Bool := v == 1 || v % 2 == 0

def hashTypeEnabled (v : Nat) : Bool :=
  v == HASH_TYPE_DATA || v == HASH_TYPE_TYPE || v == HASH_TYPE_DATA1 || v == HASH_TYPE_DATA2

/-- `ScriptHashTypeVerifier::verify` over the outputs' lock hash types -/
def checkHashTypes : List Nat → NcV
  | [] => .ok
  | v :: rest =>
    if hashTypeKnown v then
      (if hashTypeEnabled v then checkHashTypes rest else .hashTypeNotPermitted v)
    else .invalidHashType v

/-- `NonContextualTransactionVerifier::verify` -/
def nonContextual (txVersion maxBlockBytes : Nat) (t : NcTx) : NcV :=
  if t.version ≠ txVersion then .mismatchedVersion
  else if ¬ sizeInBlock t ≤ maxBlockBytes then .exceededMaximumBlockBytes
  else if t.inputs.isEmpty then .emptyInputs
  else if t.outputs.isEmpty && !isCellbase t then .emptyOutputs
  else
    match firstDup [] t.cellDeps with
    | some d => .duplicateCellDeps d.tx d.idx
    | none =>
      match firstDup [] t.headerDeps with
      | some h => .duplicateHeaderDeps h
      | none =>
        if t.outputs.length ≠ t.outputsData.length then .outputsDataLengthMismatch
        else checkHashTypes (t.outputs.map (·.lock.hashType))

/-- `tx-pool/src/util.rs` `non_contextual_verify` -/
def poolNonContextual (txVersion maxBlockBytes : Nat) (t : NcTx) : NcV :=
  match nonContextual txVersion maxBlockBytes t with
  | .ok =>
    if sizeInBlock t > TRANSACTION_SIZE_LIMIT then .exceededTransactionSizeLimit
    else if isCellbase t then .cellbaseLike
    else .ok
  | v => v

/-! ## VM version selection -/

inductive VmV where
  | v (n : Nat)
  | invalidVmVersion (n : Nat)
  | invalidHashType
  deriving Repr, DecidableEq

/-- `TxVerifyEnv::epoch_number_without_proposal_window` on the env's packed epoch -/
def epochNumberNoWindow (committed : Bool) (epoch : Nat) : Nat :=
  Since.epMinNumberAfter epoch (if committed then 0 else 1)

/-- `select_version`: `vm1From` / `vm2From` = the epochs from which ckb2021 / ckb2023 enable VM 1 / 2 -/
def selectVersion (vm1From vm2From : Nat) (committed : Bool) (epoch : Nat) (hashType : Nat) : VmV :=
  let n := epochNumberNoWindow committed epoch
  let e1 := decide (n ≥ vm1From)
  let e2 := decide (n ≥ vm2From)
  if !hashTypeKnown hashType then .invalidHashType
  else if hashType = HASH_TYPE_DATA then .v 0
  else if hashType = HASH_TYPE_DATA1 then (if e1 then .v 1 else .invalidVmVersion 1)
  else if hashType = HASH_TYPE_DATA2 then (if e2 then .v 2 else .invalidVmVersion 2)
  else if hashType = HASH_TYPE_TYPE then (if e2 then .v 2 else if e1 then .v 1 else .v 0)
  else .invalidHashType

/-! ## DaoScriptSizeVerifier -/

/-- what the rule sees of an (input, output) pair at the same index -/
structure DaoPair where
  inputIsDao : Bool
  outputIsDao : Bool
  /-- `load_cell_data`: `none` = not loadable, `some z` = loaded, `z` = all bytes are zero -/
  inputData : Option Bool
  /-- `transaction_info.block_number` of the input cell, if any -/
  inputBlock : Option Nat
  inputLockSize : Nat
  outputLockSize : Nat
  deriving Repr, DecidableEq

def daoPairMismatch (startBlock : Nat) (p : DaoPair) : Bool :=
  if !(p.inputIsDao && p.outputIsDao) then false
  else
    match p.inputData with
    | none => false
    | some allZero =>
      if !allZero then false
      else if (match p.inputBlock with | some b => decide (b < startBlock) | none => false) then false
      else p.inputLockSize != p.outputLockSize

/-- `DaoScriptSizeVerifier::verify`: `some i` = `DaoLockSizeMismatch { index: i }` -/
def daoScriptSize (startBlock : Nat) : Nat → List DaoPair → Option Nat
  | _, [] => none
  | i, p :: rest => if daoPairMismatch startBlock p then some i else daoScriptSize startBlock (i + 1) rest

/-! ## Fee -/

/-- an input as `transaction_maximum_withdraw` sees it -/
inductive FeeInput where
  /-- not a withdrawing DAO cell: counts with its capacity -/
  | plain (capacity : Nat)
  /-- withdrawing DAO cell with well-formed witness / header deps: capacity, occupied capacity
  (`none` = overflow), accumulated rates of the deposit and the withdrawing header, and whether
  deposit number < withdrawing number -/
  | withdraw (capacity : Nat) (occupied : Option Nat) (depositAr withdrawAr : Nat) (ordered : Bool)
  /-- withdrawing DAO cell whose witness / header deps are malformed (`DaoError`) -/
  | malformed
  deriving Repr, DecidableEq

def safeSub (a b : Nat) : Option Nat := if b ≤ a then some (a - b) else none

/-- `calculate_maximum_withdraw` (after the header lookups); `none` = a `DaoError`, or a panic for
`depositAr = 0` (never stored: genesis ar is 10^16) -/
def maxWithdraw (capacity : Nat) (occupied : Option Nat) (dar war : Nat) (ordered : Bool) : Option Nat :=
  if !ordered then none
  else
    match occupied with
    | none => none
    | some occ =>
      match safeSub capacity occ with
      | none => none
      | some counted =>
        if dar = 0 then none
        else safeAdd ((counted * war / dar) % Tx.U64) occ

/-- `transaction_maximum_withdraw`: `try_fold` with `c.safe_add(capacities)` -/
def maximumWithdraw : Nat → List FeeInput → Option Nat
  | acc, [] => some acc
  | acc, i :: rest =>
    match (match i with
      | .plain c => some c
      | .withdraw c occ dar war ord => maxWithdraw c occ dar war ord
      | .malformed => none) with
    | none => none
    | some c =>
      match safeAdd c acc with
      | none => none
      | some s => maximumWithdraw s rest

/-- `FeeCalculator::transaction_fee`: 0 for a resolved cellbase, else maximum withdraw − outputs -/
def transactionFee (inputs : List FeeInput) (outputCaps : List Nat) : Option Nat :=
  if inputs.isEmpty then some 0
  else
    match maximumWithdraw 0 inputs with
    | none => none
    | some mw =>
      match sumCapsL 0 outputCaps with
      | none => none
      | some o => safeSub mw o

/-! ## The whole pipeline of a pooled / block transaction, rule by rule -/

inductive Stage where
  | nonContextual (v : NcV)
  | resolve (e : RErr)
  | time (v : Since.V)
  | capacity (v : CapV)
  | script (code : Int)
  | cycles
  | fee
  | daoSize (i : Nat)
  deriving Repr, DecidableEq

/-- the per-rule results of one transaction in one context, in the order the code evaluates them
(block: `NonContextualTransactionVerifier` in `BlockVerifier`, then `resolve_block_transactions`, then
`ContextualTransactionVerifier` = time, capacity, script, fee, then `DaoScriptSizeVerifier`) -/
structure RuleResults where
  nc : NcV
  resolve : Option RErr
  time : Since.V
  cap : CapV
  scriptCode : Int
  cycles : Nat
  maxCycles : Nat
  fee : Option Nat
  dao : Option Nat
  deriving Repr, DecidableEq

/-- first failing rule, or the completed (cycles, fee) -/
def pipeline (r : RuleResults) : Except Stage (Nat × Nat) :=
  match r.nc with
  | .ok =>
    match r.resolve with
    | some e => .error (.resolve e)
    | none =>
      match r.time with
      | .ok =>
        match r.cap with
        | .ok =>
          if r.cycles > r.maxCycles then .error .cycles
          else if r.scriptCode ≠ 0 then .error (.script r.scriptCode)
          else
            match r.fee with
            | none => .error .fee
            | some f =>
              match r.dao with
              | some i => .error (.daoSize i)
              | none => .ok (r.cycles, f)
        | v => .error (.capacity v)
      | v => .error (.time v)
  | v => .error (.nonContextual v)

/-! ## Tx-pool admission (`tx-pool/src/process.rs` `process_tx` / `_process_tx` / `test_accept_tx`,
`tx-pool/src/util.rs` `check_txid_collision`, `check_tx_fee`, `verify_rtx`) -/

/-- `FeeRate::fee`: `self.0.saturating_mul(weight) / KW` -/
def feeRateFee (rate weight : Nat) : Nat := Since.satMul rate weight / FEE_RATE_KW

/-- `check_tx_fee`: `none` = the DAO fee computation failed (`Reject::Malformed`), `some (Except.error
(minFee, fee))` = `Reject::LowFeeRate`, `some (.ok fee)` = passed -/
def checkTxFee (minFeeRate size : Nat) (fee : Option Nat) : Option (Except (Nat × Nat) Nat) :=
  match fee with
  | none => none
  | some f =>
    let minFee := feeRateFee minFeeRate size
    if f < minFee then some (.error (minFee, f)) else some (.ok f)

inductive PoolV where
  /-- `Completed { cycles, fee }` -/
  | ok (cycles fee : Nat)
  /-- `non_contextual_verify` failed (`Reject::Verification`, `ExceededTransactionSizeLimit`, `Malformed("cellbase like")`) -/
  | nonContextual (v : NcV)
  /-- `check_txid_collision` -/
  | duplicated
  | resolve (e : RErr)
  /-- `check_tx_fee`: the fee is not defined -/
  | malformedFee
  | lowFeeRate (minFee fee : Nat)
  | time (v : Since.V)
  | capacity (v : CapV)
  /-- the scripts need more than `max_cycles` (= the declared cycles of a remote transaction, else
  `max_block_cycles`) -/
  | exceededMaximumCycles
  | script (code : Int)
  | daoSize (i : Nat)
  | declaredWrongCycles (declared actual : Nat)
  deriving Repr, DecidableEq

/-- what the pool looks at for one submitted transaction -/
structure PoolIn where
  tx : NcTx
  txVersion : Nat
  maxBlockBytes : Nat
  /-- the pool already holds a transaction with this proposal short id -/
  inPool : Bool
  resolve : Option RErr
  /-- `DaoCalculator::transaction_fee` -/
  fee : Option Nat
  minFeeRate : Nat
  time : Since.V
  cap : CapV
  scriptCode : Int
  /-- cycles the scripts of the transaction consume -/
  cycles : Nat
  /-- `Some(declared)` for a transaction relayed by a peer -/
  declared : Option Nat
  maxBlockCycles : Nat
  dao : Option Nat
  deriving Repr, DecidableEq

/-- `process_tx` up to `submit_entry` (cache miss): `non_contextual_verify`, `pre_check`
(`check_txid_collision`, `resolve_tx`, `check_tx_fee`), `verify_rtx` with
`max_cycles = declared.unwrap_or(max_block_cycles)` (time, capacity, scripts; the `FeeCalculator` step
inside `ContextualTransactionVerifier` repeats the computation `check_tx_fee` already did on the same
resolved transaction, so it cannot fail here; then `DaoScriptSizeVerifier`), then the declared-cycles
comparison -/
def poolAdmit (p : PoolIn) : PoolV :=
  match poolNonContextual p.txVersion p.maxBlockBytes p.tx with
  | .ok =>
    if p.inPool then .duplicated
    else
      match p.resolve with
      | some e => .resolve e
      | none =>
        match checkTxFee p.minFeeRate (sizeInBlock p.tx) p.fee with
        | none => .malformedFee
        | some (.error (m, f)) => .lowFeeRate m f
        | some (.ok fee) =>
          let maxCycles := match p.declared with | some d => d | none => p.maxBlockCycles
          match p.time with
          | .ok =>
            match p.cap with
            | .ok =>
              if p.cycles > maxCycles then .exceededMaximumCycles
              else if p.scriptCode ≠ 0 then .script p.scriptCode
              else
                match p.dao with
                | some i => .daoSize i
                | none =>
                  match p.declared with
                  | some d => if d ≠ p.cycles then .declaredWrongCycles d p.cycles else .ok p.cycles fee
                  | none => .ok p.cycles fee
            | v => .capacity v
          | v => .time v
  | v => .nonContextual v

/-! ## The DAO witness / header-dep decoding of `transaction_maximum_withdraw` -/

/-- what the witness at the input's position decodes to -/
inductive DaoWitness where
  /-- `witnesses().get(i)` is `None` -/
  | missing
  /-- not a `WitnessArgs` -/
  | notWitnessArgs
  /-- `input_type` absent or not 8 bytes long -/
  | badInputType
  /-- `input_type` = little-endian u64 header-dep index -/
  | index (k : Nat)
  deriving Repr, DecidableEq

inductive DaoErr where
  | invalidOutPoint
  | invalidDaoFormat
  | invalidHeader
  deriving Repr, DecidableEq

/-- the header look-ups of one withdrawing input: `infoBlock` = `transaction_info.block_hash` of the
cell; result = (deposit header, withdrawing header) -/
def daoHeaders (headerDeps : List Nat) (infoBlock : Option Nat) (w : DaoWitness) : Except DaoErr (Nat × Nat) :=
  match (match infoBlock with | some b => if b ∈ headerDeps then some b else none | none => none) with
  | none => .error .invalidOutPoint
  | some wh =>
    match w with
    | .missing => .error .invalidOutPoint
    | .notWitnessArgs => .error .invalidDaoFormat
    | .badInputType => .error .invalidDaoFormat
    | .index k =>
      match headerDeps[k]? with
      | none => .error .invalidOutPoint
      | some dh => .ok (dh, wh)

/-- one withdrawing input through `transaction_maximum_withdraw`: the header look-ups, then
`calculate_maximum_withdraw` with the two headers' numbers and accumulated rates (`number`, `ar` =
the header database); a failed `calculate_maximum_withdraw` is `InvalidOutPoint` when the deposit
block is not below the withdrawing block, else a capacity error (`none`) -/
def daoWithdraw (hds : List Nat) (number ar : Nat → Nat) (info : Option Nat) (w : DaoWitness)
    (cap : Nat) (occ : Option Nat) : Except DaoErr (Option Nat) :=
  match daoHeaders hds info w with
  | .error e => .error e
  | .ok (dh, wh) =>
    if ¬ number dh < number wh then .error .invalidOutPoint
    else .ok (maxWithdraw cap occ (ar dh) (ar wh) true)

/-- as `daoWithdraw`, with the data loader's `get_header` explicit (`known h` = the header is found):
`calculate_maximum_withdraw` looks up the deposit header, then the withdrawing header
(`DaoError::InvalidHeader`), before it compares their numbers -/
def daoWithdrawL (known : Nat → Bool) (hds : List Nat) (number ar : Nat → Nat) (info : Option Nat)
    (w : DaoWitness) (cap : Nat) (occ : Option Nat) : Except DaoErr (Option Nat) :=
  match daoHeaders hds info w with
  | .error e => .error e
  | .ok (dh, wh) =>
    if !known dh then .error .invalidHeader
    else if !known wh then .error .invalidHeader
    else if ¬ number dh < number wh then .error .invalidOutPoint
    else .ok (maxWithdraw cap occ (ar dh) (ar wh) true)

end CkbVerif.TxRules
