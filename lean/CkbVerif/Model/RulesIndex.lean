import CkbVerif.Model.Rules

/-!
# The store indexes the contextual verifier reads, maintained by attach / detach (C03)

Follows the code as written:

* `store/src/transaction.rs` — `StoreTransaction::attach_block`: one `COLUMN_TRANSACTION_INFO` row per
  transaction, `COLUMN_INDEX[number] = hash`, one `COLUMN_UNCLES[uncle hash] = uncle header` row per
  uncle, `COLUMN_INDEX[hash] = number`, and `COLUMN_EPOCH[epoch number]` when the block is the first
  of its epoch; `detach_block` deletes exactly these keys.
* `chain/src/verify.rs` — `verify_block` for a new best block: `find_fork` (detached = the main chain
  above the common ancestor, attached = the new branch), `rollback` (`detach_block` over
  `detached_blocks().iter().rev()`: tip first), `reconcile_main_chain` (`attach_block` in ascending
  order, the already verified prefix first, each unverified block right after its verification).
* `verification/contextual/src/contextual_block_verifier.rs` — `UncleVerifierContext`:
  `double_inclusion = get_block_number(h).is_some() || is_uncle(h)`, `descendant` reads
  `get_block_number(parent)` / `get_uncle_header(parent)`; `TwoPhaseCommitVerifier` starts its walk
  at `get_block_hash(proposal_end)`; `VerifyContext::check_valid` (header deps) is `is_main_chain`.

A column is a total function key → optional row (`KV`); keys and rows are small identifiers as in
`Model/Rules.lean`. Cell liveness (`attach_block_cell` / `detach_block_cell`, C02), the chain-root
MMR (C19) and the epoch records by hash (C07) are other properties' models; here they stay oracle
inputs of `Blk`.
-/
namespace CkbVerif.Rules

/-- one column family: key ↦ row -/
abbrev KV (α : Type) := Nat → Option α

namespace KV
variable {α : Type}

def empty : KV α := fun _ => none
/-- `insert_raw` (overwrites) -/
def put (m : KV α) (k : Nat) (v : α) : KV α := fun x => if x = k then some v else m x
/-- `delete` -/
def del (m : KV α) (k : Nat) : KV α := fun x => if x = k then none else m x
def putAll (m : KV α) : List (Nat × α) → KV α
  | [] => m
  | r :: rs => putAll (m.put r.1 r.2) rs
def delAll (m : KV α) : List Nat → KV α
  | [] => m
  | k :: ks => delAll (m.del k) ks
end KV

/-- the columns `attach_block` / `detach_block` maintain -/
structure Idx where
  /-- `COLUMN_INDEX`, number ↦ hash (`get_block_hash`) -/
  hashAt : KV Nat
  /-- `COLUMN_INDEX`, hash ↦ number (`get_block_number`, `is_main_chain`) -/
  numOf : KV Nat
  /-- `COLUMN_UNCLES`, uncle hash ↦ number of the uncle header (`is_uncle`, `get_uncle_header`) -/
  uncle : KV Nat
  /-- `COLUMN_TRANSACTION_INFO`, tx hash ↦ (block hash, block number) -/
  txInfo : KV (Nat × Nat)
  /-- `COLUMN_EPOCH`, epoch number ↦ `last_block_hash_in_previous_epoch` (`get_epoch_index`) -/
  epochAt : KV Nat

def Idx.empty : Idx := ⟨KV.empty, KV.empty, KV.empty, KV.empty, KV.empty⟩

/-! rows a block contributes, in the order `attach_block` writes them -/
def Blk.rowsTx (b : Blk) : List (Nat × (Nat × Nat)) := b.txIds.map fun t => (t, (b.id, b.number))
def Blk.rowsHashAt (b : Blk) : List (Nat × Nat) := [(b.number, b.id)]
def Blk.rowsUncle (b : Blk) : List (Nat × Nat) := b.uncles.map fun u => (u.id, u.number)
def Blk.rowsNumOf (b : Blk) : List (Nat × Nat) := [(b.id, b.number)]
/-- `epoch.start_number() == block.number()` ⇔ the block's epoch index is 0; the row's key is the
epoch number, its value the hash of the last block of the previous epoch = the parent -/
def Blk.rowsEpoch (b : Blk) : List (Nat × Nat) := if b.epoch.index == 0 then [(b.epoch.number, b.parent)] else []

/-- `StoreTransaction::attach_block` -/
def attachIdx (b : Blk) (x : Idx) : Idx :=
  { txInfo := x.txInfo.putAll b.rowsTx
    hashAt := x.hashAt.putAll b.rowsHashAt
    uncle := x.uncle.putAll b.rowsUncle
    numOf := x.numOf.putAll b.rowsNumOf
    epochAt := x.epochAt.putAll b.rowsEpoch }

/-- `StoreTransaction::detach_block` -/
def detachIdx (b : Blk) (x : Idx) : Idx :=
  { epochAt := x.epochAt.delAll (b.rowsEpoch.map (·.1))
    txInfo := x.txInfo.delAll (b.rowsTx.map (·.1))
    uncle := x.uncle.delAll (b.rowsUncle.map (·.1))
    hashAt := x.hashAt.delAll (b.rowsHashAt.map (·.1))
    numOf := x.numOf.delAll (b.rowsNumOf.map (·.1)) }

/-- the seeded variant `r2m2` (NOT in /repo): `detach_block` deletes the uncles' keys from another
column, so the uncle index keeps the rows of detached blocks -/
def detachIdxStaleUncles (b : Blk) (x : Idx) : Idx :=
  { detachIdx b x with uncle := x.uncle }

/-- `reconcile_main_chain`: attach in ascending order (`bs` oldest first) -/
def attachChain : List Blk → Idx → Idx
  | [], x => x
  | b :: bs, x => attachChain bs (attachIdx b x)

/-- `rollback`: detach `detached_blocks().iter().rev()` — tip first (`bs` oldest first) -/
def detachChain (det : Blk → Idx → Idx) : List Blk → Idx → Idx
  | [], x => x
  | b :: bs, x => det b (detachChain det bs x)

/-- `ChainDB::init`: the genesis block is attached to an empty store -/
def idxInit (g : Blk) : Idx := attachIdx g Idx.empty

/-- the index of a store that attached `chain` (the blocks above the genesis block, oldest first)
from the genesis block and never detached anything -/
def idxOfChain (g : Blk) (chain : List Blk) : Idx := attachChain chain (idxInit g)

/-- main chain (above the genesis block, oldest first) and index -/
structure IdxSt where
  chain : List Blk
  idx : Idx

/-- One new best block: the main chain keeps its lowest `keep` blocks, the rest is detached (tip
first), `branch` is attached (oldest first). `keep = chain.length`, `branch = [b]` is the plain
extension by one block. -/
def reorgWith (det : Blk → Idx → Idx) (s : IdxSt) (keep : Nat) (branch : List Blk) : IdxSt :=
  { chain := s.chain.take keep ++ branch
    idx := attachChain branch (detachChain det (s.chain.drop keep) s.idx) }

def reorg := reorgWith detachIdx

/-- a history of new-best-block events from the freshly initialised store -/
def runReorgsWith (det : Blk → Idx → Idx) : IdxSt → List (Nat × List Blk) → IdxSt
  | s, [] => s
  | s, (keep, branch) :: rest => runReorgsWith det (reorgWith det s keep branch) rest

def runReorgs (g : Blk) (steps : List (Nat × List Blk)) : IdxSt :=
  runReorgsWith detachIdx ⟨[], idxInit g⟩ steps

/-- what `ContextualBlockVerifier` reads for a child of `p`, from the index and the stored bodies:
`get_block_number`, `get_uncle_header`, and the union proposal ids of the main-chain blocks
`0 ..= p.number` found through `get_block_hash` (the code reads `get_block_hash(proposal_end)` once and
then follows parent hashes; on an index that names a parent-linked chain the two walks coincide) -/
def cxOfIdx (st : List Blk) (x : Idx) (p : Blk) : Cx :=
  { parentNumber := p.number
    mainNum := x.numOf
    uncleNum := x.uncle
    chain := (List.range (p.number + 1)).map fun n =>
      match (x.hashAt n).bind (findBlk st) with
      | some b => b.unionProposals
      | none => []
    parentEpochNumber := p.epoch.number }

/-- the keys `attach_block(b)` writes are absent from the index -/
def FreshIn (b : Blk) (x : Idx) : Prop :=
  (∀ r ∈ b.rowsTx, x.txInfo r.1 = none) ∧ (∀ r ∈ b.rowsHashAt, x.hashAt r.1 = none) ∧
  (∀ r ∈ b.rowsUncle, x.uncle r.1 = none) ∧ (∀ r ∈ b.rowsNumOf, x.numOf r.1 = none) ∧
  (∀ r ∈ b.rowsEpoch, x.epochAt r.1 = none)

/-- every block of the chain writes fresh keys when it is attached in order: block hashes, numbers and
transaction hashes do not repeat along the chain, no uncle is embedded twice, no epoch starts twice -/
def FreshChain : List Blk → Idx → Prop
  | [], _ => True
  | b :: bs, x => FreshIn b x ∧ FreshChain bs (attachIdx b x)

/-- every new-best-block event of the history leaves a main chain with fresh keys -/
def StepsOk (g : Blk) : IdxSt → List (Nat × List Blk) → Prop
  | _, [] => True
  | s, (keep, branch) :: rest =>
    FreshChain (s.chain.take keep ++ branch) (idxInit g) ∧ StepsOk g (reorg s keep branch) rest

end CkbVerif.Rules
