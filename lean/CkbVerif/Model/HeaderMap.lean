/-!
# Two-tier header map (C17, stream `headermap`)

Follows `shared/src/types/header_map/kernel_lru.rs` (`HeaderMapKernel::{contains_key, get, insert,
remove, limit_memory}`), `memory.rs` (`MemoryMap` over `ckb_util::LinkedHashMap`: `insert` and
`get_refresh` move the entry to the back, `front_n` takes from the front) and `backend_sled.rs`
(`insert_batch` overwrites; `is_empty` reads the item counter, which is the number of keys).

Keys stand for block hashes, values for the stored `HeaderIndexView`. `limit_memory` is one atomic
step that may be placed between any two operations.
-/
namespace CkbVerif.HeaderMap

abbrev Assoc := List (Nat × Nat)

/-- lookup of the first entry with key `k` -/
def lk : Assoc → Nat → Option Nat
  | [], _ => none
  | (k', v) :: l, k => if k' = k then some v else lk l k

/-- remove every entry with key `k` -/
def del (l : Assoc) (k : Nat) : Assoc := l.filter (fun e => e.1 != k)

/-- insert / overwrite and move to the back -/
def put (l : Assoc) (k v : Nat) : Assoc := del l k ++ [(k, v)]

structure HM where
  /-- front = least recently used = next to spill -/
  memory : Assoc := []
  backend : Assoc := []
  /-- `memory_limit` (in items) -/
  limit : Nat
deriving Repr

inductive Op
  | insert (k v : Nat)
  | get (k : Nat)
  | contains (k : Nat)
  | remove (k : Nat)
  /-- `limit_memory` -/
  | spill
deriving Repr

inductive Ans
  | unit
  | val (v : Option Nat)
  | bool (b : Bool)
deriving Repr, DecidableEq

/-- `backend.insert_batch(values)` -/
def insertBatch (b : Assoc) : Assoc → Assoc
  | [] => b
  | (k, v) :: vs => insertBatch (put b k v) vs

/-- `memory.insert(view)`'s return value (`Some(())` iff the key was in the memory tier); not part
of the plain-map answers (no caller reads it), but compared with the implementation -/
def insertHit (s : HM) (k : Nat) : Bool := (lk s.memory k).isSome

def step (s : HM) : Op → HM × Ans
  | .insert k v => ({ s with memory := put s.memory k v }, .unit)
  | .get k =>
    match lk s.memory k with
    | some v => ({ s with memory := put s.memory k v }, .val (some v))
    | none =>
      if s.backend.isEmpty then (s, .val none)
      else
        match lk s.backend k with
        | some v => ({ s with backend := del s.backend k, memory := put s.memory k v }, .val (some v))
        | none => (s, .val none)
  | .contains k =>
    if (lk s.memory k).isSome then (s, .bool true)
    else if s.backend.isEmpty then (s, .bool false)
    else (s, .bool (lk s.backend k).isSome)
  | .remove k =>
    let m := del s.memory k
    if s.backend.isEmpty then ({ s with memory := m }, .unit)
    else ({ s with memory := m, backend := del s.backend k }, .unit)
  | .spill =>
    if s.memory.length > s.limit then
      let num := s.memory.length - s.limit
      ({ s with backend := insertBatch s.backend (s.memory.take num), memory := s.memory.drop num }, .unit)
    else (s, .unit)

/-- the plain map the structure is meant to be -/
abbrev Plain := Nat → Option Nat

def specStep (m : Plain) : Op → Plain × Ans
  | .insert k v => (fun x => if x = k then some v else m x, .unit)
  | .get k => (m, .val (m k))
  | .contains k => (m, .bool (m k).isSome)
  | .remove k => (fun x => if x = k then none else m x, .unit)
  | .spill => (m, .unit)

def run (s : HM) : List Op → List Ans
  | [] => []
  | op :: ops => (step s op).2 :: run (step s op).1 ops

def specRun (m : Plain) : List Op → List Ans
  | [] => []
  | op :: ops => (specStep m op).2 :: specRun (specStep m op).1 ops

end CkbVerif.HeaderMap
