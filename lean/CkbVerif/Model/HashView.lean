import CkbVerif.Model.Hash
/-!
# The view layer (C15): cached hashes in `TransactionView` / `HeaderView` / `UncleBlockView` / `BlockView`

Model of `util/types/src/core/views.rs` (the structs with their caches, the accessors, `into_view`,
`into_view_without_reset_header`, `new_unchecked*`), `util/types/src/core/advanced_builders.rs`
(`as_advanced_builder`, the setters, `BlockBuilder::build_internal`) and
`ResetBlock::reset_header_with_hashes` (`util/types/src/extension.rs`), over the abstract hash
algebra of `Model/Hash.lean`.

A header is kept as `(lit, fields)`: the literal bytes of its non-commitment fields (version,
compact_target, timestamp, number, epoch, parent_hash, dao, nonce) and the three digest-typed
commitment fields AS STORED.  An uncle's header stays a 208-byte string (its digest fields are
literals from the nephew's point of view).  `fake_hash` is not modelled (it exists to break the
invariant on purpose).

Core Lean only.
-/
namespace CkbVerif.Hash
open CkbVerif.Molecule

/-- `packed::UncleBlock` -/
structure Uncle where
  header : Bytes
  proposals : List Bytes
deriving Repr, DecidableEq

/-- `packed::Block` (read in compatible mode: `extension` is the first extra field) -/
structure BlockData (D : Type) where
  lit : Bytes
  fields : Fields D
  uncles : List Uncle
  txs : List Bytes
  proposals : List Bytes
  extension : Option Bytes

/-- the hashed part of a block's body -/
def BlockData.body {D : Type} (b : BlockData D) : Body :=
  { txs := b.txs, proposals := b.proposals, uncles := b.uncles.map (·.header), extension := b.extension }

/-- `core::TransactionView` -/
structure TxView (D : Type) where
  data : Bytes
  hash : D
  witnessHash : D

/-- `core::HeaderView` -/
structure HeaderView (D : Type) where
  lit : Bytes
  fields : Fields D
  hash : D

/-- `core::UncleBlockView` -/
structure UncleView (D : Type) where
  data : Uncle
  hash : D

/-- `core::BlockView` -/
structure BlockView (D : Type) where
  data : BlockData D
  hash : D
  uncleHashes : List D
  txHashes : List D
  txWitnessHashes : List D

/-- `core::HeaderBuilder` -/
structure HeaderBuilder (D : Type) where
  lit : Bytes
  fields : Fields D

/-- `core::BlockBuilder` -/
structure BlockBuilder (D : Type) where
  header : HeaderBuilder D
  uncles : List (UncleView D)
  transactions : List (TxView D)
  proposals : List Bytes
  extension : Option Bytes

section
variable {D : Type} (A : HashAlg D)

/-! ### `into_view` of the parts -/

/-- `packed::Transaction::into_view` -/
def txIntoView (tx : Bytes) : TxView D := { data := tx, hash := txHash A tx, witnessHash := witnessHash A tx }

/-- `packed::Header::into_view` / `HeaderBuilder::build`: hash = `calc_header_hash` -/
def HeaderBuilder.build (h : HeaderBuilder D) : HeaderView D :=
  { lit := h.lit, fields := h.fields, hash := blockHash A h.lit h.fields }

/-- `packed::UncleBlock::into_view`: hash = `calc_header_hash` of the uncle's header -/
def uncleIntoView (u : Uncle) : UncleView D := { data := u, hash := A.hb u.header }

/-! ### `ResetBlock` -/

/-- `reset_header_with_hashes(self, tx_hashes, tx_witness_hashes)`: the roots are computed from the
hashes the CALLER supplies; proposals / extra hash from the block itself -/
def resetHeaderWithHashes (b : BlockData D) (th wh : List D) : BlockData D :=
  { b with fields :=
      { transactionsRoot := merkleRoot A [merkleRoot A th, merkleRoot A wh]
        proposalsHash := proposalsHash A b.proposals
        extraHash := extraHash A (unclesHash A (b.uncles.map (·.header))) (extensionHash A b.extension) } }

/-- `reset_header(self)` -/
def resetHeader (b : BlockData D) : BlockData D :=
  resetHeaderWithHashes A b (b.txs.map (txHash A)) (b.txs.map (witnessHash A))

/-! ### `IntoBlockView` -/

/-- `block_into_view_internal(block, tx_hashes, tx_witness_hashes)` -/
def blockIntoViewInternal (b : BlockData D) (th wh : List D) : BlockView D :=
  { data := b
    hash := blockHash A b.lit b.fields
    uncleHashes := b.uncles.map (fun u => A.hb u.header)
    txHashes := th
    txWitnessHashes := wh }

/-- `into_view_without_reset_header` -/
def intoViewWithoutReset (b : BlockData D) : BlockView D :=
  blockIntoViewInternal A b (b.txs.map (txHash A)) (b.txs.map (witnessHash A))

/-- `into_view`: hashes computed once, header reset with them, then the view -/
def intoView (b : BlockData D) : BlockView D :=
  blockIntoViewInternal A (resetHeaderWithHashes A b (b.txs.map (txHash A)) (b.txs.map (witnessHash A)))
    (b.txs.map (txHash A)) (b.txs.map (witnessHash A))

end

/-! ### accessors of `BlockView` (no hashing: they only pair data with caches) -/

section
variable {D : Type}

/-- `BlockView::header()` -/
def BlockView.header (v : BlockView D) : HeaderView D :=
  { lit := v.data.lit, fields := v.data.fields, hash := v.hash }

/-- the zip in `BlockView::transactions()` (stops at the shortest of the three) -/
def zipTx : List Bytes → List D → List D → List (TxView D)
  | d :: ds, h :: hs, w :: ws => { data := d, hash := h, witnessHash := w } :: zipTx ds hs ws
  | _, _, _ => []

/-- `BlockView::transactions()` -/
def BlockView.transactions (v : BlockView D) : List (TxView D) :=
  zipTx v.data.txs v.txHashes v.txWitnessHashes

/-- `BlockView::transaction(index)`; `should_be_ok()` on a missing cache entry is a panic, modelled
as `none` (it cannot happen when the cache lengths agree with the data) -/
def BlockView.transaction (v : BlockView D) (i : Nat) : Option (TxView D) :=
  match v.data.txs[i]?, v.txHashes[i]?, v.txWitnessHashes[i]? with
  | some d, some h, some w => some { data := d, hash := h, witnessHash := w }
  | _, _, _ => none

def zipUncle : List Uncle → List D → List (UncleView D)
  | d :: ds, h :: hs => { data := d, hash := h } :: zipUncle ds hs
  | _, _ => []

/-- `BlockView::uncles()` as the list `into_iter()` yields (`get(i)` is its `i`-th element) -/
def BlockView.uncles (v : BlockView D) : List (UncleView D) := zipUncle v.data.uncles v.uncleHashes

/-! ### advanced builders -/

/-- `BlockView::as_advanced_builder()`: header from `self.header()`, parts re-paired with the caches -/
def BlockView.asAdvancedBuilder (v : BlockView D) : BlockBuilder D :=
  { header := { lit := v.data.lit, fields := v.data.fields }
    uncles := zipUncle v.data.uncles v.uncleHashes
    transactions := zipTx v.data.txs v.txHashes v.txWitnessHashes
    proposals := v.data.proposals
    extension := v.data.extension }

end

section
variable {D : Type} (A : HashAlg D)

/-- `packed::Block::as_advanced_builder()`: every part goes through its own `into_view()` -/
def BlockData.asAdvancedBuilder (b : BlockData D) : BlockBuilder D :=
  { header := { lit := b.lit, fields := b.fields }
    uncles := b.uncles.map (uncleIntoView A)
    transactions := b.txs.map (txIntoView A)
    proposals := b.proposals
    extension := b.extension }

/-- `BlockBuilder::build_internal(reset_header)`: the roots come from the CACHED hashes of the
transaction views, the uncle hashes from the cached hashes of the uncle views -/
def BlockBuilder.buildInternal (b : BlockBuilder D) (reset : Bool) : BlockView D :=
  let uncles := b.uncles.map (·.data)
  let uncleHashes := b.uncles.map (·.hash)
  let txs := b.transactions.map (·.data)
  let th := b.transactions.map (·.hash)
  let wh := b.transactions.map (·.witnessHash)
  let fields : Fields D :=
    if reset then
      { transactionsRoot := merkleRoot A [merkleRoot A th, merkleRoot A wh]
        proposalsHash := proposalsHash A b.proposals
        extraHash := extraHash A (unclesHash A (uncles.map (·.header))) (extensionHash A b.extension) }
    else b.header.fields
  let hv := HeaderBuilder.build A { lit := b.header.lit, fields := fields }
  { data := { lit := hv.lit, fields := hv.fields, uncles := uncles, txs := txs, proposals := b.proposals, extension := b.extension }
    hash := hv.hash
    uncleHashes := uncleHashes
    txHashes := th
    txWitnessHashes := wh }

/-- `BlockBuilder::build()` -/
def BlockBuilder.build (b : BlockBuilder D) : BlockView D := b.buildInternal A true
/-- `BlockBuilder::build_unchecked()` -/
def BlockBuilder.buildUnchecked (b : BlockBuilder D) : BlockView D := b.buildInternal A false

end

/-- `BlockView::new_unchecked(header, uncles, body, proposals)` /
`new_unchecked_with_extension(.., extension)`: nothing is hashed, caches are copied from the parts -/
def newUnchecked {D : Type} (header : HeaderView D) (uncles : List Uncle) (uncleHashes : List D) (body : List (TxView D))
    (proposals : List Bytes) (extension : Option Bytes) : BlockView D :=
  { data := { lit := header.lit, fields := header.fields, uncles := uncles, txs := body.map (·.data),
              proposals := proposals, extension := extension }
    hash := header.hash
    uncleHashes := uncleHashes
    txHashes := body.map (·.hash)
    txWitnessHashes := body.map (·.witnessHash) }

/-! ### reading a `packed::Block` out of bytes (driver side of the correspondence) -/

/-- a header field as found in the bytes: all-zero is `Byte32::zero()`, anything else is opaque -/
def rawDg (bs : Bytes) : Dg := if bs.all (· == 0) then .zero else .raw bs

/-- a (compatible) `Block` encoding as `BlockData`: the 208-byte header is split into its literal
fields (bytes 0..64: version, compact_target, timestamp, number, epoch, parent_hash; bytes
160..208: dao, nonce) and the three commitment fields (64..96, 96..128, 128..160) -/
def BlockData.ofBytes (bs : Bytes) : Option (BlockData Dg) :=
  match dynHeader bs with
  | none => none
  | some offs =>
    match slices bs offs with
    | hdr :: uncles :: txs :: props :: rest =>
      match dynItems uncles, dynItems txs with
      | some us, some ts =>
        some
          { lit := hdr.take 64 ++ hdr.drop 160
            fields := { transactionsRoot := rawDg (slice hdr 64 96), proposalsHash := rawDg (slice hdr 96 128),
                        extraHash := rawDg (slice hdr 128 160) }
            uncles := us.map (fun u =>
              let p := (tableFieldBytes u 1).getD []
              { header := (tableFieldBytes u 0).getD [], proposals := chunk 10 (num p) (p.drop 4) })
            txs := ts
            proposals := chunk 10 (num props) (props.drop 4)
            extension := extensionOfExtra rest }
      | _, _ => none
    | _ => none

/-! ### the invariants -/

section
variable {D : Type} (A : HashAlg D)

/-- cached hashes of a transaction view equal recomputation -/
def TxView.Ok (t : TxView D) : Prop :=
  t.hash = CkbVerif.Hash.txHash A t.data ∧ t.witnessHash = CkbVerif.Hash.witnessHash A t.data
def UncleView.Ok (u : UncleView D) : Prop := u.hash = A.hb u.data.header
def HeaderView.Ok (h : HeaderView D) : Prop := h.hash = blockHash A h.lit h.fields

/-- **every cached hash of a block view equals recomputation from its data** -/
def BlockView.Consistent (v : BlockView D) : Prop :=
  v.hash = blockHash A v.data.lit v.data.fields ∧
  v.uncleHashes = v.data.uncles.map (fun u => A.hb u.header) ∧
  v.txHashes = v.data.txs.map (txHash A) ∧
  v.txWitnessHashes = v.data.txs.map (witnessHash A)

/-- the header's three commitment fields are the ones `reset_header` computes from the body -/
def BlockData.Committed (b : BlockData D) : Prop :=
  b.fields.transactionsRoot = (resetFields A b.body).transactionsRoot ∧
  b.fields.proposalsHash = (resetFields A b.body).proposalsHash ∧
  b.fields.extraHash = (resetFields A b.body).extraHash

end

end CkbVerif.Hash
