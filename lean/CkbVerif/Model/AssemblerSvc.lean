import CkbVerif.Model.Assembler

/-!
# The block assembler as the tx-pool service drives it

`Model/Assembler.lean` has the five update paths as pure functions of explicit inputs. This file adds
what sits between them and the service (tx-pool/src/service.rs, block_assembler/{mod,process,
candidate_uncles}.rs):

* `CU`               = `CandidateUncles { map: BTreeMap<BlockNumber, HashSet<UncleBlockView>>, count }`:
                       `insert` (eviction of the LOWEST height when `count >= MAX_CANDIDATE_UNCLES` and the
                       new uncle is higher; `MAX_PER_HEIGHT` per height; duplicates refused),
                       `remove_by_number`, `contains`, `values` (ascending height; the order inside one
                       height is the `HashSet`'s, here: the list's), and `prepare` = `prepare_uncles` with
                       its trailing `for r in removed { self.remove_by_number(&r) }`.
                       The two limits are parameters (`mc`, `mp`); the driver instantiates them with the
                       translated constants.
* `gstep`            = one message of the service: `receive_candidate_uncle` (insert only; the `Uncle`
                       message it sends is the separate op `uncles`), `Reset(snapshot)` → `update_blank`,
                       `update_block_assembler_before_tx_pool_reorg` (detached blocks become candidates,
                       then `update_blank`), and the four other paths WITH their staleness guard
                       `if current.snapshot.tip_hash() != tx_pool_reader.snapshot().tip_hash() { return }`
                       (`update_full`, `update_proposals`, `update_transactions`; `update_uncles` has
                       none: it reads only the assembler's own snapshot). `update_uncles` calls
                       `prepare_uncles` — which mutates the container — only behind its two guards, and
                       keeps the container's mutation even when the result is discarded by the
                       `new_total_size < max_block_bytes` test.

Core Lean only.
-/
namespace CkbVerif.AssemblerSvc
open CkbVerif.Rules (Uncle Cfg)
open CkbVerif.Assembler

/-! ## `CandidateUncles` -/

structure CU where
  /-- ascending distinct heights, each with its set (duplicate-free list) -/
  map : List (Nat × List Uncle) := []
  count : Nat := 0

/-- `set.contains(uncle)` (`UncleBlockView` equality = hash equality) -/
def hasUncle (set : List Uncle) (u : Uncle) : Bool := set.any (·.id == u.id)

/-- `let set = self.map.entry(number).or_default(); if set.len() < MAX_PER_HEIGHT { set.insert(uncle) }
    else { false }`: the new map and the returned flag -/
def insertAt (mp : Nat) (u : Uncle) : List (Nat × List Uncle) → List (Nat × List Uncle) × Bool
  | [] => if 0 < mp then ([(u.number, [u])], true) else ([(u.number, [])], false)
  | (k, set) :: rest =>
    if u.number < k then
      if 0 < mp then ((u.number, [u]) :: (k, set) :: rest, true) else ((u.number, []) :: (k, set) :: rest, false)
    else if u.number == k then
      if set.length < mp then
        if hasUncle set u then ((k, set) :: rest, false) else ((k, set ++ [u]) :: rest, true)
      else ((k, set) :: rest, false)
    else
      let r := insertAt mp u rest
      ((k, set) :: r.1, r.2)

/-- the second half of `insert` -/
def CU.put (mp : Nat) (c : CU) (u : Uncle) : CU × Bool :=
  let r := insertAt mp u c.map
  (⟨r.1, if r.2 then c.count + 1 else c.count⟩, r.2)

/-- `self.map.keys().next().expect("length checked")` would panic -/
def CU.insertPanics (mc : Nat) (c : CU) : Prop := c.count ≥ mc ∧ c.map = []

/-- `CandidateUncles::insert`. (In the `insertPanics` case the function value is irrelevant;
    `cu_insert_never_panics` shows the case is unreachable. `self.count -= set.len()` cannot underflow
    when `count` is exact.) -/
def CU.insert (mc mp : Nat) (c : CU) (u : Uncle) : CU × Bool :=
  if c.count ≥ mc then
    match c.map with
    | [] => (c, false)
    | (first, set) :: rest =>
      if u.number > first then CU.put mp ⟨rest, c.count - set.length⟩ u
      else (c, false)
  else CU.put mp c u

def removeAt (u : Uncle) : List (Nat × List Uncle) → List (Nat × List Uncle) × Bool
  | [] => ([], false)
  | (k, set) :: rest =>
    if k == u.number then
      if hasUncle set u then
        let set' := set.filter (fun x => x.id != u.id)
        (if set'.isEmpty then rest else (k, set') :: rest, true)
      else ((k, set) :: rest, false)
    else
      let r := removeAt u rest
      ((k, set) :: r.1, r.2)

/-- `CandidateUncles::remove_by_number` -/
def CU.removeByNumber (c : CU) (u : Uncle) : CU × Bool :=
  let r := removeAt u c.map
  (⟨r.1, if r.2 then c.count - 1 else c.count⟩, r.2)

/-- `CandidateUncles::values` -/
def CU.values (c : CU) : List Uncle := c.map.flatMap (·.2)

/-- `CandidateUncles::contains` -/
def CU.contains (c : CU) (u : Uncle) : Bool :=
  match c.map.find? (fun p => p.1 == u.number) with
  | some p => hasUncle p.2 u
  | none => false

/-- `CandidateUncles::prepare_uncles`: the uncles for the template and the container afterwards -/
def CU.prepare (maxUncles : Nat) (snap : Snap) (epochNumber target : Nat) (c : CU) : List Uncle × CU :=
  let r := prepareLoop maxUncles snap epochNumber target c.values [] []
  (r.1, r.2.foldl (fun c x => (c.removeByNumber x).1) c)

/-! ## the service's messages -/

structure GSt where
  a : ASt
  /-- `current.snapshot.tip_hash()` -/
  tipId : Nat
  cu : CU

inductive GOp where
  /-- `receive_candidate_uncle`: `candidate_uncles.insert(uncle)` (then an `Uncle` message is queued) -/
  | recvUncle (u : Uncle)
  /-- `update_block_assembler_before_tx_pool_reorg(detached_blocks, snapshot)` -/
  | reorgBlank (detached : List Uncle) (tip : Tip) (tipId : Nat)
  /-- `BlockAssemblerMessage::Reset(snapshot)` -/
  | reset (tip : Tip) (tipId : Nat)
  /-- `update_full` (after the pool's reorg); `poolTip` = `tx_pool.snapshot().tip_hash()` -/
  | full (poolTip : Nat) (pending : List Nat) (v : Selector.View) (keep : Selector.Entry → Bool)
  /-- `BlockAssemblerMessage::Uncle` -/
  | uncles
  /-- `BlockAssemblerMessage::Pending` -/
  | proposals (poolTip : Nat) (pending : List Nat)
  /-- `BlockAssemblerMessage::Proposed` -/
  | txs (poolTip : Nat) (v : Selector.View) (keep : Selector.Entry → Bool)

/-- `update_blank` reading the shared container -/
def blankWith (cfg : Cfg) (U : Nat) (g : GSt) (tip : Tip) (tipId : Nat) : GSt :=
  { a := astep cfg U g.a (.blank tip g.cu.values), tipId := tipId,
    cu := (g.cu.prepare cfg.maxUncles tip.snap tip.epochNumber tip.target).2 }

def gstep (cfg : Cfg) (U mc mp : Nat) (g : GSt) : GOp → GSt
  | .recvUncle u => { g with cu := (g.cu.insert mc mp u).1 }
  | .reorgBlank detached tip tipId =>
    blankWith cfg U { g with cu := detached.foldl (fun c u => (c.insert mc mp u).1) g.cu } tip tipId
  | .reset tip tipId => blankWith cfg U g tip tipId
  | .full poolTip pending v keep =>
    if g.tipId != poolTip then g else { g with a := astep cfg U g.a (.full pending v keep) }
  | .uncles =>
    if g.a.t.uncles.length < cfg.maxUncles then
      if cfg.maxBytes - g.a.t.sTotal > U then
        { g with a := astep cfg U g.a (.uncles g.cu.values),
                 cu := (g.cu.prepare cfg.maxUncles g.a.tip.snap g.a.tip.epochNumber g.a.tip.target).2 }
      else g
    else g
  | .proposals poolTip pending =>
    if g.tipId != poolTip then g else { g with a := astep cfg U g.a (.proposals pending) }
  | .txs poolTip v keep =>
    if g.tipId != poolTip then g else { g with a := astep cfg U g.a (.txs v keep) }

def grun (cfg : Cfg) (U mc mp : Nat) (g : GSt) (ops : List GOp) : GSt := ops.foldl (gstep cfg U mc mp) g

end CkbVerif.AssemblerSvc
