/-
The COLUMN_CHAIN_ROOT_MMR column inside the chain-service step (core Lean only; extends
`Model/StoreV.lean`, reuses the positional MMR of `Model/MMR.lean`).

Sources followed: `chain/src/verify.rs reconcile_main_chain` (`mmr_size =
leaf_index_to_mmr_size(attached[0].number - 1)`, `ChainRootMMR::new(mmr_size, txn)`, one
`mmr.push(b.digest())` per attached block — verified prefix and verified-now blocks alike —
`mmr.commit()` only when no block failed), `rollback` and `truncate` (no MMR write at all: the nodes of
detached blocks stay in the column as stale rows), `store/src/db.rs init` (genesis digest pushed onto
the empty MMR).

A `HeaderDigest` is identified by the ids of the blocks it covers, in order (`Digest = List Nat`);
`MergeHeaderDigest::merge(l, r)` is `l ++ r` (the hash is an identifier; the harness explains every
stored digest as the merge tree of a parent-linked run of known blocks).
-/
import CkbVerif.Model.StoreV
import CkbVerif.Model.MMR
namespace CkbVerif.Store

abbrev Digest := List Nat

def dmerge (a b : Digest) : Digest := a ++ b

/-- `b.digest()` -/
def leafOf (b : Block) : Digest := [b.id]

structure XView where
  v : View
  mmr : MMR.Store Digest

/-- the MMR writes of `reconcile_main_chain` over `fork.attached_blocks`; `none` = a push failed
(`InconsistentStore` → `InternalErrorKind::MMR`) -/
def mmrAttach (st : MMR.Store Digest) (att : List Block) : Option (MMR.Store Digest) :=
  match att with
  | [] => some st
  | a :: _ =>
    match MMR.pushAll dmerge ⟨MMR.leafIndexToMmrSize (a.number - 1), st⟩ (att.map leafOf) with
    | some m => some m.store
    | none => none

/-- `ChainDB::init` -/
def initX (g : Block) : XView :=
  ⟨init g, match MMR.pushAll dmerge ⟨0, MMR.Store.empty⟩ [leafOf g] with
            | some m => m.store
            | none => MMR.Store.empty⟩

/-- `find_fork`'s lists as `Store.process` computes them; `none` = not a new best block -/
def bestFork (v : View) (b : Block) : Option (List Block × List Block) :=
  let r0 := insertBlock v.r b
  let ext := freshExt r0 b
  let tipId := v.m.tip.getD 0
  if ext.td > tdOf r0 tipId then
    let r1 := insertBlockEpoch r0 b
    let r2 := if b.isHead then insertEpochExt r1 b.epochRec else r1
    let r3 := putExt r2 b.id ext
    let (attTail, common) := walkBack v.m r3 (b.number + 1) b.parent []
    let lo := common.getD 0
    some (mainBlocks v.m r3 lo (numberOf r3 tipId - lo), attTail ++ [b])
  else none

/-- the chain-service step with the MMR column -/
def processX (bad : Nat → Bool) (x : XView) (b : Block) : XView × Bool :=
  match processV bad x.v b with
  | (v', false) => (⟨v', x.mmr⟩, false)          -- nothing committed (no `mmr.commit()`, transaction dropped)
  | (v', true) =>
    match bestFork x.v b with
    | none => (⟨v', x.mmr⟩, true)                 -- side block: no MMR write
    | some (_, att) =>
      match mmrAttach x.mmr att with
      | some st => (⟨v', st⟩, true)
      | none => (⟨⟨x.v.m, deleteBlock (insertBlock x.v.r b) b⟩, x.mmr⟩, false)

/-- `truncate`: the column is not touched -/
def truncateX (x : XView) (target : Nat) : XView := ⟨truncate x.v target, x.mmr⟩

end CkbVerif.Store
