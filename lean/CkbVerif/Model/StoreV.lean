/-
The chain-service step with blocks that FAIL verification inside `reconcile_main_chain`
(core Lean only; extends `Model/Store.lean`, changes nothing there).

Sources followed: `chain/src/verify.rs`
  * `resolve_block_transactions` (`BlockCellProvider::new`, `OverlayCellProvider::new(&block_cp, txn)`,
    `resolve_transaction` with the block-wide `seen_inputs` set) — `resolveOk`: decided by the model
    from the cell column *as it stands inside the reorg transaction* (after `rollback`, after the
    earlier attached blocks);
  * `reconcile_main_chain`: the first `verified_len` blocks are attached without verification, the
    others are verified in order; the first failure sets `found_error`, every later block only gets
    `insert_failure_ext`, and the function returns `Err` WITHOUT `mmr.commit()` — `reconcileV`;
  * `verify_block`: `self.reconcile_main_chain(..)?` returns before `db_txn.commit()`, so the whole
    optimistic transaction (rollback, attaches, ok / failure exts, the block → epoch row and the epoch
    record of the new block) is dropped — `processV` answers with the OLD view;
  * `consume_unverified_blocks`, `Err` arm: `delete_unverified_block` removes the body rows that
    `insert_block` had committed earlier (`deleteBlock`), the block status becomes BLOCK_INVALID.

Which blocks fail a rule that is not decided by the store columns (reward, DAO field, chain-root
extension: C03/C06/C19's subject) is an input: `bad : Nat → Bool` (by block id).  Unresolvable inputs
(dead, unknown, spent twice inside the block, out of order) are decided here.
-/
import CkbVerif.Model.Store
namespace CkbVerif.Store

/-- `resolve_transaction`, the inputs of one transaction.  `earlier` = the transactions of the block
before this one (cellbase included), `laterOrSelf` = this one and the ones after it, `seen` = the
block-wide `seen_inputs`.  `none` = `OutPointError::{Dead, Unknown, OutOfOrder}`. -/
def resolveInputs (m : Main) (earlier laterOrSelf : List Tx) : List OutPoint → List OutPoint → Option (List OutPoint)
  | seen, [] => some seen
  | seen, o :: os =>
    if o ∈ seen then none                                   -- `!seen_inputs.insert(out_point)` → Dead
    else
      match earlier.find? (fun t => t.id == o.tx) with      -- BlockCellProvider (answers first)
      | some t => if o.idx < t.outputs.length then resolveInputs m earlier laterOrSelf (o :: seen) os else none
      | none =>
        if laterOrSelf.any (fun t => t.id == o.tx) then none -- BlockCellProvider::new: OutOfOrder
        else
          match m.cells o with                              -- the transaction's COLUMN_CELL
          | some _ => resolveInputs m earlier laterOrSelf (o :: seen) os
          | none => none

/-- the `map(resolve_transaction)` over the non-cellbase transactions, in block order -/
def resolveTxs (m : Main) : List Tx → List Tx → List OutPoint → Bool
  | _, [], _ => true
  | earlier, t :: rest, seen =>
    match resolveInputs m earlier (t :: rest) seen t.inputs with
    | none => false
    | some seen' => resolveTxs m (earlier ++ [t]) rest seen'

/-- `resolve_block_transactions(txn, b)` succeeds (the cellbase's inputs are not resolved) -/
def resolveOk (m : Main) (b : Block) : Bool :=
  match b.txs with
  | [] => true
  | cb :: rest => resolveTxs m [cb] rest []

/-- the block is in the second loop of `reconcile_main_chain` (its ext was read with
`verified == None`) -/
def needsVerify (r : Recs) (b : Block) : Bool :=
  match r.ext b.id with
  | some e => e.verified.isNone
  | none => false

/-- the block fails verification on the view `v` of the reorg transaction -/
def failsOn (bad : Nat → Bool) (v : View) (b : Block) : Bool :=
  needsVerify v.r b && (bad b.id || !resolveOk v.m b)

/-- `reconcile_main_chain` over `fork.attached_blocks`: `none` = `Err(found_error)` -/
def reconcileV (bad : Nat → Bool) (v : View) : List Block → Option View
  | [] => some v
  | b :: bs => if failsOn bad v b then none else reconcileV bad (reconcileOne v b) bs

/-- `verify_block`, new-best branch: `rollback`, `reconcile_main_chain(..)?`, tip, current epoch;
`none` = the `?` returned and the transaction was dropped -/
def commitBestV (bad : Nat → Bool) (v : View) (b : Block) (det att : List Block) : Option View :=
  match reconcileV bad (rollback v det.reverse) att with
  | none => none
  | some v2 =>
    let m := { v2.m with tip := some b.id }
    let m := if b.isHead || !det.isEmpty || decide (att.length > 1) then { m with curEpoch := some b.epochRec } else m
    some ⟨m, v2.r⟩

/-- `delete_unverified_block` → `delete_block`: the body rows of the block -/
def deleteBlock (r : Recs) (b : Block) : Recs :=
  { r with bodies := upd r.bodies b.id none }

/-- the chain-service step for any block (the steps of `Store.process`, with `commitBestV`).
Answer `true` = `Ok(true)`; `false` = `Err`: nothing of the reorg transaction is committed and the
body is deleted again. -/
def processV (bad : Nat → Bool) (v : View) (b : Block) : View × Bool :=
  let r0 := insertBlock v.r b
  let ext := freshExt r0 b
  let tipId := v.m.tip.getD 0
  let newBest := decide (ext.td > tdOf r0 tipId)
  let r1 := insertBlockEpoch r0 b
  let r2 := if b.isHead then insertEpochExt r1 b.epochRec else r1
  if newBest then
    let r3 := putExt r2 b.id ext
    let (attTail, common) := walkBack v.m r3 (b.number + 1) b.parent []
    let tipNumber := numberOf r3 tipId
    let lo := common.getD 0
    let det := mainBlocks v.m r3 lo (tipNumber - lo)
    match commitBestV bad ⟨v.m, r3⟩ b det (attTail ++ [b]) with
    | some v' => (v', true)
    | none => (⟨v.m, deleteBlock (insertBlock v.r b) b⟩, false)
  else
    (⟨v.m, putExt r2 b.id ext⟩, true)

end CkbVerif.Store
