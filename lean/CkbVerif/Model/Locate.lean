import CkbVerif.Model.Skip

/-!
# Common-block location and the peers' header bookkeeping (C17, streams `locator` / `skip`)

Follows `sync/src/types/mod.rs`: `ActiveChain::{last_common_ancestor, locate_latest_common_block}`,
`Peers::{may_set_best_known_header, set_last_common_header, disconnected}` and
`sync/src/synchronizer/block_fetcher.rs`: `BlockFetcher::update_last_common_header`.

A `BlockNumberAndHash` is a pair `(number, id)`; its `==` compares both fields, as the derived
`PartialEq` does. The node's view is passed in as functions:
* `anc base number` — `ActiveChain::get_ancestor(&base, number).number_and_hash()`,
* `numOnMain id` — `Snapshot::get_block_number(hash)` (the main-chain index: `Some` only on the main chain),
* `blk id` — `ChainDB::get_block_header(hash)` (stored blocks only; a header that is known through the
  header map alone is not there),
* `mainHash number` — `ActiveChain::get_block_hash(number)`.
-/
namespace CkbVerif.Skip

/-- `BlockNumberAndHash` -/
abbrev NH := Nat × Nat

/-- the `while m_left != m_right` loop of `last_common_ancestor`. `m_left.number() - 1` at number 0
is a `u64` underflow (debug: panic; release: `u64::MAX`, for which `get_ancestor` answers `None`):
`none`. `fuel` bounds the iterations (the numbers strictly decrease); running out of it is `none`. -/
def lcaLoop (anc : Nat → Nat → Option NH) : Nat → NH → NH → Option NH
  | 0, _, _ => none
  | fuel + 1, l, r =>
    if l = r then some l
    else if l.1 = 0 ∨ r.1 = 0 then none
    else
      match anc l.2 (l.1 - 1) with
      | none => none
      | some l' =>
        match anc r.2 (r.1 - 1) with
        | none => none
        | some r' => lcaLoop anc fuel l' r'

/-- `ActiveChain::last_common_ancestor` -/
def lastCommonAncestor (anc : Nat → Nat → Option NH) (pa pb : NH) : Option NH :=
  let l := if pa.1 > pb.1 then pb else pa
  let r := if pa.1 > pb.1 then pa else pb
  match anc r.2 l.1 with
  | none => none
  | some r' => if l = r' then some l else lcaLoop anc (l.1 + 1) l r'

/-- `locator.iter().enumerate().map(|(i, h)| (i, get_block_number(h))).find(|(_, n)| n.is_some())` -/
def firstOnMain (numOnMain : Nat → Option Nat) : List Nat → Nat → Option (Nat × Nat)
  | [], _ => none
  | h :: t, i =>
    match numOnMain h with
    | some n => some (i, n)
    | none => firstOnMain numOnMain t (i + 1)

/-- the `loop` of `locate_latest_common_block`: from `block_hash` down the parent links of STORED
headers until one is on the main chain; a hash without stored header ends it with `latest_common`.
`fuel` bounds the iterations (the numbers strictly decrease); running out of it is `latest`. -/
def locateWalk (numOnMain : Nat → Option Nat) (blk : Nat → Option Hdr) (latest : Nat) :
    Nat → Nat → Nat
  | 0, _ => latest
  | fuel + 1, h =>
    match blk h with
    | none => latest
    | some hd =>
      match numOnMain h with
      | some n => n
      | none => locateWalk numOnMain blk latest fuel hd.parent

/-- `ActiveChain::locate_latest_common_block` (`_hash_stop` is unused by the code). The
`expect("locator last checked")` cannot fail when the genesis hash is on the main chain; the model
answers `none` there. -/
def locateLatestCommonBlock (numOnMain : Nat → Option Nat) (blk : Nat → Option Hdr) (genesis : Nat)
    (locator : List Nat) : Option Nat :=
  match locator.getLast? with
  | none => none
  | some last =>
    if last != genesis then none
    else
      match firstOnMain numOnMain locator 0 with
      | none => none
      | some (index, n) =>
        if index == 0 || n == 0 then some n
        else
          match (locator[index - 1]?).bind blk with
          | some header => some (locateWalk numOnMain blk n (header.number + 1) header.parent)
          | none => some n

/-- `HeaderIndex`: number, hash, total difficulty -/
structure HIdx where
  number : Nat
  hash : Nat
  td : Nat
deriving Repr, DecidableEq

/-- the two header fields of `PeerState` -/
structure PeerHdrs where
  best : Option HIdx := none
  lastCommon : Option NH := none
deriving Repr, DecidableEq

/-- `Peers.state`, the fields followed here; keys unique -/
abbrev PeersSt := List (Nat × PeerHdrs)

def PeersSt.get (ps : PeersSt) (p : Nat) : Option PeerHdrs := (ps.find? (fun e => e.1 == p)).map (·.2)

def PeersSt.modify (ps : PeersSt) (p : Nat) (f : PeerHdrs → PeerHdrs) : PeersSt :=
  ps.map (fun e => if e.1 == p then (e.1, f e.2) else e)

/-- `Peers::sync_connected`: `entry(peer).and_modify(flags…).or_insert_with(PeerState::new)` — the two
header fields of an existing entry stay, a new entry has none -/
def PeersSt.connected (ps : PeersSt) (p : Nat) : PeersSt :=
  if ps.any (fun e => e.1 == p) then ps else ps ++ [(p, ({} : PeerHdrs))]

/-- `Peers::disconnected`: the entry goes -/
def PeersSt.disconnected (ps : PeersSt) (p : Nat) : PeersSt := ps.filter (fun e => e.1 != p)

/-- `Peers::may_set_best_known_header`: only for a peer with state; replaces the known header only by
one with strictly more total difficulty (`is_better_chain`) -/
def PeersSt.maySetBestKnown (ps : PeersSt) (p : Nat) (hi : HIdx) : PeersSt :=
  ps.modify p (fun st =>
    match st.best with
    | some known => if hi.td > known.td then { st with best := some hi } else st
    | none => { st with best := some hi })

/-- `Peers::set_last_common_header`: `entry(pi).and_modify(..)` — only for a peer with state -/
def PeersSt.setLastCommon (ps : PeersSt) (p : Nat) (h : NH) : PeersSt :=
  ps.modify p (fun st => { st with lastCommon := some h })

/-- `BlockFetcher::update_last_common_header`: the value computed (`None` = `?` left early, nothing
written) -/
def updateLastCommonValue (anc : Nat → Nat → Option NH) (mainHash : Nat → Option Nat) (tipNumber : Nat)
    (last : Option NH) (best : NH) : Option NH :=
  let lc :=
    match last with
    | some h => some h
    | none =>
      let guess := min tipNumber best.1
      (mainHash guess).map (fun hsh => (guess, hsh))
  lc.bind (fun lc => lastCommonAncestor anc lc best)

/-- `BlockFetcher::update_last_common_header` on the peers state -/
def updateLastCommonHeader (anc : Nat → Nat → Option NH) (mainHash : Nat → Option Nat) (tipNumber : Nat)
    (ps : PeersSt) (p : Nat) (best : NH) : PeersSt × Option NH :=
  let last := (ps.get p).bind (·.lastCommon)
  match updateLastCommonValue anc mainHash tipNumber last best with
  | none => (ps, none)
  | some r => (ps.setLastCommon p r, some r)

end CkbVerif.Skip
