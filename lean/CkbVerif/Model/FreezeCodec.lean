/-
A concrete instance of the parameters of `Model/FreezeSys.lean`: a length-prefixed serialisation of
the store model's `Block` into bytes with its inverse, and the toy snappy / header codec of C09's
`demoCfg`.  Used by the driver (`Driver/C10.lean` runs the combined model next to the abstract one on
every generated history) and as the non-vacuity witness of `Codec.Ok` (`Lemmas/FreezeCodec.lean`).
Core Lean only.
-/
import CkbVerif.Model.FreezeSys
namespace CkbVerif.FreezeSys.Demo
open CkbVerif.Store CkbVerif.Freezer

def encLL : List (List Nat) → List Nat
  | [] => []
  | l :: r => l.length :: (l ++ encLL r)

def decLL : Nat → List Nat → List (List Nat)
  | 0, _ => []
  | _ + 1, [] => []
  | f + 1, n :: r => r.take n :: decLL f (r.drop n)

def pairsOP (l : List OutPoint) : List Nat := l.flatMap fun o => [o.tx, o.idx]
def unpairsOP : List Nat → List OutPoint
  | a :: b :: r => ⟨a, b⟩ :: unpairsOP r
  | _ => []
def pairsOut (l : List Output) : List Nat := l.flatMap fun o => [o.dlen, o.dtag]
def unpairsOut : List Nat → List Output
  | a :: b :: r => ⟨a, b⟩ :: unpairsOut r
  | _ => []
def txLL (t : Tx) : List (List Nat) := [[t.id, t.fee], pairsOP t.inputs, pairsOut t.outputs]

def txsOfLL : List (List Nat) → List Tx
  | [i, f] :: ins :: outs :: r => ⟨i, unpairsOP ins, unpairsOut outs, f⟩ :: txsOfLL r
  | _ => []

def blockLL (b : Block) : List (List Nat) :=
  [b.id, b.parent, b.number, b.epoch.number, b.epoch.index, b.epoch.length,
    if b.isHead then 1 else 0, b.epochRec.number, b.epochRec.start, b.epochRec.length, b.epochRec.key]
    :: b.uncles :: b.txs.flatMap txLL

def blockOfLL : List (List Nat) → Option Block
  | [id, p, n, e1, e2, e3, h, r1, r2, r3, r4] :: uncles :: rest =>
    some { id := id, parent := p, number := n, epoch := ⟨e1, e2, e3⟩, txs := txsOfLL rest,
           uncles := uncles, isHead := h == 1, epochRec := ⟨r1, r2, r3, r4⟩ }
  | _ => none

def ser (b : Block) : Bytes := encLL (blockLL b)
def deser (x : Bytes) : Option Block := blockOfLL (decLL x.length x)

/-- "compression" prefixes a marker byte; the freezer's view of a block is written as four fields in
front of the payload; data files of 40 bytes -/
def demoCodec : Codec :=
  { cfg := { max := 40
             cmp := fun x => 7 :: x
             dcmp := fun x => match x with | 7 :: r => some r | _ => none
             enc := fun b => [b.hash, b.parent, b.number, b.txs] ++ b.payload
             dec := fun x => match x with | h :: p :: n :: t :: pl => some ⟨h, p, n, t, pl⟩ | _ => none }
    ser := ser
    deser := deser }

end CkbVerif.FreezeSys.Demo
