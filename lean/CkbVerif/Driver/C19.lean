import CkbVerif.Driver.Util
import CkbVerif.Model.MMR
import CkbVerif.Model.Filter
import CkbVerif.Model.LightServer

/-! Line-protocol driver for C19 (see harness/hcore/src/c19.rs for the protocol).
`ckbmodel C19 mmr` and `ckbmodel C19 filter`. -/
namespace CkbVerif.Driver.C19
open CkbVerif.Driver CkbVerif.MMR

/-- Block-number range covered by a term. A leaf id encodes its header: number = id % 10000. -/
def termLo : Term → Nat
  | .leaf id => id % 10000
  | .node l _ => termLo l

def termHi : Term → Nat
  | .leaf id => id % 10000
  | .node _ r => termHi r

/-- Node values of the driver: `none` = "the real `MergeHeaderDigest::merge` returned `Err`". -/
abbrev PT := Option Term

/-- The real merge refuses digests whose block-number ranges are not adjacent (the epoch check is
implied: the harness derives the epoch from the number). An error poisons everything built on it. -/
def pmerge (a b : PT) : PT :=
  match a, b with
  | some x, some y => if termHi x + 1 = termLo y then some (.node x y) else none
  | _, _ => none

structure St where
  mmr : MMR PT := ⟨0, Store.empty⟩
  roots : List (Nat × Term) := []
  proofs : List (Nat × Nat × List Term) := []
  /-- the leaf ids of the current chain (only used to cross-check `getRoot` against the carry-style
  specification `specRoot` at run time; a mismatch is printed and shows up as a diff) -/
  chain : List Nat := []

def renderList (l : List Term) : String :=
  if l.isEmpty then "-" else ";".intercalate (l.map Term.render)

def allSome (l : List PT) : Option (List Term) := l.mapM id

def lookup {β : Type} (l : List (Nat × β)) (k : Nat) : Option β :=
  (l.find? fun e => e.1 = k).map (·.2)

/-- `idx:id,idx:id` -/
def parsePairs? (s : String) : Option (List (Nat × Nat)) :=
  if s = "-" then some [] else
  (s.splitOn ",").mapM fun t =>
    match t.splitOn ":" with
    | [a, b] => do
      let a ← parseNat? a
      let b ← parseNat? b
      pure (a, b)
    | _ => none

def sizeOfLeaves (n : Nat) : Nat := if n = 0 then 0 else leafIndexToMmrSize (n - 1)

def rootLine (s : St) (m : MMR PT) (slot : Nat) (leaves : Option (List Nat)) : St × String :=
  match getRoot pmerge m with
  | some (some r) =>
    let ok := match leaves with
      | none => true
      | some ls => specRoot pmerge (ls.map fun i => some (Term.leaf i)) == some (some r)
    ({ s with roots := (slot, r) :: s.roots }, s!"root {r.render}" ++ (if ok then "" else " SPEC-MISMATCH"))
  | _ => (s, "err")

def proofLine (s : St) (m : MMR PT) (slot : Nat) (pos : List Nat) : St × String :=
  match (genProof pmerge m pos).bind allSome with
  | some p => ({ s with proofs := (slot, m.size, p) :: s.proofs }, s!"proof {m.size} {renderList p}")
  | none => (s, "err")

/-- a push whose merges failed leaves the MMR untouched (the object is dropped uncommitted) -/
def pushChecked (m : MMR PT) (ids : List Nat) : Option (MMR PT × Nat) :=
  match ids with
  | [] => some (m, m.size)
  | _ =>
    match pushAll pmerge m (ids.map fun i => some (Term.leaf i)) with
    | none => none
    | some m' =>
      if (List.range (m'.size - m.size)).all (fun k => match m'.store (m.size + k) with | some (some _) => true | _ => false)
      then some (m', m.size) else none

def verifyLine (s : St) (rslot pslot cut leaves : String) : St × String :=
  match parseNat? rslot, parseNat? pslot, parseNat? cut, parsePairs? leaves with
  | some rslot, some pslot, some cut, some leaves =>
    match lookup s.roots rslot, lookup s.proofs pslot with
    | some root, some (size, proof0) =>
      let proof := proof0.take (proof0.length - cut)
      let ls : List (Nat × PT) := leaves.map fun (i, id) => (leafIndexToPos i, some (Term.leaf id))
      match calculateRoot pmerge ls size (proof.map some) with
      | some (some r) => (s, if r = root then "true" else "false")
      | _ => (s, "err")
    | _, _ => (s, "bad-op")
  | _, _, _, _ => (s, "bad-op")

def stepMmr (s : St) (ts : List String) : St × String :=
  match ts with
  | ["push", id] =>
    match parseNat? id with
    | some id =>
      match pushChecked s.mmr [id] with
      | some (m, pos) => ({ s with mmr := m, chain := s.chain ++ [id] }, s!"ok {pos} {m.size}")
      | none => (s, "err")
    | none => (s, "bad-op")
  | ["pushn", ids] =>
    match parseNatList? ids with
    | some ids =>
      match pushChecked s.mmr ids with
      | some (m, _) => ({ s with mmr := m, chain := s.chain ++ ids }, s!"ok {m.size}")
      | none => (s, "err")
    | none => (s, "bad-op")
  | ["reorg", n] =>
    match parseNat? n with
    | some n =>
      let m : MMR PT := { size := sizeOfLeaves n, store := s.mmr.store }
      ({ s with mmr := m, chain := s.chain.take n }, s!"ok {m.size}")
    | none => (s, "bad-op")
  | ["root", slot] =>
    match parseNat? slot with
    | some slot => rootLine s s.mmr slot (some s.chain)
    | none => (s, "bad-op")
  | ["rootat", n, slot] =>
    match parseNat? n, parseNat? slot with
    | some n, some slot => rootLine s (recreate s.mmr n) slot (if n < s.chain.length then some (s.chain.take (n + 1)) else none)
    | _, _ => (s, "bad-op")
  | ["proof", slot, n, idxs] =>
    match parseNat? slot, parseNat? n, parseNatList? idxs with
    | some slot, some n, some idxs => proofLine s (recreate s.mmr n) slot (idxs.map leafIndexToPos)
    | _, _, _ => (s, "bad-op")
  | ["proofpos", slot, n, ps] =>
    match parseNat? slot, parseNat? n, parseNatList? ps with
    | some slot, some n, some ps => proofLine s (recreate s.mmr n) slot ps
    | _, _, _ => (s, "bad-op")
  | ["verify", rslot, pslot, leaves] => verifyLine s rslot pslot "0" leaves
  | ["verifycut", rslot, pslot, cut, leaves] => verifyLine s rslot pslot cut leaves
  | ["posheight", p] =>
    match parseNat? p with
    | some p => (s, s!"{posHeightInTree p}")
    | none => (s, "bad-op")
  | ["peaks", n] =>
    match parseNat? n with
    | some n => (s, showNatList (getPeaks n))
    | none => (s, "bad-op")
  | ["idx2size", i] =>
    match parseNat? i with
    | some i => (s, s!"{leafIndexToMmrSize i}")
    | none => (s, "bad-op")
  | ["idx2pos", i] =>
    match parseNat? i with
    | some i => (s, s!"{leafIndexToPos i}")
    | none => (s, "bad-op")
  | _ => (s, "bad-op")

/-! ### filter stream -/
open CkbVerif.Filter

structure FSt where
  cells : List (Nat × Cell) := []   -- cell id ↦ output, ids are assigned 1,2,3… in creation order
  next : Nat := 1

/-- `lock:type` or `lock:-` -/
def parseCell? (t : String) : Option Cell :=
  match t.splitOn ":" with
  | [l, ty] => do
    let l ← parseNat? l
    if ty = "-" then pure ⟨l, none⟩ else do
      let ty ← parseNat? ty
      pure ⟨l, some ty⟩
  | _ => none

/-- `c|n/in,in/lock:type,lock:type` → (cellbase, input cell ids, outputs) -/
def parseTx? (t : String) : Option (Bool × List Nat × List Cell) :=
  match t.splitOn "/" with
  | [k, ins, outs] => do
    let ins ← parseNatList? ins
    let outs ← if outs = "-" then pure [] else (outs.splitOn ",").mapM parseCell?
    pure (k = "c", ins, outs)
  | _ => none

def stepFilter (s : FSt) (ts : List String) : FSt × String :=
  match ts with
  | "fblock" :: txs =>
    match txs.mapM parseTx? with
    | none => (s, "bad-op")
    | some txs =>
      -- the provider finds every cell created so far, including this block's own outputs
      -- (`get_transaction` finds any stored transaction; the block body is stored before its filter is built)
      let (cells, next) := txs.foldl (fun (acc : List (Nat × Cell) × Nat) tx =>
        tx.2.2.foldl (fun (a : List (Nat × Cell) × Nat) c => ((a.2, c) :: a.1, a.2 + 1)) acc) (s.cells, s.next)
      let mtxs : List Tx := txs.map fun (cb, ins, outs) =>
        { cellbase := cb, inputs := ins.map (fun i => (cells.find? fun e => e.1 = i).map (·.2)), outputs := outs }
      let set := elemSet (blockElems mtxs)
      ({ cells := cells, next := next }, s!"n={set.length} elems={showNatList set} missing={blockMissing mtxs}")
  | _ => (s, "bad-op")

/-! ### node stream: the harness reports the node's main chain; the model replays what
`reconcile_main_chain` does to the MMR (re-create at the fork point over the same store, push). -/

structure NSt where
  mmr : MMR PT := ⟨0, Store.empty⟩
  chain : List Nat := []
  /-- block tree: id ↦ parent id, for every delivered block -/
  parent : List (Nat × Nat) := []
  /-- stored, never verified blocks whose extension `BlockExtensionVerifier` refuses -/
  bad : List Nat := []
  /-- blocks the chain service rejected (and deleted) -/
  gone : List Nat := []
  /-- `tdinfo`: the difficulty every block adds (permanent difficulty, no uncles): the total difficulty of
  main-chain block n is `(n + 1) * d0` -/
  d0 : Nat := 0

/-- genesis ..= id along the parent links (fuel = block number + 1) -/
def pathOf (parent : List (Nat × Nat)) : Nat → Nat → List Nat
  | 0, _ => [0]
  | f + 1, id => if id = 0 then [0] else pathOf parent f ((lookup parent id).getD 0) ++ [id]

def pathTo (s : NSt) (id : Nat) : List Nat := pathOf s.parent (id % 10000 + 1) id

/-- the chain root over a list of leaf ids, by the carry-style specification -/
def rootOfPath (ids : List Nat) : Option Term :=
  match specRoot pmerge (ids.map fun i => some (Term.leaf i)) with
  | some (some r) => some r
  | _ => none

/-- `ChainService` on a delivered block (chain/src/verify.rs `verify_block`), permanent difficulty: the block
becomes the best chain iff its number exceeds the tip's; then `reconcile_main_chain` verifies the not yet
verified blocks of its branch in order and fails on the first one `BlockExtensionVerifier` refuses (the
delivered block is then deleted; the others stay stored and unverified). Otherwise it is stored unverified. -/
def deliver (s : NSt) (id parentId : Nat) (isBad : Bool) : NSt × String :=
  let path := pathTo s parentId
  let tipN := s.chain.length - 1
  let number := parentId % 10000 + 1
  let s1 := { s with parent := (id, parentId) :: s.parent }
  if s.gone.contains parentId then ({ s1 with gone := id :: s1.gone }, "rejected")
  else if number > tipN then
    if isBad || path.any (fun a => s.bad.contains a || s.gone.contains a) then ({ s1 with gone := id :: s1.gone }, "rejected")
    else (s1, "ok")
  else ({ s1 with bad := if isBad then id :: s1.bad else s1.bad }, "ok")

def commonPrefix : List Nat → List Nat → Nat
  | a :: as, b :: bs => if a = b then 1 + commonPrefix as bs else 0
  | _, _ => 0

def rootStr (tag : String) (m : MMR PT) : String :=
  match getRoot pmerge m with
  | some (some r) => s!"{tag} {r.render}"
  | _ => "err"

def stepNode (s : NSt) (ts : List String) : NSt × String :=
  match ts with
  | ["blk", id, parent] =>
    match parseNat? id, parseNat? parent with
    | some id, some parent => deliver s id parent false
    | _, _ => (s, "bad-op")
  | ["bad", _, _] => (s, "rejected")
  | ["xblk", id, parent, len, src] =>
    match parseNat? id, parseNat? parent with
    | some id, some parent =>
      let path := pathTo s parent
      let actual := rootOfPath path
      let committed : Option Term :=
        if src = "flip" then none
        else match src.splitOn ":" with
          | ["at", k] => (parseNat? k).bind fun k => rootOfPath (path.take (k + 1))
          | ["of", o] => (parseNat? o).bind fun o => rootOfPath (pathTo s o)
          | _ => none
      let extLen : Option Nat := if len = "none" then none else parseNat? len
      let extraFields := if len = "none" then 0 else 1
      let prefixIsRoot := actual.isSome && committed == actual
      let isBad := match extensionVerdict true extraFields extLen actual.isSome prefixIsRoot true with
        | .ok => false
        | _ => true
      deliver s id parent isBad
    | _, _ => (s, "bad-op")
  | ["nodes"] =>
    -- the raw rows below the size of the main chain's MMR, from the model's own (never cleaned) store
    let s := if s.chain.isEmpty then
        match pushChecked s.mmr [0] with
        | some (m, _) => { s with mmr := m, chain := [0] }
        | none => s
      else s
    let ts := (List.range s.mmr.size).map fun p =>
      match s.mmr.store p with
      | some (some t) => t.render
      | _ => "none"
    (s, s!"nodes {s.mmr.size} {if ts.isEmpty then "-" else ";".intercalate ts}")
  | ["main", ids] =>
    match parseNatList? ids with
    | none => (s, "bad-op")
    | some ids =>
      let newChain := 0 :: ids
      let c := commonPrefix s.chain newChain
      let base : MMR PT := { size := sizeOfLeaves c, store := s.mmr.store }
      match pushChecked base (newChain.drop c) with
      | some (m, _) => ({ s with mmr := m, chain := newChain }, rootStr "root" m)
      | none => (s, "err")
  | ["rootat", n] =>
    match parseNat? n with
    | some n => (s, rootStr "root" (recreate s.mmr n))
    | none => (s, "bad-op")
  | ["ext", n] =>
    match parseNat? n with
    | some n => (s, rootStr "ext" (recreate s.mmr (n - 1)))
    | none => (s, "bad-op")
  | ["bp", last, ids] =>
    -- `GetBlocksProofProcess::execute` + `reply_proof` (Model/LightServer.lean `bpDecision`), code as is
    match parseNat? last, parseNatList? ids with
    | some last, some ids =>
      let chain := if s.chain.isEmpty then [0] else s.chain
      match LightServer.bpDecision (fun i => chain.contains i) (fun i => i % 10000 = 0) last ids with
      | .banned => (s, "banned")
      | .err => (s, "err")
      | .tip =>
        let tip := chain.getLastD 0
        let tipN := tip % 10000
        (s, if tipN = 0 then s!"tip {tip} root -" else
          match getRoot pmerge (recreate s.mmr (tipN - 1)) with
          | some (some r) => s!"tip {tip} root {r.render}"
          | _ => "err")
      | .reply ⟨found, missing⟩ =>
        let n := last % 10000
        if n = 0 then (s, s!"proof - root - headers=- missing={missing.length}")
        else
          let m := recreate s.mmr (n - 1)
          match getRoot pmerge m with
          | some (some root) =>
            if found.isEmpty then (s, s!"proof - root {root.render} headers=- missing={missing.length}")
            else
              match (genProof pmerge m (found.map fun i => leafIndexToPos (i % 10000))).bind allSome with
              | some p => (s, s!"proof {renderList p} root {root.render} headers={showNatList found} missing={missing.length}")
              | none => (s, "err")
          | _ => (s, "err")
    | _, _ => (s, "bad-op")
  | ["tp", last, codes] =>
    -- `GetTransactionsProofProcess::execute` + `reply_proof` (Model/LightServer.lean `tpDecision`). Transaction codes:
    -- k < 1000 = transaction k of the genesis block; 1000 + n = the cellbase of height n (one transaction, the same on every
    -- branch; COLUMN_TRANSACTION_INFO holds it for the attached block of that height); ≥ 1000000 = unknown
    match parseNat? last, parseNatList? codes with
    | some last, some codes =>
      let chain := if s.chain.isEmpty then [0] else s.chain
      let txInfo : Nat → Option (Nat × Nat) := fun c =>
        if c < 1000 then some (0, c)
        else if c < 1000000 then (chain[c - 1000]?).map fun b => (b, 0)
        else none
      match LightServer.tpDecision (fun i => chain.contains i) (fun i => i % 10000 = 0) txInfo last codes with
      | .banned => (s, "banned")
      | .err => (s, "err")
      | .tip => (s, "tip")
      | .reply ⟨blocks, missing⟩ =>
        let n := last % 10000
        -- the real code walks a HashMap: the order of the filtered blocks is unspecified; both sides print them by number
        let sorted := (blocks.map (fun b => b.1 % 10000)).foldr insertSorted []
        let bl := sorted.filterMap fun k => blocks.find? fun b => b.1 % 10000 = k
        let bstr := if bl.isEmpty then "-" else "/".intercalate (bl.map fun b => s!"{b.1}:{showNatList (b.2.map (·.2))}")
        if n = 0 then (s, s!"proof - root - blocks={bstr} missing={missing.length}")
        else
          let m := recreate s.mmr (n - 1)
          match getRoot pmerge m with
          | some (some root) =>
            if blocks.isEmpty then (s, s!"proof - root {root.render} blocks=- missing={missing.length}")
            else
              match (genProof pmerge m (blocks.map fun b => leafIndexToPos (b.1 % 10000))).bind allSome with
              | some p => (s, s!"proof {renderList p} root {root.render} blocks={bstr} missing={missing.length}")
              | none => (s, "err")
          | _ => (s, "err")
    | _, _ => (s, "bad-op")
  | ["extv", pn, len, src, x] =>
    match parseNat? pn with
    | none => (s, "bad-op")
    | some pn =>
      let rootAt (k : Nat) : Option Term :=
        match getRoot pmerge (recreate s.mmr k) with
        | some (some r) => some r
        | _ => none
      let actual := rootAt pn
      -- the committed 32 bytes are the hash of `rootAt k` (collision-free hashing: equal iff equal terms)
      let committed : Option Term :=
        if src = "flip" then none
        else match src.splitOn ":" with
          | ["at", k] => (parseNat? k).bind rootAt
          | _ => none
      let extLen : Option Nat := if len = "none" then none else parseNat? len
      let extraFields := if len = "none" then 0 else 1
      -- fewer than 32 bytes never reach the comparison; with >= 32 bytes the prefix is the committed hash
      let prefixIsRoot := actual.isSome && committed == actual
      let v := extensionVerdict true extraFields extLen actual.isSome prefixIsRoot (x != "x")
      (s, match v with
        | .ok => "ok"
        | .noBlockExtension => "NoBlockExtension"
        | .unknownFields => "UnknownFields"
        | .emptyBlockExtension => "EmptyBlockExtension"
        | .exceededMaximum => "ExceededMaximumBlockExtensionBytes"
        | .invalidBlockExtension => "InvalidBlockExtension"
        | .invalidChainRoot => "InvalidChainRoot"
        | .invalidExtraHash => "InvalidExtraHash"
        | .internalMMR => "other:internal")
  | ["tdinfo", d] =>
    match parseNat? d with
    | some d => ({ s with d0 := d }, "ok")
    | none => (s, "bad-op")
  | ["lsp", last, start, startNum, lastN, boundary, diffs, _, _] =>
    -- `GetLastStateProofProcess::execute` (Model/LightServer.lean `lspNumbers`): the sampling is computed by the
    -- model; the two trailing tokens (what the real reply was when the line was recorded) are not read
    match parseNat? last, parseNat? start, parseNat? startNum, parseNat? lastN, parseNat? boundary, parseNatList? diffs with
    | some last, some start, some startNum, some lastN, some boundary, some diffs =>
      let chain := if s.chain.isEmpty then [0] else s.chain
      let td : LightServer.TD := fun n => if n < chain.length then some ((n + 1) * s.d0) else none
      let req : LightServer.LspReq := {
        lastOnMain := chain.contains last, last := last % 10000, start := startNum,
        startMatches := chain[startNum]? == some start, lastN := lastN, boundary := boundary, difficulties := diffs }
      match LightServer.lspNumbers td req with
      | .banned => (s, "banned")
      | .err => (s, "err")
      | .tip => (s, "tip")
      | .reply numbers =>
        let n := last % 10000
        if n = 0 then (s, "genesis") else
        let m := recreate s.mmr (n - 1)
        let rootOf (k : Nat) : String :=
          if k = 0 then "-" else
          match getRoot pmerge (recreate s.mmr (k - 1)) with
          | some (some r) => r.render
          | _ => "?"
        let roots := if numbers.isEmpty then "-" else ";".intercalate (numbers.map rootOf)
        let proofStr :=
          if numbers.isEmpty then some "-" else
          ((genProof pmerge m (numbers.map leafIndexToPos)).bind allSome).map renderList
        match proofStr, getRoot pmerge m with
        | some p, some (some root) => (s, s!"proof {p} root {root.render} roots={roots} numbers={showNatList numbers}")
        | _, _ => (s, "err")
    | _, _, _, _, _, _ => (s, "bad-op")
  | ["proof", n, idxs] =>
    match parseNat? n, parseNatList? idxs with
    | some n, some idxs =>
      let m := recreate s.mmr n
      match (genProof pmerge m (idxs.map leafIndexToPos)).bind allSome with
      | some p => (s, s!"proof {m.size} {renderList p}")
      | none => (s, "err")
    | _, _ => (s, "bad-op")
  | _ => (s, "bad-op")

/-! ### node-level filter stream: the real `BlockFilter` service following a chain with forks -/

structure NFSt where
  blocks : List Blk := [⟨0, 0, 0⟩]
  main : List Nat := [0]
  fs : FState (List Nat) := ⟨[], none⟩

/-- `c|n/lock:type,lock:type|?/lock:type,..` — inputs are given resolved (`?` = not found) -/
def parseNTx? (t : String) : Option Tx :=
  match t.splitOn "/" with
  | [k, ins, outs] => do
    let ins ← if ins = "-" then pure [] else
      (ins.splitOn ",").mapM fun c => if c = "?" then pure none else (parseCell? c).map some
    let outs ← if outs = "-" then pure [] else (outs.splitOn ",").mapM parseCell?
    pure { cellbase := k = "c", inputs := ins, outputs := outs }
  | _ => none

def insertSortedNat (x : Nat) : List Nat → List Nat
  | [] => [x]
  | y :: ys => if x ≤ y then x :: y :: ys else y :: insertSortedNat x ys

def stepNFilter (s : NFSt) (ts : List String) : NFSt × String :=
  match ts with
  | ["blk", id, parent] =>
    match parseNat? id, parseNat? parent with
    | some id, some parent => ({ s with blocks := ⟨id, parent, id % 10000⟩ :: s.blocks }, "ok")
    | _, _ => (s, "bad-op")
  | ["sync", ids] =>
    match parseNatList? ids with
    | none => (s, "bad-op")
    | some ids =>
      let main := 0 :: ids
      let blkOf : Nat → Blk := fun i => (s.blocks.find? fun b => b.id = i).getD ⟨i, 0, i % 10000⟩
      let v : View := { blk := blkOf, isMain := fun i => main.contains i, mainAt := fun n => main.getD n 0, tip := main.length - 1 }
      match buildFilterData (fun ph d => d :: ph) [] v s.fs with
      | none => ({ s with main := main }, "panic")
      | some fs' =>
        let built := (fs'.built.map (·.1)).foldr insertSortedNat []
        ({ s with main := main, fs := fs' }, s!"built {showNatList built}")
  | ["syncm", ids] =>
    -- after a burst only canonical facts are compared: which MAIN-chain blocks have a filter, and the pointer.
    -- The model runs one pass from its own state (one admissible schedule: the service saw none of the
    -- intermediate tips); `filter_restart_point` says the answer is the same for every schedule.
    match parseNatList? ids with
    | none => (s, "bad-op")
    | some ids =>
      let main := 0 :: ids
      let blkOf : Nat → Blk := fun i => (s.blocks.find? fun b => b.id = i).getD ⟨i, 0, i % 10000⟩
      let v : View := { blk := blkOf, isMain := fun i => main.contains i, mainAt := fun n => main.getD n 0, tip := main.length - 1 }
      match buildFilterData (fun ph d => d :: ph) [] v s.fs with
      | none => ({ s with main := main }, "panic")
      | some fs' =>
        let mb := main.filter fun i => (lookupHash fs'.built i).isSome
        let latest := match fs'.latest with | some l => toString l | none => "none"
        ({ s with main := main, fs := fs' }, s!"mbuilt {showNatList mb} latest={latest}")
  | ["hblk", id, parent] =>
    match parseNat? id, parseNat? parent with
    | some id, some parent => ({ s with blocks := ⟨id, parent, id % 10000⟩ :: s.blocks }, "ok")
    | _, _ => (s, "bad-op")
  | ["hstart", ids, built, latest] =>
    -- a hand-written store: filter rows for `built` (chained in that order), pointer = `latest`, main chain = ids
    -- (possibly shorter than an abandoned branch); then the start-up pass of `build_filter_data`
    match parseNatList? ids, parseNatList? built, parseNat? latest with
    | some ids, some built, some latest =>
      let main := 0 :: ids
      let blkOf : Nat → Blk := fun i => (s.blocks.find? fun b => b.id = i).getD ⟨i, 0, i % 10000⟩
      match buildRange (fun ph d => d :: ph) [] ⟨[], none⟩ (built.map blkOf) with
      | none => (s, "bad-op")
      | some fs0 =>
        let fs0 : FState (List Nat) := { fs0 with latest := some latest }
        let v : View := { blk := blkOf, isMain := fun i => main.contains i, mainAt := fun n => main.getD n 0, tip := main.length - 1 }
        match buildFilterData (fun ph d => d :: ph) [] v fs0 with
        | none => ({ s with main := main, fs := fs0 }, "panic")
        | some fs' =>
          let mb := main.filter fun i => (lookupHash fs'.built i).isSome
          let latest := match fs'.latest with | some l => toString l | none => "none"
          ({ s with main := main, fs := fs' }, s!"mbuilt {showNatList mb} latest={latest}")
    | _, _, _ => (s, "bad-op")
  | "filter" :: _ :: txs =>
    match txs.mapM parseNTx? with
    | none => (s, "bad-op")
    | some mtxs =>
      let set := elemSet (blockElems mtxs)
      (s, s!"n={set.length} elems={showNatList set} missing={blockMissing mtxs}")
  | _ => (s, "bad-op")

def main (args : List String) : IO UInt32 :=
  match args with
  | ["nfilter"] => runLines ({} : NFSt) stepNFilter
  | ["node"] => runLines ({} : NSt) stepNode
  | ["filter"] => runLines ({} : FSt) stepFilter
  | _ => runLines ({} : St) stepMmr

end CkbVerif.Driver.C19
