import CkbVerif.Driver.Util
import CkbVerif.Model.SchedBook
import CkbVerif.Model.SchedTx

/-! Driver for the `sched` op of C05: replays the scheduler bookkeeping model
(`Model/SchedBook.lean`) on the VM runs and messages observed through the `verif_hook` trace of
`script/src/scheduler.rs` and prints what the scheduler must have decided: every `suspend_vm` /
`resume_vm` call in order, every `process_io` scan and transfer, the complete `FullSuspendedState`
bookkeeping at every suspension (total / iteration cycles, id counters, instantiated ids, VM
states, fds with owners, inherited fds, terminated VMs) and the final result.

  sched <l1,l2,…> <tok>…     one limit per API call; tokens: `r:<vm>:<cycles>:<x<code>|y|c|p|e>` one VM
                              run, `m:<kind>:<vm>[:a[:b]]` a message of the preceding run, `|` = the
                              API call returned `Suspended` here -/
namespace CkbVerif.Driver.C05Sched
open CkbVerif.Driver CkbVerif.SchedBook CkbVerif.SchedTx

def parseInt? (s : String) : Option Int :=
  if s.startsWith "-" then (parseNat? (s.drop 1).toString).map (fun n => - (n : Int))
  else (parseNat? s).map (fun n => (n : Int))

def parseRes? (s : String) : Option RunRes :=
  if s = "y" then some .yield else if s = "c" then some .exceeded else if s = "p" then some .pause
  else if s = "e" then some .err
  else if s.startsWith "x" then (parseInt? (s.drop 1).toString).map .exit else none

def parseMsg? : List String → Option Msg
  | ["exec", vm] => (parseNat? vm).map .exec
  | ["spawn", vm, fds] => do pure (.spawn (← parseNat? vm) (← parseNatList? fds))
  | ["wait", vm, t] => do pure (.wait (← parseNat? vm) (← parseNat? t))
  | ["pipe", vm] => (parseNat? vm).map .pipe
  | ["read", vm, fd, len] => do pure (.read (← parseNat? vm) (← parseNat? fd) (← parseNat? len))
  | ["write", vm, fd, len] => do pure (.write (← parseNat? vm) (← parseNat? fd) (← parseNat? len))
  | ["inh", vm] => (parseNat? vm).map .inh
  | ["close", vm, fd] => do pure (.close (← parseNat? vm) (← parseNat? fd))
  | _ => none

/-- tokens → per-call event lists (reversed accumulators) -/
def parseCalls : List String → List Ev → List (List Ev) → Option (List (List Ev))
  | [], cur, acc => some ((cur.reverse :: acc).reverse)
  | t :: ts, cur, acc =>
    if t = "|" then parseCalls ts [] (cur.reverse :: acc)
    else
      match t.splitOn ":" with
      | ["r", vm, c, k] =>
        match parseNat? vm, parseNat? c, parseRes? k with
        | some vm, some c, some k => parseCalls ts (⟨vm, c, k, []⟩ :: cur) acc
        | _, _, _ => none
      | "m" :: rest =>
        match parseMsg? rest, cur with
        | some m, ev :: more => parseCalls ts ({ ev with msgs := ev.msgs ++ [m] } :: more) acc
        | _, _ => none
      | _ => none

def dot (l : List String) : String := if l.isEmpty then "-" else ".".intercalate l

def showVm : Nat × VmState → String
  | (id, .runnable) => s!"{id}R"
  | (id, .terminated) => s!"{id}T"
  | (id, .wait t) => s!"{id}W{t}"
  | (id, .waitWrite fd c l) => s!"{id}Ww{fd}/{c}/{l}"
  | (id, .waitRead fd l) => s!"{id}Wr{fd}/{l}"

def showFull (f : Full) : String :=
  let inh := f.inherited.map (fun (id, fds) => s!"{id}:" ++ (if fds.isEmpty then "-" else "+".intercalate (fds.map toString)))
  s!"S[t={f.total},i={f.iter},nv={f.nextVm},nf={f.nextFd},inst={dot (f.instIds.map toString)},vms={dot (f.vms.map showVm)}," ++
  s!"fds={dot (f.fds.map (fun (fd, o) => s!"{fd}>{o}"))},inh={dot inh},term={dot (f.term.map (fun (id, c) => s!"{id}:{c}"))}]"

def showOut : Out → String
  | .sv id => s!"sv{id}"
  | .rv id => s!"rv{id}"
  | .ioScan c p => s!"scan:{c}:{p}"
  | .io r w n => s!"io:{r}:{w}:{n}"

def showEnd : RunEnd → String
  | .done code total => if code = 0 then s!"done:0:{total}" else s!"done:{code}"
  | .stopped .deadlock => "end:deadlock"
  | .stopped .cyclesExceeded => "end:exceeded"
  | .stopped .pause => "end:pause"
  | .stopped _ => "end:err"
  | .starved => "model-wants-another-run"
  | .wrongVm => "model-chooses-another-vm"

/-- the decisions logged since the log had `n` entries, oldest first -/
def newOuts (log : List Out) (n : Nat) : List String := ((log.take (log.length - n)).reverse).map showOut

/-- a `TransactionState`: group index, cycles of the completed groups, recorded limit, scheduler state -/
def showTx (st : TxSt) : List String :=
  [s!"T[g={st.current},cur={st.currentCycles},lim={st.limitCycles}]",
   match st.full with
   | some f => showFull f
   | none => "S-"]

def showTxEnd : TxEnd → String
  | .completed c => s!"done:0:{c}"
  | .suspended _ => "end:limits"
  | .failed code g => s!"done:{code}@{g}"
  | .stopped .deadlock g => s!"end:deadlock@{g}"
  | .stopped _ g => s!"end:err@{g}"
  | .other => "end:other"
  | .overflow => "end:overflow"
  | .mismatch r => showEnd r

/-- one API call per (limit, events of that call): `resumable_verify` first, then
`resume_from_state` from the state the previous call returned -/
def drive (gs : List GKind) : List Nat → List (List Ev) → Option TxSt → List Out → List String → List String
  | l :: ls, evs :: more, st, log, acc =>
    let (r, rest, log') := match st with
      | none => resumableVerify gs l evs log
      | some st => resumeFromState gs st l evs log
    let acc := acc ++ newOuts log' log.length
    match r with
    | .suspended st' =>
      if !rest.isEmpty then acc ++ ["model-stops-before-the-observed-call-does"]
      else if more.isEmpty then acc ++ ["end:limits"]
      else drive gs ls more (some st') log' (acc ++ showTx st')
    | e =>
      acc ++ [if rest.isEmpty && more.isEmpty then showTxEnd e
              else if rest.isEmpty then "model-ends-before-the-observed-run-does" else showTxEnd e ++ "!unused-runs"]
  | _, _, _, _, acc => acc ++ ["bad-op"]

def schedOp (gs : List GKind) (toks : List String) : String :=
  match toks with
  | lims :: rest =>
    match parseNatList? lims, parseCalls rest [] [] with
    | some ls, some calls => " ".intercalate (drive gs ls calls none [] [])
    | _, _ => "bad-op"
  | _ => "bad-op"

end CkbVerif.Driver.C05Sched
