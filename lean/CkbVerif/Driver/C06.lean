import CkbVerif.Driver.Util
import CkbVerif.Model.Dao
import CkbVerif.Model.DaoRaw
import CkbVerif.Model.Reward

/-! Line-protocol driver for C06 (protocol: see harness/hnode/src/c06.rs). -/
namespace CkbVerif.Driver.C06
open CkbVerif.Driver CkbVerif.Arith CkbVerif.Dao CkbVerif.Reward

structure St where
  win : Win := defaultWin
  ratio : Ratio := proposerRatio
  ser : Nat := 0
  chain : List Blk := []
  epochs : List Epoch := []
  daos : List DaoField := []
  /-- node stream: hex of the dao field answered by the last `dao` op (what `DaoHeaderVerifier`
  compares the header with); empty when that op failed -/
  lastDao : String := ""
  /-- node stream: the cellbase WITNESS lock of every block of the abstract chain, as
  `(lock id, args length)`; `blk` appends the default `(0, 0)` (the always-success lock without
  args), `lock` overwrites it -/
  locks : List (Nat × Nat) := []

def errName : Err → String
  | .overflow => "err-overflow"
  | .panic => "panic"
  | .invalidOutPoint => "err-outpoint"
  | .invalidHeader => "err-header"
  | .invalidDaoFormat => "err-format"

def showR (r : R Nat) : String :=
  match r with
  | .ok v => s!"ok {v}"
  | .error e => errName e

def showOpt (o : Option Nat) : String :=
  match o with
  | some v => toString v
  | none => "err"

def hexDigit (n : Nat) : Char :=
  if n < 10 then Char.ofNat (48 + n) else Char.ofNat (87 + n)

def hexOf (b : List Nat) : String :=
  String.ofList (b.flatMap fun x => [hexDigit (x / 16 % 16), hexDigit (x % 16)])

def hexVal (c : Char) : Option Nat :=
  if c.isDigit then some (c.toNat - 48)
  else if 'a' ≤ c ∧ c ≤ 'f' then some (c.toNat - 87)
  else none

def unhexAux : List Char → Option (List Nat)
  | [] => some []
  | [_] => none
  | a :: b :: rest => do
    let x ← hexVal a
    let y ← hexVal b
    let r ← unhexAux rest
    pure ((x * 16 + y) :: r)

def parseOptNat? (s : String) : Option (Option Nat) :=
  if s = "n" then some none else (parseNat? s).map some

/-- `cap:lockArgs:typeArgs|n:dataBytes` -/
def parseCell? (fs : List String) : Option Cell :=
  match fs with
  | [a, b, c, d] => do
    let cap ← parseNat? a
    let la ← parseNat? b
    let ta ← parseOptNat? c
    let db ← parseNat? d
    pure { cap := cap, lockArgs := la, typeArgs := ta, dataBytes := db }
  | _ => none

/-- `p:<cell>` | `s:<cell>` | `w:<cell>:depNum:depAr:wdNum:wdAr` -/
def parseInput? (s : String) : Option Input :=
  match s.splitOn ":" with
  | k :: a :: b :: c :: d :: rest => do
    let cell ← parseCell? [a, b, c, d]
    match k, rest with
    | "p", [] => pure ⟨cell, .plain⟩
    | "d", [] => pure ⟨cell, .plain⟩
    | "g1", [] => pure ⟨cell, .plain⟩
    | "g2", [] => pure ⟨cell, .plain⟩
    | "g3", [] => pure ⟨cell, .plain⟩
    | "s", [] => pure ⟨cell, .satoshi⟩
    | "w", [dn, da, wn, wa] => do
      let dn ← parseNat? dn
      let da ← parseNat? da
      let wn ← parseNat? wn
      let wa ← parseNat? wa
      pure ⟨cell, .daoWithdraw dn da wn wa⟩
    | _, _ => none
  | _ => none

def parseList? {α : Type} (f : String → Option α) (sep : String) (s : String) : Option (List α) :=
  if s = "-" then some [] else (s.splitOn sep).mapM f

/-- `<inputs>|<outputs>` -/
def parseTx? (s : String) : Option Tx :=
  match s.splitOn "|" with
  | [i, o] => do
    let ins ← parseList? parseInput? "," i
    let outs ← parseList? (fun x => parseCell? (x.splitOn ":")) "," o
    pure ⟨ins, outs⟩
  | _ => none

def parseTxs? (s : String) : Option (List Tx) := parseList? parseTx? ";" s

/-! raw transactions (`rfee` / `rdao`; protocol: harness/hnode/src/c06.rs, "raw" section) -/

def parseDots? (s : String) : Option (List Nat) := (s.splitOn ".").mapM parseNat?

/-- `cap:lockArgs:typeArgs|n:dataBytes:<ty>:<data>:<info>:<sat>` with ty = `n` | two bits
(hash type is Type, code hash is the dao type hash); data = `n` | `len.value`;
info = `n` | `hash.number.index`; sat = `0` | `1` -/
def parseRawInput? (s : String) : Option RawInput :=
  match s.splitOn ":" with
  | [a, b, c, d, ty, data, info, sat] => do
    let cell ← parseCell? [a, b, c, d]
    let ty ← (match ty with
      | "n" => some none
      | "00" => some (some (false, false))
      | "01" => some (some (false, true))
      | "10" => some (some (true, false))
      | "11" => some (some (true, true))
      | _ => none)
    let loaded ← (if data = "n" then some none else
      match parseDots? data with
      | some [l, v] => some (some (l, v))
      | _ => none)
    let txInfo ← (if info = "n" then some none else
      match parseDots? info with
      | some [h, n, i] => some (some (⟨h, n, i⟩ : TxInfo))
      | _ => none)
    let sat ← (match sat with
      | "0" => some false
      | "1" => some true
      | _ => none)
    pure { cell := cell, typeScript := ty, loaded := loaded, txInfo := txInfo, lockIsSatoshi := sat }
  | _ => none

/-- `m` (does not parse as WitnessArgs) | `e` (no input_type) | `len.value` -/
def parseRawWitness? (s : String) : Option RawWitness :=
  if s = "m" then some .malformed
  else if s = "e" then some (.args none)
  else match parseDots? s with
    | some [l, v] => some (.args (some (l, v)))
    | _ => none

/-- `<inputs>|<outputs>|<witnesses>|<header deps>` -/
def parseRawTx? (s : String) : Option RawTx :=
  match s.splitOn "|" with
  | [i, o, w, d] => do
    let ins ← parseList? parseRawInput? "," i
    let outs ← parseList? (fun x => parseCell? (x.splitOn ":")) "," o
    let ws ← parseList? parseRawWitness? "," w
    let deps ← parseNatList? d
    pure ⟨ins, outs, ws, deps⟩
  | _ => none

/-- the data loader's headers: `id.number.ar,…` -/
def parseHeaders? (s : String) : Option Headers := do
  let tbl ← parseList? (fun x => match parseDots? x with
    | some [h, n, a] => some (h, n, a)
    | _ => none) "," s
  pure fun h => (tbl.find? (fun e => e.1 == h)).map fun e => e.2

def showDao (r : R DaoField) : String :=
  match r with
  | .ok d => s!"ok {hexOf (pack d)} {d.ar} {d.c} {d.s} {d.u}"
  | .error e => errName e

def showBr (target : Nat) (r : R BlockReward) : String :=
  match r with
  | .ok b => s!"ok target={target} total={b.total} primary={b.primary} secondary={b.secondary} txfee={b.txFee} proposal={b.proposalReward}"
  | .error e => errName e

def step (s : St) (ts : List String) : St × String :=
  match ts with
  | ["ratio", fee, n, d] =>
    match parseNats? [fee, n, d] with
    | some [fee, n, d] =>
      (s, s!"p={showOpt (proposerShare ⟨n, d⟩ fee)} c={showOpt (committerShare ⟨n, d⟩ fee)}")
    | _ => (s, "bad-op")
  | ["pack", ar, c, s', u] =>
    match parseNats? [ar, c, s', u] with
    | some [ar, c, s', u] => (s, hexOf (pack ⟨ar, c, s', u⟩))
    | _ => (s, "bad-op")
  | ["extract", hx] =>
    match unhexAux hx.toList with
    | some bs =>
      let d := extract bs
      (s, s!"{d.ar} {d.c} {d.s} {d.u} {hexOf (pack d)}")
    | none => (s, "bad-op")
  | ["occupied", cell] =>
    match parseCell? (cell.splitOn ":") with
    | some c => (s, showR (occupied c))
    | none => (s, "bad-op")
  | ["withdraw", cell, dn, da, wn, wa] =>
    match parseCell? (cell.splitOn ":"), parseNats? [dn, da, wn, wa] with
    | some c, some [dn, da, wn, wa] =>
      (s, showR (do let d ← capBytes c.dataBytes; maxWithdrawWith c d dn da wn wa))
    | _, _ => (s, "bad-op")
  | ["fee", tx] =>
    match parseTx? tx with
    | some t => (s, showR (transactionFee t))
    | none => (s, "bad-op")
  | ["primary", st, len, base, rem, n] =>
    match parseNats? [st, len, base, rem, n] with
    | some [st, len, base, rem, n] => (s, showR (primaryBlockReward ⟨st, len, base, rem⟩ n))
    | _ => (s, "bad-op")
  | ["secondary", ser, st, len, base, rem, n, pc, pu] =>
    match parseNats? [ser, st, len, base, rem, n, pc, pu] with
    | some [ser, st, len, base, rem, n, pc, pu] =>
      (s, showR (secondaryBlockReward ser ⟨st, len, base, rem⟩ n ⟨0, pc, 0, pu⟩))
    | _ => (s, "bad-op")
  | ["dao", ser, st, len, base, rem, pn, ar, c, s', u, txs] =>
    match parseNats? [ser, st, len, base, rem, pn, ar, c, s', u], parseTxs? txs with
    | some [ser, st, len, base, rem, pn, ar, c, s', u], some txs =>
      let r := daoField ser ⟨st, len, base, rem⟩ pn ⟨ar, c, s', u⟩ txs
      ({ s with lastDao := match r with
                           | .ok d => hexOf (pack d)
                           | .error _ => "" }, showDao r)
    | _, _ => (s, "bad-op")
  | ["rfee", hdrs, tx] =>
    match parseHeaders? hdrs, parseRawTx? tx with
    | some hdr, some t => (s, showR (rawTransactionFee hdr t))
    | _, _ => (s, "bad-op")
  | ["rdao", ser, st, len, base, rem, pn, ar, c, s', u, hdrs, txs] =>
    match parseNats? [ser, st, len, base, rem, pn, ar, c, s', u], parseHeaders? hdrs,
          parseList? parseRawTx? ";" txs with
    | some [ser, st, len, base, rem, pn, ar, c, s', u], some hdr, some txs =>
      (s, showDao (rawDaoField hdr ser ⟨st, len, base, rem⟩ pn ⟨ar, c, s', u⟩ txs))
    | _, _, _ => (s, "bad-op")
  -- chain stream
  | ["cfg", cl, far, n, d, ser] =>
    match parseNats? [cl, far, n, d, ser] with
    | some [cl, far, n, d, ser] =>
      ({ win := ⟨cl, far⟩, ratio := ⟨n, d⟩, ser := ser }, "ok")
    | _ => (s, "bad-op")
  | ["blk", n, props, uprops, ids, fees, st, len, base, rem, ar, c, s', u] =>
    match parseNats? [n, st, len, base, rem, ar, c, s', u],
          (do let a ← parseNatList? props; let b ← parseNatList? uprops; pure (a ++ b)),
          parseNatList? ids, parseNatList? fees with
    | some [n, st, len, base, rem, ar, c, s', u], some props, some ids, some fees =>
      if n ≠ s.chain.length then (s, "bad-op") else
      ({ s with chain := s.chain ++ [⟨props, ids, fees⟩],
                epochs := s.epochs ++ [⟨st, len, base, rem⟩],
                daos := s.daos ++ [⟨ar, c, s', u⟩],
                locks := s.locks ++ [(0, 0)] }, "ok")
    | _, _, _, _ => (s, "bad-op")
  | ["reward", p] =>
    match parseNat? p with
    | some p =>
      if p < s.chain.length then
        (s, showBr ((p + 1) - finalizationDelay s.win) (blockRewardToFinalize s.win s.ratio s.ser s.chain
              (fun n => s.epochs.getD n ⟨0, 0, 0, 0⟩) (fun n => s.daos.getD n ⟨0, 0, 0, 0⟩) p))
      else (s, "bad-op")
    | none => (s, "bad-op")
  | ["verify", p, total, lockOcc, outs] =>
    match parseNats? [p, total, lockOcc],
          parseList? (fun x => match x.splitOn ":" with
            | [a, b] => (parseNat? a).map fun a => (a, b == "1")
            | _ => none) "," outs with
    | some [p, total, lockOcc], some outs =>
      (s, match rewardVerify s.win p total lockOcc outs with
          | some .ok => "ok"
          | some .invalidRewardTarget => "err-target"
          | some .invalidRewardAmount => "err-amount"
          | none => "err-overflow")
    | _, _ => (s, "bad-op")
  -- node stream (protocol: harness/n06/src/node_stream.rs)
  -- scenario lines: they tell the harness what to build; the model only takes the configuration
  | ["node", cl, far, n, d, ser, elen, gcells] =>
    match parseNats? [cl, far, n, d, ser, elen, gcells] with
    | some [cl, far, n, d, ser, _, _] =>
      ({ win := ⟨cl, far⟩, ratio := ⟨n, d⟩, ser := ser }, "ok")
    | _ => (s, "bad-op")
  -- the same with the primary epoch reward (harness-only parameter) — the "linear" scenarios
  | ["node", cl, far, n, d, ser, elen, gcells, per] =>
    match parseNats? [cl, far, n, d, ser, elen, gcells, per] with
    | some [cl, far, n, d, ser, _, _, _] =>
      ({ win := ⟨cl, far⟩, ratio := ⟨n, d⟩, ser := ser }, "ok")
    | _ => (s, "bad-op")
  -- … and the bundled NervosDAO script as a genesis code cell
  | ["node", cl, far, n, d, ser, elen, gcells, per, "dao"] =>
    match parseNats? [cl, far, n, d, ser, elen, gcells, per] with
    | some [cl, far, n, d, ser, _, _, _] =>
      ({ win := ⟨cl, far⟩, ratio := ⟨n, d⟩, ser := ser }, "ok")
    | _ => (s, "bad-op")
  | ["nb", _, _, _, _, _, _, _] => (s, "ok")
  | "dtx" :: _ => (s, "ok")
  -- the cellbase witness lock of block `n` of the abstract chain
  | ["lock", n, id, len] =>
    match parseNats? [n, id, len] with
    | some [n, id, len] =>
      if n < s.locks.length then ({ s with locks := s.locks.set n (id, len) }, "ok") else (s, "bad-op")
    | _ => (s, "bad-op")
  -- the cellbase the next block on parent `p` must carry: `none` | `out <capacity> <lock id>`
  | ["cellbase", p] =>
    match parseNat? p with
    | some p =>
      if p < s.chain.length then
        let r : R String := do
          let br ← blockRewardToFinalize s.win s.ratio s.ser s.chain
            (fun n => s.epochs.getD n ⟨0, 0, 0, 0⟩) (fun n => s.daos.getD n ⟨0, 0, 0, 0⟩) p
          let tl := targetLock s.win s.locks p
          let occ ← occupied { cap := 0, lockArgs := tl.2, typeArgs := none, dataBytes := 0 }
          match expectedCellbase s.win p br.total occ with
          | [] => pure "none"
          | (cap, _) :: _ => pure s!"out {cap} {tl.1}"
        (s, match r with
            | .ok x => x
            | .error e => errName e)
      else (s, "bad-op")
    | none => (s, "bad-op")
  -- `CellbaseVerifier` (output count) + `RewardVerifier`
  | ["cbverify", p, total, lockOcc, outs] =>
    match parseNats? [p, total, lockOcc],
          parseList? (fun x => match x.splitOn ":" with
            | [a, b] => (parseNat? a).map fun a => (a, b == "1")
            | _ => none) "," outs with
    | some [p, total, lockOcc], some outs =>
      (s, match cellbaseVerify s.win p total lockOcc outs with
          | some .ok => "ok"
          | some .invalidOutputQuantity => "err-quantity"
          | some .invalidRewardTarget => "err-target"
          | some .invalidRewardAmount => "err-amount"
          | none => "err-overflow")
    | _, _ => (s, "bad-op")
  | ["tx", _, _, _, _] => (s, "ok")
  | ["ub", _, _, _, _] => (s, "ok")
  | ["nb", _, _, _, _, _, _] => (s, "ok")
  | ["restart"] => (s, "ok")
  -- switch of branch: keep blocks 0 .. n-1 of the abstract chain
  | ["trunc", n] =>
    match parseNat? n with
    | some n =>
      if n ≤ s.chain.length then
        ({ s with chain := s.chain.take n, epochs := s.epochs.take n, daos := s.daos.take n,
                  locks := s.locks.take n }, "ok")
      else (s, "bad-op")
    | none => (s, "bad-op")
  -- `DaoHeaderVerifier`: `dao != header.dao() -> InvalidDAO`, against the last `dao` answer
  | ["daoverify", hx] =>
    if s.lastDao.isEmpty then (s, "bad-op")
    else (s, if hx = s.lastDao then "ok" else "err-dao")
  | _ => (s, "bad-op")

/-- interactive variant of `runLines` for the node stream: the harness needs the model's answer
before it submits a block, so every answer is flushed at once -/
partial def serveLines (init : St) : IO UInt32 := do
  let stdin ← IO.getStdin
  let stdout ← IO.getStdout
  let rec loop (s : St) : IO Unit := do
    let line ← stdin.getLine
    if line.isEmpty then return ()
    let ts := tokens line
    match ts with
    | [] => loop s
    | "case" :: _ =>
      stdout.putStrLn (line.trimAscii.toString)
      stdout.flush
      loop init
    | _ =>
      let (s', out) := step s ts
      stdout.putStrLn out
      stdout.flush
      loop s'
  loop init
  stdout.flush
  return 0

def main (args : List String) : IO UInt32 :=
  if args.contains "node-serve" then serveLines ({} : St)
  else runLines ({} : St) step

end CkbVerif.Driver.C06
