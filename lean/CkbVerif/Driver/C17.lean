import CkbVerif.Driver.Util
import CkbVerif.Model.Orphan3
import CkbVerif.Model.Skip
import CkbVerif.Model.Locate
import CkbVerif.Model.Inflight
import CkbVerif.Model.HeaderMap
import CkbVerif.Model.HeadersSync
import CkbVerif.Model.Fetch

/-! Line-protocol driver for C17: four sub-modes (`orphan`, `skip`, `inflight`, `headermap`);
protocol in harness/hnode/src/c17.rs. -/
namespace CkbVerif.Driver.C17
open CkbVerif.Driver

def canon (l : List Nat) : List Nat :=
  (l.mergeSort (fun a b => decide (a ≤ b))).eraseDups

def showSet (l : List Nat) : String := showNatList (canon l)

/-! ### orphan -/
namespace O
open CkbVerif.Orphan

def natLe (a b : Nat) : Bool := decide (a ≤ b)

/-- all three maps, canonical: parents sorted by hash, groups sorted by parent, children by id -/
def tail (s : Pool3) : String :=
  let pa := s.parents.mergeSort (fun a b => natLe a.1 b.1)
  let pas := if pa.isEmpty then "-" else ",".intercalate (pa.map fun e => s!"{e.1}>{e.2}")
  let bl := s.blocks.mergeSort (fun a b => natLe a.1 b.1)
  let bls := if bl.isEmpty then "-" else ";".intercalate (bl.map fun e =>
    let ids := (e.2.map (·.id)).mergeSort natLe
    s!"{e.1}:[{",".intercalate (ids.map toString)}]")
  s!"len={len3 s} leaders={showSet s.leaders} parents={pas} blocks={bls}"

/-- released blocks: sorted ids, duplicates kept (so a double release would show) -/
def showBlks (l : List Blk) : String :=
  showNatList ((l.map (·.id)).mergeSort (fun a b => decide (a ≤ b)))

def step (s : Pool3) (ts : List String) : Pool3 × String :=
  match ts with
  | ["insert", i, p, e] =>
    match parseNat? i, parseNat? p, parseNat? e with
    | some i, some p, some e =>
      let s' := insert3 s ⟨i, p, e⟩
      (s', tail s')
    | _, _, _ => (s, "bad-op")
  | ["release", p] =>
    match parseNat? p with
    | some p =>
      let r := removeByParent3 s p
      (r.1, s!"{showBlks r.2} {tail r.1}")
    | none => (s, "bad-op")
  | ["expire", e] =>
    match parseNat? e with
    | some e =>
      let r := cleanExpired3 s e
      (r.1, s!"{showBlks r.2} {tail r.1}")
    | none => (s, "bad-op")
  | _ => (s, "bad-op")
end O

/-! ### skip -/
namespace S
open CkbVerif.Skip

structure St where
  hdrs : Array (Option Hdr) := #[]
  /-- main chain ids by number (for the `fast_scanner` shortcut) -/
  main : Array Nat := #[]
  /-- ids whose block is in the node's store (`nblk`); `nhdr` headers are in the header map only -/
  stored : Array Bool := #[]
  /-- `Peers.state`: best known header and last common header per peer -/
  peers : PeersSt := []
  /-- `SyncState.inflight_blocks` (node-level stream: written by `fetch`, `finsert`, `frmpeer`) -/
  infl : CkbVerif.Inflight.Inflight := {}

def St.store (s : St) : Store := fun i => (s.hdrs.getD i none)

def St.scan (s : St) (on : Bool) : Nat → Hdr → Option Hdr := fun number cur =>
  if on && decide (cur.number < s.main.size) && (s.main.getD cur.number 0 == cur.id) then
    if number < s.main.size then s.store (s.main.getD number 0) else none
  else none

def setAt (a : Array (Option Hdr)) (i : Nat) (h : Hdr) : Array (Option Hdr) :=
  let a := if a.size ≤ i then a ++ Array.replicate (i + 1 - a.size) none else a
  a.set! i (some h)

/-- `ActiveChain::get_ancestor(&base, number).number_and_hash()` (fast scanner on, as on the node) -/
def St.ancNH (s : St) : Nat → Nat → Option NH := fun base number =>
  (s.store base).bind (fun b => (getAncestor s.store (s.scan true) b number).map (fun t => (t.number, t.id)))

/-- `Snapshot::get_block_number(hash)`: the main-chain index -/
def St.numOnMain (s : St) : Nat → Option Nat := fun id =>
  match s.store id with
  | some h => if decide (h.number < s.main.size) && s.main.getD h.number 0 == id then some h.number else none
  | none => none

/-- `ChainDB::get_block_header(hash)`: stored blocks only -/
def St.blk (s : St) : Nat → Option Hdr := fun id => if s.stored.getD id false then s.store id else none

/-- `ActiveChain::get_block_hash(number)` -/
def St.mainHash (s : St) : Nat → Option Nat := fun n => s.main[n]?

def showNH (o : Option NH) : String :=
  match o with
  | some x => s!"{x.1}/{x.2}"
  | none => "none"

def showPeer (s : St) (p : Nat) : String :=
  match s.peers.get p with
  | none => "nopeer"
  | some st =>
    let b := match st.best with
      | some hi => s!"{hi.number}/{hi.hash}/{hi.td}"
      | none => "none"
    s!"best={b} lc={showNH st.lastCommon}"

def setFlag (a : Array Bool) (i : Nat) : Array Bool :=
  let a := if a.size ≤ i then a ++ Array.replicate (i + 1 - a.size) false else a
  a.set! i true

def showOpt (o : Option Nat) : String :=
  match o with
  | some x => toString x
  | none => "none"

/-- main chain ids from a tip, genesis first -/
def chainOf (s : St) (tip : Hdr) : Array Nat :=
  let rec go (fuel : Nat) (h : Hdr) (acc : List Nat) : List Nat :=
    match fuel with
    | 0 => h.id :: acc
    | f + 1 =>
      if h.number == 0 then h.id :: acc
      else match s.store h.parent with
        | some p => go f p (h.id :: acc)
        | none => h.id :: acc
  (go tip.number tip []).toArray

def step (s : St) (ts : List String) : St × String :=
  match ts with
  | ["hdr", i, n, p] =>
    match parseNat? i, parseNat? n, parseNat? p with
    | some i, some n, some p =>
      let h := buildSkip s.store (s.scan false) ⟨i, n, p, none⟩
      ({ s with hdrs := setAt s.hdrs i h }, s!"skip={showOpt h.skip}")
    | _, _, _ => (s, "bad-op")
  | ["nhdr", i, n, p] =>
    -- node-level stream: the header is known to the node; skip pointers are not observable there
    match parseNat? i, parseNat? n, parseNat? p with
    | some i, some n, some p =>
      let h := buildSkip s.store (s.scan false) ⟨i, n, p, none⟩
      ({ s with hdrs := setAt s.hdrs i h }, "ok")
    | _, _, _ => (s, "bad-op")
  | ["nblk", i, n, p] =>
    -- node-level stream: the block is processed and stored by the node
    match parseNat? i, parseNat? n, parseNat? p with
    | some i, some n, some p =>
      let h := buildSkip s.store (s.scan false) ⟨i, n, p, none⟩
      ({ s with hdrs := setAt s.hdrs i h, stored := setFlag s.stored i }, "ok")
    | _, _, _ => (s, "bad-op")
  | ["nhdrp", i, n, p, peer, td] =>
    -- `SyncShared::insert_valid_header(peer, header)`: the header map entry, and the header offered as the
    -- peer's best known header with its total difficulty
    match parseNat? i, parseNat? n, parseNat? p, parseNat? peer, parseNat? td with
    | some i, some n, some p, some peer, some td =>
      let h := buildSkip s.store (s.scan false) ⟨i, n, p, none⟩
      let s := { s with hdrs := setAt s.hdrs i h, peers := s.peers.maySetBestKnown peer ⟨n, i, td⟩ }
      (s, showPeer s peer)
    | _, _, _, _, _ => (s, "bad-op")
  | ["lca", na, a, nb, b] =>
    match parseNat? na, parseNat? a, parseNat? nb, parseNat? b with
    | some na, some a, some nb, some b => (s, showNH (lastCommonAncestor s.ancNH (na, a) (nb, b)))
    | _, _, _, _ => (s, "bad-op")
  | ["lcb", i] =>
    match (parseNat? i).bind s.store with
    | some h =>
      let anc := fun base index =>
        (s.store base).bind (fun b => (getAncestor s.store (s.scan true) b index).map (·.id))
      match getLocator anc 0 h.number h.id with
      | some l => (s, showOpt (locateLatestCommonBlock s.numOnMain s.blk 0 l))
      | none => (s, "panic")
    | none => (s, "bad-op")
  | ["lcbl", l] =>
    match parseNatList? l with
    | some l => (s, showOpt (locateLatestCommonBlock s.numOnMain s.blk 0 l))
    | none => (s, "bad-op")
  | ["pconn", p] =>
    match parseNat? p with
    | some p => let s := { s with peers := s.peers.connected p }; (s, showPeer s p)
    | none => (s, "bad-op")
  | ["pdisc", p] =>
    match parseNat? p with
    | some p => let s := { s with peers := s.peers.disconnected p }; (s, showPeer s p)
    | none => (s, "bad-op")
  | ["pbest", p, n, i, td] =>
    match parseNat? p, parseNat? n, parseNat? i, parseNat? td with
    | some p, some n, some i, some td =>
      let s := { s with peers := s.peers.maySetBestKnown p ⟨n, i, td⟩ }; (s, showPeer s p)
    | _, _, _, _ => (s, "bad-op")
  | ["pslc", p, n, i] =>
    match parseNat? p, parseNat? n, parseNat? i with
    | some p, some n, some i => let s := { s with peers := s.peers.setLastCommon p (n, i) }; (s, showPeer s p)
    | _, _, _ => (s, "bad-op")
  | ["pulc", p, n, i] =>
    match parseNat? p, parseNat? n, parseNat? i with
    | some p, some n, some i =>
      let r := updateLastCommonHeader s.ancNH s.mainHash (s.main.size - 1) s.peers p (n, i)
      let s := { s with peers := r.1 }
      (s, s!"r={showNH r.2} {showPeer s p}")
    | _, _, _ => (s, "bad-op")
  | ["finsert", p, n, i] =>
    match parseNat? p, parseNat? n, parseNat? i with
    | some p, some n, some i =>
      let r := CkbVerif.Inflight.insert s.infl 0 p ⟨n, i⟩
      ({ s with infl := r.1 }, s!"{r.2} total={r.1.states.length}")
    | _, _, _ => (s, "bad-op")
  | ["frmpeer", p] =>
    match parseNat? p with
    | some p =>
      let r := CkbVerif.Inflight.removeByPeer s.infl p
      ({ s with infl := r.1 }, s!"{r.2} total={r.1.states.length}")
    | none => (s, "bad-op")
  | ["fetch", p, fe, ibd, ut, mytd, sv, rc] =>
    match parseNat? p, parseNat? fe, parseNat? ut, parseNat? mytd, parseNatList? sv, parseNatList? rc with
    | some p, some fe, some ut, some mytd, some sv, some rc =>
      let e : CkbVerif.Fetch.Env := {
        anc := fun base n => (s.store base).bind (fun b => getAncestor s.store (s.scan true) b n),
        hdr := s.store,
        stored := fun id => s.stored.getD id false,
        valid := fun id => s.stored.getD id false && !sv.contains id,
        received := fun id => rc.contains id,
        numOnMain := s.numOnMain, mainHash := s.mainHash, tipNumber := s.main.size - 1,
        unverifiedTip := ut, totalDifficulty := mytd, ibd := ibd == "1", now := 0 }
      let r := CkbVerif.Fetch.fetch e s.infl s.peers p fe
      let s := { s with infl := r.2.1, peers := r.2.2 }
      let ans := match r.1 with
        | none => "none"
        | some cs => if cs.isEmpty then "-" else ";".intercalate (cs.map (fun (c : List Nat) => ",".intercalate (c.map toString)))
      let mine := match s.infl.scheds.find? (fun e => e.1 == p) with
        | some (_, sc) => showSet (sc.hashes.map (fun (b : CkbVerif.Inflight.Blk) => b.hash))
        | none => "nosched"
      let lc := match s.peers.get p with
        | some st => showNH st.lastCommon
        | none => "nopeer"
      (s, s!"r={ans} lc={lc} infl={mine} total={s.infl.states.length}")
    | _, _, _, _, _, _ => (s, "bad-op")
  | ["main", i] =>
    match (parseNat? i).bind s.store with
    | some tip =>
      let m := chainOf s tip
      ({ s with main := m }, s!"ok {m.size}")
    | none => (s, "bad-op")
  | ["anc", i, n, sc] =>
    match (parseNat? i).bind s.store, parseNat? n with
    | some h, some n =>
      (s, showOpt ((getAncestor s.store (s.scan (sc == "1")) h n).map (·.id)))
    | _, _ => (s, "bad-op")
  | ["loc", i, sc] =>
    match (parseNat? i).bind s.store with
    | some h =>
      let anc := fun base index =>
        (s.store base).bind (fun b => (getAncestor s.store (s.scan (sc == "1")) b index).map (·.id))
      match getLocator anc 0 h.number h.id with
      | some l => (s, showNatList l)
      | none => (s, "panic")
    | none => (s, "bad-op")
  | ["skipheight", n] =>
    match parseNat? n with
    | some n => (s, toString (getSkipHeight n))
    | none => (s, "bad-op")
  | _ => (s, "bad-op")
end S

/-! ### inflight -/
namespace I
open CkbVerif.Inflight

def blkLe (a b : Blk) : Bool := a.number < b.number || (a.number == b.number && a.hash ≤ b.hash)

def showBlk (b : Blk) : String := s!"{b.number}:{b.hash}"

/-- the same fold the harness prints (`c17.rs` `ta_hash`) -/
def taHash (l : List Nat) : Nat :=
  l.foldl (fun h x => (h * 1000003 + x % 1099511627689) % 1099511627689) 0

def dump (s : Inflight) : String :=
  let sts := s.states.mergeSort (fun a b => blkLe a.1 b.1)
  let a := if sts.isEmpty then "-" else ";".intercalate (sts.map fun e => s!"{showBlk e.1}@{e.2.peer}/{e.2.ts}")
  let scs := s.scheds.mergeSort (fun a b => decide (a.1 ≤ b.1))
  let b := if scs.isEmpty then "-" else ";".intercalate (scs.map fun e =>
    let hs := e.2.hashes.mergeSort blkLe
    s!"{e.1}:{e.2.taskCount}/{e.2.timeoutCount}:[{",".intercalate (hs.map showBlk)}]")
  let trs := s.trace.mergeSort (fun a b => blkLe a.1 b.1)
  let c := if trs.isEmpty then "-" else ";".intercalate (trs.map fun e => s!"{showBlk e.1}/{e.2}")
  s!"states={a} scheds={b} trace={c} restart={s.restartNumber} div={s.analyzer.fast},{s.analyzer.normal},{s.analyzer.low} pol={if s.adjustment then 1 else 0},{s.protectNum} ta={s.analyzer.index}/{taHash s.analyzer.trace}"

def step (s : Inflight) (ts : List String) : Inflight × String :=
  match ts with
  | ["insert", now, peer, n, h] =>
    match parseNats? [now, peer, n, h] with
    | some [now, peer, n, h] =>
      let r := insert s now peer ⟨n, h⟩
      (r.1, s!"{r.2} {dump r.1}")
    | _ => (s, "bad-op")
  | ["rmpeer", peer] =>
    match parseNat? peer with
    | some peer =>
      let r := removeByPeer s peer
      (r.1, s!"{r.2} {dump r.1}")
    | none => (s, "bad-op")
  | ["rmblock", now, n, h] =>
    match parseNats? [now, n, h] with
    | some [now, n, h] =>
      let r := removeByBlock s now ⟨n, h⟩
      (r.1, s!"{r.2} {dump r.1}")
    | _ => (s, "bad-op")
  | ["prune", now, tip] =>
    match parseNats? [now, tip] with
    | some [now, tip] =>
      let r := prune s now tip
      (r.1, s!"disconnect={showSet r.2} {dump r.1}")
    | _ => (s, "bad-op")
  | ["mark", now, tip] =>
    match parseNats? [now, tip] with
    | some [now, tip] =>
      let s' := markSlow s now tip
      (s', s!"ok {dump s'}")
    | _ => (s, "bad-op")
  | ["policy", adj, protect] =>
    match parseNats? [adj, protect] with
    | some [adj, protect] =>
      let s' := setPolicy s (adj != 0) protect
      (s', s!"ok {dump s'}")
    | _ => (s, "bad-op")
  | ["consts"] =>
    (s, s!"{CkbVerif.Gen.Sync.BLOCK_DOWNLOAD_TIMEOUT} {CkbVerif.Gen.Sync.INIT_BLOCKS_IN_TRANSIT_PER_PEER} {CkbVerif.Gen.Sync.MAX_BLOCKS_IN_TRANSIT_PER_PEER} {CkbVerif.Gen.Sync.MAX_OUTBOUND_PEERS_TO_PROTECT_FROM_DISCONNECT} {TIME_TRACE_SIZE} {FAST_INDEX} {NORMAL_INDEX} {LOW_INDEX}")
  | _ => (s, "bad-op")
end I

/-! ### headermap -/
namespace H
open CkbVerif.HeaderMap

def tail (s : HM) : String :=
  s!"mem={showNatList (s.memory.map (·.1))} back={showSet (s.backend.map (·.1))}"

def showAns : Ans → String
  | .unit => "ok"
  | .val (some v) => toString v
  | .val none => "none"
  | .bool b => toString b

def step (s : HM) (ts : List String) : HM × String :=
  match ts with
  | ["cfg", l] =>
    match parseNat? l with
    | some l => ({ limit := l }, "ok")
    | none => (s, "bad-op")
  | ["insert", k, v] =>
    match parseNat? k, parseNat? v with
    | some k, some v =>
      let hit := insertHit s k
      let r := HeaderMap.step s (.insert k v)
      (r.1, s!"{if hit then "hit" else "miss"} {tail r.1}")
    | _, _ => (s, "bad-op")
  | [op, k] =>
    match parseNat? k with
    | some k =>
      let o : Option Op :=
        if op == "get" then some (.get k) else if op == "contains" then some (.contains k)
        else if op == "remove" then some (.remove k) else none
      match o with
      | some o =>
        let r := HeaderMap.step s o
        (r.1, s!"{showAns r.2} {tail r.1}")
      | none => (s, "bad-op")
    | none => (s, "bad-op")
  | ["spill"] =>
    let r := HeaderMap.step s .spill
    (r.1, s!"ok {tail r.1}")
  | _ => (s, "bad-op")
end H

/-! ### hsync -/
namespace HS
open CkbVerif.HeadersSync

def showCtl (c : Ctl) : String :=
  s!"{c.startedTs} {c.startedTipTs} {c.lastUpdatedTs} {c.lastUpdatedTipTs} {if c.closeToEnd then 1 else 0}"

def step (c : Ctl) (ts : List String) : Ctl × String :=
  match ts with
  | ["hsnew", a, b, x, d, e] =>
    match parseNat? a, parseNat? b, parseNat? x, parseNat? d with
    | some a, some b, some x, some d =>
      let c : Ctl := ⟨a, b, x, d, e == "1"⟩
      (c, showCtl c)
    | _, _, _, _ => (c, "bad-op")
  | ["hsto", tip, now] =>
    match parseNat? tip, parseNat? now with
    | some tip, some now =>
      let r := isTimeout c tip now
      let a := match r.2 with
        | none => "none"
        | some true => "true"
        | some false => "false"
      (r.1, s!"{a} {showCtl r.1}")
    | _, _ => (c, "bad-op")
  | _ => (c, "bad-op")
end HS

def main (args : List String) : IO UInt32 :=
  match args with
  | ["orphan"] => runLines ({} : CkbVerif.Orphan.Pool3) O.step
  | ["skip"] => runLines ({} : S.St) S.step
  | ["hsync"] => runLines (⟨0, 0, 0, 0, false⟩ : CkbVerif.HeadersSync.Ctl) HS.step
  | ["inflight"] => runLines ({} : CkbVerif.Inflight.Inflight) I.step
  | ["headermap"] => runLines ({ limit := 0 } : CkbVerif.HeaderMap.HM) H.step
  | _ => do
    IO.eprintln "usage: ckbmodel C17 orphan|skip|inflight|headermap"
    return 2

end CkbVerif.Driver.C17
