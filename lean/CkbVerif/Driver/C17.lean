import CkbVerif.Driver.Util
import CkbVerif.Model.Orphan3
import CkbVerif.Model.Skip
import CkbVerif.Model.Inflight
import CkbVerif.Model.HeaderMap

/-! Line-protocol driver for C17: four sub-modes (`orphan`, `skip`, `inflight`, `headermap`);
protocol in harness/hnode/src/c17.rs. -/
namespace CkbVerif.Driver.C17
open CkbVerif.Driver

def canon (l : List Nat) : List Nat :=
  (l.mergeSort (fun a b => decide (a ≤ b))).eraseDups

def showSet (l : List Nat) : String := showNatList (canon l)

/-! ### orphan -/
namespace O
open CkbVerif.Orphan

def natLe (a b : Nat) : Bool := decide (a ≤ b)

/-- all three maps, canonical: parents sorted by hash, groups sorted by parent, children by id -/
def tail (s : Pool3) : String :=
  let pa := s.parents.mergeSort (fun a b => natLe a.1 b.1)
  let pas := if pa.isEmpty then "-" else ",".intercalate (pa.map fun e => s!"{e.1}>{e.2}")
  let bl := s.blocks.mergeSort (fun a b => natLe a.1 b.1)
  let bls := if bl.isEmpty then "-" else ";".intercalate (bl.map fun e =>
    let ids := (e.2.map (·.id)).mergeSort natLe
    s!"{e.1}:[{",".intercalate (ids.map toString)}]")
  s!"len={len3 s} leaders={showSet s.leaders} parents={pas} blocks={bls}"

/-- released blocks: sorted ids, duplicates kept (so a double release would show) -/
def showBlks (l : List Blk) : String :=
  showNatList ((l.map (·.id)).mergeSort (fun a b => decide (a ≤ b)))

def step (s : Pool3) (ts : List String) : Pool3 × String :=
  match ts with
  | ["insert", i, p, e] =>
    match parseNat? i, parseNat? p, parseNat? e with
    | some i, some p, some e =>
      let s' := insert3 s ⟨i, p, e⟩
      (s', tail s')
    | _, _, _ => (s, "bad-op")
  | ["release", p] =>
    match parseNat? p with
    | some p =>
      let r := removeByParent3 s p
      (r.1, s!"{showBlks r.2} {tail r.1}")
    | none => (s, "bad-op")
  | ["expire", e] =>
    match parseNat? e with
    | some e =>
      let r := cleanExpired3 s e
      (r.1, s!"{showBlks r.2} {tail r.1}")
    | none => (s, "bad-op")
  | _ => (s, "bad-op")
end O

/-! ### skip -/
namespace S
open CkbVerif.Skip

structure St where
  hdrs : Array (Option Hdr) := #[]
  /-- main chain ids by number (for the `fast_scanner` shortcut) -/
  main : Array Nat := #[]

def St.store (s : St) : Store := fun i => (s.hdrs.getD i none)

def St.scan (s : St) (on : Bool) : Nat → Hdr → Option Hdr := fun number cur =>
  if on && decide (cur.number < s.main.size) && (s.main.getD cur.number 0 == cur.id) then
    if number < s.main.size then s.store (s.main.getD number 0) else none
  else none

def setAt (a : Array (Option Hdr)) (i : Nat) (h : Hdr) : Array (Option Hdr) :=
  let a := if a.size ≤ i then a ++ Array.replicate (i + 1 - a.size) none else a
  a.set! i (some h)

def showOpt (o : Option Nat) : String :=
  match o with
  | some x => toString x
  | none => "none"

/-- main chain ids from a tip, genesis first -/
def chainOf (s : St) (tip : Hdr) : Array Nat :=
  let rec go (fuel : Nat) (h : Hdr) (acc : List Nat) : List Nat :=
    match fuel with
    | 0 => h.id :: acc
    | f + 1 =>
      if h.number == 0 then h.id :: acc
      else match s.store h.parent with
        | some p => go f p (h.id :: acc)
        | none => h.id :: acc
  (go tip.number tip []).toArray

def step (s : St) (ts : List String) : St × String :=
  match ts with
  | ["hdr", i, n, p] =>
    match parseNat? i, parseNat? n, parseNat? p with
    | some i, some n, some p =>
      let h := buildSkip s.store (s.scan false) ⟨i, n, p, none⟩
      ({ s with hdrs := setAt s.hdrs i h }, s!"skip={showOpt h.skip}")
    | _, _, _ => (s, "bad-op")
  | ["nhdr", i, n, p] =>
    -- node-level stream: the header is known to the node; skip pointers are not observable there
    match parseNat? i, parseNat? n, parseNat? p with
    | some i, some n, some p =>
      let h := buildSkip s.store (s.scan false) ⟨i, n, p, none⟩
      ({ s with hdrs := setAt s.hdrs i h }, "ok")
    | _, _, _ => (s, "bad-op")
  | ["main", i] =>
    match (parseNat? i).bind s.store with
    | some tip =>
      let m := chainOf s tip
      ({ s with main := m }, s!"ok {m.size}")
    | none => (s, "bad-op")
  | ["anc", i, n, sc] =>
    match (parseNat? i).bind s.store, parseNat? n with
    | some h, some n =>
      (s, showOpt ((getAncestor s.store (s.scan (sc == "1")) h n).map (·.id)))
    | _, _ => (s, "bad-op")
  | ["loc", i, sc] =>
    match (parseNat? i).bind s.store with
    | some h =>
      let anc := fun base index =>
        (s.store base).bind (fun b => (getAncestor s.store (s.scan (sc == "1")) b index).map (·.id))
      match getLocator anc 0 h.number h.id with
      | some l => (s, showNatList l)
      | none => (s, "panic")
    | none => (s, "bad-op")
  | ["skipheight", n] =>
    match parseNat? n with
    | some n => (s, toString (getSkipHeight n))
    | none => (s, "bad-op")
  | _ => (s, "bad-op")
end S

/-! ### inflight -/
namespace I
open CkbVerif.Inflight

def blkLe (a b : Blk) : Bool := a.number < b.number || (a.number == b.number && a.hash ≤ b.hash)

def showBlk (b : Blk) : String := s!"{b.number}:{b.hash}"

/-- the same fold the harness prints (`c17.rs` `ta_hash`) -/
def taHash (l : List Nat) : Nat :=
  l.foldl (fun h x => (h * 1000003 + x % 1099511627689) % 1099511627689) 0

def dump (s : Inflight) : String :=
  let sts := s.states.mergeSort (fun a b => blkLe a.1 b.1)
  let a := if sts.isEmpty then "-" else ";".intercalate (sts.map fun e => s!"{showBlk e.1}@{e.2.peer}/{e.2.ts}")
  let scs := s.scheds.mergeSort (fun a b => decide (a.1 ≤ b.1))
  let b := if scs.isEmpty then "-" else ";".intercalate (scs.map fun e =>
    let hs := e.2.hashes.mergeSort blkLe
    s!"{e.1}:{e.2.taskCount}/{e.2.timeoutCount}:[{",".intercalate (hs.map showBlk)}]")
  let trs := s.trace.mergeSort (fun a b => blkLe a.1 b.1)
  let c := if trs.isEmpty then "-" else ";".intercalate (trs.map fun e => s!"{showBlk e.1}/{e.2}")
  s!"states={a} scheds={b} trace={c} restart={s.restartNumber} div={s.analyzer.fast},{s.analyzer.normal},{s.analyzer.low} pol={if s.adjustment then 1 else 0},{s.protectNum} ta={s.analyzer.index}/{taHash s.analyzer.trace}"

def step (s : Inflight) (ts : List String) : Inflight × String :=
  match ts with
  | ["insert", now, peer, n, h] =>
    match parseNats? [now, peer, n, h] with
    | some [now, peer, n, h] =>
      let r := insert s now peer ⟨n, h⟩
      (r.1, s!"{r.2} {dump r.1}")
    | _ => (s, "bad-op")
  | ["rmpeer", peer] =>
    match parseNat? peer with
    | some peer =>
      let r := removeByPeer s peer
      (r.1, s!"{r.2} {dump r.1}")
    | none => (s, "bad-op")
  | ["rmblock", now, n, h] =>
    match parseNats? [now, n, h] with
    | some [now, n, h] =>
      let r := removeByBlock s now ⟨n, h⟩
      (r.1, s!"{r.2} {dump r.1}")
    | _ => (s, "bad-op")
  | ["prune", now, tip] =>
    match parseNats? [now, tip] with
    | some [now, tip] =>
      let r := prune s now tip
      (r.1, s!"disconnect={showSet r.2} {dump r.1}")
    | _ => (s, "bad-op")
  | ["mark", now, tip] =>
    match parseNats? [now, tip] with
    | some [now, tip] =>
      let s' := markSlow s now tip
      (s', s!"ok {dump s'}")
    | _ => (s, "bad-op")
  | ["policy", adj, protect] =>
    match parseNats? [adj, protect] with
    | some [adj, protect] =>
      let s' := setPolicy s (adj != 0) protect
      (s', s!"ok {dump s'}")
    | _ => (s, "bad-op")
  | ["consts"] =>
    (s, s!"{CkbVerif.Gen.Sync.BLOCK_DOWNLOAD_TIMEOUT} {CkbVerif.Gen.Sync.INIT_BLOCKS_IN_TRANSIT_PER_PEER} {CkbVerif.Gen.Sync.MAX_BLOCKS_IN_TRANSIT_PER_PEER} {CkbVerif.Gen.Sync.MAX_OUTBOUND_PEERS_TO_PROTECT_FROM_DISCONNECT} {TIME_TRACE_SIZE} {FAST_INDEX} {NORMAL_INDEX} {LOW_INDEX}")
  | _ => (s, "bad-op")
end I

/-! ### headermap -/
namespace H
open CkbVerif.HeaderMap

def tail (s : HM) : String :=
  s!"mem={showNatList (s.memory.map (·.1))} back={showSet (s.backend.map (·.1))}"

def showAns : Ans → String
  | .unit => "ok"
  | .val (some v) => toString v
  | .val none => "none"
  | .bool b => toString b

def step (s : HM) (ts : List String) : HM × String :=
  match ts with
  | ["cfg", l] =>
    match parseNat? l with
    | some l => ({ limit := l }, "ok")
    | none => (s, "bad-op")
  | ["insert", k, v] =>
    match parseNat? k, parseNat? v with
    | some k, some v =>
      let hit := insertHit s k
      let r := HeaderMap.step s (.insert k v)
      (r.1, s!"{if hit then "hit" else "miss"} {tail r.1}")
    | _, _ => (s, "bad-op")
  | [op, k] =>
    match parseNat? k with
    | some k =>
      let o : Option Op :=
        if op == "get" then some (.get k) else if op == "contains" then some (.contains k)
        else if op == "remove" then some (.remove k) else none
      match o with
      | some o =>
        let r := HeaderMap.step s o
        (r.1, s!"{showAns r.2} {tail r.1}")
      | none => (s, "bad-op")
    | none => (s, "bad-op")
  | ["spill"] =>
    let r := HeaderMap.step s .spill
    (r.1, s!"ok {tail r.1}")
  | _ => (s, "bad-op")
end H

def main (args : List String) : IO UInt32 :=
  match args with
  | ["orphan"] => runLines ({} : CkbVerif.Orphan.Pool3) O.step
  | ["skip"] => runLines ({} : S.St) S.step
  | ["inflight"] => runLines ({} : CkbVerif.Inflight.Inflight) I.step
  | ["headermap"] => runLines ({ limit := 0 } : CkbVerif.HeaderMap.HM) H.step
  | _ => do
    IO.eprintln "usage: ckbmodel C17 orphan|skip|inflight|headermap"
    return 2

end CkbVerif.Driver.C17
