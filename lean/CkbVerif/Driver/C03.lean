import CkbVerif.Driver.Util
import CkbVerif.Model.Rules
import CkbVerif.Model.RulesIndex
import CkbVerif.Model.RulesBody

/-! Line-protocol driver for C03 (protocol: see harness/n03/src/c03.rs).

```
cfg k=v …                 consensus parameters that differ from the generated defaults   → ok
                          `chain=<consensus id>` selects the rfc0044 activation epoch (`ckb` / `ckb_testnet`:
                          the generated constants, anything else 0); whether the chain-root extension rules
                          apply to a block is then derived from the epoch number of its parent's header
genesis id=0 ts=… work=…   the genesis block, resets the chain                            → ok
blk <id> k=v …            defines a block (header fields, body structure, context oracles) → ok
                          `tx=<id:short:ins:outs:datas:nwit:wit0>;…` is the structure of the transactions
                          (ins `null.since/…`, outs `hastype.lockhashtype/…`, datas `len/…`, wit0 `x` absent,
                          `e` malformed CellbaseWitness, else the lock's hash-type byte): the cellbase
                          features, tx ids and committed ids are derived from it by `Blk.withTxs`;
                          `tlargs=<n>` (args length of the reward target lock) makes the model compute
                          `is_lack_of_capacity` of the reward probe cell from `xrew`
submit <id> now=<ms>      HeaderVerifier, then the chain service                          → <verdict> tip=<id> st=<status>
                          `dls=<inLockSize.outLockSize.inBlock>;…` the deposit → withdrawing pairs
                          `DaoScriptSizeVerifier` compares (both cells DAO-typed, input data all zero)
idx n=<ids> t=<txs> h=<height> e=<epoch>
                          the store indexes as `attach_block` / `detach_block` left them     → main=… uncles=… at=… tx=… ep=…
```
The index state is driven by the verdicts: every `attached` answer is one new-best-block event
(`reorg`: detach the old main chain above the common ancestor tip first, attach the new branch).
-/
namespace CkbVerif.Driver.C03
open CkbVerif.Driver CkbVerif.Rules

structure DS where
  cfg : Cfg := {}
  st : St := St.init {}
  defs : List Blk := []
  ix : IdxSt := ⟨[], Idx.empty⟩

def kv (ts : List String) (k : String) : Option String :=
  ts.findSome? fun t =>
    match t.splitOn "=" with
    | [a, b] => if a = k then some b else none
    | _ => none

def kvNat (ts : List String) (k : String) (d : Nat) : Nat :=
  match kv ts k with
  | some v => (parseNat? v).getD d
  | none => d

def kvBool (ts : List String) (k : String) (d : Bool) : Bool :=
  match kv ts k with
  | some "1" => true
  | some "0" => false
  | _ => d

def kvList (ts : List String) (k : String) : List Nat :=
  match kv ts k with
  | some v => (parseNatList? v).getD []
  | none => []

def parseEpoch (s : String) : Epoch :=
  match (s.splitOn "/").map (fun x => (parseNat? x).getD 0) with
  | [a, b, c] => ⟨a, b, c⟩
  | _ => {}

def kvEpoch (ts : List String) (k : String) : Epoch :=
  match kv ts k with
  | some v => parseEpoch v
  | none => {}

/-- `id:parent:number:epoch:target:props:phok:pow` -/
def parseUncle (s : String) : Option Uncle :=
  match s.splitOn ":" with
  | [i, p, n, e, t, pr, ph, pw] => do
    let i ← parseNat? i
    let p ← parseNat? p
    let n ← parseNat? n
    let e ← parseNat? e
    let t ← parseNat? t
    let pr ← parseNatList? pr
    pure { id := i, parent := p, number := n, epochNumber := e, target := t, proposals := pr,
           proposalsHashOk := ph == "1", powOk := pw == "1" }
  | _ => none

def kvUncles (ts : List String) : List Uncle :=
  match kv ts "uncles" with
  | some "-" => []
  | some v => (v.splitOn ";").filterMap parseUncle
  | none => []

def slashList (s : String) : List String := if s == "-" then [] else s.splitOn "/"

def parseIn (s : String) : Option TxIn :=
  match s.splitOn "." with
  | [p, n] => do pure { prevNull := p == "1", since := (← parseNat? n) }
  | _ => none

def parseOut (s : String) : Option TxOut :=
  match s.splitOn "." with
  | [t, h] => do pure { hasType := t == "1", lockHashType := (← parseNat? h) }
  | _ => none

/-- `id:short:ins:outs:datas:nwit:wit0` -/
def parseTx (s : String) : Option Tx :=
  match s.splitOn ":" with
  | [i, sh, ins, outs, ds, nw, w] => do
    let i ← parseNat? i
    let sh ← parseNat? sh
    let ins ← (slashList ins).mapM parseIn
    let outs ← (slashList outs).mapM parseOut
    let ds ← (slashList ds).mapM parseNat?
    let nw ← parseNat? nw
    let w ← if w == "x" then some Wit.absent else if w == "e" then some Wit.malformed else (parseNat? w).map Wit.lock
    pure { id := i, shortId := sh, inputs := ins, outputs := outs, datas := ds, nWitnesses := nw, wit0 := w }
  | _ => none

def kvTxs (ts : List String) : Option (List Tx) :=
  match kv ts "tx" with
  | some "-" => some []
  | some v => some ((v.splitOn ";").filterMap parseTx)
  | none => none

def parseBlkFeatures (id : Nat) (ts : List String) : Blk :=
  { id := id
    parent := kvNat ts "parent" 0
    number := kvNat ts "num" 0
    epoch := kvEpoch ts "ep"
    ts := kvNat ts "ts" 0
    target := kvNat ts "tgt" 0
    work := kvNat ts "work" 1
    powOk := kvBool ts "pow" true
    proposals := kvList ts "props"
    bytes := kvNat ts "bytes" 0
    nCellbase := kvNat ts "ncb" 1
    firstIsCellbase := kvBool ts "cbfirst" true
    cbOutputs := kvNat ts "cbouts" 1
    cbOutputsData := kvNat ts "cbdatas" 1
    cbDataEmpty := kvBool ts "cbdataempty" true
    cbWitnessOk := kvBool ts "cbwit" true
    cbNoType := kvBool ts "cbnotype" true
    cbLockOk := kvBool ts "cblock" true
    cbSince := kvNat ts "cbsince" 0
    txIds := kvList ts "txs"
    txRootOk := kvBool ts "txroot" true
    proposalsHashOk := kvBool ts "phash" true
    txsNonCtxOk := kvBool ts "txsnc" true
    uncles := kvUncles ts
    committed := kvList ts "commit"
    extraFields := kvNat ts "xf" 1
    extLen := match kv ts "extlen" with
      | some "none" => none
      | some v => parseNat? v
      | none => none
    rootOk := kvBool ts "root" true
    extraHashOk := kvBool ts "xhash" true
    resolveOk := kvBool ts "resolve" true
    expEpoch := kvEpoch ts "xep"
    expTarget := kvNat ts "xtgt" 0
    daoCalcOk := kvBool ts "daocalc" true
    daoEq := kvBool ts "dao" true
    rewardInsufficient := kvBool ts "rewlack" false
    cbCapacity := kvNat ts "cbcap" 0
    expReward := kvNat ts "xrew" 0
    cbLockEq := kvBool ts "cblockeq" true
    txsOk := kvBool ts "txsok" true
    cycles := kvNat ts "cycles" 0
    daoPairs := match kv ts "dls" with
      | some "-" => []
      | some v => (v.splitOn ";").filterMap fun t =>
          match (t.splitOn ".").map parseNat? with
          | [some a, some b, some c] => some (a, b, c)
          | _ => none
      | none => [] }

/-- a block line: the features given as keys; with `tx=…` the cellbase features, the transaction ids
and the committed ids are derived from the structure; with `tlargs=…` so is the reward-probe verdict -/
def parseBlk (id : Nat) (ts : List String) : Blk :=
  let b := parseBlkFeatures id ts
  let b := match kvTxs ts with
    | some txs => b.withTxs txs
    | none => b
  match kv ts "tlargs" with
  | some v => { b with rewardInsufficient := (rewardLack b.expReward ((parseNat? v).getD 0)).getD true }
  | none => b

def errName : Err → String
  | .powInvalid => "pow" | .unknownParent => "badparent" | .parentInvalid => "badparent" | .orphan => "badparent"
  | .number => "number" | .epochMalformed => "epoch-malformed" | .epochNonContinuous => "epoch-noncontinuous"
  | .timeTooOld => "time-too-old" | .timeTooNew => "time-too-new"
  | .proposalsLimit => "proposals-limit" | .blockBytes => "block-bytes"
  | .cbQuantity => "cb-quantity" | .cbPosition => "cb-position" | .cbOutputQuantity => "cb-output-quantity"
  | .cbOutputData => "cb-output-data" | .cbWitness => "cb-witness" | .cbTypeScript => "cb-type-script"
  | .cbOutputLock => "cb-output-lock" | .cbInput => "cb-input"
  | .txDuplicate => "tx-duplicate" | .proposalDuplicate => "proposal-duplicate" | .txRoot => "tx-root"
  | .proposalsHash => "proposals-hash" | .txsNonContextual => "txs-noncontextual"
  | .resolve => "resolve" | .epochNumberMismatch => "epoch-mismatch" | .targetMismatch => "target-mismatch"
  | .unclesOverCount => "uncles-overcount" | .uncleTarget => "uncle-target" | .uncleEpoch => "uncle-epoch"
  | .uncleNumber => "uncle-number" | .uncleDescendant => "uncle-descendant" | .uncleDuplicate => "uncle-duplicate"
  | .uncleDoubleInclusion => "uncle-double-inclusion" | .uncleProposalsLimit => "uncle-proposals-limit"
  | .uncleProposalsHash => "uncle-proposals-hash" | .uncleProposalDuplicate => "uncle-proposal-duplicate"
  | .unclePow => "pow"
  | .commitAncestorNotFound => "commit-ancestor" | .commitInvalid => "commit-invalid"
  | .daoCalc => "dao-calc" | .invalidDao => "dao" | .rewardTarget => "reward-target" | .rewardAmount => "reward-amount"
  | .noExtension => "no-extension" | .unknownFields => "unknown-fields" | .emptyExtension => "empty-extension"
  | .extensionTooLong => "extension-too-long" | .invalidExtension => "invalid-extension"
  | .invalidChainRoot => "chain-root" | .invalidExtraHash => "extra-hash"
  | .txs => "txs" | .exceededCycles => "cycles" | .daoLockSizeMismatch => "dao-lock-size"

def resName : Res → String
  | .attached => "attached"
  | .sideStored => "stored"
  | .known => "known"
  | .rejected e => "err " ++ errName e

def statusOf (s : St) (id : Nat) : String :=
  if s.verified.contains id then "valid"
  else if s.invalid.contains id then "invalid"
  else if (findBlk s.stored id).isSome then "stored"
  else "unknown"

/-- `match self.id.as_str()` of `Consensus::rfc0044_active` -/
def chainIdOf (s : String) : ChainId :=
  if s == "ckb" then .mainnet else if s == "ckb_testnet" then .testnet else .other

def parseCfg (c : Cfg) (ts : List String) : Cfg :=
  { c with
    rfc0044Epoch := match kv ts "chain" with
      | some v => rfc0044EpochOf (chainIdOf v)
      | none => c.rfc0044Epoch
    medianCount := kvNat ts "median" c.medianCount
    maxUncles := kvNat ts "maxuncles" c.maxUncles
    maxProposals := kvNat ts "maxprops" c.maxProposals
    maxBytes := kvNat ts "maxbytes" c.maxBytes
    maxCycles := kvNat ts "maxcycles" c.maxCycles
    win := ⟨kvNat ts "close" c.win.close, kvNat ts "far" c.win.far⟩
    mmrActive := kvBool ts "mmr" c.mmrActive
    redeliveryGuard := kvBool ts "guard" c.redeliveryGuard
    daoLimitStart := kvNat ts "daostart" c.daoLimitStart }

/-- length of the common prefix (by id) -/
def commonPrefix : List Blk → List Blk → Nat
  | a :: as, b :: bs => if a.id == b.id then commonPrefix as bs + 1 else 0
  | _, _ => 0

/-- the new-best-block event that leads from the index state's main chain to the main chain of `st` -/
def follow (ix : IdxSt) (st : St) : IdxSt :=
  let newChain := ((mainChain st).reverse).drop 1
  let keep := commonPrefix ix.chain newChain
  reorg ix keep (newChain.drop keep)

def joinOr (l : List String) : String := if l.isEmpty then "-" else ",".intercalate l

def dumpIdx (x : Idx) (n t h e : Nat) : String :=
  let ids := List.range n
  let main := ids.filterMap fun i => (x.numOf i).map fun k => s!"{i}:{k}"
  let unc := ids.filterMap fun i => (x.uncle i).map fun k => s!"{i}:{k}"
  let at_ := (List.range (h + 1)).filterMap fun k => (x.hashAt k).map fun i => s!"{k}:{i}"
  let tx := ((List.range t).map (· + 1)).filterMap fun i => (x.txInfo i).map fun r => s!"{i}:{r.1}:{r.2}"
  let ep := ((List.range e).map (· + 1)).filterMap fun k => (x.epochAt k).map fun i => s!"{k}:{i}"
  s!"main={joinOr main} uncles={joinOr unc} at={joinOr at_} tx={joinOr tx} ep={joinOr ep}"

def step (s : DS) (ts : List String) : DS × String :=
  match ts with
  | "cfg" :: rest => ({ s with cfg := parseCfg {} rest }, "ok")
  | "genesis" :: rest =>
    let g := parseBlk (kvNat rest "id" 0) rest
    ({ s with st := St.init g, defs := [g], ix := ⟨[], idxInit g⟩ }, "ok")
  | "blk" :: id :: rest =>
    match parseNat? id with
    | some id => ({ s with defs := parseBlk id rest :: s.defs }, "ok")
    | none => (s, "bad-op")
  | ["submit", id, now] =>
    match parseNat? id, kv [now] "now" with
    | some id, some nowv =>
      match s.defs.find? (fun b => b.id == id), parseNat? nowv with
      | some b, some nw =>
        let (st', r) := submit s.cfg s.st nw b
        let stat := if resName r == "err badparent" then "na" else statusOf st' id
        let ix' := if r == .attached then follow s.ix st' else s.ix
        ({ s with st := st', ix := ix' }, s!"{resName r} tip={st'.tip} st={stat}")
      | _, _ => (s, "bad-op")
    | _, _ => (s, "bad-op")
  | "idx" :: rest =>
    (s, dumpIdx s.ix.idx (kvNat rest "n" 0) (kvNat rest "t" 0) (kvNat rest "h" 0) (kvNat rest "e" 0))
  | _ => (s, "bad-op")

def main (_args : List String) : IO UInt32 :=
  runLines ({} : DS) step

end CkbVerif.Driver.C03
