import CkbVerif.Driver.Util
import CkbVerif.Model.Window
import CkbVerif.Model.WindowConsumers
import CkbVerif.Model.WindowPool
import CkbVerif.Model.WindowBlocks

/-! Line-protocol driver for C20 (protocol: see harness/hcore/src/c20.rs for the table stream and
harness/hnode/src/c20.rs for the node-level streams node / edge / fork / pool). -/
namespace CkbVerif.Driver.C20
open CkbVerif.Driver CkbVerif.Window

structure St where
  w : Win := defaultWin
  node : Node := { chain := [[]], table := [], view := {} }
  /-- pool family: ids committed per main-chain block, the pool's entries, the commitments announced
  for the first block of the next `nswitchm` (`ncommit`) -/
  commits : List Ids := [[]]
  /-- node-level streams: the stored main chain as blocks (own proposals + embedded uncles'), read by
  the start-up reconstruction and by the commit verifier through their own gathering loops -/
  blocks : List Blk := [{}]
  pool : PoolSt := []
  pend : Ids := []

def canon (l : List Nat) : List Nat :=
  (l.mergeSort (fun a b => decide (a ≤ b))).eraseDups

def showIds (l : List Nat) : String := showNatList (canon l)

def showTable (t : Table) : String :=
  let es := t.mergeSort (fun a b => decide (a.1 ≤ b.1))
  if es.isEmpty then "-" else ";".intercalate (es.map fun e => s!"{e.1}:{showIds e.2}")

def viewLine (removed : Option Ids) (n : Node) : String :=
  let r := match removed with
    | some r => s!"removed={showIds r} "
    | none => ""
  s!"{r}set={showIds n.view.set} gap={showIds n.view.gap} table={showTable n.table}"

def nodeLine (n : Node) : String :=
  s!"set={showIds n.view.set} gap={showIds n.view.gap}"

/-- a block token of the node-level lines: `<own ids>` or `<own ids>+<uncle ids>[+<uncle ids>…]` -/
def parseBlk? (tok : String) : Option Blk :=
  match (tok.splitOn "+").mapM parseNatList? with
  | some (own :: uncles) => some { own := own, uncles := uncles }
  | _ => none

def showStages (p : PoolSt) : String :=
  let es := p.mergeSort (fun a b => decide (a.1 ≤ b.1))
  if es.isEmpty then "-" else ",".intercalate (es.map fun e => s!"{e.1}:{e.2.label}")

/-- a main-chain change with the pool notified (`Window.pswitch`): the first attached block commits
`s.pend`, the others nothing; returns the new state and `detached_proposal_id` -/
def pswitchSt (s : St) (c : Nat) (bl : List Blk) : St × Ids :=
  -- rows of attached blocks come from `union_proposal_ids` (`Window.switchB`)
  let bs := bl.map Blk.unionIds
  let r := switchB s.w s.node c bl
  let bcommits : List Ids := match bs with
    | [] => []
    | _ :: rest => s.pend :: rest.map (fun _ => [])
  let ps := pswitch s.w { node := s.node, commits := s.commits, pool := s.pool } c bs bcommits
  ({ s with node := ps.node, commits := ps.commits, pool := ps.pool, pend := [],
            blocks := s.blocks.take (c + 1) ++ bl }, r.2)

def step (s : St) (ts : List String) : St × String :=
  match ts with
  | ["cfg", "default"] =>
    ({ w := defaultWin }, s!"ok {defaultWin.close} {defaultWin.far}")
  | ["cfg", c, f] =>
    match parseNat? c, parseNat? f with
    | some c, some f => ({ w := ⟨c, f⟩ }, s!"ok {c} {f}")
    | _, _ => (s, "bad-op")
  | ["insert", n, ids] =>
    match parseNat? n, parseNatList? ids with
    | some n, some ids =>
      let was := (s.node.table.get? n).isSome
      ({ s with node := { s.node with table := s.node.table.insert n ids } }, if was then "replaced" else "new")
    | _, _ => (s, "bad-op")
  | ["remove", n] =>
    match parseNat? n with
    | some n =>
      let r := match s.node.table.get? n with
        | some ids => s!"some {showIds ids}"
        | none => "none"
      ({ s with node := { s.node with table := s.node.table.remove n } }, r)
    | none => (s, "bad-op")
  | ["finalize", n] =>
    match parseNat? n with
    | some n =>
      let r := finalize s.w s.node.table s.node.view n
      let node := { s.node with table := r.1, view := r.2.2 }
      ({ s with node := node }, viewLine (some r.2.1) node)
    | none => (s, "bad-op")
  | ["view-reset"] => ({ s with node := { s.node with view := {} } }, "ok")
  | "boot" :: blocks =>
    -- start-up on a stored chain: the genesis block's ids first, then blocks 1, 2, …
    match blocks.mapM parseNatList? with
    | some (g :: bs) =>
      let node := init s.w (g :: bs)
      ({ s with node := node }, viewLine none node)
    | _ => (s, "bad-op")
  | "switch" :: common :: branch =>
    match parseNat? common, branch.mapM parseNatList? with
    | some c, some bs =>
      if c < s.node.chain.length then
        let r := switch s.w s.node c bs
        ({ s with node := r.1 }, viewLine (some r.2) r.1)
      else (s, "bad-op")
    | _, _ => (s, "bad-op")
  | ["restart"] =>
    let node := init s.w s.node.chain
    ({ s with node := node }, viewLine none node)
  -- node-level stream: the table is private to the chain service, only the snapshot's view is visible
  | ["nboot"] =>
    let node := init s.w [[]]
    ({ w := s.w, node := node }, nodeLine node)
  | "nswitch" :: common :: branch =>
    match parseNat? common, branch.mapM parseBlk? with
    | some c, some bs =>
      if c < s.node.chain.length then
        let r := pswitchSt s c bs
        (r.1, nodeLine r.1.node)
      else (s, "bad-op")
    | _, _ => (s, "bad-op")
  | ["nrestart"] =>
    -- `init_proposal_table` gathers every stored block's ids itself (`Window.initB`)
    let node := initB s.w s.blocks
    ({ s with node := node }, nodeLine node)
  -- pool consumers of the view (node stream, family `pool`)
  | ["status", id] =>
    match parseNat? id with
    | some x =>
      -- a submission: filed by get_tx_status on the current view (`Window.psubmit`)
      ({ s with pool := poolSubmit s.node.view s.pool x }, (txStatus s.node.view x).label)
    | none => (s, "bad-op")
  | "nswitchm" :: watch :: common :: branch =>
    match parseNatList? watch, parseNat? common, branch.mapM parseBlk? with
    | some wl, some c, some bs =>
      if c < s.node.chain.length then
        let r := pswitchSt s c bs
        -- detached_proposal_id restricted to the watched (pooled, Proposed) ids
        let moved := wl.filter (fun x => r.2.contains x)
        (r.1, s!"moved={showIds moved} {nodeLine r.1.node}")
      else (s, "bad-op")
    | _, _, _ => (s, "bad-op")
  | ["ncommit", ids] =>
    match parseNatList? ids with
    | some ids => ({ s with pend := ids }, "ok")
    | none => (s, "bad-op")
  -- the whole pool after `update_tx_pool_for_reorg` / a submission: every entry with its stage
  | ["pstages"] => (s, showStages s.pool)
  -- family `heavy`: consensus parameters and slow-timestamp marks, recorded for the replay only
  | ["nuneven", _, _, _] => (s, "ok")
  | ["nslow"] => (s, "ok")
  | ["pool", ids] =>
    match parseNatList? ids with
    | some ids => (s, s!"proposed={showIds (ids.filter fun x => txStatus s.node.view x == .proposed)}")
    | none => (s, "bad-op")
  | ["verify", ids] =>
    match parseNatList? ids with
    | some ids =>
      -- the commit verifier gathers the stored blocks' ids itself (`Window.commitOkB`)
      (s, if commitOkB s.w s.blocks s.blocks.length ids then "ok" else "invalid")
    | none => (s, "bad-op")
  | _ => (s, "bad-op")

def main (_args : List String) : IO UInt32 :=
  runLines ({} : St) step

end CkbVerif.Driver.C20
