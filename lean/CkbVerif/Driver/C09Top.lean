import CkbVerif.Driver.Util
import CkbVerif.Model.FreezerTop

/-! Line-protocol driver for the `top` stream of C09 (the `Freezer` layer; protocol in
harness/hcore/src/c09.rs, `mod top`).

Instance of the model's parameters: a block's `payload` is the byte string the harness reports
snappy produced for it (`blk … <hex>`), i.e. what the real `FreezerFiles::append` writes; so in this
instance `enc b = b.payload`, `cmp = id`, `dcmp = some`, and `dec` finds the declared block with
these bytes.  (`Cfg.Ok` holds for it as long as declared blocks have distinct stored bytes, which
snappy's and molecule's injectivity give.) -/
namespace CkbVerif.Driver.C09Top
open CkbVerif.Driver CkbVerif.Freezer CkbVerif.FreezerTop

structure Slot where
  disk : Disk := emptyDisk
  top : Option Top := none

structure St where
  max : Nat := 0
  blocks : List (Nat × Block) := []
  main : Slot := {}
  alt : Slot := {}
  snap : Disk := emptyDisk
  /-- capacity of the read-handle LRU (`verif_set_limits`) -/
  cap : Nat := 256

def hexVal (c : Char) : Option Nat :=
  if c.isDigit then some (c.toNat - 48)
  else if 'a' ≤ c ∧ c ≤ 'f' then some (c.toNat - 87)
  else none

def unhexAux : List Char → Option Bytes
  | [] => some []
  | [_] => none
  | a :: b :: rest => do
    let x ← hexVal a
    let y ← hexVal b
    let r ← unhexAux rest
    pure ((x * 16 + y) :: r)

def unhex (s : String) : Option Bytes :=
  if s = "-" then some [] else unhexAux s.toList

def cfgOf (s : St) : Cfg :=
  { max := s.max
    cmp := id
    dcmp := some
    enc := fun b => b.payload
    dec := fun raw => (s.blocks.find? fun p => p.2.payload == raw).map (·.2) }

def blockOf (s : St) (id : Nat) : Option Block :=
  (s.blocks.find? fun p => p.1 == id).map (·.2)

def tipStr (t : Top) : String :=
  match t.tip with
  | some b => toString b.hash
  | none => "-"

def getSlot (s : St) (alt : Bool) : Slot := if alt then s.alt else s.main
def setSlot (s : St) (alt : Bool) (x : Slot) : St := if alt then { s with alt := x } else { s with main := x }

def itemStr (c : Cfg) (t : Top) (i : Nat) : String :=
  match retrieveTop c t i with
  | .some raw => match c.dec raw with | some b => toString b.hash | none => "?"
  | .none => "none"
  | .err => "err"

def contentLine (c : Cfg) (t : Top) : String :=
  let items := (List.range (t.number - 1)).map fun i => itemStr c t (i + 1)
  s!"n={t.number} tip={tipStr t} items={if items.isEmpty then "-" else ";".intercalate items}"

def layoutLine (d : Disk) : String :=
  let ents := d.idx.map fun e => s!"{e.fid}:{e.off}"
  s!"idx={if ents.isEmpty then "-" else ",".intercalate ents}+{d.tail}"

def cacheLine (t : Top) : String :=
  s!"cache={if t.h.cache.isEmpty then "-" else ",".intercalate (t.h.cache.map toString)}"

/-- the harness's oracle / dump retrieves heights `1 .. number-1` in order -/
def sweep (cap : Nat) (t : Top) : Top :=
  (List.range (t.number - 1)).foldl (fun t i =>
    ⟨withCache t.h (retrieveCache cap t.h t.d (i + 1)), t.d, t.tip⟩) t

def parseCut (il fid fl : String) : Option (Nat × Nat × Option Nat) :=
  match parseNat? il, parseNat? fid, (if fl = "rm" then some none else (parseNat? fl).map some) with
  | some a, some b, some c => some (a, b, c)
  | _, _, _ => none

def slotStep (s : St) (alt : Bool) (ts : List String) : St × String :=
  let c := cfgOf s
  let sl := getSlot s alt
  match ts with
  | ["open"] =>
    match openTopL s.cap c sl.disk with
    | some t => (setSlot s alt { disk := t.d, top := some t }, s!"ok {t.number} {tipStr t}")
    | none =>
      -- the files layer may already have repaired the directory
      let d := match «open» sl.disk with | some (_, d') => d' | none => sl.disk
      (setSlot s alt { disk := d, top := none }, "err")
  | ["freeze", thr, stop, start, ids] =>
    match sl.top, parseNat? thr, parseNat? start, parseNatList? ids with
    | some t, some thr, some start, some ids =>
      let get : Nat → Option Block := fun h =>
        if h < start then none else
        match ids[h - start]? with
        | some 0 => none
        | some id => blockOf s id
        | none => none
      let number0 := t.number
      let stopped : Option (Nat → Bool) :=
        if stop = "-" then some (fun _ => false)
        else if stop = "pre" then some (fun _ => true)
        else (parseNat? stop).map fun k => fun n => decide (k < n ∧ number0 ≤ k)
      match stopped with
      | none => (s, "bad-op")
      | some stopped =>
        let (t', r) := freezeL s.cap c t thr get stopped
        let st := setSlot s alt { disk := t'.d, top := some t' }
        match r with
        | .ok frozen =>
          let l := frozen.map fun (h, n, tx) => s!"{h}:{n}:{tx}"
          (st, s!"ok {if l.isEmpty then "-" else ",".intercalate l} {t'.number} {tipStr t'}")
        | .err => (st, s!"err {t'.number} {tipStr t'}")
    | _, _, _, _ => (s, "bad-op")
  | ["freezestale", n0, thr, stop, start, ids] =>
    -- round 6: a freeze whose pre-lock `self.number()` returned `n0` (see `freezeFrom`)
    match sl.top, parseNat? n0, parseNat? thr, parseNat? start, parseNatList? ids with
    | some t, some n0, some thr, some start, some ids =>
      let get : Nat → Option Block := fun h =>
        if h < start then none else
        match ids[h - start]? with
        | some 0 => none
        | some id => blockOf s id
        | none => none
      let stopped : Option (Nat → Bool) :=
        if stop = "-" then some (fun _ => false)
        else if stop = "pre" then some (fun _ => true)
        else (parseNat? stop).map fun k => fun n => decide (k < n ∧ n0 ≤ k)
      match stopped with
      | none => (s, "bad-op")
      | some stopped =>
        let (t', r) := freezeFromL s.cap c t n0 thr get stopped
        let st := setSlot s alt { disk := t'.d, top := some t' }
        match r with
        | .ok frozen =>
          let l := frozen.map fun (h, n, tx) => s!"{h}:{n}:{tx}"
          (st, s!"ok {if l.isEmpty then "-" else ",".intercalate l} {t'.number} {tipStr t'}")
        | .err => (st, s!"err {t'.number} {tipStr t'}")
    | _, _, _, _, _ => (s, "bad-op")
  | ["truncatestale", n0, i] =>
    match sl.top, parseNat? n0, parseNat? i with
    | some t, some n0, some i =>
      match truncateFromL s.cap c t n0 i with
      | some t' => (setSlot s alt { disk := t'.d, top := some t' }, s!"ok {t'.number} {tipStr t'}")
      | none => (s, "err")
    | _, _, _ => (s, "bad-op")
  | ["race", thrA, startA, idsA, n0T, k, n0B, thrB, startB, idsB, order] =>
    -- round 6: A = freeze; then T = truncateFrom n0T k and B = freezeFrom n0B in the observed order
    match sl.top, [thrA, startA, n0T, k, n0B, thrB, startB].mapM parseNat?, parseNatList? idsA, parseNatList? idsB with
    | some t, some [thrA, startA, n0T, k, n0B, thrB, startB], some idsA, some idsB =>
      let getOf (start : Nat) (ids : List Nat) : Nat → Option Block := fun h =>
        if h < start then none else
        match ids[h - start]? with
        | some 0 => none
        | some id => blockOf s id
        | none => none
      let noStop : Nat → Bool := fun _ => false
      let fmt : FreezeOut → String
        | .ok frozen =>
          let l := frozen.map fun (h, n, tx) => s!"{h}:{n}:{tx}"
          s!"ok:{if l.isEmpty then "-" else ",".intercalate l}"
        | .err => "err"
      let (t1, rA) := freezeL s.cap c t thrA (getOf startA idsA) noStop
      let doT (x : Top) : Top × String :=
        match truncateFromL s.cap c x n0T k with
        | some y => (y, "ok")
        | none => (x, "err")
      let doB (x : Top) : Top × FreezeOut := freezeFromL s.cap c x n0B thrB (getOf startB idsB) noStop
      let (t3, aT, rB) :=
        if order = "TB" then
          let (t2, aT) := doT t1
          let (t3, rB) := doB t2
          (t3, aT, rB)
        else
          let (t2, rB) := doB t1
          let (t3, aT) := doT t2
          (t3, aT, rB)
      (setSlot s alt { disk := t3.d, top := some t3 },
        s!"A={fmt rA} T={aT} B={fmt rB} n={t3.number} tip={tipStr t3}")
    | _, _, _, _ => (s, "bad-op")
  | ["retrieve", i] =>
    match sl.top, parseNat? i with
    | some t, some i =>
      let (t', r) := retrieveTopL s.cap c t i
      (setSlot s alt { disk := t'.d, top := some t' },
        match r with
          | .some raw => (match c.dec raw with | some b => s!"some {b.hash}" | none => "some ?")
          | .none => "none"
          | .err => "err")
    | _, _ => (s, "bad-op")
  | ["cache"] =>
    match sl.top with
    | some t => (s, cacheLine t)
    | none => (s, "bad-op")
  | ["sweep"] =>
    match sl.top with
    | some t =>
      let t' := sweep s.cap t
      (setSlot s alt { disk := t'.d, top := some t' }, cacheLine t')
    | none => (s, "bad-op")
  | ["truncate", i] =>
    match sl.top, parseNat? i with
    | some t, some i =>
      match truncateTopL s.cap c t i with
      | some t' => (setSlot s alt { disk := t'.d, top := some t' }, s!"ok {t'.number} {tipStr t'}")
      | none =>
        let r := truncateL s.cap t.h t.d i
        (setSlot s alt { disk := r.2, top := none }, "err")
    | _, _ => (s, "bad-op")
  | ["dump"] =>
    match sl.top with
    | some t =>
      let t' := sweep s.cap t
      (setSlot s alt { disk := t'.d, top := some t' }, s!"{contentLine c t} {layoutLine t.d}")
    | none => (s, "bad-op")
  | _ => (s, "bad-op")

def step (s : St) (ts : List String) : St × String :=
  match ts with
  | ["cfg", m] =>
    match parseNat? m with
    | some m => ({ max := m }, "ok")
    | none => (s, "bad-op")
  | ["cfg", m, cap] =>
    match parseNat? m, parseNat? cap with
    | some m, some cap => ({ max := m, cap := cap }, "ok")
    | _, _ => (s, "bad-op")
  | ["blk", id, parent, number, ntx, hx] =>
    match parseNat? id, parseNat? parent, parseNat? number, parseNat? ntx, unhex hx with
    | some id, some p, some n, some tx, some bytes =>
      ({ s with blocks := (id, { hash := id, parent := p, number := n, txs := tx, payload := bytes }) :: s.blocks }, "ok")
    | _, _, _, _, _ => (s, "bad-op")
  | ["snap"] => ({ s with snap := s.main.disk }, "ok")
  | ["fork", il, fid, fl] =>
    match parseCut il fid fl with
    | some (il, fid, fl) => ({ s with alt := { disk := applyCut s.snap il fid fl, top := none } }, "ok")
    | none => (s, "bad-op")
  | ["cut", il, fid, fl] =>
    match parseCut il fid fl with
    | some (il, fid, fl) => ({ s with main := { disk := applyCut s.main.disk il fid fl, top := none } }, "ok")
    | none => (s, "bad-op")
  | ["cutfile", fid, len] =>
    match parseNat? fid, parseNat? len with
    | some fid, some len => ({ s with main := { disk := s.main.disk.cutFile fid len, top := none } }, "ok")
    | _, _ => (s, "bad-op")
  | ["same"] =>
    match s.main.top, s.alt.top with
    | some m, some a =>
      let c := cfgOf s
      -- the harness dumps the alt slot, then the main one: both read every height
      let m' := sweep s.cap m
      let a' := sweep s.cap a
      ({ s with main := { disk := m'.d, top := some m' }, alt := { disk := a'.d, top := some a' } },
        if contentLine c m == contentLine c a then "same" else "diff")
    | _, _ => (s, "bad-op")
  | "alt" :: rest => slotStep s true rest
  | _ => slotStep s false ts

def main : IO UInt32 :=
  runLines ({} : St) step

end CkbVerif.Driver.C09Top
