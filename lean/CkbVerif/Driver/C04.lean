import CkbVerif.Driver.Util
import CkbVerif.Model.Since
import CkbVerif.Model.Tx
import CkbVerif.Model.TxRules

/-! Line-protocol driver for C04 (protocol: harness/n04/src/c04.rs). Sub-modes: `time`, `resolve`,
`cap`, `node`. -/
namespace CkbVerif.Driver.C04
open CkbVerif.Driver CkbVerif.Since CkbVerif.Tx CkbVerif.TxRules

/-! ### parsing helpers -/

def splitList (s : String) : List String := if s = "-" then [] else s.splitOn ","

/-- `bn.ep.bh.idx` or `n` -/
def parseInfo? (s : String) : Option (Option TxInfo) :=
  if s = "n" then some none else
  match (s.splitOn ".").mapM parseNat? with
  | some [a, b, c, d] => some (some ⟨a, b, c, d⟩)
  | _ => none

def parseOp? (s : String) : Option OutPoint :=
  match (s.splitOn ".").mapM parseNat? with
  | some [a, b] => some ⟨a, b⟩
  | _ => none

def showOp (o : OutPoint) : String := s!"{o.tx}.{o.idx}"
def showOps (l : List OutPoint) : String := if l.isEmpty then "-" else ",".intercalate (l.map showOp)

def showV : V → String
  | .ok => "ok"
  | .invalidSince i => s!"invalid-since {i}"
  | .immature i => s!"immature {i}"
  | .cellbaseImmature .inputs i => s!"cellbase-immature inputs {i}"
  | .cellbaseImmature .cellDeps i => s!"cellbase-immature deps {i}"
  | .panic => "panic"

def showRErr : RErr → String
  | .dead o => s!"dead {showOp o}"
  | .unknown o => s!"unknown {showOp o}"
  | .invalidDepGroup o => s!"invalid-dep-group {showOp o}"
  | .overLimit => "over-limit"
  | .invalidHeader h => s!"invalid-header {h}"
  | .outOfOrder o => s!"out-of-order {showOp o}"

def showCapV : CapV → String
  | .ok => "ok"
  | .overflow => "overflow"
  | .outputsSumOverflow => "outputs-sum-overflow"
  | .insufficient i => s!"insufficient {i}"

/-! ### `time` -/

structure TimeSt where
  cfg : Cfg := ⟨2, 0, 37, 0⟩
  db : HeaderDb := []
  env : Option Env := none

def parseInputs? (s : String) : Option (List (Nat × Option TxInfo)) :=
  (splitList s).mapM fun it =>
    match it.splitOn ":" with
    | [a, b] => do
      let since ← parseNat? a
      let info ← parseInfo? b
      pure (since, info)
    | _ => none

def stepTime (s : TimeSt) (ts : List String) : TimeSt × String :=
  match ts with
  | ["cfg", a, b, c, d] =>
    match parseNats? [a, b, c, d] with
    | some [a, b, c, d] => ({ s with cfg := ⟨a, b, c, d⟩ }, "ok")
    | _ => (s, "bad-op")
  | ["hdr", a, b, c, d, e] =>
    match parseNats? [a, b, c, d, e] with
    | some [a, b, c, d, e] => ({ s with db := s.db ++ [⟨a, b, c, d, e⟩] }, "ok")
    | _ => (s, "bad-op")
  | ["env", ph, n, hid] =>
    match parseNat? n, parseNat? hid with
    | some n, some hid =>
      match findHdr s.db hid with
      | none => (s, "bad-op")
      | some h =>
        let phase? : Option Phase :=
          if ph = "s" then some .submitted else if ph = "p" then some (.proposed n)
          else if ph = "c" then some .committed else none
        match phase? with
        | none => (s, "bad-op")
        | some p => ({ s with env := some ⟨p, h.number, h.epoch, h.id, h.parent⟩ }, "ok")
    | _, _ => (s, "bad-op")
  | ["tx", ins, deps] =>
    match s.env, parseInputs? ins, (splitList deps).mapM parseInfo? with
    | some env, some ins, some deps => (s, showV (timeRelativeVerify s.cfg s.db env ins deps))
    | _, _, _ => (s, "bad-op")
  | _ => (s, "bad-op")

/-! ### `resolve` -/

structure ResSt where
  a : List (OutPoint × Status) := []
  b : List (OutPoint × Status) := []
  hdrs : List Nat := []
  seen : List OutPoint := []

def tableProvider (t : List (OutPoint × Status)) : Provider := fun op =>
  match t.find? (fun e => e.1 == op) with
  | some e => e.2
  | none => .unknown

def parseData? (s : String) : Option GroupData :=
  if s = "-" ∨ s = "x" ∨ s = "e" then some none
  else if s.startsWith "g:" then
    match ((s.drop 2).toString.splitOn ",").mapM parseOp? with
    | some l => some (if l.isEmpty then none else some l)
    | none => none
  else if s.startsWith "r:" then
    match ((s.drop 2).toString.splitOn ":").mapM parseNat? with
    | some [tx, n] => some (if n = 0 then none else some ((List.range n).map fun i => ⟨tx, i⟩))
    | _ => none
  else none

def parseDep? (s : String) : Option Dep :=
  if s.startsWith "c" then (parseOp? (s.drop 1).toString).map (⟨·, false⟩)
  else if s.startsWith "g" then (parseOp? (s.drop 1).toString).map (⟨·, true⟩)
  else none

def nullOp : OutPoint := ⟨0, 0xFFFFFFFF⟩

/-- `is_cellbase()`: one input, one witness, the input's previous output is null -/
def mkRefs (ins : List OutPoint) (deps : List Dep) (hd : List Nat) (nwit : Nat) : TxRefs :=
  ⟨ins, decide (ins = [nullOp]) && nwit == 1, deps, hd⟩

def stepResolve (s : ResSt) (ts : List String) : ResSt × String :=
  match ts with
  | ["cell", which, op, st, data] =>
    match parseOp? op, parseData? data with
    | some op, some g =>
      let status? : Option Status :=
        if st = "L" then some (.live g) else if st = "D" then some .dead
        else if st = "U" then some .unknown else none
      match status? with
      | none => (s, "bad-op")
      | some status =>
        if which = "A" then ({ s with a := (op, status) :: s.a }, "ok")
        else if which = "B" then ({ s with b := (op, status) :: s.b }, "ok")
        else (s, "bad-op")
    | _, _ => (s, "bad-op")
  | ["hdrs", l] =>
    match parseNatList? l with
    | some l => ({ s with hdrs := l }, "ok")
    | none => (s, "bad-op")
  | ["seen", l] =>
    match (splitList l).mapM parseOp? with
    | some l => ({ s with seen := l }, "ok")
    | none => (s, "bad-op")
  | ["tx", ins, deps, hd, nw] =>
    match (splitList ins).mapM parseOp?, (splitList deps).mapM parseDep?, parseNatList? hd, parseNat? nw with
    | some ins, some deps, some hd, some nw =>
      let p := overlay (tableProvider s.a) (tableProvider s.b)
      match resolveTx s.seen p (fun h => s.hdrs.contains h) (mkRefs ins deps hd nw) with
      | .error e => (s, showRErr e)
      | .ok (r, seen') =>
        ({ s with seen := seen' },
          s!"ok in={showOps r.inputs} cd={showOps r.cellDeps} gr={showOps r.depGroups} seen={seen'.length}")
    | _, _, _, _ => (s, "bad-op")
  | _ => (s, "bad-op")

/-! ### `cap` -/

def parseCapIn? (s : String) : Option (Nat × Bool) :=
  match s.splitOn ":" with
  | [c] => (parseNat? c).map (·, false)
  | [c, "d"] => (parseNat? c).map (·, true)
  | _ => none

def parseOutput? (s : String) : Option Output :=
  match s.splitOn ":" with
  | [c, l, t, d] => do
    let c ← parseNat? c
    let l ← parseNat? l
    let t ← (if t = "n" then some none else (parseNat? t).map some)
    let d ← parseNat? d
    pure ⟨c, l, t, d⟩
  | _ => none

def stepCap (s : Unit) (ts : List String) : Unit × String :=
  match ts with
  | ["cap", ins, outs] =>
    match (splitList ins).mapM parseCapIn?, (splitList outs).mapM parseOutput? with
    | some ins, some outs =>
      let exempt := ins.isEmpty || ins.any (·.2)
      (s, showCapV (capacityVerify exempt (ins.map (·.1)) outs))
    | _, _ => (s, "bad-op")
  | ["occ", l, t, dc] =>
    -- `CellOutput::occupied_capacity(Capacity::shannons(dc))` for lock args l, type args t
    match parseNat? l, (if t = "n" then some none else (parseNat? t).map some), parseNat? dc with
    | some l, some t, some dc =>
      (s, match occupied ⟨0, l, t, 0⟩ dc with | some v => s!"some {v}" | none => "overflow")
    | _, _, _ => (s, "bad-op")
  | ["lack", c, l, t, dc] =>
    -- `is_lack_of_capacity(Capacity::shannons(dc))` of an output with capacity c
    match parseNat? c, parseNat? l, (if t = "n" then some none else (parseNat? t).map some), parseNat? dc with
    | some c, some l, some t, some dc =>
      (s, match occupied ⟨c, l, t, 0⟩ dc with
        | some v => if v > c then "true" else "false"
        | none => "overflow")
    | _, _, _, _ => (s, "bad-op")
  | ["bytes", n] =>
    match parseNat? n with
    | some n => (s, match capBytes n with | some v => s!"some {v}" | none => "overflow")
    | none => (s, "bad-op")
  | _ => (s, "bad-op")

/-! ### `rules` -/

def dotNats? (s : String) : Option (List Nat) := (s.splitOn ".").mapM parseNat?

def parseOutShape? (s : String) : Option OutShape :=
  match s.splitOn "." with
  | [lh, la, th, ta] => do
    let lh ← parseNat? lh
    let la ← parseNat? la
    let ta ← parseNat? ta
    if th = "n" then pure ⟨⟨lh, la⟩, none⟩
    else do
      let th ← parseNat? th
      pure ⟨⟨lh, la⟩, some ⟨th, ta⟩⟩
  | _ => none

def showNcV : NcV → String
  | .ok => "ok"
  | .mismatchedVersion => "mismatched-version"
  | .exceededMaximumBlockBytes => "exceeded-max-block-bytes"
  | .emptyInputs => "empty-inputs"
  | .emptyOutputs => "empty-outputs"
  | .duplicateCellDeps tx idx => s!"duplicate-cell-deps {tx}.{idx}"
  | .duplicateHeaderDeps h => s!"duplicate-header-deps {h}"
  | .outputsDataLengthMismatch => "outputs-data-length-mismatch"
  | .hashTypeNotPermitted v => s!"hash-type-not-permitted {v}"
  | .invalidHashType v => s!"invalid-hash-type {v}"
  | .exceededTransactionSizeLimit => "exceeded-tx-size-limit"
  | .cellbaseLike => "cellbase-like"

def parseDaoPair? (s : String) : Option DaoPair :=
  match s.splitOn "." with
  | [i, o, d, b, la, lb] => do
    let i ← parseNat? i
    let o ← parseNat? o
    let d ← (if d = "n" then some none else if d = "z" then some (some true) else if d = "x" then some (some false) else none)
    let b ← (if b = "n" then some none else (parseNat? b).map some)
    let la ← parseNat? la
    let lb ← parseNat? lb
    pure ⟨i != 0, o != 0, d, b, scriptSize ⟨0, la⟩, scriptSize ⟨0, lb⟩⟩
  | _ => none

/-- an input of a `ctx` line: (fee view, capacity, uses the DAO type script) -/
def parseCtxIn? (s : String) : Option (FeeInput × Nat × Bool) :=
  let body := (s.drop 1).toString
  if s.startsWith "p" then (parseNat? body).map fun c => (.plain c, c, false)
  else if s.startsWith "d" then (parseNat? body).map fun c => (.plain c, c, true)
  else if s.startsWith "m" then (parseNat? body).map fun c => (.malformed, c, true)
  else if s.startsWith "w" then
    match dotNats? body with
    | some [c, dar, war, ord] =>
      -- the withdrawing cell of the harness: lock args 0, DAO type script args 0, 8 data bytes
      let occ := (capBytes 8).bind fun dc => occupied ⟨c, 0, some 0, 8⟩ dc
      some (.withdraw c occ dar war (ord != 0), c, true)
    | _ => none
  else none

def stepRules (s : Unit) (ts : List String) : Unit × String :=
  match ts with
  | ["nc", mb, ver, ins, deps, hd, outs, datas, wits] =>
    match parseNat? mb, parseNat? ver, (splitList ins).mapM dotNats?, (splitList deps).mapM dotNats?,
        parseNatList? hd, (splitList outs).mapM parseOutShape?, parseNatList? datas, parseNatList? wits with
    | some mb, some ver, some ins, some deps, some hd, some outs, some datas, some wits =>
      let ins? := ins.mapM fun l => match l with | [a, b] => some (a, b) | _ => none
      let deps? := deps.mapM fun l => match l with | [a, b, c] => some (⟨a, b, c⟩ : DepShape) | _ => none
      match ins?, deps? with
      | some ins, some deps =>
        let t : NcTx := ⟨ver, ins, deps, hd, outs, datas, wits⟩
        (s, s!"{showNcV (nonContextual Gen.Tx.TX_VERSION mb t)} size={sizeInBlock t}")
      | _, _ => (s, "bad-op")
    | _, _, _, _, _, _, _, _ => (s, "bad-op")
  | ["vm", a, b, ph, ep, ht] =>
    match parseNat? a, parseNat? b, parseNat? ep, parseNat? ht with
    | some a, some b, some ep, some ht =>
      (s, match selectVersion a b (ph = "c") ep ht with
        | .v n => s!"v{n}"
        | .invalidVmVersion n => s!"invalid-vm-version {n}"
        | .invalidHashType => "invalid-hash-type")
    | _, _, _, _ => (s, "bad-op")
  | ["dao", start, pairs] =>
    match parseNat? start, (splitList pairs).mapM parseDaoPair? with
    | some start, some pairs =>
      (s, match daoScriptSize start 0 pairs with | none => "ok" | some i => s!"dao-lock-size-mismatch {i}")
    | _, _ => (s, "bad-op")
  | "dh" :: hds :: info :: wit :: cap :: rest =>
    -- one withdrawing DAO input (lock args 0, DAO type args 0, 8 data bytes) of capacity `cap`; header
    -- id n stands for a header with number n and accumulated rate 10^16 + n * 10^12; an optional sixth
    -- token lists the header ids the data loader does NOT know
    let w? : Option DaoWitness :=
      if wit = "m" then some .missing else if wit = "x" then some .notWitnessArgs
      else if wit = "b" then some .badInputType
      else if wit.startsWith "i" then (parseNat? (wit.drop 1).toString).map .index else none
    let miss? : Option (List Nat) := match rest with | [] => some [] | [l] => parseNatList? l | _ => none
    match parseNatList? hds, (if info = "n" then some none else (parseNat? info).map some), w?, parseNat? cap, miss? with
    | some hds, some info, some w, some cap, some miss =>
      let occ := (capBytes 8).bind fun dc => occupied ⟨cap, 0, some 0, 8⟩ dc
      (s, match daoWithdrawL (fun h => !miss.contains h) hds id (fun n => 10000000000000000 + n * 1000000000000) info w cap occ with
        | .error .invalidOutPoint => "invalid-out-point"
        | .error .invalidDaoFormat => "invalid-dao-format"
        | .error .invalidHeader => "invalid-header"
        | .ok none => "capacity-error"
        | .ok (some v) => s!"ok {v}")
    | _, _, _, _, _ => (s, "bad-op")
  | ["ctx", ins, outs] =>
    match (splitList ins).mapM parseCtxIn?, parseNatList? outs with
    | some ins, some outs =>
      let exempt := ins.isEmpty || ins.any (·.2.2)
      let outputs : List Output := outs.map fun c => ⟨c, 0, none, 0⟩
      match capacityVerify exempt (ins.map (·.2.1)) outputs with
      | .ok =>
        (s, match transactionFee (ins.map (·.1)) outs with
          | some f => s!"ok {f}"
          | none => "fee-error")
      | v => (s, s!"cap {showCapV v}")
    | _, _ => (s, "bad-op")
  | _ => (s, "bad-op")

/-! ### `node` -/

def showPoolV : PoolV → String
  | .ok c f => s!"ok {c} {f}"
  | .nonContextual v => s!"nc {showNcV v}"
  | .duplicated => "duplicated"
  | .resolve e => s!"resolve {showRErr e}"
  | .malformedFee => "malformed-fee"
  | .lowFeeRate m f => s!"low-fee-rate {m} {f}"
  | .time v => s!"time {showV v}"
  | .capacity v => s!"cap {showCapV v}"
  | .exceededMaximumCycles => "exceeded-maximum-cycles"
  | .script c => s!"script {c}"
  | .daoSize i => s!"dao-lock-size-mismatch {i}"
  | .declaredWrongCycles d a => s!"declared-wrong-cycles {d} {a}"

/-- `padm <max_block_bytes> <min_fee_rate> <max_block_cycles> <declared|n> <in_pool 0|1> <cycles>
<live out points> <ins> <deps> <header deps> <outs> <data lens> <witness lens> <fee inputs> <output caps>`:
the tx-pool admission of one transaction (`poolAdmit`), resolution over the listed live cells -/
def stepPadm (ts : List String) : String :=
  match ts with
  | [mb, rate, maxc, decl, inpool, cyc, live, ins, deps, hd, outs, datas, wits, feeins, ocaps] =>
    match parseNats? [mb, rate, maxc, inpool, cyc], (if decl = "n" then some none else (parseNat? decl).map some),
        (splitList live).mapM parseOp?, (splitList ins).mapM dotNats?, (splitList deps).mapM dotNats?,
        parseNatList? hd, (splitList outs).mapM parseOutShape?, parseNatList? datas, parseNatList? wits,
        (splitList feeins).mapM parseCtxIn?, parseNatList? ocaps with
    | some [mb, rate, maxc, inpool, cyc], some decl, some live, some ins, some deps, some hd, some outs, some datas,
        some wits, some feeins, some ocaps =>
      let ins? := ins.mapM fun l => match l with | [a, b] => some (a, b) | _ => none
      let deps? := deps.mapM fun l => match l with | [a, b, c] => some (⟨a, b, c⟩ : DepShape) | _ => none
      match ins?, deps? with
      | some ins, some deps =>
        let t : NcTx := ⟨0, ins, deps, hd, outs, datas, wits⟩
        let refs := mkRefs (ins.map fun (a, b) => ⟨a, b⟩) (deps.map fun d => ⟨⟨d.tx, d.idx⟩, d.depType != 0⟩) hd wits.length
        let provider := tableProvider (live.map fun op => (op, Status.live none))
        let res : Option RErr := match resolveTx [] provider (fun _ => true) refs with
          | .error e => some e
          | .ok _ => none
        let exempt := feeins.isEmpty || feeins.any (·.2.2)
        let outputs : List Output :=
          (outs.zip (ocaps.zip datas)).map fun (o, c, d) => ⟨c, o.lock.args, o.type.map (·.args), d⟩
        let cap := capacityVerify exempt (feeins.map (·.2.1)) outputs
        let p : PoolIn := ⟨t, Gen.Tx.TX_VERSION, mb, inpool != 0, res, transactionFee (feeins.map (·.1)) ocaps, rate,
          .ok, cap, 0, cyc, decl, maxc, none⟩
        s!"{showPoolV (poolAdmit p)} size={sizeInBlock t}"
      | _, _ => "bad-op"
    | _, _, _, _, _, _, _, _, _, _, _ => "bad-op"
  | _ => "bad-op"

/-- `node`: the `time` protocol plus harness-only scenario lines (`scn …`, echoed as `ok`): the node
stream reports, per `tx` line, the verdict class the real node / pool / direct verifier gave at the
commit position described by the preceding `env` line; `hdep <header ids>` = the header-dep check of
`resolve_transaction` at that position; `padm …` = the tx-pool admission -/
def stepNode (s : TimeSt) (ts : List String) : TimeSt × String :=
  match ts with
  | "scn" :: _ => (s, "ok")
  | ["hdep", l] =>
    match s.env, parseNatList? l with
    | some env, some hds =>
      (s, match headerDepsCheck s.db env hds with
        | .ok () => "ok"
        | .error e => showRErr e)
    | _, _ => (s, "bad-op")
  | "padm" :: rest => (s, stepPadm rest)
  | _ => stepTime s ts

def main (args : List String) : IO UInt32 :=
  match args with
  | ["time"] => runLines ({} : TimeSt) stepTime
  | ["resolve"] => runLines ({} : ResSt) stepResolve
  | ["cap"] => runLines () stepCap
  | ["node"] => runLines ({} : TimeSt) stepNode
  | ["rules"] => runLines () stepRules
  | _ => do
    IO.eprintln "C04: expected sub-mode time|resolve|cap"
    return 2

end CkbVerif.Driver.C04
