import CkbVerif.Driver.Util
import CkbVerif.Model.Since
import CkbVerif.Model.Tx

/-! Line-protocol driver for C04 (protocol: harness/n04/src/c04.rs). Sub-modes: `time`, `resolve`,
`cap`, `node`. -/
namespace CkbVerif.Driver.C04
open CkbVerif.Driver CkbVerif.Since CkbVerif.Tx

/-! ### parsing helpers -/

def splitList (s : String) : List String := if s = "-" then [] else s.splitOn ","

/-- `bn.ep.bh.idx` or `n` -/
def parseInfo? (s : String) : Option (Option TxInfo) :=
  if s = "n" then some none else
  match (s.splitOn ".").mapM parseNat? with
  | some [a, b, c, d] => some (some ⟨a, b, c, d⟩)
  | _ => none

def parseOp? (s : String) : Option OutPoint :=
  match (s.splitOn ".").mapM parseNat? with
  | some [a, b] => some ⟨a, b⟩
  | _ => none

def showOp (o : OutPoint) : String := s!"{o.tx}.{o.idx}"
def showOps (l : List OutPoint) : String := if l.isEmpty then "-" else ",".intercalate (l.map showOp)

def showV : V → String
  | .ok => "ok"
  | .invalidSince i => s!"invalid-since {i}"
  | .immature i => s!"immature {i}"
  | .cellbaseImmature .inputs i => s!"cellbase-immature inputs {i}"
  | .cellbaseImmature .cellDeps i => s!"cellbase-immature deps {i}"
  | .panic => "panic"

def showRErr : RErr → String
  | .dead o => s!"dead {showOp o}"
  | .unknown o => s!"unknown {showOp o}"
  | .invalidDepGroup o => s!"invalid-dep-group {showOp o}"
  | .overLimit => "over-limit"
  | .invalidHeader h => s!"invalid-header {h}"
  | .outOfOrder o => s!"out-of-order {showOp o}"

def showCapV : CapV → String
  | .ok => "ok"
  | .overflow => "overflow"
  | .outputsSumOverflow => "outputs-sum-overflow"
  | .insufficient i => s!"insufficient {i}"

/-! ### `time` -/

structure TimeSt where
  cfg : Cfg := ⟨2, 0, 37, 0⟩
  db : HeaderDb := []
  env : Option Env := none

def parseInputs? (s : String) : Option (List (Nat × Option TxInfo)) :=
  (splitList s).mapM fun it =>
    match it.splitOn ":" with
    | [a, b] => do
      let since ← parseNat? a
      let info ← parseInfo? b
      pure (since, info)
    | _ => none

def stepTime (s : TimeSt) (ts : List String) : TimeSt × String :=
  match ts with
  | ["cfg", a, b, c, d] =>
    match parseNats? [a, b, c, d] with
    | some [a, b, c, d] => ({ s with cfg := ⟨a, b, c, d⟩ }, "ok")
    | _ => (s, "bad-op")
  | ["hdr", a, b, c, d, e] =>
    match parseNats? [a, b, c, d, e] with
    | some [a, b, c, d, e] => ({ s with db := s.db ++ [⟨a, b, c, d, e⟩] }, "ok")
    | _ => (s, "bad-op")
  | ["env", ph, n, hid] =>
    match parseNat? n, parseNat? hid with
    | some n, some hid =>
      match findHdr s.db hid with
      | none => (s, "bad-op")
      | some h =>
        let phase? : Option Phase :=
          if ph = "s" then some .submitted else if ph = "p" then some (.proposed n)
          else if ph = "c" then some .committed else none
        match phase? with
        | none => (s, "bad-op")
        | some p => ({ s with env := some ⟨p, h.number, h.epoch, h.id, h.parent⟩ }, "ok")
    | _, _ => (s, "bad-op")
  | ["tx", ins, deps] =>
    match s.env, parseInputs? ins, (splitList deps).mapM parseInfo? with
    | some env, some ins, some deps => (s, showV (timeRelativeVerify s.cfg s.db env ins deps))
    | _, _, _ => (s, "bad-op")
  | _ => (s, "bad-op")

/-! ### `resolve` -/

structure ResSt where
  a : List (OutPoint × Status) := []
  b : List (OutPoint × Status) := []
  hdrs : List Nat := []
  seen : List OutPoint := []

def tableProvider (t : List (OutPoint × Status)) : Provider := fun op =>
  match t.find? (fun e => e.1 == op) with
  | some e => e.2
  | none => .unknown

def parseData? (s : String) : Option GroupData :=
  if s = "-" ∨ s = "x" ∨ s = "e" then some none
  else if s.startsWith "g:" then
    match ((s.drop 2).toString.splitOn ",").mapM parseOp? with
    | some l => some (if l.isEmpty then none else some l)
    | none => none
  else if s.startsWith "r:" then
    match ((s.drop 2).toString.splitOn ":").mapM parseNat? with
    | some [tx, n] => some (if n = 0 then none else some ((List.range n).map fun i => ⟨tx, i⟩))
    | _ => none
  else none

def parseDep? (s : String) : Option Dep :=
  if s.startsWith "c" then (parseOp? (s.drop 1).toString).map (⟨·, false⟩)
  else if s.startsWith "g" then (parseOp? (s.drop 1).toString).map (⟨·, true⟩)
  else none

def nullOp : OutPoint := ⟨0, 0xFFFFFFFF⟩

/-- `is_cellbase()`: one input, one witness, the input's previous output is null -/
def mkRefs (ins : List OutPoint) (deps : List Dep) (hd : List Nat) (nwit : Nat) : TxRefs :=
  ⟨ins, decide (ins = [nullOp]) && nwit == 1, deps, hd⟩

def stepResolve (s : ResSt) (ts : List String) : ResSt × String :=
  match ts with
  | ["cell", which, op, st, data] =>
    match parseOp? op, parseData? data with
    | some op, some g =>
      let status? : Option Status :=
        if st = "L" then some (.live g) else if st = "D" then some .dead
        else if st = "U" then some .unknown else none
      match status? with
      | none => (s, "bad-op")
      | some status =>
        if which = "A" then ({ s with a := (op, status) :: s.a }, "ok")
        else if which = "B" then ({ s with b := (op, status) :: s.b }, "ok")
        else (s, "bad-op")
    | _, _ => (s, "bad-op")
  | ["hdrs", l] =>
    match parseNatList? l with
    | some l => ({ s with hdrs := l }, "ok")
    | none => (s, "bad-op")
  | ["seen", l] =>
    match (splitList l).mapM parseOp? with
    | some l => ({ s with seen := l }, "ok")
    | none => (s, "bad-op")
  | ["tx", ins, deps, hd, nw] =>
    match (splitList ins).mapM parseOp?, (splitList deps).mapM parseDep?, parseNatList? hd, parseNat? nw with
    | some ins, some deps, some hd, some nw =>
      let p := overlay (tableProvider s.a) (tableProvider s.b)
      match resolveTx s.seen p (fun h => s.hdrs.contains h) (mkRefs ins deps hd nw) with
      | .error e => (s, showRErr e)
      | .ok (r, seen') =>
        ({ s with seen := seen' },
          s!"ok in={showOps r.inputs} cd={showOps r.cellDeps} gr={showOps r.depGroups} seen={seen'.length}")
    | _, _, _, _ => (s, "bad-op")
  | _ => (s, "bad-op")

/-! ### `cap` -/

def parseCapIn? (s : String) : Option (Nat × Bool) :=
  match s.splitOn ":" with
  | [c] => (parseNat? c).map (·, false)
  | [c, "d"] => (parseNat? c).map (·, true)
  | _ => none

def parseOutput? (s : String) : Option Output :=
  match s.splitOn ":" with
  | [c, l, t, d] => do
    let c ← parseNat? c
    let l ← parseNat? l
    let t ← (if t = "n" then some none else (parseNat? t).map some)
    let d ← parseNat? d
    pure ⟨c, l, t, d⟩
  | _ => none

def stepCap (s : Unit) (ts : List String) : Unit × String :=
  match ts with
  | ["cap", ins, outs] =>
    match (splitList ins).mapM parseCapIn?, (splitList outs).mapM parseOutput? with
    | some ins, some outs =>
      let exempt := ins.isEmpty || ins.any (·.2)
      (s, showCapV (capacityVerify exempt (ins.map (·.1)) outs))
    | _, _ => (s, "bad-op")
  | _ => (s, "bad-op")

def main (args : List String) : IO UInt32 :=
  match args with
  | ["time"] => runLines ({} : TimeSt) stepTime
  | ["resolve"] => runLines ({} : ResSt) stepResolve
  | ["cap"] => runLines () stepCap
  | _ => do
    IO.eprintln "C04: expected sub-mode time|resolve|cap"
    return 2

end CkbVerif.Driver.C04
