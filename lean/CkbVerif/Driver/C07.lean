import CkbVerif.Driver.Util
import CkbVerif.Model.Epoch
import CkbVerif.Model.EpochU256

/-! Line-protocol driver for C07 (protocol: harness/hcore/src/c07.rs). Stateless: every op is a pure
function of its arguments. -/
namespace CkbVerif.Driver.C07
open CkbVerif.Driver CkbVerif.Epoch CkbVerif.Arith CkbVerif.Gen.Epoch

def hx (n : Nat) : String := "0x" ++ String.ofList (Nat.toDigits 16 n)

def b01 (b : Bool) : String := if b then "1" else "0"

def optNat : Option Nat → String
  | some v => toString v
  | none => "fail"

def optHx : Option Nat → String
  | some v => hx v
  | none => "fail"

def optRat : Option URat → String
  | some r => s!"{r.n}/{r.d}"
  | none => "fail"

def step (_s : Unit) (ts : List String) : Unit × String :=
  let r : String :=
    match ts with
    | ["consts"] =>
      s!"tau={TAU} min={MIN_EPOCH_LENGTH} max={MAX_EPOCH_LENGTH} ort={ORPHAN_RATE_TARGET_NUMER}/{ORPHAN_RATE_TARGET_DENOM} bits={EPOCH_NUMBER_BITS},{EPOCH_INDEX_BITS},{EPOCH_LENGTH_BITS} target={EPOCH_DURATION_TARGET}"
    | ["ts", t, prev] =>
      (match parseNat? t, parseNatList? prev with
       | some t, some prev => if timestampOk t prev then "ok" else "too-old"
       | _, _ => "bad-op")
    | op :: args =>
      match parseNats? args with
      | none => "bad-op"
      | some a =>
        match op, a with
        | "c2t", [c] => let (t, o) := compactToTarget c; s!"{hx t} {b01 o}"
        | "t2c", [t] => toString (targetToCompact t)
        | "c2d", [c] => hx (compactToDifficulty c)
        | "d2c", [d] => optNat (difficultyToCompact d)
        | "pow", [c, h, _nonce, _number] => b01 (powVerify c h)
        | "enf", [v] => s!"{enfNumber v} {enfIndex v} {enfLength v} wf={b01 (enfIsWellFormed v)} gen={b01 (enfIsGenesis v)}"
        | "enfnew", [n, i, l] => toString (enfPack n i l)
        | "succ", [s, p] => b01 (enfIsSuccessorOf s p)
        | "everify", [p, h] =>
          (match epochVerify p h with
           | .ok => "ok" | .malformed => "malformed" | .nonContinuous => "noncontinuous")
        | "reward", [start, len, base, rem, n] =>
          optNat (blockReward { number := 0, base, rem, prevHR := 0, start, length := len, compact := 0 } n)
        | "sec", [start, len, sec, n] =>
          optNat (secondaryBlockIssuance { number := 0, base := 0, rem := 0, prevHR := 0, start, length := len, compact := 0 } n sec)
        | "hv", [c, d, known, pn, hn, pe, he, _nonce] =>
          (match headerVerify c d (known != 0) pn hn pe he with
           | none => "fail"
           | some .ok => "ok" | some .invalidNonce => "invalid-nonce" | some .unknownParent => "unknown-parent"
           | some .numberMismatch => "number" | some .epochMalformed => "epoch-malformed"
           | some .epochNonContinuous => "epoch-noncontinuous")
        | "gbe", [hn, start, len, tuH, tuP, tsH, tsP] =>
          (match getBlockEpoch hn start len tuH tuP tsH tsP with
           | none => "fail"
           | some none => "nontail"
           | some (some (u, d)) => s!"tail {u} {d}")
        | "nwf", [number, start, len, n] =>
          optNat (numberWithFraction { number, base := 0, rem := 0, prevHR := 0, start, length := len, compact := 0 } n)
        | "prim", [initial, halving, n] => optNat (primaryEpochReward { T := 0, initial, halving } n)
        | "next", [T, initial, halving, ortN, ortD, number, base, rem, prevHR, start, len, hn, hc, uncles, dur] =>
          (match nextEpochExt { T, initial, halving, ortN, ortD }
              { number, base, rem, prevHR, start, length := len, compact := hc } hn hc uncles dur with
           | none => "fail"
           | some o => s!"{o.number} {o.base} {o.rem} {hx o.prevHR} {o.start} {o.length} {o.compact}")
        | "nextperm", [T, initial, halving, number, base, rem, prevHR, start, len, hn, hc] =>
          (match nextEpochExtPermanent { T, initial, halving }
              { number, base, rem, prevHR, start, length := len, compact := hc } hn with
           | none => "fail"
           | some o => s!"{o.number} {o.base} {o.rem} {hx o.prevHR} {o.start} {o.length} {o.compact}")
        | "uadd", [a, b] => optHx (U256.add a b)
        | "usub", [a, b] => optHx (U256.sub a b)
        | "umul", [a, b] => optHx (U256.mul a b)
        | "udiv", [a, b] => optHx (U256.div a b)
        | "urem", [a, b] => optHx (U256.rem a b)
        | "ugcd", [a, b] => hx (U256.gcd a b)
        | "ucmp", [a, b] => if a < b then "lt" else if a = b then "eq" else "gt"
        | "ushl", [a, k] => hx (U256.shl a k)
        | "ushr", [a, k] => hx (U256.shr a k)
        | "ulz", [a] => toString (U256.leadingZeros a)
        | "utz", [a] => toString (U256.tz a)
        | "ulow", [a] => toString (U256.low64 a)
        | "rnew", [n, d] => optRat (URat.new n d)
        | "rmul", [an, ad, bn, bd] => optRat (URat.mul ⟨an, ad⟩ ⟨bn, bd⟩)
        | "rdiv", [an, ad, bn, bd] => optRat (URat.div ⟨an, ad⟩ ⟨bn, bd⟩)
        | "rmulu", [an, ad, u] => optRat (URat.mulU ⟨an, ad⟩ u)
        | "raddu", [an, ad, u] => optRat (URat.addU ⟨an, ad⟩ u)
        | "rsatsub", [an, ad, u] => optRat (URat.satSubU ⟨an, ad⟩ u)
        | "rgt", [an, ad, bn, bd] =>
          (match URat.gt ⟨an, ad⟩ ⟨bn, bd⟩ with
           | none => "fail" | some b => b01 b)
        | "rfloor", [an, ad] => optHx (URat.floor ⟨an, ad⟩)
        | "genesis", [R, c, L, T, on, od] =>
          (match genesisEpochExt R c L T on od with
           | none => "fail"
           | some o => s!"{o.base} {o.rem} {hx o.prevHR} {o.length} {o.compact}")
        | _, _ => "bad-op"
    | _ => "bad-op"
  ((), r)

/-- stream `node`: stateful whole-chain view (`ninit …`, then per block of the followed branch
`nb <number> <timestamp> <uncles>`; `nv <epoch field> <compact>`: a candidate child of the tip offered to
the contextual `EpochVerifier`, state unchanged; `nrewind <k>`: continue on the branch that forks off
`k` blocks below the tip — the states of the last blocks are kept) -/
structure NodeSt where
  cur : Option ChainSt := none
  hist : List ChainSt := []
  -- `secondary_epoch_reward` of the consensus (12th `ninit` argument; the default constant otherwise)
  sec : Nat := SECONDARY_EPOCH_REWARD
  -- the branch left by the last `nrewind` (its tip state and kept history): `nback` returns to it
  saved : Option (ChainSt × List ChainSt) := none

def stepNode (st : NodeSt) (ts : List String) : NodeSt × String :=
  match ts with
  | op :: args =>
    match parseNats? args with
    | none => (st, "bad-op")
    | some a =>
      match op, a with
      | "ninit", [T, initial, halving, ortN, ortD, base, rem, hr, len, compact, gts] =>
        let s0 : ChainSt :=
          { P := { T, initial, halving, ortN, ortD },
            cur := { number := 0, base, rem, prevHR := hr, start := 0, length := len, compact },
            lastEndTs := gts, lastEndTU := 0, tu := 0, tipNumber := 0, tipTs := gts }
        ({ cur := some s0, hist := [] }, "ok")
      | "ninit", [T, initial, halving, ortN, ortD, base, rem, hr, len, compact, gts, sec] =>
        let s0 : ChainSt :=
          { P := { T, initial, halving, ortN, ortD },
            cur := { number := 0, base, rem, prevHR := hr, start := 0, length := len, compact },
            lastEndTs := gts, lastEndTU := 0, tu := 0, tipNumber := 0, tipTs := gts }
        ({ cur := some s0, hist := [], sec := sec }, "ok")
      | "nb", [number, t, nunc] =>
        (match st.cur with
         | none => (st, "bad-op")
         | some s =>
           if number ≠ s.tipNumber + 1 then (st, "bad-op") else
           match chainStep s t nunc with
           | none => (st, "fail")
           | some (s', field, compact, head) =>
             let e := s'.cur
             let tail := if head then s!" E {e.number} {e.base} {e.rem} {hx e.prevHR} {e.start} {e.length}" else ""
             ({ st with cur := some s', hist := (s :: st.hist).take 4096 },
              s!"{field} {compact} R {optNat (tipBlockReward s')} S {optNat (tipSecondaryIssuance s' st.sec)}{tail}"))
      | "nv", [hEpoch, hCompact] =>
        (match st.cur with
         | none => (st, "bad-op")
         | some s =>
           (st, match chainVerify s hEpoch hCompact with
                | none => "fail"
                | some .ok => "ok"
                | some .numberMismatch => "number-mismatch"
                | some .targetMismatch => "target-mismatch"))
      | "nrewind", [k] =>
        if k = 0 then (st, "ok") else
        (match st.cur, st.hist.drop (k - 1) with
         | some tip, s :: rest => ({ st with cur := some s, hist := rest, saved := some (tip, st.hist) }, "ok")
         | _, _ => (st, "bad-op"))
      | "nback", [] =>
        (match st.cur, st.saved with
         | some tip, some (s, h) => ({ st with cur := some s, hist := h, saved := some (tip, st.hist) }, "ok")
         | _, _ => (st, "bad-op"))
      | _, _ => (st, "bad-op")
  | _ => (st, "bad-op")

def main (args : List String) : IO UInt32 :=
  match args with
  | ["node"] => runLines ({} : NodeSt) stepNode
  | _ => runLines () step

end CkbVerif.Driver.C07
