import CkbVerif.Driver.Util
import CkbVerif.Model.Store
import CkbVerif.Model.StoreV
import CkbVerif.Model.StoreMMR
import CkbVerif.Model.Fork

/-! Line-protocol driver for C02 (protocol: see harness/n02/src/c02.rs).  Every state-changing op
is answered with the canonical dump of the model's view. -/
namespace CkbVerif.Driver.C02
open CkbVerif.Driver CkbVerif.Store

def ZERO_ID : Nat := 4000000000

structure St where
  v : View := View.empty
  txs : List (Nat × Tx) := []
  blocks : List (Nat × Block) := []
  /-- views after every state op (snapshots are values) -/
  snaps : Array View := #[]
  elen : Nat := 0
  /-- blocks flagged invalid by an `xblock … bad=<kind>` line (a rule outside the store model) -/
  bad : List Nat := []
  /-- `xcols 1`: the dump also prints COLUMN_CHAIN_ROOT_MMR (every row, stale ones included) -/
  xcols : Bool := false
  /-- the column as data (position → row); a closure here would be re-evaluated per look-up -/
  mmr : Array (Option Digest) := #[]
  /-- the column at every snapshot -/
  msnaps : Array (Array (Option Digest)) := #[]

def lookup {β : Type} (l : List (Nat × β)) (k : Nat) : Option β :=
  match l.find? (fun p => p.1 == k) with
  | some p => some p.2
  | none => none

def sortNat (l : List Nat) : List Nat := l.mergeSort (fun a b => a ≤ b)

def join (l : List String) : String := if l.isEmpty then "-" else ",".intercalate l

def epS (e : Ep) : String := s!"{e.number}.{e.index}.{e.length}"

def dataS (o : Output) : String := if o.dlen = 0 then "-" else s!"{o.dlen}.{o.dtag}"

/-- binary search in an array sorted by key -/
def bsearch {β : Type} (a : Array (Nat × β)) (k : Nat) : Option β :=
  let rec go (fuel lo hi : Nat) : Option β :=
    match fuel with
    | 0 => none
    | fuel + 1 =>
      if lo ≥ hi then none else
      let mid := (lo + hi) / 2
      match a[mid]? with
      | none => none
      | some (k', v) =>
        if k' = k then some v
        else if k' < k then go fuel (mid + 1) hi
        else go fuel lo mid
  go (a.size + 2) 0 a.size

def opCode (o : OutPoint) : Nat := o.tx * 4096 + o.idx

/-- Re-tabulate the two big maps over the known key universe (extensionally the identity on it):
keeps look-ups logarithmic instead of linear in the number of updates ever made. -/
def normalize (s : St) (v : View) : View :=
  let txIds := sortNat (s.txs.map (·.1))
  let cellTab : Array (Nat × CellRow) := Id.run do
    let mut a := #[]
    for t in txIds do
      match lookup s.txs t with
      | none => pure ()
      | some tx =>
        for i in List.range tx.outputs.length do
          match v.m.cells ⟨t, i⟩ with
          | some row => a := a.push (opCode ⟨t, i⟩, row)
          | none => pure ()
    return a
  let infoTab : Array (Nat × TxInfo) := Id.run do
    let mut a := #[]
    for t in txIds do
      match v.m.txInfo t with
      | some i => a := a.push (t, i)
      | none => pure ()
    return a
  { v with m := { v.m with cells := fun o => if o.idx < 4096 then bsearch cellTab (opCode o) else none,
                           txInfo := fun t => bsearch infoTab t } }

def dump (s : St) (v : View) : String :=
  let txIds := sortNat (s.txs.map (·.1))
  let blkIds := sortNat (s.blocks.map (·.1))
  let maxNum := s.blocks.foldl (fun m p => max m p.2.number) 0
  let cellRows : List (OutPoint × CellRow) := txIds.flatMap fun t =>
    match lookup s.txs t with
    | none => []
    | some tx => (List.range tx.outputs.length).filterMap fun i =>
        (v.m.cells ⟨t, i⟩).map fun row => (⟨t, i⟩, row)
  let cell := cellRows.map fun (o, r) => s!"{o.tx}:{o.idx}@{r.blockId}/{r.number}/{epS r.epoch}/{r.txIndex}/{r.out.dlen}/="
  let data := cellRows.map fun (o, r) => s!"{o.tx}:{o.idx}/{dataS r.out}"
  let txinfo := txIds.filterMap fun t => (v.m.txInfo t).map fun i => s!"{t}@{i.blockId}/{i.index}/{i.number}/{epS i.epoch}"
  let index := (List.range (maxNum + 1)).filterMap fun n => (v.m.index n).map fun b => s!"{n}:{b}"
  let rindex := blkIds.filterMap fun b => (v.m.rindex b).map fun n => s!"{b}:{n}"
  let uncles := blkIds.filterMap fun b => (v.m.uncles b).map fun _ => s!"{b}"
  let bepoch := blkIds.filterMap fun b => (v.r.blockEpoch b).map fun k => s!"{b}:{k}"
  let epoch := (blkIds ++ [ZERO_ID]).filterMap fun k => (v.r.epochExt k).map fun e => s!"{k}:{e.number}/{e.start}/{e.length}"
  let epnum := (List.range (maxNum + 2)).filterMap fun n => (v.m.epochNum n).map fun k => s!"{n}:{k}"
  let ext := blkIds.filterMap fun b => (v.r.ext b).map fun e =>
    let vs := match e.verified with | some true => "T" | some false => "F" | none => "N"
    let fs := if e.fees.isEmpty then "-" else ".".intercalate (e.fees.map toString)
    s!"{b}:{vs}/{e.td}/{e.uncles}/{fs}"
  let metaS := (match v.m.tip with | some t => [s!"tip:{t}"] | none => []) ++
    (match v.m.curEpoch with | some e => [s!"cur:{e.number}/{e.start}/{e.length}/{e.key}"] | none => [])
  let base := s!"cell={join cell} data={join data} dhash={join data} txinfo={join txinfo} index={join index} rindex={join rindex} uncles={join uncles} bepoch={join bepoch} epoch={join epoch} epnum={join epnum} ext={join ext} meta={join metaS}"
  if s.xcols then
    let rows := (List.range (MMR.leafIndexToMmrSize (maxNum + 1) + 2)).filterMap fun p =>
      (s.mmr.getD p none).map fun d => s!"{p}:{".".intercalate (d.map toString)}"
    base ++ s!" mmr={join rows}"
  else base

def kv (tok key : String) : Option String :=
  if tok.startsWith (key ++ "=") then some (tok.drop (key.length + 1)).toString else none

def parseOut (s : String) : Option Output :=
  if s = "-" then some ⟨0, 0⟩ else
  match s.splitOn "." with
  | [a, b] => do pure ⟨← parseNat? a, ← parseNat? b⟩
  | _ => none

def parseOuts (s : String) : Option (List Output) := (s.splitOn ",").mapM parseOut

def parseIn (s : String) : Option OutPoint :=
  match s.splitOn ":" with
  | [a, b] => do pure ⟨← parseNat? a, ← parseNat? b⟩
  | _ => none

def parseIns (s : String) : Option (List OutPoint) :=
  if s = "-" then some [] else (s.splitOn ",").mapM parseIn

def parseEp (s : String) : Option Ep :=
  match s.splitOn "." with
  | [a, b, c] => do pure ⟨← parseNat? a, ← parseNat? b, ← parseNat? c⟩
  | _ => none

/-- record the new view as a snapshot and answer with its dump -/
def commit (s : St) (v : View) (pre : String) : St × String :=
  let v := normalize s v
  let s := { s with v := v, snaps := s.snaps.push v, msnaps := s.msnaps.push s.mmr }
  (s, pre ++ dump s v)

/-- re-tabulate the MMR column over the positions that can have been written -/
def normMmr (s : St) (st : MMR.Store Digest) : Array (Option Digest) :=
  let maxNum := s.blocks.foldl (fun m p => max m p.2.number) 0
  ((List.range (MMR.leafIndexToMmrSize (maxNum + 1) + 2)).map st).toArray

def mmrFn (a : Array (Option Digest)) : MMR.Store Digest := fun q => a.getD q none

/-- one block through `processX` (view + MMR column); `s'` = the state with the block registered -/
def blockStep (s s' : St) (badIds : List Nat) (b : Block) : St × String :=
  match processX (fun x => badIds.contains x) ⟨s.v, mmrFn s.mmr⟩ b with
  | (x', true) => commit { s' with bad := badIds, mmr := normMmr s' x'.mmr } x'.v "new "
  | (x', false) => commit { s with txs := s'.txs } x'.v "err "

/-- parse a `block` line: registers the block (and its cellbase transaction) and returns it -/
def parseBlock (s : St) (ts : List String) : Option (St × Block) :=
  match ts with
  | ["block", id, parent, _salt, epf, cb, cbid, txs, _props, uncles] =>
    match parseNat? id, parseNat? parent, (kv epf "ep").bind parseEp, (kv cb "cb").bind parseNat?,
          (kv cbid "cbid").bind parseNat?, (kv txs "txs").bind parseNatList?, (kv uncles "uncles").bind parseNatList? with
    | some id, some parent, some e, some cb, some cbid, some txIds, some uncles =>
      match lookup s.blocks parent, txIds.mapM (lookup s.txs) with
      | some p, some txl =>
        let cbTx : Tx := { id := cbid, inputs := [], outputs := if cb = 0 then [] else [⟨0, 0⟩] }
        let number := p.number + 1
        let isHead := e.index == 0
        let rec_ : EpochRec := if isHead then ⟨e.number, number, e.length, parent⟩ else p.epochRec
        let b : Block := { id := id, parent := parent, number := number, epoch := e, txs := cbTx :: txl,
                           uncles := uncles, isHead := isHead, epochRec := rec_ }
        let s := { s with blocks := (id, b) :: s.blocks,
                          txs := if (lookup s.txs cbid).isSome then s.txs else (cbid, cbTx) :: s.txs }
        some (s, b)
      | _, _ => none
    | _, _, _, _, _, _, _ => none
  | _ => none

def step (s : St) (ts : List String) : St × String :=
  match ts with
  | ["cfg", l, _, _, _] =>
    match parseNat? l with
    | some l => ({ elen := l }, "ok")
    | none => (s, "bad-op")
  | ["gtx", id, outs] =>
    match parseNat? id, (kv outs "out").bind parseOuts with
    | some id, some outs => ({ s with txs := (id, { id := id, inputs := [], outputs := outs }) :: s.txs }, "ok")
    | _, _ => (s, "bad-op")
  | ["genesis", txs] =>
    match (kv txs "txs").bind parseNatList? with
    | some ids =>
      match ids.mapM (lookup s.txs) with
      | some txl =>
        let g : Block := { id := 0, parent := 0, number := 0, epoch := ⟨0, 0, 0⟩, txs := txl, uncles := [],
                           isHead := true, epochRec := ⟨0, 0, s.elen, ZERO_ID⟩ }
        let s := { s with blocks := [(0, g)] }
        let s := { s with mmr := normMmr s (initX g).mmr }
        commit s (init g) ""
      | none => (s, "bad-op")
    | none => (s, "bad-op")
  | ["tx", id, fee, _salt, ins, outs] =>
    match parseNat? id, (kv fee "fee").bind parseNat?, (kv ins "in").bind parseIns, (kv outs "out").bind parseOuts with
    | some id, some fee, some ins, some outs =>
      ({ s with txs := (id, { id := id, inputs := ins, outputs := outs, fee := fee }) :: s.txs }, "ok")
    | _, _, _, _ => (s, "bad-op")
  | "block" :: _ =>
    match parseBlock s ts with
    | some (s', b) =>
      -- `processX` = `process` on the view whenever it succeeds (`processV_ok_is_process`); it fails
      -- when the block makes a branch with a stored invalid block the best chain
      blockStep s s' s.bad b
    | none => (s, "bad-op")
  | ["xblock", id, parent, salt, epf, cb, cbid, txs, props, uncles, badTok] =>
    match parseBlock s ["block", id, parent, salt, epf, cb, cbid, txs, props, uncles], kv badTok "bad" with
    | some (s', b), some kind => blockStep s s' (if kind = "none" then s.bad else b.id :: s.bad) b
    | _, _ => (s, "bad-op")
  | ["xcols", _] => ({ s with xcols := true }, "ok")
  | ["truncate", id] =>
    match parseNat? id with
    | some id => commit s (truncate s.v id) "ok "
    | none => (s, "bad-op")
  | ["snap", k] =>
    match parseNat? k with
    | some k =>
      match s.snaps[k]? with
      | some v => (s, dump { s with mmr := s.msnaps.getD k #[] } v)
      | none => (s, "bad-op")
    | none => (s, "bad-op")
  | _ => (s, "bad-op")

/-! ### stream `fork`: `find_fork` on a stored block tree (protocol: harness/n02/src/c02_fork.rs)

* `blk <id> <parent> <number> <td> <N|T|F>` — a stored block (id 0 = genesis; each id defined once),
  its ext's total difficulty and `verified` (`N` = `None`); answer `ok`
* `main <id0,id1,…>` — the main-chain index, by height; answer `ok`
* `fork <id> <td>` — `find_fork(current tip number = |main| - 1, new tip = id, new tip ext with
  total difficulty td)`; answer `det=… att=… dirty=<total difficulties> vlen=<verified_len>` -/
namespace F

structure Blk where
  parent : Nat
  number : Nat
  td : Nat
  verNone : Bool
deriving Inhabited

structure St where
  /-- indexed by block id; ids need not be consecutive (a shrunk replay has gaps) -/
  blocks : Array (Option Blk) := #[]
  main : Array Nat := #[]

def blkOf (s : St) (x : Nat) : Blk := ((s.blocks.getD x none)).getD default

def store (s : St) : Fork.Store where
  parent := fun x => (blkOf s x).parent
  number := fun x => (blkOf s x).number
  mainAt := fun n => s.main.getD n 0
  verNone := fun x => (blkOf s x).verNone

def defined (s : St) (x : Nat) : Bool := (s.blocks.getD x none).isSome

def step (s : St) (ts : List String) : St × String :=
  match ts with
  | ["blk", id, parent, number, td, v] =>
    match parseNat? id, parseNat? parent, parseNat? number, parseNat? td with
    | some id, some parent, some number, some td =>
      if defined s id ∨ id > 100000 ∨ ¬ (v = "N" ∨ v = "T" ∨ v = "F") then (s, "bad-op")
      else
        let padded := s.blocks ++ Array.replicate (id + 1 - s.blocks.size) none
        ({ s with blocks := padded.set! id (some ⟨parent, number, td, v == "N"⟩) }, "ok")
    | _, _, _, _ => (s, "bad-op")
  | ["main", ids] =>
    match parseNatList? ids with
    | some ids => if ids.isEmpty then (s, "bad-op") else ({ s with main := ids.toArray }, "ok")
    | none => (s, "bad-op")
  | ["fork", id, td] =>
    match parseNat? id, parseNat? td with
    | some id, some td =>
      if !defined s id ∨ s.main.isEmpty then (s, "bad-op") else
      let f := Fork.findFork (store s) (s.main.size - 1) id
      -- an ext is represented by the id of its block; the new tip's ext is the one passed in
      let tdOf := fun x => if x = id then td else (blkOf s x).td
      (s, s!"det={showNatList f.detached} att={showNatList f.attached} dirty={showNatList (f.dirtyExts.map tdOf)} vlen={f.verifiedLen}")
    | _, _ => (s, "bad-op")
  | _ => (s, "bad-op")

end F

def main (args : List String) : IO UInt32 :=
  match args with
  | ["fork"] => runLines ({} : F.St) F.step
  | _ => runLines ({} : St) step

end CkbVerif.Driver.C02
