import CkbVerif.Driver.Util
import CkbVerif.Model.Cache

/-! Line-protocol driver for C14 (protocol: see harness/n14/src/c14.rs).

```
max <cycles>                                   block cycle limit of the case                     → ok
blk <w>:<timeRel>:<capOk>:<cycles|x>:<fee>;…   one verified block: its non-cellbase transactions → ok fees=… cycles=… | err <class>
warm <w>:…                                     a block verified inside an attempt that failed later (results dropped, cache kept) → ok
sub <w>:<timeRel>:<capOk>:<cycles|x>:<fee>     tx-pool submission (`verify_rtx`, a success is cached)   → ok | err <class>
tst <w>:…                                      `test_accept_tx` (`verify_rtx`, nothing is cached)       → ok cycles=… fee=… | err <class>
clear                                          the node's verification cache is emptied           → ok
sw <col> <k> / sd <col> <k>                    a store column behind a read cache: row of key k written (its content) / deleted → ok
sr <col> <k>                                   bare read through the cache                        → some | none
cw <k> / cd <k>                                cell k created (insert_cells) / consumed (delete_cells) → ok
live <k>                                       have_cell / is_live                                → true | false
cg <data|hash> <k>                             guarded read: have_cell, then get_cell_data(_hash) → some | none
cl <data|hash> <k>                             bare get_cell_data(_hash), answer unused (warms the cache) → ok
```
The model keeps the verification cache and answers each `blk` / `sub` / `tst` through the *cached*
path (`Model.Cache.blockVerify` / `cached`); the transaction content (`capOk`, cycles, fee) on the
line comes from full verifications. Store lines run `Model.Cache.sstep` / `lstep` (read-through
caches that file only positive answers; liveness from the uncached column); a key's content is
the key itself.
-/
namespace CkbVerif.Driver.C14
open CkbVerif.Driver CkbVerif.Cache

structure TxD where
  w : Nat
  tr : Bool
  cap : Bool
  cyc : Option Nat
  fee : Nat

structure DS where
  max : Nat := 0
  cache : VCache := []
  cols : List (String × Cached Nat) := []
  cdata : Cells Nat := ⟨fun _ => false, ⟨fun _ => none, []⟩⟩
  chash : Cells Nat := ⟨fun _ => false, ⟨fun _ => none, []⟩⟩

def parseTx (s : String) : Option TxD :=
  match s.splitOn ":" with
  | [w, tr, cap, cyc, fee] => do
    let w ← parseNat? w
    let fee ← parseNat? fee
    pure { w := w, tr := tr == "1", cap := cap == "1", cyc := parseNat? cyc, fee := fee }
  | _ => none

def parseTxs (s : String) : List TxD :=
  if s == "-" then [] else (s.splitOn ";").filterMap parseTx

/-- the content oracle of one line -/
def contentOf (txs : List TxD) : Content :=
  { capacityOk := fun w => match txs.find? (·.w == w) with | some t => t.cap | none => true
    script := fun w => match txs.find? (·.w == w) with | some t => t.cyc | none => none
    fee := fun w => match txs.find? (·.w == w) with | some t => some t.fee | none => none }

def errName : TxErr → String
  | .timeRelative => "timerel" | .capacity => "capacity" | .script => "script" | .fee => "fee"

/-- `BlockTxsVerifier::verify` = `Model.Cache.blockVerify` on the line's content -/
def blockLine (max : Nat) (c : VCache) (txs : List TxD) : VCache × String :=
  let r := blockVerify (contentOf txs) max c (txs.map fun t => (t.w, t.tr))
  match r.2 with
  | .error (.tx e) => (r.1, "err " ++ errName e)
  | .error .cycles => (r.1, "err cycles")
  | .ok cs => (r.1, s!"ok fees={showNatList (cs.map (·.fee))} cycles={showNatList (cs.map (·.cycles))}")

def txOut : Except TxErr Completed → String
  | .error e => "err " ++ errName e
  | .ok c => s!"ok cycles={c.cycles} fee={c.fee}"

def getCol (s : DS) (c : String) : Cached Nat :=
  match s.cols.find? (·.1 == c) with | some x => x.2 | none => ⟨fun _ => none, []⟩

def setCol (s : DS) (c : String) (v : Cached Nat) : DS :=
  { s with cols := (c, v) :: s.cols.filter (·.1 != c) }

def showOpt : Option Nat → String
  | some _ => "some" | none => "none"

def cellsStep (s : DS) (which : String) (op : LOp Nat) : DS × LAns Nat :=
  if which == "hash" then let r := lstep s.chash op; ({ s with chash := r.1 }, r.2)
  else let r := lstep s.cdata op; ({ s with cdata := r.1 }, r.2)

def step (s : DS) (ts : List String) : DS × String :=
  match ts with
  | ["max", m] => ({ s with max := (parseNat? m).getD 0 }, "ok")
  | ["blk", txs] =>
    let (c', out) := blockLine s.max s.cache (parseTxs txs)
    ({ s with cache := c' }, out)
  | ["warm", txs] =>
    let (c', _) := blockLine s.max s.cache (parseTxs txs)
    ({ s with cache := c' }, "ok")
  | ["sub", tx] =>
    match parseTx tx with
    | some t =>
      let r := vstep (contentOf [t]) s.max s.cache (.verify t.w t.tr)
      ({ s with cache := r.1 }, match r.2 with | some (.ok _) => "ok" | some (.error e) => "err " ++ errName e | none => "bad-op")
    | none => (s, "bad-op")
  | ["tst", tx] =>
    match parseTx tx with
    | some t => (s, txOut (cached (contentOf [t]) s.max s.cache t.tr t.w))
    | none => (s, "bad-op")
  | ["clear"] => ({ s with cache := [] }, "ok")
  | ["sw", c, k] =>
    match parseNat? k with
    | some k => (setCol s c (sstep (getCol s c) (.write k k)).1, "ok")
    | none => (s, "bad-op")
  | ["sd", c, k] =>
    match parseNat? k with
    | some k => (setCol s c (sstep (getCol s c) (.delete k)).1, "ok")
    | none => (s, "bad-op")
  | ["sr", c, k] =>
    match parseNat? k with
    | some k =>
      let r := sstep (getCol s c) (.read k)
      (setCol s c r.1, match r.2 with | some a => showOpt a | none => "bad-op")
    | none => (s, "bad-op")
  | ["cw", k] =>
    match parseNat? k with
    | some k => ((cellsStep (cellsStep s "data" (.create k k)).1 "hash" (.create k k)).1, "ok")
    | none => (s, "bad-op")
  | ["cd", k] =>
    match parseNat? k with
    | some k => ((cellsStep (cellsStep s "data" (.consume k)).1 "hash" (.consume k)).1, "ok")
    | none => (s, "bad-op")
  | ["live", k] =>
    match parseNat? k with
    | some k => match (cellsStep s "data" (.haveCell k)).2 with
      | .live b => (s, if b then "true" else "false")
      | _ => (s, "bad-op")
    | none => (s, "bad-op")
  | ["cg", which, k] =>
    match parseNat? k with
    | some k =>
      let r := cellsStep s which (.getData k)
      (r.1, match r.2 with | .data d => showOpt d | _ => "bad-op")
    | none => (s, "bad-op")
  | ["cl", which, k] =>
    match parseNat? k with
    | some k => ((cellsStep s which (.load k)).1, "ok")
    | none => (s, "bad-op")
  | _ => (s, "bad-op")

def main (_args : List String) : IO UInt32 :=
  runLines ({} : DS) step

end CkbVerif.Driver.C14
