import CkbVerif.Driver.Util
import CkbVerif.Model.Cache
import CkbVerif.Gen.Cache

/-! Line-protocol driver for C14 (protocol: see harness/n14/src/c14.rs).

```
max <cycles>                                   block cycle limit of the case                     → ok
blk <w>:<timeRel>:<capOk>:<cycles|x>:<fee>;…   one verified block: its non-cellbase transactions → ok fees=… cycles=… | err <class>
blks <w>:…                                     a block verified with scripts skipped (assume-valid window, Switch::DISABLE_SCRIPT) → ok fees=… cycles=… | err <class>
warm <w>:…                                     a block verified inside an attempt that failed later (results dropped, cache kept) → ok
sub <w>:<timeRel>:<capOk>:<cycles|x>:<fee>     tx-pool submission (`verify_rtx`, a success is cached)   → ok | err <class>
tst <w>:…                                      `test_accept_tx` (`verify_rtx`, nothing is cached)       → ok cycles=… fee=… | err <class>
clear                                          the node's verification cache is emptied           → ok
sw <col> <k> / sd <col> <k>                    a store column behind a read cache: row of key k written (its content) / deleted → ok
sr <col> <k>                                   bare read through the cache                        → some | none
cw <k> / cd <k>                                cell k created (insert_cells) / consumed (delete_cells) → ok
live <k>                                       have_cell / is_live                                → true | false
cg <data|hash> <k>                             guarded read: have_cell, then get_cell_data(_hash) → some | none
cl <data|hash> <k>                             bare get_cell_data(_hash), answer unused (warms the cache) → ok
sys <-|c1,c2,g10=1+3,…>                        SYSTEM_CELL: not initialised / this map (c = code dep, g = dep group = members) → ok
st <live|dead|unknown> <a-b,c,…>               CellProvider::cell / CellChecker::is_live of these out-points (default unknown) → ok
grp <op> <m1+m2+…|x>                           parse_dep_group_data of the cell's data (x = empty / malformed / empty vector) → ok
res <seen|-> <deps>                            resolve_transaction's cell deps (c<op> | g<op> | c<lo>-<hi>); budget = MAX_DEP_EXPANSION_LIMIT (translator)
                                               → ok cells=<n> h=<checksum> groups=<ids> | err dead <op> | err unknown <op> | err invalid <op> | err overmax
chk                                            ResolvedTransaction::check of the deps of the last resolved transaction → ok | err dead <op> | err unknown <op>
```
The model keeps the verification cache and answers each `blk` / `sub` / `tst` through the *cached*
path (`Model.Cache.blockVerify` / `cached`); the transaction content (`capOk`, cycles, fee) on the
line comes from full verifications. Store lines run `Model.Cache.sstep` / `lstep` (read-through
caches that file only positive answers; liveness from the uncached column); a key's content is
the key itself.
-/
namespace CkbVerif.Driver.C14
open CkbVerif.Driver CkbVerif.Cache

structure TxD where
  w : Nat
  tr : Bool
  cap : Bool
  cyc : Option Nat
  fee : Nat

structure DS where
  max : Nat := 0
  cache : VCache := []
  cols : List (String × Cached Nat) := []
  cdata : Cells Nat := ⟨fun _ => false, ⟨fun _ => none, []⟩⟩
  chash : Cells Nat := ⟨fun _ => false, ⟨fun _ => none, []⟩⟩
  sys : Option SysMap := none
  stat : List (Nat × Nat × CellSt) := []
  grps : List (Nat × Option (List Nat)) := []
  last : Resolved := ⟨[], [], 0⟩

def parseTx (s : String) : Option TxD :=
  match s.splitOn ":" with
  | [w, tr, cap, cyc, fee] => do
    let w ← parseNat? w
    let fee ← parseNat? fee
    pure { w := w, tr := tr == "1", cap := cap == "1", cyc := parseNat? cyc, fee := fee }
  | _ => none

def parseTxs (s : String) : List TxD :=
  if s == "-" then [] else (s.splitOn ";").filterMap parseTx

/-- the content oracle of one line -/
def contentOf (txs : List TxD) : Content :=
  { capacityOk := fun w => match txs.find? (·.w == w) with | some t => t.cap | none => true
    script := fun w => match txs.find? (·.w == w) with | some t => t.cyc | none => none
    fee := fun w => match txs.find? (·.w == w) with | some t => some t.fee | none => none }

def errName : TxErr → String
  | .timeRelative => "timerel" | .capacity => "capacity" | .script => "script" | .fee => "fee"

/-- `BlockTxsVerifier::verify` = `Model.Cache.blockVerify` on the line's content -/
def blockLine (max : Nat) (c : VCache) (txs : List TxD) : VCache × String :=
  let r := blockVerify (contentOf txs) max c (txs.map fun t => (t.w, t.tr))
  match r.2 with
  | .error (.tx e) => (r.1, "err " ++ errName e)
  | .error .cycles => (r.1, "err cycles")
  | .ok cs => (r.1, s!"ok fees={showNatList (cs.map (·.fee))} cycles={showNatList (cs.map (·.cycles))}")

/-- `BlockTxsVerifier::verify(_, skip_script_verify = true)` = `Model.Cache.blockVerifySw … true` -/
def blockLineSkip (max : Nat) (c : VCache) (txs : List TxD) : VCache × String :=
  let r := blockVerifySw (contentOf txs) max c true (txs.map fun t => (t.w, t.tr))
  match r.2 with
  | .error (.tx e) => (r.1, "err " ++ errName e)
  | .error .cycles => (r.1, "err cycles")
  | .ok cs => (r.1, s!"ok fees={showNatList (cs.map (·.fee))} cycles={showNatList (cs.map (·.cycles))}")

def txOut : Except TxErr Completed → String
  | .error e => "err " ++ errName e
  | .ok c => s!"ok cycles={c.cycles} fee={c.fee}"

def getCol (s : DS) (c : String) : Cached Nat :=
  match s.cols.find? (·.1 == c) with | some x => x.2 | none => ⟨fun _ => none, []⟩

def setCol (s : DS) (c : String) (v : Cached Nat) : DS :=
  { s with cols := (c, v) :: s.cols.filter (·.1 != c) }

def showOpt : Option Nat → String
  | some _ => "some" | none => "none"

def cellsStep (s : DS) (which : String) (op : LOp Nat) : DS × LAns Nat :=
  if which == "hash" then let r := lstep s.chash op; ({ s with chash := r.1 }, r.2)
  else let r := lstep s.cdata op; ({ s with cdata := r.1 }, r.2)

/-! ### SYSTEM_CELL lines -/

def provOf (s : DS) : Prov :=
  { status := fun op => match s.stat.find? (fun e => e.1 ≤ op && op ≤ e.2.1) with | some e => e.2.2 | none => .unknown
    members := fun op => match s.grps.find? (·.1 == op) with | some e => e.2 | none => none }

def parseRange (t : String) : Option (Nat × Nat) :=
  match t.splitOn "-" with
  | [a] => do let a ← parseNat? a; pure (a, a)
  | [a, b] => do let a ← parseNat? a; let b ← parseNat? b; pure (a, b)
  | _ => none

def parsePlus (t : String) : Option (List Nat) :=
  if t == "x" then none else some ((t.splitOn "+").filterMap parseNat?)

def parseSysEntry (t : String) : Option (Dep × SysDep) :=
  if t.startsWith "c" then do
    let op ← parseNat? (t.drop 1).toString
    pure (⟨op, false⟩, .cell op)
  else if t.startsWith "g" then
    match (t.drop 1).toString.splitOn "=" with
    | [g, ms] => do
      let g ← parseNat? g
      pure (⟨g, true⟩, .group g ((ms.splitOn "+").filterMap parseNat?))
    | _ => none
  else none

def parseDeps (t : String) : List Dep :=
  if t == "-" then [] else
  (t.splitOn ",").flatMap fun tok =>
    let grp := tok.startsWith "g"
    match parseRange (tok.drop 1).toString with
    | some (a, b) => (List.range (b + 1 - a)).map fun i => (⟨a + i, grp⟩ : Dep)
    | none => []

def depErrOut : DepErr → String
  | .dead op => s!"err dead {op}"
  | .unknown op => s!"err unknown {op}"
  | .invalidGroup op => s!"err invalid {op}"
  | .overMax => "err overmax"

def checksum (l : List Nat) : Nat := l.foldl (fun acc x => (acc * 31 + x + 1) % 1000000007) 0

def step (s : DS) (ts : List String) : DS × String :=
  match ts with
  | ["max", m] => ({ s with max := (parseNat? m).getD 0 }, "ok")
  | ["blk", txs] =>
    let (c', out) := blockLine s.max s.cache (parseTxs txs)
    ({ s with cache := c' }, out)
  | ["blks", txs] =>
    let (c', out) := blockLineSkip s.max s.cache (parseTxs txs)
    ({ s with cache := c' }, out)
  | ["warm", txs] =>
    let (c', _) := blockLine s.max s.cache (parseTxs txs)
    ({ s with cache := c' }, "ok")
  | ["sub", tx] =>
    match parseTx tx with
    | some t =>
      let r := vstep (contentOf [t]) s.max s.cache (.verify t.w t.tr)
      ({ s with cache := r.1 }, match r.2 with | some (.ok _) => "ok" | some (.error e) => "err " ++ errName e | none => "bad-op")
    | none => (s, "bad-op")
  | ["tst", tx] =>
    match parseTx tx with
    | some t => (s, txOut (cached (contentOf [t]) s.max s.cache t.tr t.w))
    | none => (s, "bad-op")
  | ["clear"] => ({ s with cache := [] }, "ok")
  | ["sw", c, k] =>
    match parseNat? k with
    | some k => (setCol s c (sstep (getCol s c) (.write k k)).1, "ok")
    | none => (s, "bad-op")
  | ["sd", c, k] =>
    match parseNat? k with
    | some k => (setCol s c (sstep (getCol s c) (.delete k)).1, "ok")
    | none => (s, "bad-op")
  | ["sr", c, k] =>
    match parseNat? k with
    | some k =>
      let r := sstep (getCol s c) (.read k)
      (setCol s c r.1, match r.2 with | some a => showOpt a | none => "bad-op")
    | none => (s, "bad-op")
  | ["cw", k] =>
    match parseNat? k with
    | some k => ((cellsStep (cellsStep s "data" (.create k k)).1 "hash" (.create k k)).1, "ok")
    | none => (s, "bad-op")
  | ["cd", k] =>
    match parseNat? k with
    | some k => ((cellsStep (cellsStep s "data" (.consume k)).1 "hash" (.consume k)).1, "ok")
    | none => (s, "bad-op")
  | ["live", k] =>
    match parseNat? k with
    | some k => match (cellsStep s "data" (.haveCell k)).2 with
      | .live b => (s, if b then "true" else "false")
      | _ => (s, "bad-op")
    | none => (s, "bad-op")
  | ["cg", which, k] =>
    match parseNat? k with
    | some k =>
      let r := cellsStep s which (.getData k)
      (r.1, match r.2 with | .data d => showOpt d | _ => "bad-op")
    | none => (s, "bad-op")
  | ["cl", which, k] =>
    match parseNat? k with
    | some k => ((cellsStep s which (.load k)).1, "ok")
    | none => (s, "bad-op")
  | ["sys", m] =>
    if m == "-" then ({ s with sys := none }, "ok")
    else ({ s with sys := some ((m.splitOn ",").filterMap parseSysEntry) }, "ok")
  | ["st", st, rs] =>
    let v : CellSt := if st == "live" then .live else if st == "dead" then .dead else .unknown
    let add := (rs.splitOn ",").filterMap fun r => (parseRange r).map fun (a, b) => (a, b, v)
    ({ s with stat := add ++ s.stat }, "ok")
  | ["grp", g, ms] =>
    match parseNat? g with
    | some g => ({ s with grps := (g, parsePlus ms) :: s.grps }, "ok")
    | none => (s, "bad-op")
  | ["res", seen, deps] =>
    let seen := if seen == "-" then [] else (seen.splitOn ",").filterMap parseNat?
    match resolveDeps CkbVerif.Gen.Cache.MAX_DEP_EXPANSION_LIMIT s.sys seen (provOf s) (parseDeps deps) with
    | .error e => (s, depErrOut e)
    | .ok r => ({ s with last := r }, s!"ok cells={r.cellDeps.length} h={checksum r.cellDeps} groups={showNatList r.depGroups}")
  | ["chk"] =>
    match checkDeps s.sys (provOf s) s.last with
    | .error e => (s, depErrOut e)
    | .ok _ => (s, "ok")
  | _ => (s, "bad-op")

def main (_args : List String) : IO UInt32 :=
  runLines ({} : DS) step

end CkbVerif.Driver.C14
