import CkbVerif.Driver.Util
import CkbVerif.Model.Cache

/-! Line-protocol driver for C14 (protocol: see harness/n14/src/c14.rs).

```
max <cycles>                                   block cycle limit of the case                     → ok
blk <w>:<timeRel>:<capOk>:<cycles|x>:<fee>;…   one verified block: its non-cellbase transactions → ok fees=… cycles=… | err <class>
warm <w>:…                                     a block verified inside an attempt that failed later (results dropped, cache kept) → ok
clear                                          the node's verification cache is emptied           → ok
```
The model keeps the verification cache and answers each `blk` through the *cached* path; the
transaction content (`capOk`, cycles, fee) on the line comes from full verifications.
-/
namespace CkbVerif.Driver.C14
open CkbVerif.Driver CkbVerif.Cache

structure TxD where
  w : Nat
  tr : Bool
  cap : Bool
  cyc : Option Nat
  fee : Nat

structure DS where
  max : Nat := 0
  cache : VCache := []

def parseTx (s : String) : Option TxD :=
  match s.splitOn ":" with
  | [w, tr, cap, cyc, fee] => do
    let w ← parseNat? w
    let fee ← parseNat? fee
    pure { w := w, tr := tr == "1", cap := cap == "1", cyc := parseNat? cyc, fee := fee }
  | _ => none

def parseTxs (s : String) : List TxD :=
  if s == "-" then [] else (s.splitOn ";").filterMap parseTx

/-- the content oracle of one line -/
def contentOf (txs : List TxD) : Content :=
  { capacityOk := fun w => match txs.find? (·.w == w) with | some t => t.cap | none => true
    script := fun w => match txs.find? (·.w == w) with | some t => t.cyc | none => none
    fee := fun w => match txs.find? (·.w == w) with | some t => some t.fee | none => none }

/-- `BlockTxsVerifier::verify`: every transaction through the cached path against the cache as
fetched at the start; on success all results are put, then the cycle sum is checked -/
def blockVerify (max : Nat) (c : VCache) (txs : List TxD) : VCache × String :=
  let k := contentOf txs
  let rs := txs.map fun t => (t.w, cached k max c t.tr t.w)
  match rs.find? (fun r => match r.2 with | .error _ => true | .ok _ => false) with
  | some (_, .error e) =>
    (c, "err " ++ (match e with | .timeRelative => "timerel" | .capacity => "capacity" | .script => "script" | .fee => "fee"))
  | _ =>
    let oks := rs.filterMap fun r => match r.2 with | .ok e => some (r.1, e) | .error _ => none
    let c' := oks.foldl (fun acc (r : Nat × Completed) => (r.1, r.2) :: acc.filter (fun x => x.1 != r.1)) c
    let sum := (oks.map (·.2.cycles)).sum
    if sum > max then (c', "err cycles")
    else (c', s!"ok fees={showNatList (oks.map (·.2.fee))} cycles={showNatList (oks.map (·.2.cycles))}")

def step (s : DS) (ts : List String) : DS × String :=
  match ts with
  | ["max", m] => ({ s with max := (parseNat? m).getD 0 }, "ok")
  | ["blk", txs] =>
    let (c', out) := blockVerify s.max s.cache (parseTxs txs)
    ({ s with cache := c' }, out)
  | ["warm", txs] =>
    let (c', _) := blockVerify s.max s.cache (parseTxs txs)
    ({ s with cache := c' }, "ok")
  | ["clear"] => ({ s with cache := [] }, "ok")
  | _ => (s, "bad-op")

def main (_args : List String) : IO UInt32 :=
  runLines ({} : DS) step

end CkbVerif.Driver.C14
