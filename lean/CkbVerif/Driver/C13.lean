import CkbVerif.Driver.Util
namespace CkbVerif.Driver.C13
def main (_args : List String) : IO UInt32 := do
  IO.eprintln "C13: model driver not implemented"
  return 2
end CkbVerif.Driver.C13
