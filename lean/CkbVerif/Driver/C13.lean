import CkbVerif.Driver.Util
import CkbVerif.Model.Selector
import CkbVerif.Model.Template
import CkbVerif.Model.AssemblerSvc
import CkbVerif.Gen.Template

/-! Line-protocol driver for C13 (protocol: harness/n13/src/c13.rs). -/
namespace CkbVerif.Driver.C13
open CkbVerif.Driver CkbVerif.Selector

structure DSt where
  ents : List PEntry := []          -- reversed
  ties : List (Nat × Nat) := []
  /-- consensus limits of the `cfg` line -/
  cfg : CkbVerif.Rules.Cfg := {}
  /-- the directly driven `CandidateUncles` (ops `cu-*`) -/
  cu : CkbVerif.AssemblerSvc.CU := {}

def DSt.view (s : DSt) : View :=
  View.ofLinks s.ents.reverse (fun id => match s.ties.find? (·.1 == id) with | some p => p.2 | none => 1000000000 + id)

def sortNat (l : List Nat) : List Nat := sortBy (fun a b => decide (a < b)) l

/-! ### `astep`: one real update path of the block assembler against `AssemblerSvc.gstep` -/
open CkbVerif.Rules (Uncle) in
/-- `a.b.c` or `_` -/
def parseDotList? (s : String) : Option (List Nat) :=
  if s = "_" then some [] else (s.splitOn ".").mapM parseNat?

/-- one uncle `id:parent:number:epoch:target:flags:props`; flags = 8·is_main + 4·is_uncle + 2·parent_is_main + parent_is_uncle -/
def parseUncle? (s : String) : Option (CkbVerif.Rules.Uncle × Nat) :=
  match s.splitOn ":" with
  | [id, par, num, ep, tg, fl, ps] =>
    match parseNats? [id, par, num, ep, tg, fl], parseDotList? ps with
    | some [id, par, num, ep, tg, fl], some ps =>
      some ({ id := id, parent := par, number := num, epochNumber := ep, target := tg, proposals := ps }, fl)
    | _, _ => none
  | _ => none

def parseUncles? (s : String) : Option (List (CkbVerif.Rules.Uncle × Nat)) :=
  if s = "-" then some [] else (s.splitOn ";").mapM parseUncle?

/-- `id:size:cycles,…` -/
def parseTxs? (s : String) : Option (List Entry) :=
  if s = "-" then some [] else
  (s.splitOn ",").mapM fun t =>
    match (t.splitOn ":").mapM parseNat? with
    | some [id, size, cycles] => some ⟨id, size, cycles, 0, 0, 0, 0, 0⟩
    | _ => none

/-- rebuild the container from `values()` (ascending heights, one group per height) -/
def cuOfValues (us : List CkbVerif.Rules.Uncle) : CkbVerif.AssemblerSvc.CU :=
  let map := us.foldl (fun (acc : List (Nat × List CkbVerif.Rules.Uncle)) u =>
    match acc.getLast? with
    | some (k, set) => if k == u.number then acc.dropLast ++ [(k, set ++ [u])] else acc ++ [(u.number, [u])]
    | none => [(u.number, [u])]) []
  ⟨map, us.length⟩

def showHeights (c : CkbVerif.AssemblerSvc.CU) : String :=
  if c.map.isEmpty then "-" else
  ";".intercalate (c.map.map fun p => s!"{p.1}:{".".intercalate ((sortNat (p.2.map (·.id))).map toString)}")

def step (s : DSt) (ts : List String) : DSt × String :=
  match ts with
  | ["pool"] => ({ s with ents := [], ties := [] }, "ok")
  | ["ent", id, prop, size, cycles, fee, ac, asz, acy, af, kf, kw, kaf, kaw, tie, ps, cs] =>
    match parseNats? [id, prop, size, cycles, fee, ac, asz, acy, af, kf, kw, kaf, kaw, tie], parseNatList? ps, parseNatList? cs with
    | some [id, prop, size, cycles, fee, ac, asz, acy, af, kf, kw, kaf, kaw, tie], some ps, some cs =>
      let e : Entry := ⟨id, size, cycles, fee, ac, asz, acy, af⟩
      let pe : PEntry := ⟨e, prop != 0, ⟨kf, kw, kaf, kaw⟩, ps, cs⟩
      ({ s with ents := pe :: s.ents, ties := (id, tie) :: s.ties }, "ok")
    | _, _, _ => (s, "bad-op")
  | ["weight", size, cycles] =>
    match parseNat? size, parseNat? cycles with
    | some a, some b => (s, toString (weight a b))
    | _, _ => (s, "bad-op")
  | ["closure", id] =>
    match parseNat? id with
    | some id =>
      let v := s.view
      (s, s!"anc={showNatList (sortNat (v.anc id))} desc={showNatList (sortNat (v.desc id))}")
    | none => (s, "bad-op")
  | ["hyp"] =>
    let v := s.view
    let b (x : Bool) : String := if x then "1" else "0"
    (s, s!"links={b (decide (LinksOk v))} exact={b (decide (LinksExact v))} agg={b (decide (AggExact v))} key={b (decide (KeysOk v))}")
  | ["select", sl, cl] =>
    match parseNat? sl, parseNat? cl with
    | some sl, some cl =>
      let r := txsToCommit s.view sl cl
      (s, s!"{showNatList (r.out.map (·.id))} size={r.size} cycles={r.cycles}")
    | _, _ => (s, "bad-op")
  | ["tsize", mx, u, base, nu, np, ta, st, sp, su, tot] =>
    -- the real assembler's TemplateSize next to the real sizes of its template: the clauses of
    -- `Template.Inv` (the invariant of theorem `template_size_le_max`) evaluated on that state
    match parseNats? [mx, u, base, nu, np, ta, st, sp, su, tot] with
    | some [mx, u, base, nu, np, ta, st, sp, su, tot] =>
      let t : CkbVerif.Template.TSt := ⟨mx, u, base, nu, np, ta, st, sp, su, tot⟩
      let b (x : Bool) : String := if x then "1" else "0"
      let parts := decide (t.sTxs = t.txsActual) && decide (t.sProposals = CkbVerif.Template.P * t.nProposals) && decide (t.sUncles = t.U * t.nUncles)
      (s, s!"total={b (decide (t.sTotal = t.actual))} parts={b parts} le={b (decide (t.actual ≤ t.max))} inv={b (decide (CkbVerif.Template.Inv t))}")
    | _ => (s, "bad-op")
  | ["cfg", _, _, _, mb, mc, mp, mu, _, _] =>
    match parseNats? [mb, mc, mp, mu] with
    | some [mb, mc, mp, mu] => ({ s with cfg := { s.cfg with maxBytes := mb, maxCycles := mc, maxProposals := mp, maxUncles := mu } }, "ok")
    | _ => (s, "bad-op")
  | ["astep", kind, sameTip, uSize, tipN, ep, tg, base, sTxs, sProps, sUncles, sTotal, tUncles, tProps, tTxs, cands, pending, keep] =>
    match parseNats? [kind, sameTip, uSize, tipN, ep, tg, base, sTxs, sProps, sUncles, sTotal],
          parseUncles? tUncles, parseNatList? tProps, parseTxs? tTxs, parseUncles? cands, parseNatList? pending, parseNatList? keep with
    | some [kind, sameTip, uSize, tipN, ep, tg, base, sTxs, sProps, sUncles, sTotal], some tUncles, some tProps, some tTxs, some cands, some pending, some keep =>
      let tbl : List (Nat × Bool × Bool) := cands.flatMap fun (u, fl) =>
        [(u.id, fl / 8 % 2 == 1, fl / 4 % 2 == 1), (u.parent, fl / 2 % 2 == 1, fl % 2 == 1)]
      let snap : CkbVerif.Assembler.Snap :=
        { tipNumber := tipN
          isMain := fun h => match tbl.find? (·.1 == h) with | some x => x.2.1 | none => false
          isUncle := fun h => match tbl.find? (·.1 == h) with | some x => x.2.2 | none => false }
      let tip : CkbVerif.Assembler.Tip :=
        { snap := snap, epochNumber := ep, target := tg, base := base, cbOutputs := 0, cbId := 0, cbWitnessOk := true, cbLockOk := true }
      let t : CkbVerif.Assembler.Tmpl :=
        { uncles := tUncles.map (·.1), proposals := tProps, txs := tTxs, sTxs := sTxs, sProposals := sProps, sUncles := sUncles, sTotal := sTotal }
      let g : CkbVerif.AssemblerSvc.GSt := { a := ⟨tip, t⟩, tipId := 1, cu := cuOfValues (cands.map (·.1)) }
      let poolTip := if sameTip == 1 then 1 else 2
      let keepF : Entry → Bool := fun e => keep.contains e.id
      let op : Option CkbVerif.AssemblerSvc.GOp :=
        match kind with
        | 0 => some (.reset tip 1)
        | 1 => some (.full poolTip pending s.view keepF)
        | 2 => some .uncles
        | 3 => some (.proposals poolTip pending)
        | 4 => some (.txs poolTip s.view keepF)
        | _ => none
      match op with
      | none => (s, "bad-op")
      | some op =>
        let g' := CkbVerif.AssemblerSvc.gstep s.cfg uSize CkbVerif.Gen.Template.MAX_CANDIDATE_UNCLES CkbVerif.Gen.Template.MAX_PER_HEIGHT g op
        let t' := g'.a.t
        (s, s!"uncles={showNatList (t'.uncles.map (·.id))} props={showNatList (sortNat t'.proposals)} txs={showNatList (t'.txs.map (·.id))} size={t'.sTxs},{t'.sProposals},{t'.sUncles},{t'.sTotal} cands={showNatList (sortNat (g'.cu.values.map (·.id)))}")
    | _, _, _, _, _, _, _ => (s, "bad-op")
  | ["cellbase", fd, tipN, total, occ] =>
    match parseNats? [fd, tipN, total, occ] with
    | some [fd, tipN, total, occ] => (s, s!"outputs={CkbVerif.Assembler.cellbaseOutputs fd tipN total occ}")
    | _ => (s, "bad-op")
  | ["astep-stale", _] => (s, "stale")
  | ["cu-new"] => ({ s with cu := {} }, "ok")
  | ["cu-ins", id, num] =>
    match parseNat? id, parseNat? num with
    | some id, some num =>
      let r := s.cu.insert CkbVerif.Gen.Template.MAX_CANDIDATE_UNCLES CkbVerif.Gen.Template.MAX_PER_HEIGHT
        { id := id, parent := 0, number := num, epochNumber := 0, target := 0 }
      ({ s with cu := r.1 }, s!"{if r.2 then 1 else 0} len={r.1.count}")
    | _, _ => (s, "bad-op")
  | ["cu-rm", id, num] =>
    match parseNat? id, parseNat? num with
    | some id, some num =>
      let r := s.cu.removeByNumber { id := id, parent := 0, number := num, epochNumber := 0, target := 0 }
      ({ s with cu := r.1 }, s!"{if r.2 then 1 else 0} len={r.1.count}")
    | _, _ => (s, "bad-op")
  | ["cu-has", id, num] =>
    match parseNat? id, parseNat? num with
    | some id, some num =>
      (s, if s.cu.contains { id := id, parent := 0, number := num, epochNumber := 0, target := 0 } then "1" else "0")
    | _, _ => (s, "bad-op")
  | ["cu-vals"] => (s, showHeights s.cu)
  | ["select-stale", _, _] =>
    -- the dumped pool violates the theorems' hypotheses (see `hyp`): the implementation's result is
    -- HashSet-order dependent there; nothing to compare beyond the classification itself
    (s, "stale")
  | op :: _ =>
    -- scenario ops act on the real node only; their effect reaches the model through the dumps
    if ["step", "submit", "wait", "template", "mine", "fork", "uncle", "make", "send", "propose"].contains op then (s, "ok") else (s, "bad-op")
  | _ => (s, "bad-op")

def main (_args : List String) : IO UInt32 := runLines ({} : DSt) step

end CkbVerif.Driver.C13
