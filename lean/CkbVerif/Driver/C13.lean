import CkbVerif.Driver.Util
import CkbVerif.Model.Selector
import CkbVerif.Model.Template

/-! Line-protocol driver for C13 (protocol: harness/n13/src/c13.rs). -/
namespace CkbVerif.Driver.C13
open CkbVerif.Driver CkbVerif.Selector

structure DSt where
  ents : List PEntry := []          -- reversed
  ties : List (Nat × Nat) := []

def DSt.view (s : DSt) : View :=
  View.ofLinks s.ents.reverse (fun id => match s.ties.find? (·.1 == id) with | some p => p.2 | none => 1000000000 + id)

def sortNat (l : List Nat) : List Nat := sortBy (fun a b => decide (a < b)) l

def step (s : DSt) (ts : List String) : DSt × String :=
  match ts with
  | ["pool"] => ({ s with ents := [], ties := [] }, "ok")
  | ["ent", id, prop, size, cycles, fee, ac, asz, acy, af, kf, kw, kaf, kaw, tie, ps, cs] =>
    match parseNats? [id, prop, size, cycles, fee, ac, asz, acy, af, kf, kw, kaf, kaw, tie], parseNatList? ps, parseNatList? cs with
    | some [id, prop, size, cycles, fee, ac, asz, acy, af, kf, kw, kaf, kaw, tie], some ps, some cs =>
      let e : Entry := ⟨id, size, cycles, fee, ac, asz, acy, af⟩
      let pe : PEntry := ⟨e, prop != 0, ⟨kf, kw, kaf, kaw⟩, ps, cs⟩
      ({ s with ents := pe :: s.ents, ties := (id, tie) :: s.ties }, "ok")
    | _, _, _ => (s, "bad-op")
  | ["weight", size, cycles] =>
    match parseNat? size, parseNat? cycles with
    | some a, some b => (s, toString (weight a b))
    | _, _ => (s, "bad-op")
  | ["closure", id] =>
    match parseNat? id with
    | some id =>
      let v := s.view
      (s, s!"anc={showNatList (sortNat (v.anc id))} desc={showNatList (sortNat (v.desc id))}")
    | none => (s, "bad-op")
  | ["hyp"] =>
    let v := s.view
    let b (x : Bool) : String := if x then "1" else "0"
    (s, s!"links={b (decide (LinksOk v))} exact={b (decide (LinksExact v))} agg={b (decide (AggExact v))} key={b (decide (KeysOk v))}")
  | ["select", sl, cl] =>
    match parseNat? sl, parseNat? cl with
    | some sl, some cl =>
      let r := txsToCommit s.view sl cl
      (s, s!"{showNatList (r.out.map (·.id))} size={r.size} cycles={r.cycles}")
    | _, _ => (s, "bad-op")
  | ["tsize", mx, u, base, nu, np, ta, st, sp, su, tot] =>
    -- the real assembler's TemplateSize next to the real sizes of its template: the clauses of
    -- `Template.Inv` (the invariant of theorem `template_size_le_max`) evaluated on that state
    match parseNats? [mx, u, base, nu, np, ta, st, sp, su, tot] with
    | some [mx, u, base, nu, np, ta, st, sp, su, tot] =>
      let t : CkbVerif.Template.TSt := ⟨mx, u, base, nu, np, ta, st, sp, su, tot⟩
      let b (x : Bool) : String := if x then "1" else "0"
      let parts := decide (t.sTxs = t.txsActual) && decide (t.sProposals = CkbVerif.Template.P * t.nProposals) && decide (t.sUncles = t.U * t.nUncles)
      (s, s!"total={b (decide (t.sTotal = t.actual))} parts={b parts} le={b (decide (t.actual ≤ t.max))} inv={b (decide (CkbVerif.Template.Inv t))}")
    | _ => (s, "bad-op")
  | ["select-stale", _, _] =>
    -- the dumped pool violates the theorems' hypotheses (see `hyp`): the implementation's result is
    -- HashSet-order dependent there; nothing to compare beyond the classification itself
    (s, "stale")
  | op :: _ =>
    -- scenario ops act on the real node only; their effect reaches the model through the dumps
    if ["cfg", "submit", "wait", "template", "mine", "fork", "uncle", "make", "send", "propose"].contains op then (s, "ok") else (s, "bad-op")
  | _ => (s, "bad-op")

def main (_args : List String) : IO UInt32 := runLines ({} : DSt) step

end CkbVerif.Driver.C13
