import CkbVerif.Driver.Util
import CkbVerif.Driver.C15
import CkbVerif.Model.Compact
import CkbVerif.Model.Frame
import CkbVerif.Model.Proto
import CkbVerif.Model.Alert
import CkbVerif.Model.LightGuards

/-! Line-protocol driver for C16 (protocols: harness/hcore/src/c16.rs, harness/hnode/src/c16.rs).

Stream `wire`:
  ver <Type> <s|c> <hex>     -> ok | err
  gate <sync|relay> <hex>    -> strict <id> | compat <id> | too-many-fields | malformed
Stream `recv` (the real `Synchronizer::received` / `Relayer::received`, harness/hnode/src/c16_recv.rs):
  recv <sync|relay> <hex>    -> pass <id> | too-many-fields | malformed
  peer <k>                   -> ok      (the gate is per message: which peer sends it does not matter)
Stream `proto` (filter / light-client / time handlers, discovery / identify / ping decoders, harness/hnode/src/c16_proto.rs):
  px filter <hex>            -> pass <id> | malformed
  lchain <hex32,..>          -> ok          the main-chain block hashes by number (after every `case` line)
  px light <hex>             -> pass <id> | malformed; a GetLastStateProof: pass <id> <toomany | start-above-last | unsorted | boundary | last=<n>>
       the guard of `GetLastStateProofProcess::execute` that refuses it (`Model/LightGuards.lean`), else the number of
       the last header of the reply (the tip when `last_hash` is not on the main chain)
  px time <hex>              -> pass | malformed
  px disc <hex>              -> none | getnodes <version> <count> <port|-> <flags> | nodes <0|1> <flags,..|-> | nodes-addr
  px ident <hex>             -> none | ok
  px idv <hex>               -> none | some <flags>     (`Identify::verify`, the UTF-8 tests included)
  px ping <hex>              -> none | ping <nonce> | pong <nonce>
Stream `alert` (the real `AlertRelayer::received` / `connected`, harness/n16/src/c16_alert.rs, `Model/Alert.lean`):
  cfg <m> <key indexes>      -> ok          a new relayer (threshold, configured keys), no connected peers
  peers <peer list>          -> ok          `connected_peers()` from now on
  now <ms>                   -> ok
  recv <peer> <hex> <classes> -> <malformed | not-utf8 | ignored | badsig <overflow|notenough|threshold <n>> | relay <peers|->> recv=<ids> noticed=<ids|?>
       classes: per signature item `k<j>` (signed by key j over this alert's hash) or `x`; `-` = none
  conn <peer>                -> sent <ids> recv=<ids> noticed=<ids|?>
Stream `cb`:
  recon root=<ids|bad> ph=<ok|bad> eh=<ok|bad> sids=<ids> pre=<i:t;…> recv=<ids> uncles=<n> upeer=<idx list> ext=<0|1> props=<n>
       -> verify-err <kind> | block txs=<ids> hdr=<same|reset> | missing txs=<idx> uncles=<idx> | collided | unmatched
     (transaction `t` has short id `t`; the pool is empty; uncles not supplied by the peer are unknown to the chain)
  btxv sids=<ids> pre=<i:t;…> idx=<indexes> txs=<ids>
       -> panic | length | shortids | ok        `BlockTransactionsVerifier::verify` on the compact block, as the
     source reads (`panic` only while `block_short_ids.get(index)` is unwrapped — translated switch)
  unv uncles=<n> idx=<indexes> recv=<uncle ids>
       -> length | unmatched | ok total | ok panic     `BlockUnclesVerifier::verify` as the source reads, then — as
     `BlockTransactionsProcess::execute` does on `ok` — the uncles loop of `reconstruct_block`
     (`panic` = `received_uncles.get(position).expect(..)`); uncle `j` has hash `500 + j`
Stream `frame`:
  dec <hex>                  -> err | raw <len> | snappy <len>
  cmp <len>                  -> raw | snappy
Stream `codec` (the production `LengthDelimitedCodecWithCompress`, `Model/Frame.lean` second half):
  conn <maxFrame> <0|1>      -> ok                   a new connection (decoder in its initial state)
  feed <spec>                -> <items|-> <pending <buffered bytes> | err | closed>
       the next chunk of bytes arrives; the frames `decode` delivers until it answers `Ok(None)` /
       `Err`; item = `<len>:<fnv-1a-64 of the delivered buffer>`; `closed` = a chunk after an error
  enc <clen> <spec>          -> err | flag=<0|128> len=<frame length>
       `encode` of the payload `spec`, whose snappy compression is `clen` bytes long
  spec = `,`-separated segments, each `<hex>` or `<hex>*<count>` (the pattern repeated), `-` = empty.
  Snappy itself is not part of `Model/Frame.lean` (the theorems take the decoder as a parameter);
  the driver finishes `snappy` items with its own decoder of the snappy raw format
  (`snappyDecode` below) and closes the connection at the first item the decoder refuses —
  exactly what `decode` does (`Err(InvalidData)`), the remaining items of the model are dropped.
-/
namespace CkbVerif.Driver.C16
open CkbVerif.Driver CkbVerif.Molecule CkbVerif.Compact

def gateLine : Gate → String
  | .strict id => s!"strict {id}"
  | .compat id => s!"compat {id}"
  | .tooManyFields => "too-many-fields"
  | .malformed => "malformed"

def stepWire (ts : List String) : String :=
  match ts with
  | ["ver", t, m, hx] =>
    match C15.lookup t, C15.modeOf m, C15.unhex hx with
    | some s, some c, some bs => if verify c s bs then "ok" else "err"
    | _, _, _ => "bad-op"
  | ["recv", which, hx] =>
    -- the same gate seen from outside `received`: did the message go on to `process`?
    match C15.unhex hx with
    | some bs =>
      let g := if which = "sync" then some (gateSync bs) else if which = "relay" then some (gateRelay bs) else none
      match g with
      | some (.strict id) => s!"pass {id}"
      | some (.compat id) => s!"pass {id}"
      | some .tooManyFields => "too-many-fields"
      | some .malformed => "malformed"
      | none => "bad-op"
    | none => "bad-op"
  | ["peer", _] => "ok"  -- stream `recv`: the following messages come from another peer of the case
  | ["gate", which, hx] =>
    match C15.unhex hx with
    | some bs =>
      if which = "sync" then gateLine (gateSync bs)
      else if which = "relay" then gateLine (gateRelay bs)
      else "bad-op"
    | none => "bad-op"
  | _ => "bad-op"

/-- the network identifier the harness asks `Identify::verify` with -/
def netName : List UInt8 := "ckb_verif".toUTF8.toList

def stepProto (chain : List (List UInt8)) (ts : List String) : String :=
  match ts with
  | ["px", which, hx] =>
    match C15.unhex hx with
    | none => "bad-op"
    | some bs =>
      if which = "filter" then
        match CkbVerif.Proto.gateFilter bs with
        | .pass id => s!"pass {id}"
        | .malformed => "malformed"
      else if which = "light" then
        match CkbVerif.Proto.gateLight bs with
        | .pass id =>
          if id = CkbVerif.Gen.Schemas.U.LightClientMessage.GetLastStateProof then
            match CkbVerif.Proto.lightTooMany bs, CkbVerif.Proto.glspGuards chain bs with
            | none, _ => s!"pass {id} overflow"
            | _, none => s!"pass {id} overflow"
            | some true, _ => s!"pass {id} toomany"
            | some false, some .tooMany => s!"pass {id} toomany?"
            | some false, some .tipState => s!"pass {id} last={chain.length - 1}"
            | some false, some .startAboveLast => s!"pass {id} start-above-last"
            | some false, some .unsorted => s!"pass {id} unsorted"
            | some false, some .boundary => s!"pass {id} boundary"
            | some false, some (.proceed l) => s!"pass {id} last={l}"
          else s!"pass {id}"
        | .malformed => "malformed"
      else if which = "time" then
        if CkbVerif.Proto.gateTime bs then "pass" else "malformed"
      else if which = "disc" then
        -- a well-formed Nodes message that carries an address: Multiaddr parsing is not modelled
        let hasAddr :=
          verify true CkbVerif.Gen.Schemas.S.DiscoveryMessage bs &&
          (let payload := CkbVerif.Proto.fld bs 0
           num payload == CkbVerif.Gen.Schemas.U.DiscoveryPayload.Nodes &&
           (CkbVerif.Proto.dynItems (CkbVerif.Proto.fld (payload.drop 4) 1)).any
             (fun node => !(CkbVerif.Proto.dynItems (CkbVerif.Proto.fld node 0)).isEmpty))
        if hasAddr then "nodes-addr" else
        match CkbVerif.Proto.discDecode bs with
        | .none => "none"
        | .getNodes v c p f =>
          let ps := match p with | some x => toString x | none => "-"
          s!"getnodes {v} {c} {ps} {f}"
        | .nodes a items =>
          let fs := if items.isEmpty then "-" else ",".intercalate (items.map (fun it => toString it.2))
          s!"nodes {if a then 1 else 0} {fs}"
      else if which = "ident" then
        if verify true CkbVerif.Gen.Schemas.S.IdentifyMessage bs then "ok" else "none"
      else if which = "idv" then
        match CkbVerif.Alert.identifyVerifyFull netName bs with
        | .none => "none"
        | .some f => s!"some {f}"
        | .undecided => "utf8?"  -- not reachable: `identify_verify_decided`
      else if which = "ping" then
        match CkbVerif.Proto.pingDecode bs with
        | .none => "none"
        | .ping n => s!"ping {n}"
        | .pong n => s!"pong {n}"
      else "bad-op"
  | _ => "bad-op"

/-- `key=value` → value -/
def field (ts : List String) (key : String) : Option String :=
  ts.findSome? fun t =>
    match t.splitOn "=" with
    | [k, v] => if k = key then some v else none
    | _ => none

def parsePairs (s : String) : Option (List (Nat × Nat)) :=
  if s = "-" then some [] else
  (s.splitOn ";").mapM fun p =>
    match p.splitOn ":" with
    | [a, b] =>
      match parseNat? a, parseNat? b with
      | some a, some b => some (a, b)
      | _, _ => none
    | _ => none

/-- injective on the small id lists the harness uses (ids < 9999) -/
def encList (l : List Nat) : Nat := l.foldl (fun acc x => acc * 10000 + x + 1) 1

def hashes : Hashes :=
  { root := fun txs => encList (txs.map (·.id))
    phash := fun ps => encList ps
    ehash := fun us ext => encList us * 2 + (match ext with | some _ => 1 | none => 0) }

def errLine : CbErr → String
  | .noCellbase => "no-cellbase"
  | .outOfIndex => "out-of-index"
  | .outOfOrder => "out-of-order"
  | .dupShortIds => "dup-short-ids"
  | .dupPrefilled => "dup-prefilled"

def stepCb (ts : List String) : String :=
  match ts with
  | "recon" :: rest =>
    let r : Option (CB × List Tx × List Nat) := do
      let root ← field rest "root"
      let ph ← field rest "ph"
      let eh ← field rest "eh"
      let sids ← (field rest "sids").bind parseNatList?
      let pre ← (field rest "pre").bind parsePairs
      let recv ← (field rest "recv").bind parseNatList?
      let nu ← (field rest "uncles").bind parseNat?
      let upeer ← (field rest "upeer").bind parseNatList?
      let ext ← (field rest "ext").bind parseNat?
      let np ← (field rest "props").bind parseNat?
      let mk (i : Nat) : Tx := { id := i, sid := i }
      let uncles := (List.range nu).map (· + 500)
      let props := (List.range np).map (· + 700)
      let extension := if ext = 1 then some 1 else none
      let rootv ← (if root = "bad" then some 0 else (parseNatList? root).map (fun (l : List Nat) => hashes.root (l.map mk)))
      let hd : Header :=
        { txRoot := rootv
          proposalsHash := if ph = "ok" then hashes.phash props else 0
          extraHash := if eh = "ok" then hashes.ehash uncles extension else 0
          other := 42 }
      let cb : CB :=
        { header := hd, shortIds := sids, prefilled := pre.map (fun (p : Nat × Nat) => (p.1, mk p.2)), uncles := uncles,
          proposals := props, extension := extension }
      pure (cb, recv.map mk, upeer)
    match r with
    | none => "bad-op"
    | some (cb, recv, upeer) =>
      match cbVerify cb with
      | some e => "verify-err " ++ errLine e
      | none =>
        match reconstruct hashes cb recv (fun _ => none) (fun _ => .missing) upeer with
        | .block b =>
          s!"block txs={showNatList (b.txs.map (fun (t : Tx) => t.id))} hdr={if b.header = cb.header then "same" else "reset"}"
        | .missing txs us => s!"missing txs={showNatList txs} uncles={showNatList us}"
        | .collided => "collided"
        | .unmatched => "unmatched"
        | .invalidUncle => "invalid-uncle"
        | .invalidHeader => "invalid-header"
  | "btxv" :: rest =>
    let r : Option (CB × List Nat × List Tx) := do
      let sids ← (field rest "sids").bind parseNatList?
      let pre ← (field rest "pre").bind parsePairs
      let idx ← (field rest "idx").bind parseNatList?
      let txs ← (field rest "txs").bind parseNatList?
      let mk (i : Nat) : Tx := { id := i, sid := i }
      let cb : CB :=
        { header := default, shortIds := sids, prefilled := pre.map (fun (p : Nat × Nat) => (p.1, mk p.2)), uncles := [],
          proposals := [], extension := none }
      pure (cb, idx, txs.map mk)
    match r with
    | none => "bad-op"
    | some (cb, idx, txs) =>
      match btxVerify cb idx txs with
      | .panic => "panic"
      | .lengthUnmatched => "length"
      | .shortIdsUnmatched => "shortids"
      | .ok => "ok"
  | "unv" :: rest =>
    let r : Option (List Nat × List Nat × List Nat) := do
      let nu ← (field rest "uncles").bind parseNat?
      let idx ← (field rest "idx").bind parseNatList?
      let recv ← (field rest "recv").bind parseNatList?
      pure ((List.range nu).map (· + 500), idx, recv.map (· + 500))
    match r with
    | none => "bad-op"
    | some (uncles, idx, recv) =>
      if unclesVerify uncles idx recv then
        match unclesTake idx recv uncles 0 0 with
        | some _ => "ok total"
        | none => "ok panic"
      else if CkbVerif.Gen.RelayVerifiers.UNCLES_LENGTH_MISMATCH_RETURNS && (expectedUncles uncles idx).length != recv.length then "length"
      else "unmatched"
  | _ => "bad-op"

def stepFrame (ts : List String) : String :=
  match ts with
  | ["dec", kind, hx] =>
    match C15.unhex hx with
    | some bs =>
      let flagged := match bs with
        | b :: _ => CkbVerif.Frame.compressFlag b
        | [] => false
      if kind = "u" && flagged then "flagged" else
      match CkbVerif.Frame.decompressDecision bs with
      | .err => "err"
      | .raw p => s!"raw {p.length}"
      | .snappy n => s!"snappy {n}"
    | none => "bad-op"
  | ["cmp", n] =>
    match parseNat? n with
    | some n => if CkbVerif.Frame.compressTaken n then "snappy" else "raw"
    | none => "bad-op"
  | _ => "bad-op"

/-! ### stream `codec` -/

def fnvList (l : List UInt8) : UInt64 :=
  l.foldl (fun h b => (h ^^^ b.toUInt64) * 1099511628211) 14695981039346656037

def fnvArr (a : ByteArray) : UInt64 :=
  a.foldl (fun h b => (h ^^^ b.toUInt64) * 1099511628211) 14695981039346656037

/-- little-endian value of `n` bytes at `i` (`none` when the input ends before) -/
def leAt (inp : ByteArray) (i n : Nat) : Option Nat :=
  if i + n ≤ inp.size then
    some ((List.range n).foldr (fun k acc => acc * 256 + (inp.get! (i + k)).toNat) 0)
  else none

/-- the snappy raw format (format_description.txt): elements after the length preamble -/
partial def snappyLoop (inp : ByteArray) (i : Nat) (out : ByteArray) (want : Nat) : Option ByteArray :=
  if i ≥ inp.size then (if out.size = want then some out else none) else
  let tag := (inp.get! i).toNat
  let ty := tag % 4
  if ty = 0 then
    -- literal
    let l6 := tag / 4
    let r : Option (Nat × Nat) :=
      if l6 < 60 then some (l6 + 1, i + 1)
      else if i + 1 + 4 > inp.size then none  -- snap-1.1.1 `read_literal`: four bytes must be left, whatever `nb` is
      else
        let nb := l6 - 59
        (leAt inp (i + 1) nb).map (fun v => (v + 1, i + 1 + nb))
    match r with
    | none => none
    | some (len, j) =>
      if j + len > inp.size ∨ out.size + len > want then none
      else snappyLoop inp (j + len) (out.append (inp.extract j (j + len))) want
  else
    let r : Option (Nat × Nat × Nat) :=
      if ty = 1 then (leAt inp (i + 1) 1).map (fun b => (4 + (tag / 4) % 8, (tag / 32) * 256 + b, i + 2))
      else if ty = 2 then (leAt inp (i + 1) 2).map (fun o => (1 + tag / 4, o, i + 3))
      else (leAt inp (i + 1) 4).map (fun o => (1 + tag / 4, o, i + 5))
    match r with
    | none => none
    | some (len, off, j) =>
      if off = 0 ∨ off > out.size ∨ out.size + len > want then none
      else
        let start := out.size - off
        let out' := (List.range len).foldl (fun (o : ByteArray) k => o.push (o.get! (start + k))) out
        snappyLoop inp j out' want

/-- `snap::raw::Decoder::decompress` into a buffer of the announced length -/
def snappyDecode (body : List UInt8) : Option ByteArray :=
  let (n, hl) := CkbVerif.Frame.readVaru64 body
  if hl = 0 then none else
  let inp : ByteArray := ⟨(body.drop hl).toArray⟩
  snappyLoop inp 0 (ByteArray.emptyWithCapacity n) n

def parseSpec (s : String) : Option (List UInt8) :=
  if s = "-" then some [] else
  (s.splitOn ",").foldlM (fun (acc : List UInt8) seg =>
    match seg.splitOn "*" with
    | [hx] => (C15.unhex hx).map (acc ++ ·)
    | [hx, cnt] =>
      match C15.unhex hx, parseNat? cnt with
      | some pat, some c =>
        match pat with
        | [b] => some (acc ++ List.replicate c b)
        | _ => some (acc ++ (List.replicate c pat).flatten)
      | _, _ => none
    | _ => none) []

structure CodecSt where
  cfg : CkbVerif.Frame.Cfg := ⟨0, false⟩
  conn : CkbVerif.Frame.Conn := CkbVerif.Frame.Conn.init
  closed : Bool := false

/-- the items of one `feed`, finished with the snappy decoder; `true` = the decoder refused one -/
def showItems : List CkbVerif.Frame.Item → List String → List String × Bool
  | [], acc => (acc.reverse, false)
  | .raw p :: rest, acc => showItems rest (s!"{p.length}:{fnvList p}" :: acc)
  | .snappy n body :: rest, acc =>
    match snappyDecode body with
    | some out => if out.size = n then showItems rest (s!"{out.size}:{fnvArr out}" :: acc) else (acc.reverse, true)
    | none => (acc.reverse, true)

def stepCodec (st : CodecSt) (ts : List String) : CodecSt × String :=
  match ts with
  | ["conn", m, c] =>
    match parseNat? m with
    | some m => ({ cfg := ⟨m, c = "1"⟩ }, "ok")
    | none => (st, "bad-op")
  | ["feed", spec] =>
    match parseSpec spec with
    | none => (st, "bad-op")
    | some chunk =>
      if st.closed then (st, "- closed") else
      let before := st.conn.items.length
      let conn := CkbVerif.Frame.feed st.cfg st.conn chunk
      let (shown, refused) := showItems (conn.items.drop before) []
      let itemsS := if shown.isEmpty then "-" else ",".intercalate shown
      if refused then ({ st with conn := ⟨[], .err⟩, closed := true }, itemsS ++ " err")
      else
        match conn.state with
        | .err => ({ st with conn := ⟨[], .err⟩, closed := true }, itemsS ++ " err")
        | .pending s buf => ({ st with conn := ⟨[], .pending s buf⟩ }, s!"{itemsS} pending {buf.length}")
  | ["enc", clen, spec] =>
    match parseSpec spec, parseNat? clen with
    | some data, some clen =>
      match CkbVerif.Frame.encode (fun _ => List.replicate clen 0) st.cfg data with
      | none => (st, "err")
      | some w => (st, s!"flag={((w.drop 4).headD 0).toNat} len={w.length}")
    | _, _ => (st, "bad-op")
  | _ => (st, "bad-op")

/-! ### stream `alert` -/

structure AlertSt where
  st : CkbVerif.Alert.St := {}
  m : Nat := 1
  pks : List Nat := [0]
  peers : List Nat := []
  now : Nat := 1000000
  /-- a version bound outside the modelled fragment of semver was accepted: `noticed` is not compared any more -/
  unknown : Bool := false

/-- the client version the harness starts the relayer with -/
def alertClient : Nat × Nat × Nat := (0, 105, 0)

def sortNat (l : List Nat) : List Nat := l.mergeSort (fun a b => decide (a ≤ b))

def alertState (s : AlertSt) : String :=
  let ids := sortNat (s.st.received.map (·.id))
  let noticed := if s.unknown then "?" else showNatList (s.st.noticed.map (·.id))
  s!"recv={showNatList ids} noticed={noticed}"

def parseClasses (s : String) : Option (List (Option Nat)) :=
  if s = "-" then some [] else
  (s.splitOn ",").mapM fun c =>
    if c = "x" then some none
    else if c.startsWith "k" then (parseNat? (c.drop 1).toString).map some
    else none

def stepAlert (s : AlertSt) (ts : List String) : AlertSt × String :=
  match ts with
  | ["cfg", m, keys] =>
    match parseNat? m, parseNatList? keys with
    | some m, some ks => ({ s with st := {}, m := m, pks := ks, peers := [], unknown := false }, "ok")
    | _, _ => (s, "bad-op")
  | ["peers", ps] =>
    match parseNatList? ps with
    | some ps => ({ s with peers := ps }, "ok")
    | none => (s, "bad-op")
  | ["now", t] =>
    match parseNat? t with
    | some t => ({ s with now := t }, "ok")
    | none => (s, "bad-op")
  | ["recv", peer, hx, cls] =>
    match parseNat? peer, C15.unhex hx, parseClasses cls with
    | some peer, some bs, some cls =>
      let eff := CkbVerif.Alert.versionEffective alertClient bs
      let (st', v) := CkbVerif.Alert.received s.m s.pks s.st peer s.peers bs cls (eff.getD true)
      let accepted := match v with | .relay _ => true | _ => false
      let s' := { s with st := st', unknown := s.unknown || (accepted && eff.isNone) }
      let vs := match v with
        | .malformed => "malformed"
        | .notUtf8 => "not-utf8"
        | .ignored => "ignored"
        | .badSig .sigCountOverflow => "badsig overflow"
        | .badSig .sigNotEnough => "badsig notenough"
        | .badSig (.threshold n) => s!"badsig threshold {n}"
        | .relay to => s!"relay {showNatList to}"
      (s', s!"{vs} {alertState s'}")
    | _, _, _ => (s, "bad-op")
  | ["conn", _peer] =>
    let (st', sent) := CkbVerif.Alert.connected s.st s.now
    let s' := { s with st := st' }
    (s', s!"sent {showNatList (sortNat (sent.map (·.id)))} {alertState s'}")
  | _ => (s, "bad-op")

def main (args : List String) : IO UInt32 :=
  match args with
  | ["codec"] => runLines ({} : CodecSt) stepCodec
  | ["cb"] => runLines () (fun _ ts => ((), stepCb ts))
  | ["frame"] => runLines () (fun _ ts => ((), stepFrame ts))
  | ["proto"] => runLines ([] : List (List UInt8)) (fun chain ts =>
      match ts with
      | ["lchain", hs] =>
        match (hs.splitOn ",").mapM C15.unhex with
        | some c => (c, "ok")
        | none => (chain, "bad-op")
      | _ => (chain, stepProto chain ts))
  | ["alert"] => runLines ({} : AlertSt) stepAlert
  | _ => runLines () (fun _ ts => ((), stepWire ts))

end CkbVerif.Driver.C16
