import CkbVerif.Driver.Util
import CkbVerif.Driver.C15
import CkbVerif.Model.Compact
import CkbVerif.Model.Frame

/-! Line-protocol driver for C16 (protocols: harness/hcore/src/c16.rs, harness/hnode/src/c16.rs).

Stream `wire`:
  ver <Type> <s|c> <hex>     -> ok | err
  gate <sync|relay> <hex>    -> strict <id> | compat <id> | too-many-fields | malformed
Stream `cb`:
  recon root=<ids|bad> ph=<ok|bad> eh=<ok|bad> sids=<ids> pre=<i:t;…> recv=<ids> uncles=<n> upeer=<idx list> ext=<0|1> props=<n>
       -> verify-err <kind> | block txs=<ids> hdr=<same|reset> | missing txs=<idx> uncles=<idx> | collided | unmatched
     (transaction `t` has short id `t`; the pool is empty; uncles not supplied by the peer are unknown to the chain)
Stream `frame`:
  dec <hex>                  -> err | raw <len> | snappy <len>
  cmp <len>                  -> raw | snappy
-/
namespace CkbVerif.Driver.C16
open CkbVerif.Driver CkbVerif.Molecule CkbVerif.Compact

def gateLine : Gate → String
  | .strict id => s!"strict {id}"
  | .compat id => s!"compat {id}"
  | .tooManyFields => "too-many-fields"
  | .malformed => "malformed"

def stepWire (ts : List String) : String :=
  match ts with
  | ["ver", t, m, hx] =>
    match C15.lookup t, C15.modeOf m, C15.unhex hx with
    | some s, some c, some bs => if verify c s bs then "ok" else "err"
    | _, _, _ => "bad-op"
  | ["gate", which, hx] =>
    match C15.unhex hx with
    | some bs =>
      if which = "sync" then gateLine (gateSync bs)
      else if which = "relay" then gateLine (gateRelay bs)
      else "bad-op"
    | none => "bad-op"
  | _ => "bad-op"

/-- `key=value` → value -/
def field (ts : List String) (key : String) : Option String :=
  ts.findSome? fun t =>
    match t.splitOn "=" with
    | [k, v] => if k = key then some v else none
    | _ => none

def parsePairs (s : String) : Option (List (Nat × Nat)) :=
  if s = "-" then some [] else
  (s.splitOn ";").mapM fun p =>
    match p.splitOn ":" with
    | [a, b] =>
      match parseNat? a, parseNat? b with
      | some a, some b => some (a, b)
      | _, _ => none
    | _ => none

/-- injective on the small id lists the harness uses (ids < 9999) -/
def encList (l : List Nat) : Nat := l.foldl (fun acc x => acc * 10000 + x + 1) 1

def hashes : Hashes :=
  { root := fun txs => encList (txs.map (·.id))
    phash := fun ps => encList ps
    ehash := fun us ext => encList us * 2 + (match ext with | some _ => 1 | none => 0) }

def errLine : CbErr → String
  | .noCellbase => "no-cellbase"
  | .outOfIndex => "out-of-index"
  | .outOfOrder => "out-of-order"
  | .dupShortIds => "dup-short-ids"
  | .dupPrefilled => "dup-prefilled"

def stepCb (ts : List String) : String :=
  match ts with
  | "recon" :: rest =>
    let r : Option (CB × List Tx × List Nat) := do
      let root ← field rest "root"
      let ph ← field rest "ph"
      let eh ← field rest "eh"
      let sids ← (field rest "sids").bind parseNatList?
      let pre ← (field rest "pre").bind parsePairs
      let recv ← (field rest "recv").bind parseNatList?
      let nu ← (field rest "uncles").bind parseNat?
      let upeer ← (field rest "upeer").bind parseNatList?
      let ext ← (field rest "ext").bind parseNat?
      let np ← (field rest "props").bind parseNat?
      let mk (i : Nat) : Tx := { id := i, sid := i }
      let uncles := (List.range nu).map (· + 500)
      let props := (List.range np).map (· + 700)
      let extension := if ext = 1 then some 1 else none
      let rootv ← (if root = "bad" then some 0 else (parseNatList? root).map (fun (l : List Nat) => hashes.root (l.map mk)))
      let hd : Header :=
        { txRoot := rootv
          proposalsHash := if ph = "ok" then hashes.phash props else 0
          extraHash := if eh = "ok" then hashes.ehash uncles extension else 0
          other := 42 }
      let cb : CB :=
        { header := hd, shortIds := sids, prefilled := pre.map (fun (p : Nat × Nat) => (p.1, mk p.2)), uncles := uncles,
          proposals := props, extension := extension }
      pure (cb, recv.map mk, upeer)
    match r with
    | none => "bad-op"
    | some (cb, recv, upeer) =>
      match cbVerify cb with
      | some e => "verify-err " ++ errLine e
      | none =>
        match reconstruct hashes cb recv (fun _ => none) (fun _ => .missing) upeer with
        | .block b =>
          s!"block txs={showNatList (b.txs.map (fun (t : Tx) => t.id))} hdr={if b.header = cb.header then "same" else "reset"}"
        | .missing txs us => s!"missing txs={showNatList txs} uncles={showNatList us}"
        | .collided => "collided"
        | .unmatched => "unmatched"
        | .invalidUncle => "invalid-uncle"
        | .invalidHeader => "invalid-header"
  | _ => "bad-op"

def stepFrame (ts : List String) : String :=
  match ts with
  | ["dec", kind, hx] =>
    match C15.unhex hx with
    | some bs =>
      let flagged := match bs with
        | b :: _ => CkbVerif.Frame.compressFlag b
        | [] => false
      if kind = "u" && flagged then "flagged" else
      match CkbVerif.Frame.decompressDecision bs with
      | .err => "err"
      | .raw p => s!"raw {p.length}"
      | .snappy n => s!"snappy {n}"
    | none => "bad-op"
  | ["cmp", n] =>
    match parseNat? n with
    | some n => if CkbVerif.Frame.compressTaken n then "snappy" else "raw"
    | none => "bad-op"
  | _ => "bad-op"

def main (args : List String) : IO UInt32 :=
  match args with
  | ["cb"] => runLines () (fun _ ts => ((), stepCb ts))
  | ["frame"] => runLines () (fun _ ts => ((), stepFrame ts))
  | _ => runLines () (fun _ ts => ((), stepWire ts))

end CkbVerif.Driver.C16
