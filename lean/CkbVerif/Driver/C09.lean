import CkbVerif.Driver.Util
import CkbVerif.Model.Freezer
import CkbVerif.Driver.C09Top

/-! Line-protocol driver for C09 (see harness/hcore/src/c09.rs for the protocol). -/
namespace CkbVerif.Driver.C09
open CkbVerif.Driver CkbVerif.Freezer

structure St where
  max : Nat := 0
  disk : Disk := emptyDisk
  h : Option Handle := none
  /-- highest file id ever used in this case (files are a function; this bounds what `disk` prints) -/
  hi : Nat := 0
  /-- capacity of the read-handle LRU (`open_files_limit`; 256 = the builder default) -/
  cap : Nat := 256
  /-- ids of the data files that exist (a fresh directory has none) -/
  present : List Nat := []

def hexDigit (n : Nat) : Char :=
  if n < 10 then Char.ofNat (48 + n) else Char.ofNat (87 + n)

def hexOf (b : Bytes) : String :=
  if b.isEmpty then "-" else
  String.ofList (b.flatMap fun x => [hexDigit (x / 16 % 16), hexDigit (x % 16)])

def hexVal (c : Char) : Option Nat :=
  if c.isDigit then some (c.toNat - 48)
  else if 'a' ≤ c ∧ c ≤ 'f' then some (c.toNat - 87)
  else none

def unhexAux : List Char → Option Bytes
  | [] => some []
  | [_] => none
  | a :: b :: rest => do
    let x ← hexVal a
    let y ← hexVal b
    let r ← unhexAux rest
    pure ((x * 16 + y) :: r)

def unhex (s : String) : Option Bytes :=
  if s = "-" then some [] else unhexAux s.toList

def diskLine (d : Disk) (hi : Nat) : String :=
  let ents := d.idx.map fun e => s!"{e.fid}:{e.off}"
  let files := (List.range (hi + 2)).filterMap fun i =>
    let l := (d.files i).length
    if l > 0 then some s!"{i}:{l}" else none
  let es := if ents.isEmpty then "-" else ",".intercalate ents
  let fs := if files.isEmpty then "-" else ",".intercalate files
  s!"idx={es}+{d.tail} files={fs}"

def retLine : Ret → String
  | .none => "none"
  | .some b => s!"some {hexOf b}"
  | .err => "err"

def probe : Bytes := [0xEE, 0xDD, 0xCC]

/-- `a:b,c:d` / `-` -/
def parsePairs (s : String) : Option (List (Nat × Nat)) :=
  if s = "-" then some [] else
  (s.splitOn ",").mapM fun p =>
    match p.splitOn ":" with
    | [a, b] => do pure ((← parseNat? a), (← parseNat? b))
    | _ => none

/-- the byte pattern of the data files written by the harness's `raw` op -/
def pattern (id len : Nat) : Bytes := (List.range len).map fun j => (id * 16 + j + 1) % 256

def step (s : St) (ts : List String) : St × String :=
  match ts with
  | ["cfg", m] =>
    match parseNat? m with
    | some m => ({ max := m, disk := emptyDisk, h := none }, "ok")
    | none => (s, "bad-op")
  | ["cfg", m, cap] =>
    match parseNat? m, parseNat? cap with
    | some m, some cap => ({ max := m, disk := emptyDisk, h := none, cap := cap }, "ok")
    | _, _ => (s, "bad-op")
  | ["cache"] =>
    match s.h with
    | some h => (s, s!"cache={if h.cache.isEmpty then "-" else ",".intercalate (h.cache.map toString)}")
    | none => (s, "bad-op")
  | ["open"] =>
    let r := openX s.cap s.disk s.present
    match r.h with
    | some h => ({ s with disk := r.d, h := some h, present := r.present }, s!"ok {h.number}")
    | none => ({ s with disk := r.d, h := none, present := r.present }, "err")
  | ["present"] =>
    let ids := (List.range (s.present.foldl max 0 + 1)).filter fun i => s.present.contains i
    (s, s!"present={if ids.isEmpty then "-" else ",".intercalate (ids.map toString)}")
  | ["append", hx] =>
    match s.h, unhex hx with
    | some h, some data =>
      let (h', d') := appendL s.cap s.max h s.disk data
      ({ s with disk := d', h := some h', hi := max s.hi h'.headId,
                present := presentAppend s.max h data s.present }, "ok")
    | _, _ => (s, "bad-op")
  | ["retrieve", i] =>
    match s.h, parseNat? i with
    | some h, some i =>
      ({ s with h := some { h with cache := retrieveCacheX s.cap h s.disk s.present i } },
        retLine (retrieveX h s.disk s.present i))
    | _, _ => (s, "bad-op")
  | ["truncate", i] =>
    match s.h, parseNat? i with
    | some h, some i =>
      let (h', d') := truncateL s.cap h s.disk i
      ({ s with disk := d', h := some h', present := presentTruncate s.cap h s.disk i s.present }, "ok")
    | _, _ => (s, "bad-op")
  | ["disk"] => (s, diskLine s.disk s.hi)
  | ["raw", ents, tail, files] =>
    match parsePairs ents, parseNat? tail, parsePairs files with
    | some ents, some tail, some files =>
      let fs : Nat → Bytes := fun i =>
        match files.find? (·.1 = i) with
        | some (_, len) => pattern i len
        | none => []
      let hi := (ents.map (·.1) ++ files.map (·.1)).foldl max 0
      ({ s with disk := { idx := ents.map fun e => ⟨e.1, e.2⟩, tail := tail, files := fs }, h := none,
                hi := hi, present := files.map (·.1) }, "ok")
    | _, _, _ => (s, "bad-op")
  | ["cutfile", fid, len] =>
    match parseNat? fid, parseNat? len with
    | some fid, some len =>
      ({ s with disk := s.disk.cutFile fid len, h := none,
                present := if s.present.contains fid then s.present else s.present ++ [fid] }, "ok")
    | _, _ => (s, "bad-op")
  | [op, il, fid, fl] =>
    if op = "cut" ∨ op = "cutopen" then
      match parseNat? il, parseNat? fid, (if fl = "rm" then some none else (parseNat? fl).map some) with
      | some il, some fid, some fl =>
        let d := applyCut s.disk il fid fl
        if op = "cut" then
          let pres := match fl with
            | none => s.present.filter (· ≠ fid)
            | some _ => if s.present.contains fid then s.present else s.present ++ [fid]
          ({ s with disk := d, h := none, present := pres }, "ok")
        else
          match «open» d with
          | none => (s, "err")
          | some (h, d1) =>
            let items := (List.range (h.number - 1)).map fun i =>
              match retrieve h d1 (i + 1) with
              | .some b => hexOf b
              | .none => "none"
              | .err => "err"
            let (h2, d2) := append s.max h d1 probe
            let ok := retrieve h2 d2 h.number == .some probe && h2.number == h.number + 1
            let its := if items.isEmpty then "-" else ";".intercalate items
            (s, s!"ok n={h.number} items={its} probe={if ok then "ok" else "err"}")
      | _, _, _ => (s, "bad-op")
    else (s, "bad-op")
  | _ => (s, "bad-op")

def main (args : List String) : IO UInt32 :=
  if args = ["top"] then C09Top.main else runLines ({} : St) step

end CkbVerif.Driver.C09
