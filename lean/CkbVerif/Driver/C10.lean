import CkbVerif.Driver.Util
import CkbVerif.Driver.C02
import CkbVerif.Model.Freeze
import CkbVerif.Model.FreezeCodec
import CkbVerif.Model.FreezeCache
import CkbVerif.Model.FreezeCont

/-! Line-protocol driver for C10 (protocol: harness/n10/src/c10.rs): the C02 ops build the chain
(answered exactly like the C02 driver), `freeze` / `restart` / `query` run `Model/Freeze.lean`.

Next to the abstract model the driver runs the COMBINED model of `Model/FreezeSys.lean` (rows +
freezer files, `pass`, `Freezer::open` at every `restart`, the accessors reading the files) with the
concrete codec of `Model/FreezeCodec.lean` and the data-file limit of the `fzmax` op, on the same
history; wherever the two models would answer differently the answer carries `MODEL-SPLIT` (which
then differs from the implementation's line), so every generated history also tests, on the
executable definitions, that the combined model refines the abstract one. -/
namespace CkbVerif.Driver.C10
open CkbVerif.Driver CkbVerif.Store CkbVerif.Freeze CkbVerif.FreezeSys

structure St where
  c : C02.St := {}
  noHdr : List Nat := []
  noBody : List Nat := []
  frozen : List Block := []
  /-- model the code before the repair of F17 (`ckbmodel_c10 C10 pre-f17`; the default is /repo as
  it is: F17 and F18 repaired; the former argument `f17-fixed` is accepted and ignored) -/
  preF17 : Bool := false
  /-- model the code before the repair of F18 (`pre-f18`): part accessors read the kv rows only -/
  preF18 : Bool := false
  /-- the freezer files of the combined model (`none` = not opened yet: a fresh directory) -/
  top : Option FreezerTop.Top := none
  synced : Nat := 1
  /-- `fzmax`: data-file size limit -/
  fzmax : Nat := 2000000000
  /-- the store's read caches (`Model/FreezeCache.lean`); `none` = not tracked (the node or the
  harness has read through them since the last `restart`); `restart` empties them, `prime` / `probe`
  read through them, `freeze bare` leaves them alone (the pass never touches a cache) -/
  caches : Option FreezeCache.Caches := none
  /-- `cutsnap`: the combined state and the data-file limit before the next pass (what the `cutcont`
  lines of the following `cutcheck` start from) -/
  snap : Option (Sys × Nat) := none

def toFS (s : St) : FS :=
  { v := s.c.v,
    hdr := fun id => !s.noHdr.contains id,
    body := fun id => !s.noBody.contains id,
    stored := (s.c.blocks.map (·.1)).filter (fun id => !s.noBody.contains id),
    frozen := s.frozen }

def fromFS (s : St) (f : FS) : St :=
  let ids := s.c.blocks.map (·.1)
  { s with noHdr := ids.filter (fun id => !f.hdr id), noBody := ids.filter (fun id => !f.body id), frozen := f.frozen }

def codecOf (s : St) : Codec :=
  -- a block of the model serialises to roughly a tenth of the bytes of the real (compressed) block
  { Demo.demoCodec with cfg := { Demo.demoCodec.cfg with max := s.fzmax / 10 } }

def freshTop : FreezerTop.Top :=
  (FreezerTop.openTop Demo.demoCodec.cfg Freezer.emptyDisk).getD ⟨⟨1, 0, 0, []⟩, Freezer.emptyDisk, none⟩

def toSys (s : St) : Sys := ⟨toFS s, s.top.getD freshTop, s.synced⟩

/-- the combined model is only run for the code as it is (not for the pre-repair regression modes) -/
def combined (s : St) : Bool := !s.preF17 && !s.preF18

/-- do the accessors of the combined state (reading the files) answer like the abstract ones? -/
def splitAt (s : St) : Bool :=
  combined s &&
  (let f := toFS s
   let y := toSys s
   let k := codecOf s
   (s.c.blocks.map (·.1)).any (fun id =>
      getBlockS k y id != getBlock f id || getPartS k y id != ofOpt (getPart f id) ||
      getPackedS k y id != ofOpt (getPacked f id)) ||
   (s.c.txs.map (·.1)).any (fun t => getTxS k y t != ofOpt (getTx f t)) ||
   y.top.number != frozenNumber f)

def flag (b : Bool) : String := if b then "1" else "0"

def query (s : St) : String :=
  let f := toFS s
  let blkIds := C02.sortNat (s.c.blocks.map (·.1))
  let txIds := C02.sortNat (s.c.txs.map (·.1))
  let tip := match f.v.m.tip with | some t => toString t | none => "-"
  let bs := blkIds.filterMap fun id =>
    match C02.lookup s.c.blocks id with
    | none => none
    | some blk =>
      let h := f.hdr id
      let b := match (if s.preF17 then getBlockPreF17 f id else getBlock f id) with
        | .some fb => if fb.id = id then "=" else "!"
        | .none => "-"
        | .panic => "P"
      let partB := if s.preF18 then getPartPreF18 f id else getPart f id
      let part := partB.isSome
      -- the genesis block carries no extension (rfc0044 extensions start with block 1)
      let ext := part && id != 0
      -- `get_block_body` / `get_block_txs_hashes`: the transactions of the block that answers
      let t := match partB with | some pb => pb.txs.length | none => 0
      let same (o : Option Block) : String :=
        match o with | some pb => if pb.id = id && pb == blk then "=" else "!" | none => "-"
      let k := same (if s.preF18 then getPackedPreF18 f id else getPacked f id)
      -- the part answers belong to the block asked for
      let pc := match partB with | some pb => if pb.id = id && pb == blk then flag true else "!" | none => flag false
      let m := if (f.v.m.rindex id).isSome then "m" else "s"
      -- R: raw COLUMN_BLOCK_HEADER row (`get_packed_block_header`); D: the extension as the
      -- `load_block_extension` syscall reads it (DataLoader = `get_block_extension`)
      some s!"b{id}:{flag h}{b}{t}{pc}{flag part}{flag part}{flag ext}{k}{flag h}{flag ext}{m}"
  let ts := txIds.filterMap fun t =>
    match f.v.m.txInfo t with
    | none => none
    | some _ =>
      -- `=` the transaction asked for, `!` another one (only after a reorg below the frozen height:
      -- the dispatch is by the NUMBER in the tx-info row), `-` nothing
      let w := match getTx f t with
        | some (tx, _) => if tx.id = t then "=" else "!"
        | none => "-"
      some s!"t{t}:{w}"
  " ".intercalate ([s!"frozen={frozenNumber f}", s!"tip={tip}"] ++ bs ++ ts ++
    (if splitAt s then ["MODEL-SPLIT"] else []))

/-- the crash states of the harness (`Cut.kind` in c10.rs) -/
def parseKind (x : String) : Option CutKind :=
  match x with
  | "D" => some .dataNoIndex
  | "E" => some .nothing
  | "N" => some .nothing
  | "P" => some .partialData
  | "X0" => some (.indexNoData false false)
  | "Xh" => some (.indexNoData true false)
  | "Xm" => some (.indexNoData false true)
  | "W0" => some (.twoLost false)
  | "Wh" => some (.twoLost true)
  | "C" => some .complete
  | _ =>
    if x.startsWith "I" then (parseNat? (x.drop 1).toString).map CutKind.partialIndex else none

/-- do all accessors of the combined state answer every main-chain block with the block? -/
def allMainAnswer (k : Codec) (y : Sys) (ids : List Nat) : Bool :=
  ids.all fun id =>
    match y.rows.v.m.rindex id, y.rows.v.r.bodies id with
    | some _, some blk =>
      getBlockS k y id == .some blk && getPartS k y id == .some blk && getPackedS k y id == .some blk &&
      getHeaderS y id == some blk && getAncestorS y blk.number == some blk
    | _, _ => true

/-- `cutcont <j> <state> <limit>`: the crash state of the append of item `j` of the pass that follows
the snapshot `y0`, re-opened (`cutAt`); the recovery pass under the data-file limit `fit` (the
snapshot's, or the one the next item / next two items exactly fit into the head file under); one more
restart.  Answer: freezer.number after the re-open, after the recovery pass, and `=` iff every
accessor answered every main-chain block with the block in all three states. -/
def cutcont (s : St) (y0 : Sys) (j : Nat) (kd : CutKind) (fit : String) : String :=
  let k := codecOf s
  let ids := s.c.blocks.map (·.1)
  match cutAt k y0 j kd with
  | none => "open-fails"
  | some t =>
    let m := match fit with
      | "exact" => fitLimit k t 1
      | "two" => fitLimit k t 2
      | _ => k.cfg.max
    let t2 := (pass (k.withMax m) t (fun _ => false)).1
    let (n3, ok3) := match stepReopen (k.withMax m) t2 with
      | none => (0, false)
      | some t3 => (t3.top.number, allMainAnswer k t3 ids)
    let ok := allMainAnswer k t ids && allMainAnswer k t2 ids && ok3 && n3 == t2.top.number
    s!"{t.top.number} {t2.top.number} {if ok then "=" else "!"}"

def stepCore (s : St) (ts : List String) : St × String :=
  match ts with
  | "freeze" :: _ =>
    -- `freeze` / `freeze cold` (the harness evaluates no accessor before the pass): the same pass
    let f := toFS s
    let (f', r) := freeze f
    -- the same pass on the combined state (files)
    let (y', r') := pass (codecOf s) (toSys s) (fun _ => false)
    let ids := s.c.blocks.map (·.1)
    let agree := !combined s ||
      (y'.top.number == frozenNumber f' && r' == r &&
        ids.all (fun id => y'.rows.hdr id == f'.hdr id && y'.rows.body id == f'.body id))
    let s' := { fromFS s f' with top := some y'.top, synced := y'.synced }
    if !agree then (s', s!"MODEL-SPLIT {frozenNumber f'} {y'.top.number}") else
    match r with
    | .ok => (s', s!"ok {frozenNumber f'}")
    | .idle => (s', s!"ok {frozenNumber f'}")
    | .err => (s', s!"err {frozenNumber f'}")
    | .panic => (s', "panic")
  | ["restart"] =>
    -- `Freezer::open` of the combined model on the files as they are
    if combined s then
      match FreezerTop.openTop (codecOf s).cfg (toSys s).top.d with
      | none => (s, "MODEL-SPLIT open-fails")
      | some t =>
        if t.number == s.frozen.length + 1 then ({ s with top := some t, synced := t.number }, s!"ok {s.frozen.length + 1}")
        else (s, s!"MODEL-SPLIT open {t.number}")
    else (s, s!"ok {s.frozen.length + 1}")
  | ["query"] => (s, query s)
  -- oracle-only op of the harness (crash enumeration on copies of the node directory)
  | ["crashfreeze"] => (s, "ok")
  -- the freezer's data-file size limit (the files are C09's model; `Model/FreezeSys.lean` composes
  -- them with this model, for every limit) and the oracle-only file-granularity crash enumeration
  | ["fzmax", n] =>
    match parseNat? n with
    | some m => ({ s with fzmax := m }, "ok")
    | none => (s, "bad-op")
  | ["cutsnap"] =>
    -- (the harness restarts the node here: `Freezer::open` on the files as they are)
    if combined s then
      match FreezerTop.openTop (codecOf s).cfg (toSys s).top.d with
      | none => (s, "MODEL-SPLIT open-fails")
      | some t => ({ s with top := some t, synced := t.number, snap := some ({ toSys s with top := t, synced := t.number }, s.fzmax) }, "ok")
    else (s, "ok")
  | "cutcheck" :: _ => (s, "ok")
  | ["cutcont", j, kind, fit] =>
    match parseNat? j, parseKind kind, s.snap with
    | some j, some kd, some (y0, fzmax) => (s, cutcont { s with fzmax := fzmax } y0 j kd fit)
    | _, _, none => (s, "no-snapshot")
    | _, _, _ => (s, "bad-op")
  -- `limit` stream: only the threshold arithmetic is compared (31 000 empty blocks are not replayed
  -- in the model): freezer.number after a pass = min(threshold, before + MAX_FREEZE_LIMIT)
  | ["limitpass", before, thr] =>
    match parseNat? before, parseNat? thr with
    | some b, some t => (s, s!"ok {max b (min t (b + MAX_FREEZE_LIMIT))}")
    | _, _ => (s, "bad-op")
  | "block" :: _ =>
    match C02.parseBlock s.c ts with
    | none => (s, "bad-op")
    | some (c1, b) =>
      if s.preF17 && 0 < b.number && b.number < s.frozen.length + 1 then
        -- (before ea444a5) a block stored at an already frozen height: `get_block(hash)` hands the chain service the
        -- frozen main-chain block of that height instead, which is already verified: nothing but
        -- `insert_block` happens
        let (c2, out) := C02.commit c1 ⟨c1.v.m, Store.insertBlock c1.v.r b⟩ "known "
        ({ s with c := c2 }, out)
      else
        let (c2, out) := C02.commit c1 (process c1.v b) "new "
        ({ s with c := c2 }, out)
  | _ =>
    let (c', out) := C02.step s.c ts
    ({ s with c := c' }, out)

/-! ### the store caches: `prime <id> <accessors>` / `probe <id>` (protocol: harness c10.rs) -/

open FreezeCache in
/-- one accessor call through the caches; `H` get_block_header, `U` get_block_uncles, `P`
get_block_proposal_txs_ids, `X` get_block_txs_hashes, `E` get_block_extension, `B` get_block,
`K` get_packed_block, `T` get_block_body, `C` get_cellbase -/
def touch (f : FS) (c : Caches) (id : Nat) (a : Char) : Caches :=
  match a with
  | 'H' => (hdrC f c id).2
  | 'U' => (unclesC f c id).2
  | 'P' => (proposalsC f c id).2
  | 'X' => (txhC f c id).2
  | 'E' => (extC f c id).2
  | 'B' => (blockC f c id).2
  | 'K' => (packedC f c id).2
  | 'T' => (bodyC f c id).2
  | 'C' => (cellbaseC f c id).2
  | _ => c

open FreezeCache in
/-- `probe <id>`: every accessor, warm, in the order of the harness (get_block first) -/
def probe (s : St) (c : Caches) (id : Nat) (orig : Block) : Caches × String :=
  let f := toFS s
  let whole (g : Got) : String := if g.whole && g.blk == orig && g.blk.id == id then "=" else "~"
  let (b, c1) := blockC f c id
  let (h, c2) := hdrC f c1 id
  let (t, c3) := bodyC f c2 id
  let (x, c4) := txhC f c3 id
  let (cb, c5) := cellbaseC f c4 id
  let (u, c6) := unclesC f c5 id
  let (p, c7) := proposalsC f c6 id
  let (e, c8) := extC f c7 id
  let (k, c9) := packedC f c8 id
  let bs := match b with | .some g => whole g | .none => "-" | .panic => "P"
  let ks := match k with | some g => whole g | none => "-"
  (c9, s!"p{id}:{bs}{flag h.isSome}{flag cb.isSome}{flag u.isSome}{flag p.isSome}{flag (e.isSome && id != 0)}{ks} t{t.length} x{x.length}")

def step (s : St) (ts : List String) : St × String :=
  match ts with
  | ["prime", id, accs] =>
    match parseNat? id, s.caches with
    | some i, some c =>
      ({ s with caches := some (accs.toList.foldl (fun c a => touch (toFS s) c i a) c) }, "ok")
    | some _, none => (s, "caches-not-tracked")
    | none, _ => (s, "bad-op")
  | ["probe", id] =>
    match parseNat? id, s.caches with
    | some i, some c =>
      match C02.lookup s.c.blocks i with
      | some orig =>
        let (c', out) := probe s c i orig
        ({ s with caches := some c' }, out)
      | none => (s, "bad-op")
    | some _, none => (s, "caches-not-tracked")
    | none, _ => (s, "bad-op")
  | ["users"] =>
    -- the RPC-level users of the store (harness `users`): the counts of the light-client replies and
    -- of the block-filter builder; their contents are judged by the harness against the original blocks
    let f := toFS s
    let ids := s.c.blocks.map (·.1)
    let main := ids.filter fun id => (f.v.m.rindex id).isSome
    -- (transactions of the tip block are not asked for)
    let infos := ((s.c.txs.map (·.1)).filterMap fun t => f.v.m.txInfo t).filter fun i => some i.blockId != f.v.m.tip
    let blks := (infos.map (·.blockId)).eraseDups
    -- GetBlocksProof asks for every block but the tip: main-chain ones are proved, the others missing
    let bp := if ids.length ≤ 1 then "0/0" else s!"{main.length - 1}/{ids.length - main.length}"
    let tp := if infos.isEmpty then "0/0" else s!"{blks.length}/{infos.length}"
    ({ s with caches := none }, s!"bp={bp} tp={tp} flt={main.length}")
  | _ =>
    let (s', out) := stepCore s ts
    let keep := match ts with
      | ["freeze", "bare"] => s.caches
      | ["restart"] => some {}
      | ["fzmax", _] => s.caches
      | "cutcont" :: _ => s.caches
      | _ => none
    ({ s' with caches := keep }, out)

def main (args : List String) : IO UInt32 :=
  runLines ({ preF17 := args.contains "pre-f17", preF18 := args.contains "pre-f18" } : St) step

end CkbVerif.Driver.C10
