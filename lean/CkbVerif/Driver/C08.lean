import CkbVerif.Driver.C01
import CkbVerif.Gen.Restart
/-!
C08 uses the chain-pipeline driver of C01 (ops `blk`, `deliver`, `commits`, `crashdeliver`, `restart`,
`scan`, `burst`) and adds (harness/n08/src/c08.rs, family `fork`):

  burstcrash <ids> <i> <v>   the first `i` blocks of `ids` are handed to the chain service one after the
                             other WITHOUT waiting for verification (`deliver`, no drain), the verify
                             thread has completed `v` queue entries (`verify` × v), then the process dies:
                             the persisted state                                          -> state line
  requeued <maxEpochLen> <order|->   the blocks the start-up scan re-submits (the harness answers with the
                             set it OBSERVED on the restarted node)                       -> ids
  crash2 <maxEpochLen> <order|-> <observed state line, spaces written as |>
                             second-level crash during the start-up re-verification: `crash`, every block of
                             `scanList` re-submitted, then the process dies after SOME number v of
                             verifications; answers the persisted state of the prefix that equals the observed
                             one (and continues from it), else that of v = 0               -> state line
  longchain <ids>            (family `edge`) every id delivered and verified, one after the other; the harness
                             prepared the same chain directly in the database                 -> ok
  consts                     the regenerated constants of the scan window                  -> mel=… expired=… bdw=…
-/
namespace CkbVerif.Driver.C08
open CkbVerif.Driver CkbVerif.Chain CkbVerif.Driver.C01

/-- `Consensus::max_epoch_length()` = `MAX_EPOCH_LENGTH` = `DEFAULT_EPOCH_DURATION_TARGET / MIN_BLOCK_INTERVAL`
(the shape of both expressions is pinned by `Props/C08.lean`) -/
def maxEpochLength : Nat := Gen.Restart.DEFAULT_EPOCH_DURATION_TARGET / Gen.Restart.MIN_BLOCK_INTERVAL

/-- `i` deliveries without drain, then `v` verify steps -/
def burstState (T : Tree) (s : State) (ids : List Nat) (i v : Nat) : State :=
  let s1 := (ids.take i).foldl (fun s b => (deliver T [] s b).1) s
  (List.range v).foldl (fun s _ => (verifyHead T s).1) s1

def step (d : St) (ts : List String) : St × String :=
  match ts with
  | ["burstcrash", l, i, v] =>
    match parseNatList? l, parseNat? i, parseNat? v with
    | some l, some i, some v =>
      let c := crash (burstState (treeOf d.decls) (getState d) l i v)
      ({ d with st := some c }, stateLine d.decls c [])
    | _, _, _ => (d, "bad-op")
  | ["longchain", l] =>
    match parseNatList? l with
    | some l =>
      let T := treeOf d.decls
      let s := l.foldl (fun s b => (deliverQ T [] s b).1) (getState d)
      ({ d with st := some s }, "ok")
    | none => (d, "bad-op")
  | ["crash2", m, o, obs] =>
    match parseNat? m, parseNatList? o with
    | some m, some o =>
      let T := treeOf d.decls
      let s0 := crash (getState d)
      let l := scanList T m o s0
      let s1 := l.foldl (fun s b => (deliver T [] s b).1) s0
      let want := obs.replace "|" " "
      -- the persisted state after each prefix of the re-verification
      let cands := (List.range (s1.queue.length + 1)).map fun v =>
        crash ((List.range v).foldl (fun s _ => (verifyHead T s).1) s1)
      match cands.find? (fun c => stateLine d.decls c [] == want) with
      | some c => ({ d with st := some c }, stateLine d.decls c [])
      | none => ({ d with st := some s0 }, stateLine d.decls s0 [])
    | _, _ => (d, "bad-op")
  | ["requeued", m, o] => C01.step d ["scan", m, o]
  | ["consts"] =>
    (d, s!"mel={maxEpochLength} expired={Gen.Chain.EXPIRED_EPOCH} bdw={Gen.Chain.BLOCK_DOWNLOAD_WINDOW}")
  | _ => C01.step d ts

def main (_args : List String) : IO UInt32 := runLines ({} : St) step
end CkbVerif.Driver.C08
