import CkbVerif.Driver.C01
/-! C08 uses the chain-pipeline driver of C01 (ops `deliver`, `crash`, `restart`, `scan`). -/
namespace CkbVerif.Driver.C08
def main (args : List String) : IO UInt32 := CkbVerif.Driver.C01.main args
end CkbVerif.Driver.C08
