import CkbVerif.Driver.C01
import CkbVerif.Driver.C02
import CkbVerif.Gen.Restart
import CkbVerif.Model.RestartView
import CkbVerif.Model.CrashStore
import CkbVerif.Model.MMR
import CkbVerif.Model.PoolReload
/-!
C08 uses the chain-pipeline driver of C01 (ops `blk`, `deliver`, `commits`, `crashdeliver`, `restart`,
`scan`, `burst`) and adds (harness/n08/src/c08.rs, family `fork`):

  burstcrash <ids> <i> <v>   the first `i` blocks of `ids` are handed to the chain service one after the
                             other WITHOUT waiting for verification (`deliver`, no drain), the verify
                             thread has completed `v` queue entries (`verify` × v), then the process dies:
                             the persisted state                                          -> state line
  requeued <maxEpochLen> <order|->   the blocks the start-up scan re-submits (the harness answers with the
                             set it OBSERVED on the restarted node)                       -> ids
  crash2 <maxEpochLen> <order|-> <observed state line, spaces written as |>
                             second-level crash during the start-up re-verification: `crash`, every block of
                             `scanList` re-submitted, then the process dies after SOME number v of
                             verifications; answers the persisted state of the prefix that equals the observed
                             one (and continues from it), else that of v = 0               -> state line
  crashsome <id> <observed state line, spaces written as |>
                             repeated crashes: a serialised delivery on a RESTARTED node killed at some commit
                             (the verification commit and the harness's quiescence fence run on two threads, so
                             the commit index does not determine the prefix): answers the persisted state of the
                             micro-state of that delivery (`microStates`: before it, after the insert, after each
                             step of the orphan search, after each verification) that equals the observed one
                             (and continues from it), else the state before the delivery     -> state line
  longchain <ids>            (family `edge`) every id delivered and verified, one after the other; the harness
                             prepared the same chain directly in the database                 -> ok
  consts                     the regenerated constants of the scan window                  -> mel=… expired=… bdw=…

Proposal table / view across restarts (`Model/RestartView.lean`):

  win <close> <far>          the proposal window of the case's consensus (first line of a case) -> ok
  prop <id> <own|-> <uncles|->   the block's own proposals zone and its uncles' zones (flattened) -> ok
  pview <close> <far>        `Snapshot::proposals()` of the running process: the driver keeps a `Window.Node`
                             next to the pipeline state exactly as `RestartView.xstep` does — `initAt` (the
                             model of `init_proposal_table`) at the persisted tip whenever the process has died
                             (`crash`, `crashdeliver`, `burstcrash`, `crash2`, `restart`), `switchTo` whenever
                             an operation moved the tip — and answers from it; it also recomputes `initAt` at
                             the current tip and appends ` init-differs` if the two differ as sets (they cannot:
                             `C08.init_eq_incremental`)                         -> gap=<ids> set=<ids>

The store view under the same commit log (`Model/CrashStore.lean` over `Model/Store.lean`):

  gtx <id> out=<dlen.dtag,…|none>      a genesis transaction                                  -> ok
  genesis el=<epoch length> txs=<ids>  `ChainDB::init`; switches the view tracking on         -> ok
  tx <id> fee=<f> in=<tx:idx,…|-> out=<dlen.dtag,…|none>   any other transaction (cellbases included) -> ok
  body <id> ep=<n.i.l> txs=<ids, cellbase first> uncles=<uncle ids|->   the content of block <id> (parent and
                             number from its `blk` line; opens an epoch iff index = 0, epoch record as in
                             Driver/C02)                                                        -> ok
  dump                       the persisted column view: every op of the pipeline driver is expanded into its
                             trace of micro-states (`deliver` without drain / one `verifyHead` / one step of the
                             orphan search), the commits between two consecutive micro-states are read off the
                             persisted part (`CrashStore.diffCommits`) and applied to the view one by one
                             (`applyCommit`: `ins` = insert_block rows, `del` = delete_block rows, `ver` = the
                             single verify_block transaction), up to the micro-state the op ended in (a crash op
                             ends inside the trace). Answer: the 12 sections of Driver/C02's dump, then
                             `body=<ids with block rows>` and `mmr=<leaf_index_to_mmr_size(tip number)>`;
                             ` view-neq-replay` is appended if the main-chain view differs from the replay of
                             the persisted tip's chain (it cannot: `C08.crash_view_eq_replay_every_commit…`),
                             ` trace-mismatch` if no prefix of the trace ends in the op's state -> dump line

The tx-pool across a restart (`Model/PoolReload.lean`; family `pool`; transactions are declared with `tx`,
the live-cell set is the `cells` column of the store view above):

  psubmit <id>               `submit_local_tx`                                   -> ok|rej pool=<ids>
  premove <id>               `remove_local_tx` (the transaction and its descendants)       -> pool=<ids>
  psave <ids in file order>  `save_pool`: the file the harness READ BACK (order as written by
                             `drain_all_transactions`); the pool is drained        -> saved=<the model's pool, sorted>
                             (` order-differs predicted=…` is appended when the file is not in the slot order of
                             the modelled slab — `PoolReload.Slab`, LIFO vacant list, ascending drain — while
                             that order is determined: no removal with two or more descendants so far)
  preload                    start of the next process: `load_persisted_data` = `submit_local_tx` in file
                             order on an empty pool, against the live cells of the current tip -> pool=<ids>
  ptorn                      the file was cut short (a process that died inside `save_into_file`: truncate, write,
                             sync_all — no atomic rename): `load_from_file` finds it broken and ignores ALL of it -> ok
  (any op after which the process is dead empties the pool; the file stays)
-/
namespace CkbVerif.Driver.C08
open CkbVerif.Driver CkbVerif.Chain CkbVerif.Driver.C01

/-- `Consensus::max_epoch_length()` = `MAX_EPOCH_LENGTH` = `DEFAULT_EPOCH_DURATION_TARGET / MIN_BLOCK_INTERVAL`
(the shape of both expressions is pinned by `Props/C08.lean`) -/
def maxEpochLength : Nat := Gen.Restart.DEFAULT_EPOCH_DURATION_TARGET / Gen.Restart.MIN_BLOCK_INTERVAL

/-- `i` deliveries without drain, then `v` verify steps -/
def burstState (T : Tree) (s : State) (ids : List Nat) (i v : Nat) : State :=
  let s1 := (ids.take i).foldl (fun s b => (deliver T [] s b).1) s
  (List.range v).foldl (fun s _ => (verifyHead T s).1) s1


/-- C01's state line without its block-status field `st=` (added to C01's protocol in round 6; C08's
    harness prints the older line, and crash observations are matched against it) -/
def dropSt (l : String) : String :=
  match l.splitOn " st=" with
  | a :: _ => a
  | [] => l

def stateLine8 (ds : List Decl) (s : State) (o : Out) : String := dropSt (stateLine ds s o)

def step (d : St) (ts : List String) : St × String :=
  match ts with
  | ["burstcrash", l, i, v] =>
    match parseNatList? l, parseNat? i, parseNat? v with
    | some l, some i, some v =>
      let c := crash (burstState (treeOf d.decls) (getState d) l i v)
      ({ d with st := some c }, stateLine8 d.decls c [])
    | _, _, _ => (d, "bad-op")
  | ["longchain", l] =>
    match parseNatList? l with
    | some l =>
      let T := treeOf d.decls
      let s := l.foldl (fun s b => (deliverQ T [] s b).1) (getState d)
      ({ d with st := some s }, "ok")
    | none => (d, "bad-op")
  | ["crash2", m, o, obs] =>
    match parseNat? m, parseNatList? o with
    | some m, some o =>
      let T := treeOf d.decls
      let s0 := crash (getState d)
      let l := scanList T m o s0
      let s1 := l.foldl (fun s b => (deliver T [] s b).1) s0
      let want := obs.replace "|" " "
      -- the persisted state after each prefix of the re-verification
      let cands := (List.range (s1.queue.length + 1)).map fun v =>
        crash ((List.range v).foldl (fun s _ => (verifyHead T s).1) s1)
      match cands.find? (fun c => stateLine8 d.decls c [] == want) with
      | some c => ({ d with st := some c }, stateLine8 d.decls c [])
      | none => ({ d with st := some s0 }, stateLine8 d.decls s0 [])
    | _, _ => (d, "bad-op")
  | ["crashsome", i, obs] =>
    match parseNat? i with
    | some i =>
      let cands := (microStates (treeOf d.decls) (getState d) i).map crash
      let want := obs.replace "|" " "
      match cands.find? (fun c => stateLine8 d.decls c [] == want) with
      | some c => ({ d with st := some c }, stateLine8 d.decls c [])
      | none =>
        match cands with
        | c :: _ => ({ d with st := some c }, stateLine8 d.decls c [])
        | [] => (d, "bad-op")
    | none => (d, "bad-op")
  | ["requeued", m, o] => let r := C01.step d ["scan", m, o]; (r.1, dropSt r.2)
  | ["consts"] =>
    (d, s!"mel={maxEpochLength} expired={Gen.Chain.EXPIRED_EPOCH} bdw={Gen.Chain.BLOCK_DOWNLOAD_WINDOW}")
  | _ => let r := C01.step d ts; (r.1, dropSt r.2)

/-! ## the proposal table next to the pipeline state -/

open CkbVerif.Window CkbVerif.RestartView in
structure St8 where
  base : St := {}
  win : Win := ⟨2, 4⟩
  /-- (id, own proposals zone, uncles' zones flattened) -/
  props : List (Nat × Ids × Ids) := []
  /-- table / view of the running process (`none` = first start on a fresh directory, not yet needed) -/
  pv : Option Node := none
  /-- store-view tracking (`genesis` switches it on) -/
  svOn : Bool := false
  sv : C02.St := {}
  uncleIds : List Nat := []
  svFlag : String := ""
  /-- the tx-pool of the running process (insertion order) and the content of the persisted file -/
  pool : List PoolReload.PTx := []
  saved : List PoolReload.PTx := []
  /-- the slab of the pool's multi-index map (`PoolReload.Slab`) and whether its vacant list is still
  determined (a removal with two or more descendants frees slots in `HashSet` order) -/
  slab : PoolReload.Slab := PoolReload.Slab.empty
  slabDet : Bool := true

open CkbVerif.Window CkbVerif.RestartView

def propsOf (ps : List (Nat × Ids × Ids)) : Props :=
  { own := fun b => match ps.find? (·.1 == b) with | some e => e.2.1 | none => []
    uncles := fun b => match ps.find? (·.1 == b) with | some e => [e.2.2] | none => [] }

def sortedSet (l : List Nat) : List Nat := (l.mergeSort (fun a b => a ≤ b)).eraseDups

def viewLine (v : View) : String := s!"gap={showNatList (sortedSet v.gap)} set={showNatList (sortedSet v.set)}"

/-- ops after which the model state is that of a process that has just died -/
def diesAfter (op : String) : Bool := op == "crash" || op == "crashdeliver" || op == "burstcrash" || op == "crash2" || op == "burststop" || op == "crashsome"

/-! ## the store view under the same commit log -/

/-- `n` verify steps, every state collected -/
def verifyTrace (T : Tree) (s : State) (n : Nat) : List State :=
  ((List.range n).foldl (fun (acc : State × List State) _ =>
    let x := (verifyHead T acc.1).1
    (x, acc.2 ++ [x])) (s, [])).2

/-- deliveries without drain, every state collected -/
def deliverTrace (T : Tree) (s : State) (ids : List Nat) (hint : List Nat) : List State :=
  (ids.foldl (fun (acc : State × List State) b =>
    let x := (deliver T hint acc.1 b).1
    (x, acc.2 ++ [x])) (s, [])).2

def lastOr (s : State) (l : List State) : State := l.getLast?.getD s

/-- serialised delivery: deliver, then verify until the queue is empty -/
def deliverQTrace (T : Tree) (s : State) (b : Nat) (hint : List Nat) : List State :=
  let s1 := (deliver T hint s b).1
  s1 :: verifyTrace T s1 s1.queue.length

/-- the full trace of micro-states of one op of the pipeline driver (states AFTER `s`), at a granularity
at which two consecutive states are at most one `verify_block` commit apart -/
def traceOf (T : Tree) (s : State) (ts : List String) : List State :=
  match ts with
  | ["deliver", i, h] =>
    match parseNat? i, parseNatList? h with
    | some i, some h => deliverQTrace T s i h
    | _, _ => []
  | ["burst", l] | ["longchain", l] =>
    match parseNatList? l with
    | some l => (l.foldl (fun (acc : State × List State) b =>
        let t := deliverQTrace T acc.1 b []
        (lastOr acc.1 t, acc.2 ++ t)) (s, [])).2
    | none => []
  | ["crashdeliver", i, _] | ["crashsome", i, _] =>
    match parseNat? i with
    | some i => (microStates T s i).drop 1
    | none => []
  | ["burstcrash", l, i, v] =>
    match parseNatList? l, parseNat? i, parseNat? v with
    | some l, some i, some v =>
      let t := deliverTrace T s (l.take i) []
      t ++ verifyTrace T (lastOr s t) v
    | _, _, _ => []
  | ["burststop", l, _] =>
    match parseNatList? l with
    | some l =>
      let t := deliverTrace T s l []
      let s1 := lastOr s t
      t ++ verifyTrace T s1 s1.queue.length
    | none => []
  | ["crash2", m, o, _] | ["restart", m, o] =>
    match parseNat? m, parseNatList? o with
    | some m, some o =>
      let s0 := crash s
      let t := deliverTrace T s0 (scanList T m o s0) []
      let s1 := lastOr s0 t
      t ++ verifyTrace T s1 s1.queue.length
    | _, _ => []
  | ["expire"] => [expire T s]
  | _ => []

def bodyOf (sv : C02.St) (i : Nat) : Store.Block := (C02.lookup sv.blocks i).getD default

/-- apply the commits of the shortest prefix of `trace` that ends in (the persisted part of) `after` -/
def advanceView (sv : C02.St) (ids : List Nat) (s after : State) (trace : List State) : Store.View × Bool :=
  if CrashStore.samePersisted ids s after then (sv.v, true) else
  let r := trace.foldl (fun (acc : (State × Store.View) × Bool) x =>
    if acc.2 then acc else
    let v := CrashStore.applyLog acc.1.2 (CrashStore.diffCommits (bodyOf sv) ids acc.1.1 x)
    ((x, v), CrashStore.samePersisted ids x after)) ((s, sv.v), false)
  (r.1.2, r.2)

def outsOf (s : String) : Option (List Store.Output) := if s = "none" then some [] else C02.parseOuts s

def dump8 (d : St8) : String :=
  let T := treeOf d.base.decls
  let s := getState d.base
  let blocks := d.sv.blocks ++ d.uncleIds.map fun u => (u, ({ (default : Store.Block) with id := u } : Store.Block))
  let line := C02.dump { d.sv with blocks := blocks } d.sv.v
  let ids := C02.sortNat (d.sv.blocks.map (·.1))
  let bodyS := C02.join ((ids.filter fun i => (d.sv.v.r.bodies i).isSome).map toString)
  let mmr := MMR.leafIndexToMmrSize (T.num s.tip)
  let ref := CrashStore.replayOf T (bodyOf d.sv) s.tip
  let refLine := C02.dump { d.sv with blocks := blocks } ⟨ref.m, d.sv.v.r⟩
  s!"{line} body={bodyS} mmr={mmr}" ++ (if line == refLine then "" else " view-neq-replay") ++ d.svFlag

def ptxOf (d : St8) (i : Nat) : Option PoolReload.PTx :=
  (C02.lookup d.sv.txs i).map fun t => { id := t.id, inputs := t.inputs, nout := t.outputs.length }

def liveOf (d : St8) : Store.OutPoint → Bool := fun o => (d.sv.v.m.cells o).isSome

def poolLine (pool : List PoolReload.PTx) : String := "pool=" ++ showNatList (C02.sortNat (pool.map (·.id)))

def stepStore (d : St8) (ts : List String) : Option (St8 × String) :=
  match ts with
  | ["gtx", id, outs] =>
    match parseNat? id, (C02.kv outs "out").bind outsOf with
    | some id, some outs =>
      some ({ d with sv := { d.sv with txs := (id, { id := id, inputs := [], outputs := outs }) :: d.sv.txs } }, "ok")
    | _, _ => some (d, "bad-op")
  | ["genesis", el, txs] =>
    match (C02.kv el "el").bind parseNat?, (C02.kv txs "txs").bind parseNatList? with
    | some el, some ids =>
      match ids.mapM (C02.lookup d.sv.txs) with
      | some txl =>
        let g : Store.Block := { id := 0, parent := 0, number := 0, epoch := ⟨0, 0, 0⟩, txs := txl, uncles := [],
                                 isHead := true, epochRec := ⟨0, 0, el, C02.ZERO_ID⟩ }
        let sv := { d.sv with blocks := [(0, g)], elen := el }
        some ({ d with sv := { sv with v := C02.normalize sv (Store.init g) }, svOn := true }, "ok")
      | none => some (d, "bad-op")
    | _, _ => some (d, "bad-op")
  | ["tx", id, fee, ins, outs] =>
    match parseNat? id, (C02.kv fee "fee").bind parseNat?, (C02.kv ins "in").bind C02.parseIns, (C02.kv outs "out").bind outsOf with
    | some id, some fee, some ins, some outs =>
      some ({ d with sv := { d.sv with txs := (id, { id := id, inputs := ins, outputs := outs, fee := fee }) :: d.sv.txs } }, "ok")
    | _, _, _, _ => some (d, "bad-op")
  | ["body", id, epf, txs, uncles] =>
    match parseNat? id, (C02.kv epf "ep").bind C02.parseEp, (C02.kv txs "txs").bind parseNatList?, (C02.kv uncles "uncles").bind parseNatList? with
    | some id, some e, some txIds, some uncles =>
      match look d.base.decls id, txIds.mapM (C02.lookup d.sv.txs) with
      | some dc, some txl =>
        match C02.lookup d.sv.blocks dc.parent with
        | some p =>
          let isHead := e.index == 0
          let rec_ : Store.EpochRec := if isHead then ⟨e.number, dc.num, e.length, dc.parent⟩ else p.epochRec
          let b : Store.Block := { id := id, parent := dc.parent, number := dc.num, epoch := e, txs := txl,
                                   uncles := uncles, isHead := isHead, epochRec := rec_ }
          some ({ d with sv := { d.sv with blocks := (id, b) :: d.sv.blocks }, uncleIds := d.uncleIds ++ uncles }, "ok")
        | none => some (d, "bad-op")
      | _, _ => some (d, "bad-op")
    | _, _, _, _ => some (d, "bad-op")
  | ["dump"] => some (d, if d.svOn then dump8 d else "view-off")
  | ["psubmit", i] =>
    match (parseNat? i).bind (ptxOf d) with
    | some t =>
      let ok := PoolReload.accepts (liveOf d) d.pool t
      let pool := PoolReload.submit (liveOf d) d.pool t
      some ({ d with pool := pool, slab := if ok then d.slab.insert t else d.slab }, (if ok then "ok " else "rej ") ++ poolLine pool)
    | none => some (d, "bad-op")
  | ["premove", i] =>
    match parseNat? i with
    | some i =>
      let pool := PoolReload.removeTx d.pool i
      let gone := PoolReload.removedIds d.pool i
      some ({ d with pool := pool, slab := gone.foldl PoolReload.Slab.remove d.slab,
                     slabDet := d.slabDet && decide (gone.length ≤ 2) }, poolLine pool)
    | none => some (d, "bad-op")
  | ["psave", l] =>
    match (parseNatList? l).bind fun l => l.mapM (ptxOf d) with
    | some file =>
      -- the ORDER of the file: ascending slot order of the slab, predicted while the vacant list is determined
      let predicted := d.slab.drain.map (·.id)
      let flag := if d.slabDet && predicted != file.map (·.id) then s!" order-differs predicted={showNatList predicted}" else ""
      some ({ d with saved := file, pool := [], slab := PoolReload.Slab.empty, slabDet := true },
        "saved=" ++ showNatList (C02.sortNat (d.pool.map (·.id))) ++ flag)
    | none => some (d, "bad-op")
  | ["ptorn"] => some ({ d with saved := [] }, "ok")
  | ["preload"] =>
    let pool := PoolReload.reload (liveOf d) d.saved
    some ({ d with pool := pool, slab := pool.foldl PoolReload.Slab.insert PoolReload.Slab.empty, slabDet := true }, poolLine pool)
  | _ => none

def step8 (d : St8) (ts : List String) : St8 × String :=
  match stepStore d ts with
  | some r => r
  | none =>
  match ts with
  | ["win", c, f] =>
    match parseNat? c, parseNat? f with
    | some c, some f => ({ d with win := ⟨c, f⟩ }, "ok")
    | _, _ => (d, "bad-op")
  | ["prop", i, o, u] =>
    match parseNat? i, parseNatList? o, parseNatList? u with
    | some i, some o, some u => ({ d with props := d.props ++ [(i, o, u)] }, "ok")
    | _, _, _ => (d, "bad-op")
  | ["pview", c, f] =>
    match parseNat? c, parseNat? f with
    | some c, some f =>
      if c != d.win.close || f != d.win.far then (d, "bad-window") else
      let T := treeOf d.base.decls
      let P := propsOf d.props
      let tip := (getState d.base).tip
      let pv := d.pv.getD (initAt d.win P T tip)
      let fresh := initAt d.win P T tip
      let line := viewLine pv.view
      ({ d with pv := some pv }, if line == viewLine fresh.view then line else line ++ " init-differs")
    | _, _ => (d, "bad-op")
  | op :: _ =>
    let before := getState d.base
    let (b', out) := step d.base ts
    let after := getState b'
    let T := treeOf b'.decls
    let P := propsOf d.props
    let pv :=
      if diesAfter op then some (initAt d.win P T after.tip)
      else
        let pv0 := if op == "restart" then initAt d.win P T before.tip else d.pv.getD (initAt d.win P T 0)
        if after.tip = before.tip then some pv0 else some (switchTo d.win P T pv0 before.tip after.tip)
    let d :=
      if d.svOn then
        let ids := b'.decls.map (·.id)
        let (v, ok) := advanceView d.sv ids before after (traceOf T before ts)
        { d with sv := { d.sv with v := C02.normalize d.sv v }, svFlag := if ok then d.svFlag else " trace-mismatch" }
      else d
    let dead := diesAfter op
    ({ d with base := b', pv := pv, pool := if dead then [] else d.pool,
              slab := if dead then PoolReload.Slab.empty else d.slab, slabDet := dead || d.slabDet }, out)
  | [] => (d, "bad-op")

def main (_args : List String) : IO UInt32 := runLines ({} : St8) step8
end CkbVerif.Driver.C08
