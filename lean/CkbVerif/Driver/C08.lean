import CkbVerif.Driver.C01
import CkbVerif.Gen.Restart
import CkbVerif.Model.RestartView
/-!
C08 uses the chain-pipeline driver of C01 (ops `blk`, `deliver`, `commits`, `crashdeliver`, `restart`,
`scan`, `burst`) and adds (harness/n08/src/c08.rs, family `fork`):

  burstcrash <ids> <i> <v>   the first `i` blocks of `ids` are handed to the chain service one after the
                             other WITHOUT waiting for verification (`deliver`, no drain), the verify
                             thread has completed `v` queue entries (`verify` × v), then the process dies:
                             the persisted state                                          -> state line
  requeued <maxEpochLen> <order|->   the blocks the start-up scan re-submits (the harness answers with the
                             set it OBSERVED on the restarted node)                       -> ids
  crash2 <maxEpochLen> <order|-> <observed state line, spaces written as |>
                             second-level crash during the start-up re-verification: `crash`, every block of
                             `scanList` re-submitted, then the process dies after SOME number v of
                             verifications; answers the persisted state of the prefix that equals the observed
                             one (and continues from it), else that of v = 0               -> state line
  crashsome <id> <observed state line, spaces written as |>
                             repeated crashes: a serialised delivery on a RESTARTED node killed at some commit
                             (the verification commit and the harness's quiescence fence run on two threads, so
                             the commit index does not determine the prefix): answers the persisted state of the
                             micro-state of that delivery (`microStates`: before it, after the insert, after each
                             step of the orphan search, after each verification) that equals the observed one
                             (and continues from it), else the state before the delivery     -> state line
  longchain <ids>            (family `edge`) every id delivered and verified, one after the other; the harness
                             prepared the same chain directly in the database                 -> ok
  consts                     the regenerated constants of the scan window                  -> mel=… expired=… bdw=…

Proposal table / view across restarts (`Model/RestartView.lean`):

  win <close> <far>          the proposal window of the case's consensus (first line of a case) -> ok
  prop <id> <own|-> <uncles|->   the block's own proposals zone and its uncles' zones (flattened) -> ok
  pview <close> <far>        `Snapshot::proposals()` of the running process: the driver keeps a `Window.Node`
                             next to the pipeline state exactly as `RestartView.xstep` does — `initAt` (the
                             model of `init_proposal_table`) at the persisted tip whenever the process has died
                             (`crash`, `crashdeliver`, `burstcrash`, `crash2`, `restart`), `switchTo` whenever
                             an operation moved the tip — and answers from it; it also recomputes `initAt` at
                             the current tip and appends ` init-differs` if the two differ as sets (they cannot:
                             `C08.init_eq_incremental`)                         -> gap=<ids> set=<ids>
-/
namespace CkbVerif.Driver.C08
open CkbVerif.Driver CkbVerif.Chain CkbVerif.Driver.C01

/-- `Consensus::max_epoch_length()` = `MAX_EPOCH_LENGTH` = `DEFAULT_EPOCH_DURATION_TARGET / MIN_BLOCK_INTERVAL`
(the shape of both expressions is pinned by `Props/C08.lean`) -/
def maxEpochLength : Nat := Gen.Restart.DEFAULT_EPOCH_DURATION_TARGET / Gen.Restart.MIN_BLOCK_INTERVAL

/-- `i` deliveries without drain, then `v` verify steps -/
def burstState (T : Tree) (s : State) (ids : List Nat) (i v : Nat) : State :=
  let s1 := (ids.take i).foldl (fun s b => (deliver T [] s b).1) s
  (List.range v).foldl (fun s _ => (verifyHead T s).1) s1

def step (d : St) (ts : List String) : St × String :=
  match ts with
  | ["burstcrash", l, i, v] =>
    match parseNatList? l, parseNat? i, parseNat? v with
    | some l, some i, some v =>
      let c := crash (burstState (treeOf d.decls) (getState d) l i v)
      ({ d with st := some c }, stateLine d.decls c [])
    | _, _, _ => (d, "bad-op")
  | ["longchain", l] =>
    match parseNatList? l with
    | some l =>
      let T := treeOf d.decls
      let s := l.foldl (fun s b => (deliverQ T [] s b).1) (getState d)
      ({ d with st := some s }, "ok")
    | none => (d, "bad-op")
  | ["crash2", m, o, obs] =>
    match parseNat? m, parseNatList? o with
    | some m, some o =>
      let T := treeOf d.decls
      let s0 := crash (getState d)
      let l := scanList T m o s0
      let s1 := l.foldl (fun s b => (deliver T [] s b).1) s0
      let want := obs.replace "|" " "
      -- the persisted state after each prefix of the re-verification
      let cands := (List.range (s1.queue.length + 1)).map fun v =>
        crash ((List.range v).foldl (fun s _ => (verifyHead T s).1) s1)
      match cands.find? (fun c => stateLine d.decls c [] == want) with
      | some c => ({ d with st := some c }, stateLine d.decls c [])
      | none => ({ d with st := some s0 }, stateLine d.decls s0 [])
    | _, _ => (d, "bad-op")
  | ["crashsome", i, obs] =>
    match parseNat? i with
    | some i =>
      let cands := (microStates (treeOf d.decls) (getState d) i).map crash
      let want := obs.replace "|" " "
      match cands.find? (fun c => stateLine d.decls c [] == want) with
      | some c => ({ d with st := some c }, stateLine d.decls c [])
      | none =>
        match cands with
        | c :: _ => ({ d with st := some c }, stateLine d.decls c [])
        | [] => (d, "bad-op")
    | none => (d, "bad-op")
  | ["requeued", m, o] => C01.step d ["scan", m, o]
  | ["consts"] =>
    (d, s!"mel={maxEpochLength} expired={Gen.Chain.EXPIRED_EPOCH} bdw={Gen.Chain.BLOCK_DOWNLOAD_WINDOW}")
  | _ => C01.step d ts

/-! ## the proposal table next to the pipeline state -/

open CkbVerif.Window CkbVerif.RestartView in
structure St8 where
  base : St := {}
  win : Win := ⟨2, 4⟩
  /-- (id, own proposals zone, uncles' zones flattened) -/
  props : List (Nat × Ids × Ids) := []
  /-- table / view of the running process (`none` = first start on a fresh directory, not yet needed) -/
  pv : Option Node := none

open CkbVerif.Window CkbVerif.RestartView

def propsOf (ps : List (Nat × Ids × Ids)) : Props :=
  { own := fun b => match ps.find? (·.1 == b) with | some e => e.2.1 | none => []
    uncles := fun b => match ps.find? (·.1 == b) with | some e => [e.2.2] | none => [] }

def sortedSet (l : List Nat) : List Nat := (l.mergeSort (fun a b => a ≤ b)).eraseDups

def viewLine (v : View) : String := s!"gap={showNatList (sortedSet v.gap)} set={showNatList (sortedSet v.set)}"

/-- ops after which the model state is that of a process that has just died -/
def diesAfter (op : String) : Bool := op == "crash" || op == "crashdeliver" || op == "burstcrash" || op == "crash2" || op == "burststop" || op == "crashsome"

def step8 (d : St8) (ts : List String) : St8 × String :=
  match ts with
  | ["win", c, f] =>
    match parseNat? c, parseNat? f with
    | some c, some f => ({ d with win := ⟨c, f⟩ }, "ok")
    | _, _ => (d, "bad-op")
  | ["prop", i, o, u] =>
    match parseNat? i, parseNatList? o, parseNatList? u with
    | some i, some o, some u => ({ d with props := d.props ++ [(i, o, u)] }, "ok")
    | _, _, _ => (d, "bad-op")
  | ["pview", c, f] =>
    match parseNat? c, parseNat? f with
    | some c, some f =>
      if c != d.win.close || f != d.win.far then (d, "bad-window") else
      let T := treeOf d.base.decls
      let P := propsOf d.props
      let tip := (getState d.base).tip
      let pv := d.pv.getD (initAt d.win P T tip)
      let fresh := initAt d.win P T tip
      let line := viewLine pv.view
      ({ d with pv := some pv }, if line == viewLine fresh.view then line else line ++ " init-differs")
    | _, _ => (d, "bad-op")
  | op :: _ =>
    let before := getState d.base
    let (b', out) := step d.base ts
    let after := getState b'
    let T := treeOf b'.decls
    let P := propsOf d.props
    let pv :=
      if diesAfter op then some (initAt d.win P T after.tip)
      else
        let pv0 := if op == "restart" then initAt d.win P T before.tip else d.pv.getD (initAt d.win P T 0)
        if after.tip = before.tip then some pv0 else some (switchTo d.win P T pv0 before.tip after.tip)
    ({ d with base := b', pv := pv }, out)
  | [] => (d, "bad-op")

def main (_args : List String) : IO UInt32 := runLines ({} : St8) step8
end CkbVerif.Driver.C08
