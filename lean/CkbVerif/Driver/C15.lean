import CkbVerif.Driver.Util
import CkbVerif.Model.Molecule
import CkbVerif.Model.Json
import CkbVerif.Gen.Schemas

/-! Line-protocol driver for C15 (protocol: harness/hcore/src/c15.rs).

Stream `mol`:
  enc <Type> <val>            -> <hex>                 model: `encode`
  dec <Type> <s|c> <hex>      -> ok <val> | err        model: `decode` strict / compatible
  ver <Type> <s|c> <hex>      -> ok | err              model: `verify`
  pre <what> <hex>            -> <hex> | err           model: hash pre-image selected from the layout
Stream `json`:
  ju <bits> <n>               -> <0x-hex string>       model: `Json.showUint`
  jp <bits> <string>          -> ok <n> | err          model: `Json.parseUint`
  jb <hex>                    -> <0x-hex string>       model: `Json.showBytes`
  jq <string>                 -> ok <hex> | err        model: `Json.parseBytes`

Value syntax (one token): `bHH` byte, `xHEX…` non-empty sequence of bytes, `(v,v,…)` sequence,
`()` empty sequence, `N` none, `S<v>` some, `U<id>:<v>` union.
-/
namespace CkbVerif.Driver.C15
open CkbVerif.Driver CkbVerif.Molecule

def hexDigit (n : Nat) : Char :=
  if n < 10 then Char.ofNat (48 + n) else Char.ofNat (87 + n)

def hexCharsOf (b : Bytes) (acc : List Char) : List Char :=
  b.foldr (fun x acc => hexDigit (x.toNat / 16) :: hexDigit (x.toNat % 16) :: acc) acc

def hexOf (b : Bytes) : String :=
  if b.isEmpty then "-" else String.ofList (hexCharsOf b [])

def hexVal (c : Char) : Option Nat :=
  if c.isDigit then some (c.toNat - 48)
  else if 'a' ≤ c ∧ c ≤ 'f' then some (c.toNat - 87)
  else none

partial def unhexAux : List Char → Bytes → Option Bytes
  | [], acc => some acc.reverse
  | [_], _ => none
  | a :: b :: rest, acc =>
    match hexVal a, hexVal b with
    | some x, some y => unhexAux rest (UInt8.ofNat (x * 16 + y) :: acc)
    | _, _ => none

def unhex (s : String) : Option Bytes :=
  if s = "-" then some [] else unhexAux s.toList []

def isByte : Val → Bool
  | .byte _ => true
  | _ => false

partial def showValAux : Val → List Char → List Char
  | .byte b, acc => 'b' :: hexDigit (b.toNat / 16) :: hexDigit (b.toNat % 16) :: acc
  | .seq [], acc => '(' :: ')' :: acc
  | .seq vs, acc =>
    if vs.all isByte then
      'x' :: vs.foldr (fun v acc =>
        match v with
        | .byte x => hexDigit (x.toNat / 16) :: hexDigit (x.toNat % 16) :: acc
        | _ => acc) acc
    else
      let rec go : List Val → List Char → List Char
        | [], acc => acc
        | [v], acc => showValAux v acc
        | v :: rest, acc => showValAux v (',' :: go rest acc)
      '(' :: go vs (')' :: acc)
  | .none, acc => 'N' :: acc
  | .some v, acc => 'S' :: showValAux v acc
  | .union id v, acc => 'U' :: (toString id).toList ++ (':' :: showValAux v acc)

def showVal (v : Val) : String := String.ofList (showValAux v [])

partial def parseHexRun : List Char → List Val → List Val × List Char
  | a :: b :: rest, acc =>
    match hexVal a, hexVal b with
    | some x, some y => parseHexRun rest (.byte (UInt8.ofNat (x * 16 + y)) :: acc)
    | _, _ => (acc.reverse, a :: b :: rest)
  | rest, acc => (acc.reverse, rest)

partial def parseDigits : List Char → Nat → Nat × List Char
  | c :: rest, n => if c.isDigit then parseDigits rest (n * 10 + (c.toNat - 48)) else (n, c :: rest)
  | [], n => (n, [])

mutual
partial def parseVal : List Char → Option (Val × List Char)
  | 'b' :: h :: l :: rest =>
    match hexVal h, hexVal l with
    | some x, some y => some (.byte (UInt8.ofNat (x * 16 + y)), rest)
    | _, _ => none
  | 'x' :: rest =>
    let (vs, r) := parseHexRun rest []
    if vs.isEmpty then none else some (.seq vs, r)
  | 'N' :: rest => some (.none, rest)
  | 'S' :: rest =>
    match parseVal rest with
    | some (v, r) => some (.some v, r)
    | none => none
  | 'U' :: rest =>
    match parseDigits rest 0 with
    | (id, ':' :: r) =>
      match parseVal r with
      | some (v, r2) => some (.union id v, r2)
      | none => none
    | _ => none
  | '(' :: ')' :: rest => some (.seq [], rest)
  | '(' :: rest => parseItems rest []
  | _ => none
partial def parseItems : List Char → List Val → Option (Val × List Char)
  | cs, acc =>
    match parseVal cs with
    | some (v, ',' :: r) => parseItems r (v :: acc)
    | some (v, ')' :: r) => some (.seq (v :: acc).reverse, r)
    | _ => none
end

def readVal (s : String) : Option Val :=
  match parseVal s.toList with
  | some (v, []) => some v
  | _ => none

def lookup (name : String) : Option Schema :=
  (CkbVerif.Gen.Schemas.all.find? (fun p => p.1 == name)).map (·.2)

def modeOf (m : String) : Option Bool :=
  if m = "s" then some false else if m = "c" then some true else none

/-- Hash pre-images selected from the layout (the hash function itself is opaque):
`tx`   tx hash        = H(raw field of Transaction)
`wtx`  witness hash   = H(whole Transaction)
`hdr`  header hash    = H(whole Header)
`pow`  pow hash input = raw field of Header
`script` / `cellout` … = H(whole entity) -/
def preimage (what : String) (bs : Bytes) : Option Bytes :=
  match what with
  | "tx" => if verify false CkbVerif.Gen.Schemas.S.Transaction bs then tableFieldBytes bs 0 else none
  | "wtx" => if verify false CkbVerif.Gen.Schemas.S.Transaction bs then some bs else none
  | "hdr" => if verify false CkbVerif.Gen.Schemas.S.Header bs then some bs else none
  | "pow" => if verify false CkbVerif.Gen.Schemas.S.Header bs then some (structFieldBytes [CkbVerif.Gen.Schemas.S.RawHeader, CkbVerif.Gen.Schemas.S.Uint128] bs 0) else none
  | _ => none

def stepMol (ts : List String) : String :=
  match ts with
  | ["enc", t, v] =>
    match lookup t, readVal v with
    | some s, some v => hexOf (encode s v)
    | _, _ => "bad-op"
  | ["dec", t, m, hx] =>
    match lookup t, modeOf m, unhex hx with
    | some s, some c, some bs =>
      match decode c s bs with
      | some v => "ok " ++ showVal v
      | none => "err"
    | _, _, _ => "bad-op"
  | ["ver", t, m, hx] =>
    match lookup t, modeOf m, unhex hx with
    | some s, some c, some bs => if verify c s bs then "ok" else "err"
    | _, _, _ => "bad-op"
  | ["pre", what, hx] =>
    match unhex hx with
    | some bs =>
      match preimage what bs with
      | some p => hexOf p
      | none => "err"
    | none => "bad-op"
  | _ => "bad-op"

def stepJson (ts : List String) : String :=
  match ts with
  | ["ju", bits, n] =>
    match parseNat? bits, parseNat? n with
    | some _, some n => CkbVerif.Json.showUint n
    | _, _ => "bad-op"
  | ["jp", bits, s] =>
    match parseNat? bits with
    | some bits =>
      match CkbVerif.Json.parseUint bits s.toList with
      | some n => s!"ok {n}"
      | none => "err"
    | none => "bad-op"
  | ["jb", hx] =>
    match unhex hx with
    | some bs => CkbVerif.Json.showBytes bs
    | none => "bad-op"
  | ["jq", s] =>
    match CkbVerif.Json.parseBytes s.toList with
    | some bs => "ok " ++ hexOf bs
    | none => "err"
  | _ => "bad-op"

def main (args : List String) : IO UInt32 :=
  match args with
  | ["json"] => runLines () (fun _ ts => ((), stepJson ts))
  | _ => runLines () (fun _ ts => ((), stepMol ts))

end CkbVerif.Driver.C15
