import CkbVerif.Driver.Util
import CkbVerif.Model.Molecule
import CkbVerif.Model.Json
import CkbVerif.Model.Hash
import CkbVerif.Model.HashView
import CkbVerif.Model.HashProof
import CkbVerif.Model.MolSize
import CkbVerif.Model.JsonMap
import CkbVerif.Gen.Schemas

/-! Line-protocol driver for C15 (protocol: harness/hcore/src/c15.rs).

Stream `mol`:
  enc <Type> <val>            -> <hex>                 model: `encode`
  dec <Type> <s|c> <hex>      -> ok <val> | err        model: `decode` strict / compatible
  ver <Type> <s|c> <hex>      -> ok | err              model: `verify`
  pre <what> <hex>            -> <hex> | err           model: hash pre-image selected from the layout
Stream `json`:
  ju <bits> <n>               -> <0x-hex string>       model: `Json.showUint`
  jp <bits> <string>          -> ok <n> | err          model: `Json.parseUint`
  jb <hex>                    -> <0x-hex string>       model: `Json.showBytes`
  jq <string>                 -> ok <hex> | err        model: `Json.parseBytes`
  jm <Type> <Branch>          -> fwd=<json=packed,..> back=<json=packed,..>   the GENERATED field maps (`Gen/JsonMap.lean`) vs the maps probed on the real conversions

Stream `view` (harness/hcore/src/c15_term.rs; model: `Model/Hash.lean` over the free term algebra `Dg`):
  cbmt <n>                    -> <term>                `merkleRoot` over n leaves h<i as 2 bytes LE>
  vblk <seed> <blockhex>      -> tr=<term> ph=<term> xh=<term>   `resetFields` of the body read from the bytes
  vpath <k> <blockhex>        -> <dump>                a view built through path k of the view model (`Model/HashView.lean`):
                                 0 into_view, 1 as_advanced_builder+set_proposals(reversed)+build, 2 …set_transactions(last first),
                                 3 …extension toggled, 4 …set_uncles(first dropped), 5 into_view_without_reset_header,
                                 6 packed as_advanced_builder + one proposal + build_unchecked, 7 new_unchecked(_with_extension) with the body reversed
                                 dump = hash tr ph xh th wh uh (caches) ti (transaction(i) for all i) pp (proposals) ext
  terms: `0` zero digest, `h<hex>` blake2b(literal bytes), `d(t,..)` blake2b(concatenated digests)

Stream `proof` (harness/hcore/src/c15_proof.rs; model: `Model/HashProof.lean`):
  mpg <leaves> <leaf-indices>             -> none | panic | nodes= idx= lem= ret= root= mr=   generic u64 instantiation, merge l r = 31 l + 17 r + 1 mod 2^64
  mrg <indices> <lemmas> <leaves>         -> some <r> | none                                   `proofRoot`
  mlg <leaves> <indices>                  -> some <l> | none                                   `retrieveLeaves`
  mpb <n> <ranks> <leaf-indices>          -> none | panic | idx= lem= ret= root= mr=           ckb instantiation over terms, leaf order by rank
  txv <n> <ranks> <leaf-indices> <tamper> -> none | panic | rej | ok <terms>                   `getTxProof`, tamper, `verifyTxProof`
  ssz <blockhex>                          -> wo= txs= uncle= pid=                              `Model/MolSize.lean`

Value syntax (one token): `bHH` byte, `xHEX…` non-empty sequence of bytes, `(v,v,…)` sequence,
`()` empty sequence, `N` none, `S<v>` some, `U<id>:<v>` union.
-/
namespace CkbVerif.Driver.C15
open CkbVerif.Driver CkbVerif.Molecule

def hexDigit (n : Nat) : Char :=
  if n < 10 then Char.ofNat (48 + n) else Char.ofNat (87 + n)

def hexCharsOf (b : Bytes) (acc : List Char) : List Char :=
  b.foldr (fun x acc => hexDigit (x.toNat / 16) :: hexDigit (x.toNat % 16) :: acc) acc

def hexOf (b : Bytes) : String :=
  if b.isEmpty then "-" else String.ofList (hexCharsOf b [])

def hexVal (c : Char) : Option Nat :=
  if c.isDigit then some (c.toNat - 48)
  else if 'a' ≤ c ∧ c ≤ 'f' then some (c.toNat - 87)
  else none

partial def unhexAux : List Char → Bytes → Option Bytes
  | [], acc => some acc.reverse
  | [_], _ => none
  | a :: b :: rest, acc =>
    match hexVal a, hexVal b with
    | some x, some y => unhexAux rest (UInt8.ofNat (x * 16 + y) :: acc)
    | _, _ => none

def unhex (s : String) : Option Bytes :=
  if s = "-" then some [] else unhexAux s.toList []

def isByte : Val → Bool
  | .byte _ => true
  | _ => false

partial def showValAux : Val → List Char → List Char
  | .byte b, acc => 'b' :: hexDigit (b.toNat / 16) :: hexDigit (b.toNat % 16) :: acc
  | .seq [], acc => '(' :: ')' :: acc
  | .seq vs, acc =>
    if vs.all isByte then
      'x' :: vs.foldr (fun v acc =>
        match v with
        | .byte x => hexDigit (x.toNat / 16) :: hexDigit (x.toNat % 16) :: acc
        | _ => acc) acc
    else
      let rec go : List Val → List Char → List Char
        | [], acc => acc
        | [v], acc => showValAux v acc
        | v :: rest, acc => showValAux v (',' :: go rest acc)
      '(' :: go vs (')' :: acc)
  | .none, acc => 'N' :: acc
  | .some v, acc => 'S' :: showValAux v acc
  | .union id v, acc => 'U' :: (toString id).toList ++ (':' :: showValAux v acc)

def showVal (v : Val) : String := String.ofList (showValAux v [])

partial def parseHexRun : List Char → List Val → List Val × List Char
  | a :: b :: rest, acc =>
    match hexVal a, hexVal b with
    | some x, some y => parseHexRun rest (.byte (UInt8.ofNat (x * 16 + y)) :: acc)
    | _, _ => (acc.reverse, a :: b :: rest)
  | rest, acc => (acc.reverse, rest)

partial def parseDigits : List Char → Nat → Nat × List Char
  | c :: rest, n => if c.isDigit then parseDigits rest (n * 10 + (c.toNat - 48)) else (n, c :: rest)
  | [], n => (n, [])

mutual
partial def parseVal : List Char → Option (Val × List Char)
  | 'b' :: h :: l :: rest =>
    match hexVal h, hexVal l with
    | some x, some y => some (.byte (UInt8.ofNat (x * 16 + y)), rest)
    | _, _ => none
  | 'x' :: rest =>
    let (vs, r) := parseHexRun rest []
    if vs.isEmpty then none else some (.seq vs, r)
  | 'N' :: rest => some (.none, rest)
  | 'S' :: rest =>
    match parseVal rest with
    | some (v, r) => some (.some v, r)
    | none => none
  | 'U' :: rest =>
    match parseDigits rest 0 with
    | (id, ':' :: r) =>
      match parseVal r with
      | some (v, r2) => some (.union id v, r2)
      | none => none
    | _ => none
  | '(' :: ')' :: rest => some (.seq [], rest)
  | '(' :: rest => parseItems rest []
  | _ => none
partial def parseItems : List Char → List Val → Option (Val × List Char)
  | cs, acc =>
    match parseVal cs with
    | some (v, ',' :: r) => parseItems r (v :: acc)
    | some (v, ')' :: r) => some (.seq (v :: acc).reverse, r)
    | _ => none
end

def readVal (s : String) : Option Val :=
  match parseVal s.toList with
  | some (v, []) => some v
  | _ => none

def lookup (name : String) : Option Schema :=
  (CkbVerif.Gen.Schemas.all.find? (fun p => p.1 == name)).map (·.2)

def modeOf (m : String) : Option Bool :=
  if m = "s" then some false else if m = "c" then some true else none

/-- Hash pre-images selected from the layout (the hash function itself is opaque):
`tx`   tx hash        = H(raw field of Transaction)
`wtx`  witness hash   = H(whole Transaction)
`hdr`  header hash    = H(whole Header)
`pow`  pow hash input = raw field of Header
`script` / `cellout` … = H(whole entity) -/
def preimage (what : String) (bs : Bytes) : Option Bytes :=
  match what with
  | "tx" => if verify false CkbVerif.Gen.Schemas.S.Transaction bs then tableFieldBytes bs 0 else none
  | "wtx" => if verify false CkbVerif.Gen.Schemas.S.Transaction bs then some bs else none
  | "hdr" => if verify false CkbVerif.Gen.Schemas.S.Header bs then some bs else none
  | "pow" => if verify false CkbVerif.Gen.Schemas.S.Header bs then some (structFieldBytes [CkbVerif.Gen.Schemas.S.RawHeader, CkbVerif.Gen.Schemas.S.Uint128] bs 0) else none
  | _ => none

def stepMol (ts : List String) : String :=
  match ts with
  | ["enc", t, v] =>
    match lookup t, readVal v with
    | some s, some v => hexOf (encode s v)
    | _, _ => "bad-op"
  | ["dec", t, m, hx] =>
    match lookup t, modeOf m, unhex hx with
    | some s, some c, some bs =>
      match decode c s bs with
      | some v => "ok " ++ showVal v
      | none => "err"
    | _, _, _ => "bad-op"
  | ["ver", t, m, hx] =>
    match lookup t, modeOf m, unhex hx with
    | some s, some c, some bs => if verify c s bs then "ok" else "err"
    | _, _, _ => "bad-op"
  | ["pre", what, hx] =>
    match unhex hx with
    | some bs =>
      match preimage what bs with
      | some p => hexOf p
      | none => "err"
    | none => "bad-op"
  | _ => "bad-op"

def stepJson (ts : List String) : String :=
  match ts with
  | ["ju", bits, n] =>
    match parseNat? bits, parseNat? n with
    | some _, some n => CkbVerif.Json.showUint n
    | _, _ => "bad-op"
  | ["jp", bits, s] =>
    match parseNat? bits with
    | some bits =>
      match CkbVerif.Json.parseUint bits s.toList with
      | some n => s!"ok {n}"
      | none => "err"
    | none => "bad-op"
  | ["jb", hx] =>
    match unhex hx with
    | some bs => CkbVerif.Json.showBytes bs
    | none => "bad-op"
  | ["jq", s] =>
    match CkbVerif.Json.parseBytes s.toList with
    | some bs => "ok " ++ hexOf bs
    | none => "err"
  | ["jm", ty, br] =>
    -- the field maps of the GENERATED table (bin/gen.d/jsonmap.py), restricted to what the branch writes
    match CkbVerif.Gen.JsonMap.all.find? (fun t => t.name == ty) with
    | some t =>
      match t.back.find? (fun b => b.1 == br) with
      | some b =>
        let targets := CkbVerif.JsonMap.branchTargets t b.2
        let side := fun (es : List CkbVerif.Gen.JsonMap.Entry) =>
          ",".intercalate (targets.flatMap fun p =>
            match es.filter (fun e => e.packed == p) with
            | [] => ["?=" ++ p]
            | l => l.map fun e => e.json ++ "=" ++ p)
        "fwd=" ++ side t.fwd ++ " back=" ++ side b.2
      | none => "bad-op"
    | none => "bad-op"
  | _ => "bad-op"

partial def showDg : CkbVerif.Hash.Dg → String
  | .zero => "0"
  | .hb bs => "h" ++ hexOf bs
  | .hd ds => "d(" ++ ",".intercalate (ds.map showDg) ++ ")"
  | .hm l ds => "m" ++ hexOf l ++ "(" ++ ",".intercalate (ds.map showDg) ++ ")"
  | .raw bs => "?" ++ hexOf (bs.take 4)

def showList (l : List String) : String := if l.isEmpty then "-" else ";".intercalate l

open CkbVerif.Hash in
def dumpView (v : BlockView Dg) : String :=
  let n := v.data.txs.length
  let ti := (List.range (n + 2)).map fun i =>
    match v.transaction i with
    | some t => showDg t.hash ++ "/" ++ showDg t.witnessHash
    | none => "none"
  "hash=" ++ showDg v.hash ++ " tr=" ++ showDg v.data.fields.transactionsRoot ++ " ph=" ++ showDg v.data.fields.proposalsHash
    ++ " xh=" ++ showDg v.data.fields.extraHash ++ " th=" ++ showList (v.txHashes.map showDg)
    ++ " wh=" ++ showList (v.txWitnessHashes.map showDg) ++ " uh=" ++ showList (v.uncleHashes.map showDg)
    ++ " ti=" ++ showList ti ++ " pp=" ++ hexOf v.data.proposals.flatten
    ++ " ext=" ++ (match v.data.extension with | none => "none" | some e => "x" ++ hexOf e)

open CkbVerif.Hash in
def viewPath (k : Nat) (b : BlockData Dg) : Option (BlockView Dg) :=
  let A := termAlg
  let v0 := intoView A b
  match k with
  | 0 => some v0
  | 1 => some (({ v0.asAdvancedBuilder with proposals := v0.data.proposals.reverse } : BlockBuilder Dg).build A)
  | 2 =>
    let ts := v0.asAdvancedBuilder.transactions
    some (({ v0.asAdvancedBuilder with transactions := ts.drop (ts.length - 1) ++ ts.take (ts.length - 1) } : BlockBuilder Dg).build A)
  | 3 =>
    let e : Option Bytes := match v0.data.extension with | some _ => none | none => some []
    some (({ v0.asAdvancedBuilder with extension := e } : BlockBuilder Dg).build A)
  | 4 => some (({ v0.asAdvancedBuilder with uncles := v0.asAdvancedBuilder.uncles.drop 1 } : BlockBuilder Dg).build A)
  | 5 => some (intoViewWithoutReset A b)
  | 6 =>
    let bb := b.asAdvancedBuilder A
    some (({ bb with proposals := bb.proposals ++ [List.replicate 10 6] } : BlockBuilder Dg).buildUnchecked A)
  | 7 => some (newUnchecked v0.header v0.data.uncles v0.uncleHashes v0.transactions.reverse v0.data.proposals v0.data.extension)
  | _ => none

def stepView (ts : List String) : String :=
  match ts with
  | ["cbmt", n] =>
    match parseNat? n with
    | some n =>
      let leaves := (List.range n).map fun i => CkbVerif.Hash.Dg.hb [UInt8.ofNat (i % 256), UInt8.ofNat (i / 256)]
      showDg (CkbVerif.Hash.merkleRoot CkbVerif.Hash.termAlg leaves)
    | none => "bad-op"
  | ["vpath", k, hx] =>
    match parseNat? k, unhex hx with
    | some k, some bs =>
      match CkbVerif.Hash.BlockData.ofBytes bs with
      | some b =>
        match viewPath k b with
        | some v => dumpView v
        | none => "bad-op"
      | none => "err"
    | _, _ => "bad-op"
  | ["vblk", _seed, hx] =>
    match unhex hx with
    | some bs =>
      match CkbVerif.Hash.bodyOfBlock bs with
      | some (_, body) =>
        let f := CkbVerif.Hash.resetFields CkbVerif.Hash.termAlg body
        "tr=" ++ showDg f.transactionsRoot ++ " ph=" ++ showDg f.proposalsHash ++ " xh=" ++ showDg f.extraHash
      | none => "err"
    | none => "bad-op"
  | _ => "bad-op"

/-! ### stream `proof` -/

open CkbVerif.Hash in
mutual
def dgBeq : Dg → Dg → Bool
  | .zero, .zero => true
  | .hb a, .hb b => a == b
  | .hd a, .hd b => dgBeqL a b
  | .hm l a, .hm l' b => l == l' && dgBeqL a b
  | .raw a, .raw b => a == b
  | _, _ => false
def dgBeqL : List Dg → List Dg → Bool
  | [], [] => true
  | a :: as, b :: bs => dgBeq a b && dgBeqL as bs
  | _, _ => false
end

instance : BEq CkbVerif.Hash.Dg := ⟨dgBeq⟩

/-- the merge of the generic instantiation `M64` of the harness -/
def m64 (l r : Nat) : Nat := (l * 31 + r * 17 + 1) % 18446744073709551616

def optStr {β : Type} (f : β → String) : Option β → String
  | some x => f x
  | none => "none"

def leafTerm (i : Nat) : CkbVerif.Hash.Dg := .hb [UInt8.ofNat (i % 256), UInt8.ofNat (i / 256)]

def leafIdx : CkbVerif.Hash.Dg → Option Nat
  | .hb [a, b] => some (a.toNat + 256 * b.toNat)
  | _ => none

/-- `Byte32: Ord` on the leaf digests, as told by the harness (rank of leaf j's digest) -/
def leRank (ranks : List Nat) (a b : CkbVerif.Hash.Dg) : Bool :=
  let rk := fun t => match leafIdx t with | some i => ranks.getD i 0 | none => 0
  Nat.ble (rk a) (rk b)

def showTerms (l : List CkbVerif.Hash.Dg) : String := showList (l.map showDg)

open CkbVerif.Hash in
def tamperProof (k : Nat) (p : MProof Dg) (foreign : Dg) : MProof Dg :=
  match k with
  | 1 => { p with indices := p.indices.reverse }
  | 2 => match p.indices with
    | a :: b :: r => { p with indices := b :: a :: r }
    | _ => p
  | 3 => { p with indices := p.indices.headD 0 :: p.indices }
  | 4 => { p with lemmas := p.lemmas.dropLast }
  | 5 => { p with lemmas := p.lemmas ++ [foreign] }
  | 6 => match p.lemmas with
    | a :: b :: r => { p with lemmas := b :: a :: r }
    | _ => p
  | 8 => match p.indices with
    | a :: r => { p with indices := (a + 1) :: r }
    | _ => p
  | 9 => match p.indices with
    | a :: r => { p with indices := (a - 1) :: r }
    | _ => p
  | 10 => match p.lemmas with
    | _ :: r => { p with lemmas := foreign :: r }
    | _ => p
  | 11 => { p with indices := p.indices ++ [p.indices.getLastD 0] }
  | _ => p

open CkbVerif.Hash in
def stepProof (ts : List String) : String :=
  match ts with
  | ["mpg", ls, is] =>
    match parseNatList? ls, parseNatList? is with
    | some leaves, some idx =>
      let nodes := buildTree m64 0 leaves
      match buildProof Nat.ble 0 nodes idx with
      | .none => "none"
      | .panic => "panic"
      | .some p =>
        let ret := retrieveLeaves 0 leaves p
        let root := ret.bind (proofRoot Nat.ble m64 p)
        s!"nodes={showNatList nodes} idx={showNatList p.indices} lem={showNatList p.lemmas} ret={optStr showNatList ret} root={optStr toString root} mr={cbmtRoot m64 0 leaves}"
    | _, _ => "bad-op"
  | ["mrg", is, lm, ls] =>
    match parseNatList? is, parseNatList? lm, parseNatList? ls with
    | some indices, some lemmas, some leaves =>
      match proofRoot Nat.ble m64 { indices := indices, lemmas := lemmas } leaves with
      | some r => s!"some {r}"
      | none => "none"
    | _, _, _ => "bad-op"
  | ["mlg", ls, is] =>
    match parseNatList? ls, parseNatList? is with
    | some leaves, some indices =>
      match retrieveLeaves 0 leaves ({ indices := indices, lemmas := [] } : MProof Nat) with
      | some r => "some " ++ showNatList r
      | none => "none"
    | _, _ => "bad-op"
  | ["mpb", n, rk, is] =>
    match parseNat? n, parseNatList? rk, parseNatList? is with
    | some n, some ranks, some idx =>
      let A := termAlg
      let leaves := (List.range n).map leafTerm
      match buildMerkleProof (leRank ranks) (merge A) A.zero leaves idx with
      | .none => "none"
      | .panic => "panic"
      | .some p =>
        let ret := retrieveLeaves A.zero leaves p
        let root := ret.bind (proofRoot (leRank ranks) (merge A) p)
        s!"idx={showNatList p.indices} lem={showTerms p.lemmas} ret={optStr showTerms ret} root={optStr showDg root} mr={showDg (merkleRoot A leaves)}"
    | _, _, _ => "bad-op"
  | ["txv", n, rk, is, tk] =>
    match parseNat? n, parseNatList? rk, parseNatList? is, parseNat? tk with
    | some n, some ranks, some idx, some tk =>
      let A := termAlg
      let leaves := (List.range n).map leafTerm
      let wit : List Dg := (List.range n).map fun i => .hb [0x77, UInt8.ofNat (i % 256), UInt8.ofNat (i / 256)]
      let foreign : Dg := .hb [0xfd]
      let witnessesRoot := merkleRoot A wit
      let transactionsRoot := merkleRoot A [merkleRoot A leaves, witnessesRoot]
      match getTxProof A (leRank ranks) leaves idx with
      | .none => "none"
      | .panic => "panic"
      | .some p =>
        let wroot := if tk = 7 then foreign else witnessesRoot
        match verifyTxProof A (leRank ranks) leaves transactionsRoot wroot (tamperProof tk p foreign) with
        | some hs => "ok " ++ showTerms hs
        | none => "rej"
    | _, _, _, _ => "bad-op"
  | ["ssz", hx] =>
    match unhex hx with
    | some bs =>
      let txs := match bodyOfBlock bs with
        | some (_, body) => showNatList (body.txs.map txSizeInBlock)
        | none => "err"
      s!"wo={optStr toString (sizeWithoutUncleProposals bs)} txs={txs} uncle={uncleSizeInBlock} pid={proposalShortIdSize}"
    | none => "bad-op"
  | _ => "bad-op"

def main (args : List String) : IO UInt32 :=
  match args with
  | ["view"] => runLines () (fun _ ts => ((), stepView ts))
  | ["proof"] => runLines () (fun _ ts => ((), stepProof ts))
  | ["json"] => runLines () (fun _ ts => ((), stepJson ts))
  | _ => runLines () (fun _ ts => ((), stepMol ts))

end CkbVerif.Driver.C15
