import CkbVerif.Driver.Util
namespace CkbVerif.Driver.C15
def main (_args : List String) : IO UInt32 := do
  IO.eprintln "C15: model driver not implemented"
  return 2
end CkbVerif.Driver.C15
