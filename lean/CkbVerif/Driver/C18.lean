import CkbVerif.Driver.Util
import CkbVerif.Model.Indexer
import CkbVerif.Model.IndexerPool
import CkbVerif.Lemmas.IndexerWF
import CkbVerif.Model.RichIndexer
import CkbVerif.Lemmas.RichIndexer
import CkbVerif.Model.RichFilters

/-! Line-protocol driver for C18 (protocol: see harness/hnode/src/c18.rs). `ckbmodel C18`. -/
namespace CkbVerif.Driver.C18
open CkbVerif.Driver CkbVerif.Indexer CkbVerif.Gen.Indexer

structure St where
  store : Store := []
  keep : Nat := 100
  interval : Nat := 1000
  /-- the tx-pool overlay (`config … p`): `none` = `pool: None` -/
  pool : Option Pool := none

/-- (`MAX_PREFIX_SEARCH_SIZE` is translated from `util/indexer/src/service.rs`: `Gen/Indexer.lean`, `gen/Indexer.json`.)
what a DESCENDING walk can see: the rows of the searched family above the seek key
`prefix ‖ 0xff × (MAX_PREFIX_SEARCH_SIZE − args_len)` are never reached (`Lemmas/IndexerPool.lean`:
`descView_eq` — nothing is hidden while keys are shorter than the seek key) -/
def viewOf (s : Store) (desc : Bool) (pre : List Nat) (q : Script) : Store :=
  if desc then descView MAX_PREFIX_SEARCH_SIZE s pre q.args.length else s

/-! ### parsing -/

def parseDotted? (s : String) : Option (List Nat) :=
  if s = "-" then some [] else (s.splitOn ".").mapM parseNat?

/-- `code.a.b.c` -/
def parseScript? (s : String) : Option Script :=
  match (s.splitOn ".").mapM parseNat? with
  | some (c :: args) => some ⟨c, args⟩
  | _ => none

def parseOptScript? (s : String) : Option (Option Script) :=
  if s = "-" then some none else (parseScript? s).map some

def parseOutPoint? (s : String) : Option OutPoint :=
  match (s.splitOn ".").mapM parseNat? with
  | some [t, i] => some ⟨t, i⟩
  | _ => none

/-- `lock:type:cap:data` -/
def parseOutput? (s : String) : Option Output :=
  match s.splitOn ":" with
  | [l, t, c, d] => do
    let l ← parseScript? l
    let t ← parseOptScript? t
    let c ← parseNat? c
    let d ← parseDotted? d
    pure ⟨c, l, t, d⟩
  | _ => none

def parseList? {α : Type} (f : String → Option α) (s : String) : Option (List α) :=
  if s = "-" then some [] else (s.splitOn ",").mapM f

/-- `id/in,in/out,out` -/
def parseTx? (s : String) : Option Tx :=
  match s.splitOn "/" with
  | [id, ins, outs] => do
    let id ← parseNat? id
    let ins ← parseList? parseOutPoint? ins
    let outs ← parseList? parseOutput? outs
    pure ⟨id, ins, outs⟩
  | _ => none

def parseRange? (s : String) : Option (Option (Nat × Nat)) :=
  if s = "-" then some none else
  match (s.splitOn ":").mapM parseNat? with
  | some [a, b] => some (some (a, b))
  | _ => none

def parseData? (s : String) : Option (Option (DataMode × List Nat)) :=
  if s = "-" then some none else
  match s.splitOn ":" with
  | [m, d] => do
    let d ← parseDotted? d
    let m ← (match m with | "p" => some DataMode.pre | "e" => some .exact | "i" => some .infix | _ => none)
    pure (some (m, d))
  | _ => none

def parseFilter? (ts : List String) : Option Filter :=
  match ts with
  | [fs, slr, d, dlr, cr, br] => do
    let fs ← parseOptScript? fs
    let slr ← parseRange? slr
    let d ← parseData? d
    let dlr ← parseRange? dlr
    let cr ← parseRange? cr
    let br ← parseRange? br
    pure ⟨fs, slr, d, dlr, cr, br⟩
  | _ => none

def parseKind? (s : String) : Option Bool :=
  match s with | "lock" => some true | "type" => some false | _ => none

def parseMode? (s : String) : Option Bool :=
  match s with | "exact" => some true | "pre" => some false | _ => none

def parseOrder? (s : String) : Option Bool :=
  match s with | "desc" => some true | "asc" => some false | _ => none

/-! ### rendering -/

def showDotted (l : List Nat) : String :=
  if l.isEmpty then "-" else ".".intercalate (l.map toString)

def showScript (s : Script) : String := ".".intercalate ((s.code :: s.args).map toString)

def showOptScript : Option Script → String
  | none => "-"
  | some s => showScript s

def showOp (o : OutPoint) : String := s!"{o.tx}.{o.idx}"

def showOutput (o : Output) : String :=
  s!"{showScript o.lock}:{showOptScript o.type}:{o.cap}:{showDotted o.data}"

def showCell (c : Cell) : String := s!"{c.bn}.{c.txIdx}.{showOutput c.out}"

def joinOr (sep : String) (l : List String) : String :=
  if l.isEmpty then "-" else sep.intercalate l

def showIo : IoType → String
  | .input => "i"
  | .output => "o"

def showVal : Val → String
  | .cell c => showCell c
  | .tx h => toString h
  | .inputs l => joinOr "," (l.map showOp)
  | .txs l => joinOr "," (l.map fun (t, n, i) => s!"{t}.{n}.{match i with | some i => toString i | none => "-"}")

def showKey : Key → String
  | .outPoint op => s!"O/{showOp op}"
  | .consumed bn op => s!"C/{bn}/{showOp op}"
  | .cellLock s bn tx io => s!"L/{showScript s}/{bn}/{tx}/{io}"
  | .cellType s bn tx io => s!"T/{showScript s}/{bn}/{tx}/{io}"
  | .txLock s bn tx io t => s!"l/{showScript s}/{bn}/{tx}/{io}/{showIo t}"
  | .txType s bn tx io t => s!"t/{showScript s}/{bn}/{tx}/{io}/{showIo t}"
  | .txHash tx => s!"H/{tx}"
  | .header bn h f => s!"B/{bn}/{h}/{if f then "f" else "u"}"

def showTipAns (s : Store) : String :=
  match tipAsCode s with
  | .header n h => s!"{n}.{h}"
  | .residue n => s!"{n}.?"
  | .garbage => "garbage"
  | .none => "none"

def showTip (s : Store) : String := "tip " ++ showTipAns s

/-- `get_cells_capacity` over snapshot `snap` with the overlay `pool`: sum and tip from the SAME snapshot -/
def showCapAt (snap : Store) (pool : Pool) (k : Bool) (q : Script) (m : Bool) (f : Filter) : String :=
  match getCellsCapacityAt snap pool k q m f with
  | none => "panic"
  | some none => "cap none"
  | some (some (c, _)) => s!"cap {c} {showTipAns snap}"

def showCellAns (a : CellAns) : String :=
  s!"{showOp a.op}@{a.cell.bn}.{a.cell.txIdx}:{a.cell.out.cap}:{a.cell.out.data.length}"

def showTxRow (r : TxRow) : String :=
  s!"{r.tx}@{r.bn}.{r.txIdx}.{r.io}.{if r.isInput then "i" else "o"}"

def showTxGroup (g : TxGroup) : String :=
  let cells := ";".intercalate (g.cells.map fun (i, n) => s!"{if i then "i" else "o"}{n}")
  s!"{g.tx}@{g.bn}.{g.txIdx}[{cells}]"

def showPages (l : List (List String)) : String :=
  "|".intercalate (l.map (joinOr ","))

def strLe (a b : String) : Bool := !(b < a)

/-! ### interpreter -/

def opLe (a b : OutPoint) : Bool := a.tx < b.tx || (a.tx = b.tx && a.idx ≤ b.idx)

def showPool : Option Pool → String
  | none => "pool none"
  | some p => "pool " ++ joinOr "," ((p.mergeSort opLe).map showOp)

def stepBase (st : St) (ts : List String) : St × String :=
  match ts with
  | "config" :: k :: i :: rest =>
    -- further tokens: `p` = with the tx-pool overlay; `b<n> c<n>` (custom filters of the rich stream)
    -- do not concern this indexer
    match parseNat? k, parseNat? i with
    | some k, some i => ({ st with keep := k, interval := i, pool := if rest.contains "p" then some [] else none }, "ok")
    | _, _ => (st, "bad-op")
  | ["pnew", tx] =>
    match parseTx? tx with
    | some tx => let p := st.pool.map (·.newTx tx); ({ st with pool := p }, showPool p)
    | none => (st, "bad-op")
  | ["prej", tx] =>
    match parseTx? tx with
    | some tx => let p := st.pool.map (·.removeTx tx); ({ st with pool := p }, showPool p)
    | none => (st, "bad-op")
  | ["pdead"] => (st, showPool st.pool)
  | "append" :: num :: hash :: txs =>
    match parseNat? num, parseNat? hash, txs.mapM parseTx? with
    | some num, some hash, some txs =>
      let s := append st.keep st.interval st.store ⟨num, hash, txs⟩
      ({ st with store := s, pool := st.pool.map (·.committed txs) }, showTip s)
    | _, _, _ => (st, "bad-op")
  | "wf" :: num :: hash :: txs =>
    -- the theorems' well-formedness hypotheses (their decidable forms, `Lemmas/IndexerWF.lean`)
    -- evaluated on the CURRENT store and the block that is about to be appended
    match parseNat? num, parseNat? hash, txs.mapM parseTx? with
    | some num, some hash, some txs =>
      let b : Block := ⟨num, hash, txs⟩
      let bit (x : Bool) : String := if x then "1" else "0"
      (st, s!"wf a={bit (wfAppend2B st.store b)} f={bit (freshB st.store b)} k={bit (freshB2 st.store b)} d={bit (hdrDisjointB st.store b)} r={bit (retentionB st.store b st.keep)}")
    | _, _, _ => (st, "bad-op")
  | ["rollback"] =>
    let s := rollback st.store
    ({ st with store := s }, showTip s)
  | ["prune"] =>
    let s := prune st.store st.keep
    ({ st with store := s }, showTip s)
  | ["tip"] => (st, showTip st.store)
  | ["live", kind, q] =>
    match parseKind? kind, parseScript? q with
    | some k, some q =>
      let fam := if k then KP_CELL_LOCK_SCRIPT else KP_CELL_TYPE_SCRIPT
      (st, "live " ++ joinOr "," ((liveCellsByScript st.store fam q).map showOp))
    | _, _ => (st, "bad-op")
  | ["rawtxs", kind, q] =>
    match parseKind? kind, parseScript? q with
    | some k, some q =>
      let fam := if k then KP_TX_LOCK_SCRIPT else KP_TX_TYPE_SCRIPT
      (st, "rawtxs " ++ joinOr "," ((transactionsByScript st.store fam q).map toString))
    | _, _ => (st, "bad-op")
  | "cells" :: _ :: _ :: "part" :: _ => (st, "cells unsupported")
  | "cap" :: _ :: _ :: "part" :: _ => (st, "cap unsupported")
  | "txs" :: _ :: _ :: "part" :: _ => (st, "txs unsupported")
  | "rtxs" :: kind :: q :: mode :: order :: limit :: grp :: f =>
    -- `get_transactions` with a full filter: the key-value indexer answers `invalid params` for a
    -- partial search mode and for every filter field except `script` and `block_range`
    match parseKind? kind, parseScript? q, parseOrder? order, parseNat? limit, parseFilter? f with
    | some k, some q, some o, some lim, some f =>
      if mode = "part" || f.scriptLenRange.isSome || f.data.isSome || f.dataLenRange.isSome || f.capRange.isSome then
        (st, "txs unsupported")
      else
        match parseMode? mode with
        | some m =>
          if grp = "g" then
            (st, "txs " ++ showPages ((getTxsGroupedPages (viewOf st.store o (txPrefix k q) q) k q m f.script f.blockRange o lim (st.store.length + 2) none).map
              (·.map showTxGroup)))
          else
            (st, "txs " ++ showPages ((getTxsPages (viewOf st.store o (txPrefix k q) q) k q m f.script f.blockRange o lim (st.store.length + 2) none).map
              (·.map showTxRow)))
        | none => (st, "bad-op")
    | _, _, _, _, _ => (st, "bad-op")
  | "cells" :: kind :: q :: mode :: order :: limit :: f =>
    match parseKind? kind, parseScript? q, parseMode? mode, parseOrder? order, parseNat? limit, parseFilter? f with
    | some k, some q, some m, some o, some lim, some f =>
      match getCellsPagesP (viewOf st.store o (cellPrefix k q) q) (st.pool.getD []) k q m f o lim (st.store.length + 2) none with
      | some pages => (st, "cells " ++ showPages (pages.map (·.map showCellAns)))
      | none => (st, "panic")
    | _, _, _, _, _, _ => (st, "bad-op")
  | ["txs", kind, q, mode, order, limit, grp, fs, br] =>
    match parseKind? kind, parseScript? q, parseMode? mode, parseOrder? order, parseNat? limit,
          parseOptScript? fs, parseRange? br with
    | some k, some q, some m, some o, some lim, some fs, some br =>
      if grp = "g" then
        (st, "txs " ++ showPages ((getTxsGroupedPages (viewOf st.store o (txPrefix k q) q) k q m fs br o lim (st.store.length + 2) none).map
          (·.map showTxGroup)))
      else
        (st, "txs " ++ showPages ((getTxsPages (viewOf st.store o (txPrefix k q) q) k q m fs br o lim (st.store.length + 2) none).map
          (·.map showTxRow)))
    | _, _, _, _, _, _, _ => (st, "bad-op")
  | "cap" :: kind :: q :: mode :: f =>
    match parseKind? kind, parseScript? q, parseMode? mode, parseFilter? f with
    | some k, some q, some m, some f =>
      (st, showCapAt st.store (st.pool.getD []) k q m f)
    | _, _, _, _ => (st, "bad-op")
  | ["dump"] =>
    let rows := (st.store.map fun (k, v) => showKey k ++ "=" ++ showVal v).mergeSort strLe
    (st, s!"dump {rows.length} " ++ joinOr " " rows)
  | _ => (st, "bad-op")


/-- ONE handler call (no cursor) over the snapshot `snap` with the overlay as it is when the handler
takes the overlay's lock (`pool`): the query half of an `x` op -/
def queryOnce (snap : Store) (pool : Pool) (ts : List String) : String :=
  match ts with
  | "cells" :: kind :: q :: mode :: order :: limit :: f =>
    match parseKind? kind, parseScript? q, parseMode? mode, parseOrder? order, parseNat? limit, parseFilter? f with
    | some k, some q, some m, some o, some lim, some f =>
      match getCellsAt (viewOf snap o (cellPrefix k q) q) pool k q m f o lim none with
      | some (page, _) => "cells " ++ joinOr "," (page.map showCellAns)
      | none => "panic"
    | _, _, _, _, _, _ => "bad-op"
  | "cap" :: kind :: q :: mode :: f =>
    match parseKind? kind, parseScript? q, parseMode? mode, parseFilter? f with
    | some k, some q, some m, some f => showCapAt snap pool k q m f
    | _, _, _, _ => "bad-op"
  | ["txs", kind, q, mode, order, limit, grp, fs, br] =>
    match parseKind? kind, parseScript? q, parseMode? mode, parseOrder? order, parseNat? limit,
          parseOptScript? fs, parseRange? br with
    | some k, some q, some m, some o, some lim, some fs, some br =>
      let v := viewOf snap o (txPrefix k q) q
      if grp = "g" then "txs " ++ joinOr "," ((getTxsGrouped v k q m fs br o lim none).1.map showTxGroup)
      else "txs " ++ joinOr "," ((getTxs v k q m fs br o lim none).1.map showTxRow)
    | _, _, _, _, _, _, _ => "bad-op"
  | _ => "bad-op"

/-- `x <query> && <writer op>`: the handler takes its snapshot, THEN the writer op runs to completion
(`service::verif_hook`), then the handler continues: rows, OutPoint lookups and the tip come from the
snapshot (the store before the writer), the overlay is read after the writer. -/
def step (st : St) (ts : List String) : St × String :=
  match ts with
  | "x" :: rest =>
    let qp := rest.takeWhile (· ≠ "&&")
    let mp := (rest.dropWhile (· ≠ "&&")).drop 1
    let r := stepBase st mp
    (r.1, queryOnce st.store (r.1.pool.getD []) qp ++ " && " ++ r.2)
  | _ => stepBase st ts

/-! ### the rich-indexer (SQL) stream: same op language, relational model `Model/RichIndexer.lean` -/
namespace Rich
open CkbVerif.Rich

def parseRMode? (s : String) : Option Mode :=
  match s with | "exact" => some .exact | "pre" => some .pre | "part" => some .part | _ => none

def showTip (db : DB) : String :=
  match CkbVerif.Rich.tip db with
  | some (n, h) => s!"tip {n}.{h}"
  | none => "tip none"

def showRCell (a : RCell) : String :=
  s!"{showOp a.op}@{a.cell.bn}.{a.cell.txIdx}:{a.cell.out.cap}:{a.cell.out.data.length}:{showScript a.cell.out.lock}:{showOptScript a.cell.out.type}"

def showRTxRow (r : RTxRow) : String :=
  s!"{r.tx}@{r.bn}.{r.txIdx}.{r.io}.{if r.isInput then "i" else "o"}"

/-- the row without its cell: in prefix / partial mode the order of the rows INSIDE one transaction is
the sqlite plan's business (`ORDER BY tx_id` only), so a page shows which transactions it holds -/
def showRTxRowThin (r : RTxRow) : String := s!"{r.tx}@{r.bn}.{r.txIdx}"

def cellLe (a b : Bool × Nat) : Bool :=
  -- inputs (io_type 0) before outputs, then by index
  (a.1 && !b.1) || (a.1 = b.1 && a.2 ≤ b.2)

def showRTxGroup (g : RTxGroup) : String :=
  let cells := ";".intercalate ((g.cells.mergeSort cellLe).map fun (i, n) => s!"{if i then "i" else "o"}{n}")
  s!"{g.tx}@{g.bn}.{g.txIdx}[{cells}]"

def showScriptId (db : DB) (id : Option Nat) : String :=
  match id with
  | none => "-"
  | some _ => match scriptById db id with | some s => showScript s | none => "?"

def dumpRows (db : DB) : List String :=
  (db.blocks.map fun b => s!"B/{b.id}/{b.number}/{b.hash}") ++
  (db.txs.map fun t => s!"X/{t.id}/{t.hash}/{t.blockId}/{t.txIndex}") ++
  (db.outs.map fun o => s!"O/{o.id}/{o.txId}/{o.index}/{o.cap}/{showScriptId db o.lockId}/{showScriptId db o.typeId}/{showDotted o.data}/{o.spent}") ++
  (db.ins.map fun i => s!"I/{i.outputId}/{i.consumedTx}/{i.index}") ++
  (db.scripts.map fun s => s!"S/{showScript s.script}")

/-- page budget of the ungrouped `get_transactions` walk -/
def maxTxPages : Nat := 120

/-- ungrouped answer: the pages of the walk (rows with their cell in exact mode, transaction only
otherwise), then the whole answer of one unlimited call grouped per transaction with sorted cells -/
def showUngrouped (db : DB) (k : Bool) (m : Mode) (q : Script) (f : Filter) (o : Bool) (lim : Nat) : String :=
  let pages := getTxsPages db k m q f o lim maxTxPages none
  let full := groupRows (sortByTx o (txRows db k m q f))
  "txs " ++ showPages (pages.map (·.map (if m = .exact then showRTxRow else showRTxRowThin))) ++ " = " ++
    joinOr "," (full.map showRTxGroup)

structure RSt where
  db : DB := {}
  bf : Nat := 0
  cf : Nat := 0

/-- `b<n>` / `c<n>` among the extra tokens of `config` -/
def filterId (pre : Char) (ts : List String) : Nat :=
  match ts.find? (fun t => t.front = pre) with
  | some t => ((t.drop 1).toString.toNat?).getD 0
  | none => 0

def stepDb (bf cf : Nat) (db : DB) (ts : List String) : DB × String :=
  match ts with
  | "append" :: num :: hash :: txs =>
    match parseNat? num, parseNat? hash, txs.mapM parseTx? with
    | some num, some hash, some txs =>
      let d := appendBlockF bf cf db ⟨num, hash, txs⟩
      (d, showTip d)
    | _, _, _ => (db, "bad-op")
  | "wf" :: num :: hash :: txs =>
    match parseNat? num, parseNat? hash, txs.mapM parseTx? with
    | some num, some hash, some txs =>
      let b : Block := ⟨num, hash, txs⟩
      let bit (x : Bool) : String := if x then "1" else "0"
      -- `l`: the hypothesis of `rich_rollback_append_partial` (the appended database is ONE layer on
      -- top of the current one) holds whenever the block is well-formed — evaluated on every block
      let wfb := freshTxsB db b && orderB b && noDoubleSpendB db b
      let l := !wfb || bf ≠ 0 || cf ≠ 0 || layerCheckB db (appendBlock db b)
      (db, s!"wf a={bit (freshTxsB db b)} o={bit (orderB b)} s={bit (noDoubleSpendB db b)} l={bit l}")
    | _, _, _ => (db, "bad-op")
  | ["rollback"] =>
    let d := CkbVerif.Rich.rollback db
    (d, showTip d)
  | ["prune"] => (db, showTip db)      -- the rich-indexer has no pruning
  | ["tip"] => (db, showTip db)
  | ["live", kind, q] =>
    match parseKind? kind, parseScript? q with
    | some k, some q => (db, "live " ++ joinOr "," ((cellRows db k .pre q {}).map fun a => showOp a.op))
    | _, _ => (db, "bad-op")
  | ["rawtxs", kind, q] =>
    match parseKind? kind, parseScript? q with
    | some k, some q => (db, "rawtxs " ++ joinOr "," ((sortByTx false (txRows db k .pre q {})).map fun r => toString r.tx))
    | _, _ => (db, "bad-op")
  | "cells" :: kind :: q :: mode :: order :: limit :: f =>
    match parseKind? kind, parseScript? q, parseRMode? mode, parseOrder? order, parseNat? limit, parseFilter? f with
    | some k, some q, some m, some o, some lim, some f =>
      (db, "cells " ++ showPages ((getCellsPages db k m q f o lim (db.outs.length + 2) none).map (·.map showRCell)))
    | _, _, _, _, _, _ => (db, "bad-op")
  | ["txs", kind, q, mode, order, limit, grp, fs, br] =>
    match parseKind? kind, parseScript? q, parseRMode? mode, parseOrder? order, parseNat? limit,
          parseOptScript? fs, parseRange? br with
    | some k, some q, some m, some o, some lim, some fs, some br =>
      let f : Filter := { script := fs, blockRange := br }
      if grp = "g" then
        (db, "txs " ++ showPages ((getTxsGroupedPages db k m q f o lim (db.txs.length + 2) none).map (·.map showRTxGroup)))
      else
        (db, showUngrouped db k m q f o lim)
    | _, _, _, _, _, _, _ => (db, "bad-op")
  | "rtxs" :: kind :: q :: mode :: order :: limit :: grp :: f =>
    match parseKind? kind, parseScript? q, parseRMode? mode, parseOrder? order, parseNat? limit, parseFilter? f with
    | some k, some q, some m, some o, some lim, some f =>
      if grp = "g" then
        (db, "txs " ++ showPages ((getTxsGroupedPages db k m q f o lim (db.txs.length + 2) none).map (·.map showRTxGroup)))
      else
        (db, showUngrouped db k m q f o lim)
    | _, _, _, _, _, _ => (db, "bad-op")
  | "cap" :: kind :: q :: mode :: f =>
    match parseKind? kind, parseScript? q, parseRMode? mode, parseFilter? f with
    | some k, some q, some m, some f =>
      match getCellsCapacity db k m q f, CkbVerif.Rich.tip db with
      | some c, some (n, h) => (db, s!"cap {c} {n}.{h}")
      | _, _ => (db, "cap none")
    | _, _, _, _ => (db, "bad-op")
  | ["dump"] =>
    let rows := (dumpRows db).mergeSort strLe
    (db, s!"dump {rows.length} " ++ joinOr " " rows)
  -- the tx-pool overlay of the rich-indexer is not modelled (no hook): overlay ops are skipped
  | ["pnew", _] => (db, "pool skipped")
  | ["prej", _] => (db, "pool skipped")
  | ["pdead"] => (db, "pool skipped")
  | _ => (db, "bad-op")

def step (st : RSt) (ts : List String) : RSt × String :=
  match ts with
  | "config" :: _ :: _ :: rest => ({ db := {}, bf := filterId 'b' rest, cf := filterId 'c' rest }, "ok")
  | "x" :: rest =>
    -- interleaved ops belong to the key-value stream: here only the writer half runs
    let mp := (rest.dropWhile (· ≠ "&&")).drop 1
    let r := stepDb st.bf st.cf st.db mp
    ({ st with db := r.1 }, "x skipped && " ++ r.2)
  | _ =>
    let r := stepDb st.bf st.cf st.db ts
    ({ st with db := r.1 }, r.2)

end Rich

def main (args : List String) : IO UInt32 :=
  if args = ["rich"] then runLines ({} : Rich.RSt) Rich.step
  else runLines ({} : St) step

end CkbVerif.Driver.C18
