import CkbVerif.Driver.Util
import CkbVerif.Model.ReorgReadd
import CkbVerif.Model.ReorgSubmit

/-! Line-protocol driver for C12 (protocol: harness/n12/src/c12.rs). -/
namespace CkbVerif.Driver.C12
open CkbVerif.Driver CkbVerif.Reorg

structure DSt where
  pool : List PEnt := []        -- reversed
  att : List CTx := []          -- reversed
  det : List CTx := []          -- reversed
  args : Args := ⟨[], [], [], [], [], [], [], [], 25, 180000000, []⟩
  /-- the arguments as completed by `rafter` (expired ids known) -/
  full : Option Args := none

def insertSorted (x : Nat × Nat) : List (Nat × Nat) → List (Nat × Nat)
  | [] => [x]
  | y :: ys => if x.1 < y.1 then x :: y :: ys else y :: insertSorted x ys

def insertNat (x : Nat) : List Nat → List Nat
  | [] => [x]
  | y :: ys => if x < y then x :: y :: ys else if x == y then y :: ys else y :: insertNat x ys

/-- sorted, duplicate-free -/
def sortNat (l : List Nat) : List Nat := l.foldr insertNat []

def showList (sep : String) (l : List String) : String := if l.isEmpty then "-" else sep.intercalate l

def curArgs (s : DSt) : Args := { s.args with attached := s.att.reverse, detached := s.det.reverse }

def parseCTx (id sp dp hd ou ok sz : String) : Option CTx :=
  match parseNat? id, parseNatList? sp, parseNatList? dp, parseNatList? hd, parseNatList? ou, parseNat? ok, parseNat? sz with
  | some id, some sp, some dp, some hd, some ou, some ok, some sz => some ⟨id, sp, dp, hd, ou, ok != 0, sz⟩
  | _, _, _, _, _, _, _ => none

/-- the pool after the section; `out` = ids left out of the comparison (removed groups of
    `remove_by_detached_proposal` whose re-add order the harness cannot determine) -/
def rafter (s : DSt) (ex out : String) : DSt × String :=
  match parseNatList? ex, parseNatList? out with
  | some ex, some out =>
    let a : Args := { curArgs s with expired := ex }
    let r := (reorgR s.pool.reverse a).filter fun e => !out.contains e.id
    let l := (r.map fun e => (e.id, e.status)).foldr insertSorted []
    ({ s with full := some a }, showList "," (l.map fun x => s!"{x.1}:{x.2}"))
  | _, _ => (s, "bad-op")

def step (s : DSt) (ts : List String) : DSt × String :=
  match ts with
  | ["rpool"] => ({}, "ok")
  | ["rent", id, st, sp, dp, hd, ou, sz] =>
    match parseNat? id, parseNat? st, parseNatList? sp, parseNatList? dp, parseNatList? hd, parseNatList? ou, parseNat? sz with
    | some id, some st, some sp, some dp, some hd, some ou, some sz =>
      ({ s with pool := ⟨id, st, sp, dp, hd, ou, sz⟩ :: s.pool }, "ok")
    | _, _, _, _, _, _, _ => (s, "bad-op")
  | ["ratt", id, sp, dp, hd, ou, ok, sz] =>
    match parseCTx id sp dp hd ou ok sz with
    | some t => ({ s with att := t :: s.att }, "ok")
    | none => (s, "bad-op")
  | ["rdet", id, sp, dp, hd, ou, ok, sz] =>
    match parseCTx id sp dp hd ou ok sz with
    | some t => ({ s with det := t :: s.det }, "ok")
    | none => (s, "bad-op")
  | ["rargs", dh, dp, g, p, ma, ms] =>
    match parseNatList? dh, parseNatList? dp, parseNatList? g, parseNatList? p, parseNat? ma, parseNat? ms with
    | some dh, some dp, some g, some p, some ma, some ms =>
      ({ s with args := { s.args with detachedHeaders := dh, detachedProposals := dp, gap := g, proposed := p, maxAnc := ma, maxSize := ms } }, "ok")
    | _, _, _, _, _, _ => (s, "bad-op")
  | ["rlive", lv] =>
    -- old live set in, new live set out (attached / detached transactions are known by now)
    match parseNatList? lv with
    | some lv =>
      let s' := { s with args := { s.args with live := lv } }
      (s', showList "," ((sortNat (newLive (curArgs s'))).map toString))
    | none => (s, "bad-op")
  | ["rlinks"] =>
    -- the descendants the derived links give every pooled entry (compared with `calc_descendants`)
    let p := s.pool.reverse
    let l := (p.map fun e => (e.id, 0)).foldr insertSorted []
    (s, showList "," (l.map fun x => s!"{x.1}:{showList "." ((sortNat (descOf p x.1)).map toString)}"))
  | ["rafter", ex] => rafter s ex "-"
  | ["rafter", ex, out] => rafter s ex out
  | ["rback"] =>
    -- the verdict of `readd_detached_tx` per detached-only transaction, block order
    match s.full with
    | some a =>
      let r := reorgR s.pool.reverse a
      (s, showList "," ((retain a).map fun t => s!"{t.id}:{if hasId r t.id then 1 else 0}"))
    | none => (s, "bad-op")
  | ["rstale", id, sp, dp, hd, ou, sz, changed, pst, lv] =>
    -- `submit_entry` of a paused submission against the pool sent before (`rent`) and the current view (`rargs`)
    match parseCTx id sp dp hd ou "1" sz, parseNat? changed, parseNat? pst, parseNatList? lv with
    | some t, some changed, some pst, some lv =>
      let a := curArgs s
      let r := submitEntry a lv (if changed != 0 then 1 else 0) 0 pst s.pool.reverse t
      let l := (r.1.map fun e => (e.id, e.status)).foldr insertSorted []
      (s, s!"{if r.2 then 1 else 0} {showList "," (l.map fun x => s!"{x.1}:{x.2}")}")
    | _, _, _, _ => (s, "bad-op")
  | op :: _ =>
    if ["cfg", "submit", "psubmit", "prelease", "time", "mine", "fork", "forkx"].contains op then (s, "ok") else (s, "bad-op")
  | _ => (s, "bad-op")

def main (_args : List String) : IO UInt32 := runLines ({} : DSt) step

end CkbVerif.Driver.C12
