import CkbVerif.Driver.Util
import CkbVerif.Model.Reorg

/-! Line-protocol driver for C12 (protocol: harness/n12/src/c12.rs). -/
namespace CkbVerif.Driver.C12
open CkbVerif.Driver CkbVerif.Reorg

structure DSt where
  pool : List PEnt := []        -- reversed
  att : List Tx := []           -- reversed
  args : Args := ⟨[], [], [], [], [], []⟩

def insertSorted (x : Nat × Nat) : List (Nat × Nat) → List (Nat × Nat)
  | [] => [x]
  | y :: ys => if x.1 < y.1 then x :: y :: ys else y :: insertSorted x ys

def step (s : DSt) (ts : List String) : DSt × String :=
  match ts with
  | ["rpool"] => ({}, "ok")
  | ["rent", id, st, sp, dp, hd, ds] =>
    match parseNat? id, parseNat? st, parseNatList? sp, parseNatList? dp, parseNatList? hd, parseNatList? ds with
    | some id, some st, some sp, some dp, some hd, some ds =>
      ({ s with pool := ⟨id, st, sp, dp, hd, ds⟩ :: s.pool }, "ok")
    | _, _, _, _, _, _ => (s, "bad-op")
  | ["ratt", id, ins] =>
    match parseNat? id, parseNatList? ins with
    | some id, some ins => ({ s with att := ⟨id, ins⟩ :: s.att }, "ok")
    | _, _ => (s, "bad-op")
  | ["rargs", dh, dp, g, p] =>
    match parseNatList? dh, parseNatList? dp, parseNatList? g, parseNatList? p with
    | some dh, some dp, some g, some p =>
      ({ s with args := ⟨[], dh, dp, g, p, []⟩ }, "ok")
    | _, _, _, _ => (s, "bad-op")
  | ["rafter", ex] =>
    match parseNatList? ex with
    | some ex =>
      let a : Args := { s.args with attached := s.att.reverse, expired := ex }
      let r := update s.pool.reverse a
      let l := (r.map fun e => (e.id, e.status)).foldr insertSorted []
      (s, if l.isEmpty then "-" else ",".intercalate (l.map fun x => s!"{x.1}:{x.2}"))
    | none => (s, "bad-op")
  | op :: _ =>
    if ["cfg", "submit", "time", "mine", "fork"].contains op then (s, "ok") else (s, "bad-op")
  | _ => (s, "bad-op")

def main (_args : List String) : IO UInt32 := runLines ({} : DSt) step

end CkbVerif.Driver.C12
