import CkbVerif.Driver.Util
import CkbVerif.Model.Cycles

/-! Line-protocol driver for C05 (protocol: harness/n05/src/c05.rs). -/
namespace CkbVerif.Driver.C05
open CkbVerif.Driver CkbVerif.Cycles

structure St where
  /-- (cost, exit code) per script group, measured by the harness with unlimited one-shot runs -/
  groups : List (Nat × Int) := []

def parseInt? (s : String) : Option Int :=
  if s.startsWith "-" then (parseNat? (s.drop 1).toString).map (fun n => - (n : Int))
  else (parseNat? s).map (fun n => (n : Int))

def parseGroups? (s : String) : Option (List (Nat × Int)) :=
  if s = "-" then some [] else
  (s.splitOn ",").mapM fun it =>
    match it.splitOn ":" with
    | [a, b] => do
      let c ← parseNat? a
      let e ← parseInt? b
      pure (c, e)
    | _ => none

def showRes : Except Err Nat → String
  | .ok n => s!"ok {n}"
  | .error (.exceeded _) => "exceeded"
  | .error (.validation c) => s!"fail {c}"
  | .error .other => "other"
  | .error .overflow => "overflow"

/-- traces: every cycle a split point for small groups, one step otherwise; group `idx` split at `p` -/
def mkGroups (gs : List (Nat × Int)) (split : Option (Nat × Nat)) : List Group :=
  (List.range gs.length).zip gs |>.map fun (i, (c, e)) =>
    match split with
    | some (idx, p) =>
      if i = idx ∧ 0 < p ∧ p < c then ⟨[p, c - p], e⟩ else ⟨[c], e⟩
    | none => if c ≤ 4096 then ⟨List.replicate c 1, e⟩ else ⟨[c], e⟩

/-- drive the resumable API to completion: first limit, then `resume_from_state` with the following
limits (the last one repeated) -/
def driveChunks (gs : List Group) : List Nat → Nat → Option TxState → Except Err Nat
  | _, 0, _ => .error .other
  | limits, fuel + 1, st =>
    let l := limits.headD 1
    let more := if limits.length > 1 then limits.tail else limits
    let r := match st with
      | none => resumableVerify gs l
      | some s => resumeFromState gs s l
    match r with
    | .error e => .error e
    | .ok (.completed n) => .ok n
    | .ok (.suspended s) => driveChunks gs more fuel (some s)

def step (s : St) (ts : List String) : St × String :=
  match ts with
  | ["prog", _, g] =>
    match parseGroups? g with
    | some g => ({ groups := g }, "ok")
    | none => (s, "bad-op")
  | "note" :: _ => (s, "ok")
  | ["verify", b] =>
    match parseNat? b with
    | some b => (s, showRes (verify (mkGroups s.groups (some (0, 0))) b))
    | none => (s, "bad-op")
  | ["chunks", l] =>
    match parseNatList? l with
    | some ls =>
      let small := s.groups.all (fun g => g.1 ≤ 4096)
      if small then
        let gs := mkGroups s.groups none
        let total := (s.groups.map (·.1)).sum
        (s, showRes (driveChunks gs ls (total + s.groups.length + ls.length + 8) none))
      else
        -- `chunked_eq_unchunked`: a run driven to completion gives the unlimited one-shot result
        (s, showRes (verify (mkGroups s.groups (some (0, 0))) (U64 - 1)))
    | none => (s, "bad-op")
  | ["complete", l, b, idx, p] =>
    -- the suspended state is the one observed on the implementation (group `idx`, `p` cycles consumed
    -- inside it; the scheduler may overshoot a small limit, so the state is an input, not recomputed)
    match parseNats? [l, b, idx, p] with
    | some [_, b, idx, p] =>
      let gs := mkGroups s.groups (some (idx, p))
      let before := ((s.groups.take idx).map (·.1)).sum
      match s.groups[idx]? with
      | none => (s, "bad-op")
      | some (c, _) =>
        let st : TxState := ⟨idx, ⟨p, if 0 < p ∧ p < c then [c - p] else if p = 0 then [c] else []⟩, before, 0⟩
        (s, showRes (complete gs st b))
    | _ => (s, "bad-op")
  | ["chunks", l, dev] =>
    -- known finding F20: the implementation's deviation (VM-level, outside the accounting model) is
    -- reported by the harness oracle; the model echoes the observed class so that the streams align
    if dev.startsWith "dev=" then (s, ((dev.drop 4).toString.replace "_" " ")) else
    let _ := l
    (s, "bad-op")
  | ["signal", b, idx, p] =>
    match parseNats? [b, idx, p] with
    | some [b, idx, p] =>
      let gs := mkGroups s.groups (some (idx, p))
      -- cycles of the groups before `idx` do not count for the pause point inside group `idx`
      let sched := (List.range gs.length).zip gs |>.map fun (i, g) =>
        (g, if i = idx then [some p] else ([] : List (Option Nat)))
      (s, showRes (signalVerify b sched 0))
    | _ => (s, "bad-op")
  | _ => (s, "bad-op")

def main (_args : List String) : IO UInt32 :=
  runLines ({} : St) step

end CkbVerif.Driver.C05
