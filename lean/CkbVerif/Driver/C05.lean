import CkbVerif.Driver.Util
import CkbVerif.Model.Cycles
import CkbVerif.Driver.C05Sched

/-! Line-protocol driver for C05 (protocol: harness/n05/src/c05.rs). -/
namespace CkbVerif.Driver.C05
open CkbVerif.Driver CkbVerif.Cycles

/-- one script group as measured by the harness with unlimited one-shot runs: cost (for a failing
group: cycles up to the failure), exit code, and whether it is the built-in TYPE_ID system script -/
structure GSpec where
  cost : Nat
  /-- exit code; 1000 stands for "the group ends in a VM error" (the harness prints a result that
  carries exactly the one-shot run's VM error as `fail 1000 @g`) -/
  code : Int
  tid : Bool := false

structure St where
  groups : List GSpec := []

def parseInt? (s : String) : Option Int :=
  if s.startsWith "-" then (parseNat? (s.drop 1).toString).map (fun n => - (n : Int))
  else (parseNat? s).map (fun n => (n : Int))

def parseGroups? (s : String) : Option (List GSpec) :=
  if s = "-" then some [] else
  (s.splitOn ",").mapM fun it =>
    match it.splitOn ":" with
    | [a, b] => do
      let c ← parseNat? a
      let e ← parseInt? b
      pure { cost := c, code := e }
    | [a, b, "t"] => do
      let c ← parseNat? a
      let e ← parseInt? b
      pure { cost := c, code := e, tid := true }
    | _ => none

/-- the cost the MODEL uses for a group: measured for VM groups, the translator's
`TYPE_ID_CYCLES` for the system script -/
def GSpec.modelCost (g : GSpec) : Nat := if g.tid then (typeIdGroup g.code).cost else g.cost

/-- index of the first failing group (the group a `ValidationFailure` is attributed to) -/
def failIdx (gs : List GSpec) : Nat := (gs.takeWhile (fun g => g.code == 0)).length

/-- index of the first group that does not fit into budget `b` (the group `verify` attributes
`ExceededMaximumCycles` to) -/
def shortIdx : List GSpec → Nat → Nat
  | [], _ => 0
  | g :: rest, b => if g.modelCost ≤ b then 1 + shortIdx rest (b - g.modelCost) else 0

/-- class + payload + attributed group -/
def showRes (gs : List GSpec) (budget : Nat) : Except Err Nat → String
  | .ok n => s!"ok {n}"
  | .error (.exceeded l) => s!"exceeded {l} @{shortIdx gs budget}"
  | .error (.validation c) => s!"fail {c} @{failIdx gs}"
  | .error .other => "other"
  | .error .overflow => "overflow"

/-- class + payload -/
def showPlain : Except Err Nat → String
  | .ok n => s!"ok {n}"
  | .error (.exceeded l) => s!"exceeded {l}"
  | .error (.validation c) => s!"fail {c}"
  | .error .other => "other"
  | .error .overflow => "overflow"

def showVR (gs : List GSpec) : Except Err VResult → String
  | .ok (.completed n) => s!"ok {n}"
  | .ok (.suspended st) => s!"suspended {st.current}"
  | .error (.exceeded l) => s!"exceeded {l} @?"
  | .error (.validation c) => s!"fail {c} @{failIdx gs}"
  | .error .other => "other"
  | .error .overflow => "overflow"

/-- traces: every cycle a split point for small groups, one step otherwise; group `idx` split at `p`;
the TYPE_ID system script is always the one-step group `typeIdGroup` -/
def mkGroups (gs : List GSpec) (split : Option (Nat × Nat)) : List Group :=
  (List.range gs.length).zip gs |>.map fun (i, g) =>
    if g.tid then typeIdGroup g.code else
    let c := g.cost
    let e := g.code
    match split with
    | some (idx, p) =>
      if i = idx ∧ 0 < p ∧ p < c then ⟨[p, c - p], e⟩ else ⟨[c], e⟩
    | none => if c ≤ 4096 then ⟨List.replicate c 1, e⟩ else ⟨[c], e⟩

/-- the state the implementation was observed in: group `idx`, `p` cycles consumed inside it -/
def stateAt (gs : List GSpec) (idx p limit : Nat) : Option TxState :=
  match gs[idx]? with
  | none => none
  | some g =>
    let c := g.modelCost
    let before := ((gs.take idx).map (·.modelCost)).sum
    some ⟨idx, ⟨p, if 0 < p ∧ p < c then [c - p] else if p = 0 then [c] else []⟩, before, limit⟩

/-- drive the resumable API to completion: first limit, then `resume_from_state` with the following
limits (the last one repeated). As in the harness, a call that made no progress (a limit below the
next atomic step) is followed by calls with a doubling extra allowance until the run moves again. -/
def driveChunks (gs : List Group) : List Nat → Nat → Option TxState → Nat → Except Err Nat
  | _, 0, _, _ => .error .other
  | limits, fuel + 1, st, boost =>
    let l := limits.headD 1 + boost
    let more := if limits.length > 1 then limits.tail else limits
    let r := match st with
      | none => resumableVerify gs l
      | some s => resumeFromState gs s l
    match r with
    | .error e => .error e
    | .ok (.completed n) => .ok n
    | .ok (.suspended s) =>
      let same := match st with
        | some s0 => s0.current == s.current && s0.state.consumed == s.state.consumed
        | none => false
      driveChunks gs more fuel (some s) (if same then max (boost * 2) 1 else 0)

def step (s : St) (ts : List String) : St × String :=
  -- a deviation of the implementation that lies outside the accounting model (VM level: F20) is
  -- reported by the harness oracle; the model echoes the observed class so that the streams align
  match ts.getLast? with
  | some dev =>
    if dev.startsWith "dev=" then (s, ((dev.drop 4).toString.replace "_" " ")) else
    match ts with
    | ["prog", _, g] =>
      match parseGroups? g with
      | some g =>
        -- the harness measured the system script's cost; the model's comes from script/src/type_id.rs
        if g.all (fun x => !x.tid || x.cost == x.modelCost) then ({ groups := g }, "ok")
        else ({ groups := g }, "typeid-cost-mismatch")
      | none => (s, "bad-op")
    | "note" :: _ => (s, "ok")
    -- the scheduler bookkeeping model replayed on the observed VM runs and messages
    | "sched" :: rest =>
      (s, C05Sched.schedOp (s.groups.map fun g => if g.tid then SchedTx.GKind.tid g.code else SchedTx.GKind.vm) rest)
    | [op, b] =>
      -- `sig`: resumable_verify_with_signal with no signal ever sent = the one-shot run (Props/C05
      -- signal_budget_ge_eq_unlimited / the empty pause schedule)
      if op = "verify" ∨ op = "ctx-verify" ∨ op = "sig" then
        match parseNat? b with
        | some b => (s, showRes s.groups b (verify (mkGroups s.groups (some (0, 0))) b))
        | none => (s, "bad-op")
      else if op = "rv" then
        match parseNat? b with
        | some l => (s, showVR s.groups (resumableVerify (mkGroups s.groups (some (0, 0))) l))
        | none => (s, "bad-op")
      -- `pchunks`: the program's own pause points are additional split points; by chunked_eq_unchunked
      -- the final result does not depend on where the run is split
      else if op = "chunks" ∨ op = "pchunks" then
        match parseNatList? b with
        | some ls =>
          let gs := mkGroups s.groups none
          let stepsTotal := (gs.map (·.steps.length)).sum
          (s, showRes s.groups 0 (driveChunks gs ls (stepsTotal + 70 * gs.length + ls.length + 8) none 0))
        | none => (s, "bad-op")
      else (s, "bad-op")
    | [op, l, b, idx, p] =>
      -- the suspended state is the one observed on the implementation (group `idx`, `p` cycles consumed
      -- inside it; the scheduler may overshoot a small limit, so the state is an input, not recomputed)
      match parseNats? [l, b, idx, p] with
      | some [l, b, idx, p] =>
        let gs := mkGroups s.groups (some (idx, p))
        match stateAt s.groups idx p l with
        | none => (s, "bad-op")
        | some st =>
          if op = "complete" ∨ op = "ctx-complete" then (s, showPlain (complete gs st b))
          else if op = "resume" then (s, showVR s.groups (resumeFromState gs st b))
          else (s, "bad-op")
      | _ => (s, "bad-op")
    | ["signal", b, idx, p] =>
      match parseNats? [b, idx, p] with
      | some [b, idx, p] =>
        let gs := mkGroups s.groups (some (idx, p))
        -- cycles of the groups before `idx` do not count for the pause point inside group `idx`
        let sched := (List.range gs.length).zip gs |>.map fun (i, g) =>
          (g, if i = idx then [some p] else ([] : List (Option Nat)))
        (s, showPlain (signalVerify b sched 0))
      | _ => (s, "bad-op")
    | _ => (s, "bad-op")
  | none => (s, "bad-op")

def main (_args : List String) : IO UInt32 :=
  runLines ({} : St) step

end CkbVerif.Driver.C05
