/-
Shared helpers for the line-protocol drivers (core Lean only; no Mathlib, so `ckbmodel` links).
-/
namespace CkbVerif.Driver

/-- Split a protocol line into tokens (single spaces, already trimmed of the newline). -/
def tokens (line : String) : List String :=
  (line.trimAscii.toString.splitOn " ").filter (· ≠ "")

/-- Decimal or 0x-hex natural. -/
def parseNat? (s : String) : Option Nat :=
  if s.startsWith "0x" then
    let body := (s.drop 2).toString
    if body.isEmpty then none else
    body.foldl (fun acc c =>
      match acc with
      | none => none
      | some a =>
        if c.isDigit then some (a * 16 + (c.toNat - '0'.toNat))
        else if 'a' ≤ c ∧ c ≤ 'f' then some (a * 16 + (c.toNat - 'a'.toNat + 10))
        else if 'A' ≤ c ∧ c ≤ 'F' then some (a * 16 + (c.toNat - 'A'.toNat + 10))
        else none) (some 0)
  else s.toNat?

def parseNats? (ts : List String) : Option (List Nat) :=
  ts.mapM parseNat?

/-- `a,b,c` → [a,b,c]; `-` → []. -/
def parseNatList? (s : String) : Option (List Nat) :=
  if s = "-" then some [] else (s.splitOn ",").mapM parseNat?

def showNatList (l : List Nat) : String :=
  if l.isEmpty then "-" else ",".intercalate (l.map toString)

/-- Run a pure `step` over stdin, one output line per input line. `case …` lines reset the state. -/
partial def runLines {σ : Type} (init : σ) (step : σ → List String → σ × String) : IO UInt32 := do
  let stdin ← IO.getStdin
  let stdout ← IO.getStdout
  let rec loop (s : σ) : IO Unit := do
    let line ← stdin.getLine
    if line.isEmpty then return ()
    let ts := tokens line
    match ts with
    | [] => loop s
    | "case" :: _ =>
      stdout.putStrLn (line.trimAscii.toString)
      loop init
    | _ =>
      let (s', out) := step s ts
      stdout.putStrLn out
      loop s'
  loop init
  stdout.flush
  return 0

end CkbVerif.Driver
